(* C17 -- Distributed coin flips are common and bound by commitments.
   Property theorems only: each is closed by `exact <lemma>` and followed by Print Assumptions. *)
From Coq Require Import ZArith NArith List Bool Znumtheory Lia.
From LT Require Import gen_Consts Zbase CodecModel VssModel CoinFlipArith CoinFlipModel CoinFlipLemmas CoinFlipNModel CoinFlipNLemmas.
Import ListNotations.
Local Open Scope Z_scope.

(* two honest parties output the same coin (a0 + a1) mod q; each plays exactly the lines the other reads *)
Theorem C17_flip2_same_coin : forall G a0 b0 a1 b1 f0 f1, valid G ->
  0 <= a0 < gq G -> 0 <= b0 < gq G -> 0 <= a1 < gq G -> 0 <= b1 < gq G ->
  exists l0 l1 t0 t1,
    honest_lines G a0 b0 = Some l0 /\ honest_lines G a1 b1 = Some l1 /\
    flip2 G a0 b0 false f0 (script_peer l1) = (t0, Coin ((a0 + a1) mod gq G)) /\
    flip2 G a1 b1 false f1 (script_peer l0) = (t1, Coin ((a0 + a1) mod gq G)) /\
    map (fun v => (wire v, true)) (sends t0) = l0 /\ map (fun v => (wire v, true)) (sends t1) = l1.
Proof. exact flip2_same_coin. Qed.
Print Assumptions C17_flip2_same_coin.

(* in EVERY trace against an arbitrary (adaptive) peer, with or without the fault switches: any Send after the
   first event is preceded by the receipt of a well-formed peer commitment, which the peer computed from the
   party's commitment alone *)
Theorem C17_flip2_commit_before_reveal : forall G a b f fr (P : peer) tr out, flip2 G a b f fr P = (tr, out) ->
  forall k v, nth_error tr k = Some (Send v) -> (k <> 0)%nat ->
  exists C m C', nth_error tr 0 = Some (Send C) /\ nth_error tr 1 = Some (Recv m) /\ (1 < k)%nat /\
                 m = P [Send C] /\ parse m = PVal C' /\ check_element G C' = true.
Proof. exact commit_before_reveal. Qed.
Print Assumptions C17_flip2_commit_before_reveal.

(* a withheld / malformed / non-member peer commitment: nothing but the commitment is ever written, no coin *)
Theorem C17_flip2_withheld_commitment : forall G a b f fr (P : peer) tr out, flip2 G a b f fr P = (tr, out) ->
  (forall C', parse (P (firstn 1 tr)) = PVal C' -> check_element G C' = false) ->
  (length (sends tr) <= 1)%nat /\ forall z, out <> Coin z.
Proof. exact withheld_commitment. Qed.
Print Assumptions C17_flip2_withheld_commitment.

(* the commitment hides the share perfectly (h = g^x, x a unit): what the peer says after seeing only the
   commitment is consistent with every value of the party's share *)
Theorem C17_commit_hiding : forall G, valid G -> forall x a b a', 0 <= x -> x mod gq G <> 0 ->
  gh G mod gp G = powm (gg G) x (gp G) ->
  exists b', 0 <= b' < gq G /\ forall C, opens G C a b -> opens G C a' b'.
Proof. exact commit_hiding. Qed.
Print Assumptions C17_commit_hiding.

(* a coin is output only for an in-range opening of exactly the stored commitment, and it is the sum *)
Theorem C17_flip2_coin_sound : forall G a b fr (P : peer) tr z, valid G -> flip2 G a b false fr P = (tr, Coin z) ->
  exists C C' a' b' m1 m2 m3,
    tr = [Send C; Recv m1; Send a; Send b; Recv m2; Recv m3] /\
    commit G a b = Some C /\
    parse m1 = PVal C' /\ parse m2 = PVal a' /\ parse m3 = PVal b' /\
    check_element G C' = true /\ Z.abs a' < gq G /\ Z.abs b' < gq G /\
    opens G C' a' b' /\ z = (a + a') mod gq G.
Proof. exact flip2_coin_sound. Qed.
Print Assumptions C17_flip2_coin_sound.

Theorem C17_flip2_bad_opening_rejects : forall G a b f fr (P : peer) C0 C' a' b', valid G ->
  commit G a b = Some C0 ->
  let C := C0 + b2z f in
  let m1 := P [Send C] in
  let t3 := [Send C; Recv m1; Send (a + b2z f); Send (b + b2z (f && fr))] in
  let m2 := P t3 in
  let m3 := P (t3 ++ [Recv m2]) in
  parse m1 = PVal C' -> check_element G C' = true -> parse m2 = PVal a' -> parse m3 = PVal b' ->
  (gq G <= Z.abs a' \/ gq G <= Z.abs b' \/ ~ opens G C' a' b') ->
  snd (flip2 G a b f fr P) = Reject.
Proof. exact flip2_bad_opening_rejects. Qed.
Print Assumptions C17_flip2_bad_opening_rejects.

(* binding reduction: two openings of one commitment to different values yield log_g h (explicit extractor) *)
Theorem C17_flip2_binding_reduction : forall G, valid G -> forall C a1 b1 a2 b2,
  opens G C a1 b1 -> opens G C a2 b2 -> a1 mod gq G <> a2 mod gq G ->
  exists x, extract_log (gq G) a1 b1 a2 b2 = Some x /\ 0 <= x < gq G /\ powm (gg G) x (gp G) = gh G mod gp G.
Proof. exact binding_extract. Qed.
Print Assumptions C17_flip2_binding_reduction.

(* n-party decision: no complaint against j exactly for an in-range opening of C_j0; the share that enters the
   sum is that opening or the reconstructed value; the coin is the sum modulo q *)
Theorem C17_flipN_no_complaint_iff : forall G o, valid G -> forall a b, o_a o = Some a -> o_hata o = Some b ->
  (flipN_complaint G o = Some false <-> Z.abs a < gq G /\ Z.abs b < gq G /\ opens G (o_C o mod gp G) a b).
Proof. exact flipN_no_complaint_iff. Qed.
Print Assumptions C17_flipN_no_complaint_iff.

Theorem C17_flipN_share_ok : forall G o rec v, valid G -> flipN_share G o rec = Some v ->
  v = rec \/ (exists b, o_a o = Some v /\ o_hata o = Some b /\ Z.abs v < gq G /\ Z.abs b < gq G /\
                        opens G (o_C o mod gp G) v b).
Proof. exact flipN_share_ok. Qed.
Print Assumptions C17_flipN_share_ok.

Theorem C17_flipN_sum : forall q l, 0 < q -> flipN_sum q l = (fold_right Z.add 0 l) mod q.
Proof. exact flipN_sum_spec. Qed.
Print Assumptions C17_flipN_sum.

(* ---- n-party Flip over Joint-RVSS (coq/CoinFlipNModel.v) ------------------------------------------------------------------- *)
(* RVSS::Share: a qualified dealer and (no own complaint, or an answer to it) => the party ends with a share matching the
   dealer's commitments (the stale-share mutation breaks exactly this; without the answer it fails, see the example below) *)
Theorem C17_rvss_final_share_matches : forall G t i d, dealer_qualified G t d = true ->
  my_complaint G i d = false \/ answered i d = true ->
  exists sh, final_share G i d = Some sh /\ matches G (d_cm d) (i + 1) sh = true.
Proof. exact final_share_matches. Qed.
Print Assumptions C17_rvss_final_share_matches.

Theorem C17_rvss_qual_common : forall G t d1 d2, d_cm d1 = d_cm d2 -> d_ncompl d1 = d_ncompl d2 -> d_answers d1 = d_answers d2 ->
  dealer_qualified G t d1 = dealer_qualified G t d2.
Proof. exact rvss_qual_common. Qed.
Print Assumptions C17_rvss_qual_common.

(* ... and under binding that share lies on the dealer's committed polynomial: the premise view_ok of the Flip theorems *)
Theorem C17_rvss_own_share_committed : forall G t i d mb f, m_cm mb = d_cm d -> committed G t mb f -> 0 <= i ->
  dealer_qualified G t d = true -> my_complaint G i d = false \/ answered i d = true ->
  exists sh, final_share G i d = Some sh /\ fst sh mod gq G = poly_eval (gq G) f (i + 1).
Proof. exact own_share_committed. Qed.
Print Assumptions C17_rvss_own_share_committed.

(* Flip step 3: the complaint list handed to Reconstruct (sort, then unique) is duplicate-free, sorted and has exactly the members
   that were complained about, whatever the arrival order and however often each was pushed; so <= t distinct targets never exceed t *)
Theorem C17_flipN_complaint_set : forall raw,
  NoDup (complaint_set raw) /\ sorted (complaint_set raw) /\ forall z, In z (complaint_set raw) <-> In z raw.
Proof. exact complaint_set_spec. Qed.
Print Assumptions C17_flipN_complaint_set.

Theorem C17_flipN_complaint_set_bound : forall raw targets, (forall z, In z raw -> In z targets) ->
  (length (complaint_set raw) <= length targets)%nat.
Proof. exact complaint_set_bound. Qed.
Print Assumptions C17_flipN_complaint_set_bound.

(* the coin a party computes from its view = the sum of the committed shares of the members of Qual.
   committed mb f: the binding property of mb's Pedersen commitments (hypothesis; violating it yields log_g h);
   view_ok i mb f: party i's own share of mb lies on f (C17_rvss_final_share_matches) and the indices are below q - 1. *)
Theorem C17_flipN_party_sum : forall G, valid G -> forall t, 0 <= t -> forall i mbs fs c,
  Forall2 (fun mb f => committed G t mb f /\ view_ok G i mb f) mbs fs ->
  flipN_party G t i mbs = Some c ->
  c = (fold_right Z.add 0 (map (fun f => poly_eval (gq G) f 0) fs)) mod gq G.
Proof. exact flipN_party_sum. Qed.
Print Assumptions C17_flipN_party_sum.

(* all honest parties output the same value, the sum of the committed shares of Qual modulo q, whatever openings failed and
   whichever verified shares each of them used for the reconstructions *)
Theorem C17_flipN_common : forall G, valid G -> forall t, 0 <= t -> forall i i' mbs mbs' fs c c',
  Forall2 (fun mb f => committed G t mb f /\ view_ok G i mb f) mbs fs ->
  Forall2 (fun mb f => committed G t mb f /\ view_ok G i' mb f) mbs' fs ->
  flipN_party G t i mbs = Some c -> flipN_party G t i' mbs' = Some c' ->
  c = c' /\ c = (fold_right Z.add 0 (map (fun f => poly_eval (gq G) f 0) fs)) mod gq G /\ 0 <= c < gq G.
Proof. exact flipN_common. Qed.
Print Assumptions C17_flipN_common.

(* non-vacuity: a concrete valid group (p = 23, q = 11, g = 2, h = 3 = 2^8), a run that yields a coin, and
   two different openings of one commitment *)
Definition G23 : group := mkGroup 23 11 2 3.
Example C17_nonvacuous_valid : valid G23.
Proof.
  unfold valid, G23, in_sub. cbn [gp gq gg gh].
  split; [lia|]. split; [apply prime_11|]. split; [vm_compute; discriminate|].
  split; [reflexivity|]. split; [reflexivity|]. vm_compute. discriminate.
Qed.
Example C17_nonvacuous_run :
  exists l, honest_lines G23 4 9 = Some l /\ snd (flip2 G23 5 7 false false (script_peer l)) = Coin 9.
Proof. exists [([67%N], true); ([52%N], true); ([57%N], true)]. split; vm_compute; reflexivity. Qed.
Example C17_nonvacuous_two_openings : opens G23 (powm 2 5 23 * powm 3 1 23 mod 23) 5 1 /\
  opens G23 (powm 2 5 23 * powm 3 1 23 mod 23) 2 0 /\ extract_log 11 5 1 2 0 = Some 8.
Proof. repeat split; vm_compute; reflexivity. Qed.
(* the unanswered complaint (finding nparty-unanswered-complaint) on the model: p = 23, q = 11, g = 2, h = 3, t = 1, dealer
   polynomial f = 4 + 2X, f^ = 1 + X, commitments C_0 = 2^4 3^1, C_1 = 2^2 3^1; party i = 1 (abscissa 2) receives (f(2)+1, f^(2)):
   it complains, the dealer answers nothing and has one complaint <= t: qualified, and the party keeps a share that does not match *)
Example C17_rvss_unanswered_complaint_refuted :
  let d := mkDealer [powm 2 4 23 * powm 3 1 23 mod 23; powm 2 2 23 * powm 3 1 23 mod 23] (Some (9, 3)) 1 [] in
  dealer_qualified G23 1 d = true /\ my_complaint G23 1 d = true /\ answered 1 d = false /\
  final_share G23 1 d = Some (9, 3) /\ matches G23 (d_cm d) 2 (9, 3) = false /\ matches G23 (d_cm d) 2 (8, 3) = true.
Proof. cbv zeta. repeat split; vm_compute; reflexivity. Qed.
Example C17_nonvacuous_complaint_set : complaint_set [5; 1; 5] = [1; 5] /\ uniq_adj [5; 1; 5] = [5; 1; 5].
Proof. split; reflexivity. Qed.
