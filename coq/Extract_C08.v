From Coq Require Import Extraction ExtrOcamlBasic.
From Coq Require Import NArith.
From LT Require Import SigmaPrim KeyRingModel.
Extraction "model.ml" table_oracle generate_key compute_nizk publish_key verify_nizk update_key remove_key finalize
  ks_h ks_hj ft_base ft_t N.succ.
