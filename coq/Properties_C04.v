(* C04 -- Soundness: proofs of false statements are rejected.
   Property theorems only: each is closed by `exact <lemma>` and followed by Print Assumptions.
   Scope: special soundness (knowledge extractors) of the sigma protocols of the VTMF layer, and the counting theorem
   for the cut-and-choose stack-equality proof.  Knowledge soundness of Groth's shuffle argument and of the rotation
   argument (Schwartz-Zippel over the challenge space) is NOT proved here; those verifiers are exercised by the
   wrong-witness oracle of the harness only. *)
From Coq Require Import ZArith Znumtheory List Bool Lia.
From Coq Require Import NArith.
From LT Require Import Zbase SamplerModel ShuffleModel SoundModel SoundLemmas SoundCutLemmas.
Import ListNotations.
Local Open Scope Z_scope.

(* two accepting answers (c, r), (c', r') to ONE commitment t of the key-share proof (equation t = g^r * h^c, as in
   KeyGenerationProtocol_VerifyNIZK) yield the discrete logarithm of h: the executable extractor is correct ... *)
Theorem C04_schnorr_extract_sound : forall p q : Z, 1 < p -> prime q ->
  forall g h t r r' c c' x,
  powm g q p = 1 -> powm h q p = 1 -> 0 <= r -> 0 <= r' -> 0 <= c -> 0 <= c' ->
  (powm g r p * powm h c p) mod p = t -> (powm g r' p * powm h c' p) mod p = t ->
  ext_exp q r r' c c' = Some x -> 0 <= x < q /\ powm g x p = h mod p.
Proof. exact schnorr_extract_sound. Qed.
Print Assumptions C04_schnorr_extract_sound.

(* ... and a witness exists whenever the two challenges differ modulo q: a prover who does not know log_g h can answer
   at most one challenge residue per commitment *)
Theorem C04_schnorr_extract_exists : forall p q : Z, 1 < p -> prime q ->
  forall g h t r r' c c',
  powm g q p = 1 -> powm h q p = 1 -> 0 <= r -> 0 <= r' -> 0 <= c -> 0 <= c' ->
  (powm g r p * powm h c p) mod p = t -> (powm g r' p * powm h c' p) mod p = t ->
  c mod q <> c' mod q -> exists x, 0 <= x < q /\ powm g x p = h mod p.
Proof. exact schnorr_extract_exists. Qed.
Print Assumptions C04_schnorr_extract_exists.

(* Chaum-Pedersen (CP_Verify: a = gg^r * x^c, b = hh^r * y^c): one exponent alpha for both components, i.e. for a
   false statement (log_gg x <> log_hh y) at most one challenge residue is answerable per commitment pair *)
Theorem C04_cp_extract_exists : forall p q : Z, 1 < p -> prime q ->
  forall gg hh x y a b r r' c c',
  powm gg q p = 1 -> powm hh q p = 1 -> powm x q p = 1 -> powm y q p = 1 ->
  0 <= r -> 0 <= r' -> 0 <= c -> 0 <= c' ->
  (powm gg r p * powm x c p) mod p = a -> (powm gg r' p * powm x c' p) mod p = a ->
  (powm hh r p * powm y c p) mod p = b -> (powm hh r' p * powm y c' p) mod p = b ->
  c mod q <> c' mod q ->
  exists al, 0 <= al < q /\ powm gg al p = x mod p /\ powm hh al p = y mod p.
Proof. exact cp_extract_exists. Qed.
Print Assumptions C04_cp_extract_exists.

(* interactive key-share proof (equation g^m2 = m1 * key^c, KeyGenerationProtocol_VerifyKey_interactive) *)
Theorem C04_keyint_extract_sound : forall p q : Z, 1 < p -> prime q ->
  forall g key m1 m2 m2' c c' x,
  powm g q p = 1 -> powm key q p = 1 -> 0 <= m2 -> 0 <= m2' -> 0 <= c -> 0 <= c' ->
  powm g m2 p = (m1 * powm key c p) mod p -> powm g m2' p = (m1 * powm key c' p) mod p ->
  ext_exp_int q m2 m2' c c' = Some x -> 0 <= x < q /\ powm g x p = key mod p.
Proof. exact keyint_extract_sound. Qed.
Print Assumptions C04_keyint_extract_sound.

(* OR proof (OR_Verify recomputes t_i = y_i^{c_i} g_i^{r_i}; the overall challenge is (c_1 + c_2) mod q): two accepting
   transcripts with the same commitments and different overall challenge give a witness for one of the two branches *)
Theorem C04_or_extract_exists : forall p q : Z, 1 < p -> prime q ->
  forall g1 y1 g2 y2 t1 t2 c1 c2 r1 r2 c1' c2' r1' r2',
  powm g1 q p = 1 -> powm y1 q p = 1 -> powm g2 q p = 1 -> powm y2 q p = 1 ->
  0 <= c1 -> 0 <= c2 -> 0 <= r1 -> 0 <= r2 -> 0 <= c1' -> 0 <= c2' -> 0 <= r1' -> 0 <= r2' ->
  (powm y1 c1 p * powm g1 r1 p) mod p = t1 -> (powm y1 c1' p * powm g1 r1' p) mod p = t1 ->
  (powm y2 c2 p * powm g2 r2 p) mod p = t2 -> (powm y2 c2' p * powm g2 r2' p) mod p = t2 ->
  (c1 + c2) mod q <> (c1' + c2') mod q ->
  (exists x, 0 <= x < q /\ powm g1 x p = y1 mod p) \/ (exists x, 0 <= x < q /\ powm g2 x p = y2 mod p).
Proof. exact or_extract_exists. Qed.
Print Assumptions C04_or_extract_exists.

(* cut and choose, one round, VTMF encoding (real mix of ShuffleModel): accepting answers to BOTH challenges for one
   commitment show that every card of s2 designated by the first answer is a re-masking, with an exponent in [0,q), of
   the card of s designated by the second answer.  _partial: the per-card statement is not yet packaged as
   "s2 = mix s gamma" for the composed bijection (needs the inverse stack secret). *)
Theorem C04_cutchoose_extract_partial : forall (p q g h : Z) (s s2 t : list (Z * Z)) (ss0 ss1 : list (N * Z)),
  1 < p -> prime q -> powm g q p = 1 -> powm h q p = 1 ->
  (forall j x r, nthN ss0 j = Some (x, r) -> 0 <= r) -> (forall j x r, nthN ss1 j = Some (x, r) -> 0 <= r) ->
  length s = length s2 -> (length s <= max_cards)%nat ->
  vmix p g h s2 ss1 = Ret t -> vmix p g h s ss0 = Ret t ->
  forall i, (i < length s)%nat ->
  exists a b c2 c d, (exists r0, nth_error ss1 i = Some (a, r0)) /\ nthN s2 a = Some c2 /\
                     (exists r0, nth_error ss0 i = Some (b, r0)) /\ nthN s b = Some c /\ 0 <= d < q /\
                     (fst c2 mod p, snd c2 mod p) = vmask p g h c d.
Proof. exact cutchoose_extract_partial. Qed.
Print Assumptions C04_cutchoose_extract_partial.

(* ... and when the first answer's index component is a permutation of 0..n-1 (enforced by TMCG_StackSecret::import), every
   card of the shuffled stack is such a re-masking of some card of the input stack *)
Theorem C04_cutchoose_every_card_partial : forall (p q g h : Z) (s s2 t : list (Z * Z)) (ss0 ss1 : list (N * Z)),
  1 < p -> prime q -> powm g q p = 1 -> powm h q p = 1 ->
  (forall j x r, nthN ss0 j = Some (x, r) -> 0 <= r) -> (forall j x r, nthN ss1 j = Some (x, r) -> 0 <= r) ->
  length s = length s2 -> (length s <= max_cards)%nat ->
  Permutation.Permutation (map fst ss1) (iota (length s)) ->
  vmix p g h s2 ss1 = Ret t -> vmix p g h s ss0 = Ret t ->
  forall a, (a < N.of_nat (length s))%N ->
  exists b c2 c d, nthN s2 a = Some c2 /\ nthN s b = Some c /\ 0 <= d < q /\ (fst c2 mod p, snd c2 mod p) = vmask p g h c d.
Proof. exact cutchoose_every_card_partial. Qed.
Print Assumptions C04_cutchoose_every_card_partial.

(* cut and choose over an abstract mask: for a false statement (s <> s2) the prover who prepares for one guessed
   challenge string is accepted iff the verifier's coins equal the guess -- for every kappa.
   Premises: the commitment (hash of the re-mixed stack) has no collision on the compared stacks, and masking with one
   fixed stack secret is injective on stacks. *)
Theorem C04_guessing_accept_iff : forall (stack secret com : Type) (mix : stack -> secret -> stack) (commit : stack -> com)
  (s s2 : stack),
  (forall a b, commit a = commit b -> a = b) -> (forall z a b, mix a z = mix b z -> a = b) -> s <> s2 ->
  forall (guess : list bool) (zs : list secret) (coins : list bool), length zs = length guess ->
  (accepts stack secret com mix commit s s2 coins (guess_msgs stack secret com mix commit s s2 guess zs) <-> coins = guess).
Proof. exact guessing_accept_iff. Qed.
Print Assumptions C04_guessing_accept_iff.

(* hence exactly one of the 2^kappa verifier coin strings accepts (guess_verdict is the decision procedure the harness
   compares with the real verifier) *)
Theorem C04_guessing_exactly_one : forall guess : list bool, accepting_count guess = 1%nat.
Proof. exact guessing_exactly_one. Qed.
Print Assumptions C04_guessing_exactly_one.

Theorem C04_guess_verdict_spec : forall coins guess : list bool, guess_verdict guess coins = true <-> coins = guess.
Proof. exact (fun coins guess => bools_eqb_eq coins guess). Qed.
Print Assumptions C04_guess_verdict_spec.

Theorem C04_all_coins_length : forall k : nat, length (all_coins k) = (2 ^ k)%nat.
Proof. exact all_coins_length. Qed.
Print Assumptions C04_all_coins_length.

Theorem C04_all_coins_complete : forall x : list bool, In x (all_coins (length x)).
Proof. exact all_coins_complete. Qed.
Print Assumptions C04_all_coins_complete.

(* ---- non-vacuity (p = 23, q = 11, g = 2, h = 8 = g^3) ------------------------------------------------------ *)
Example C04_nonvacuous_schnorr :
  (powm 2 9 23 * powm 8 6 23) mod 23 = 9 /\ (powm 2 3 23 * powm 8 8 23) mod 23 = 9 /\ ext_exp 11 9 3 6 8 = Some 3.
Proof. vm_compute. repeat split; reflexivity. Qed.
Example C04_nonvacuous_count : accepting_count [true; false; true; true] = 1%nat /\ length (all_coins 4) = 16%nat.
Proof. vm_compute. split; reflexivity. Qed.
(* the hypotheses of the partial extractor are satisfiable: p = 23, q = 11, g = 2, h = 3, two cards, identity secrets *)
Example C04_nonvacuous_cutchoose :
  vmix 23 2 3 [(4, 9); (8, 6)] [(0%N, 1); (1%N, 2)] = Ret [(8, 4); (9, 8)] /\ vmix 23 2 3 [(8, 4); (9, 8)] [(0%N, 0); (1%N, 0)] = Ret [(8, 4); (9, 8)].
Proof. vm_compute. split; reflexivity. Qed.
