(* RabinLemmas: proofs about RabinModel (C10). *)
From Coq Require Import ZArith NArith List Bool Lia ZifyBool.
From LT Require Import gen_Consts CodecModel CodecLemmas Zbase RabinModel.
Import ListNotations.

Definition byte (b : N) : Prop := (b < 256)%N.

(* ---- bytes <-> numbers --------------------------------------------------------------------- *)
Section Bytes.
Local Open Scope N_scope.

Lemma be2n_snoc l x : be2n (l ++ [x]) = be2n l * 256 + x.
Proof. unfold be2n. rewrite fold_left_app. reflexivity. Qed.

Lemma n2be_length k : forall n, length (n2be k n) = k.
Proof. induction k; intros; cbn [n2be]; [reflexivity|]. rewrite app_length, IHk. cbn. lia. Qed.

Lemma be2n_n2be k : forall n, be2n (n2be k n) = n mod 256 ^ N.of_nat k.
Proof.
  induction k; intros n.
  - cbn. rewrite N.mod_1_r. reflexivity.
  - cbn [n2be]. rewrite be2n_snoc, IHk, Nat2N.inj_succ, N.pow_succ_r'.
    rewrite (N.mod_mul_r n 256 (256 ^ N.of_nat k)) by (try apply N.pow_nonzero; lia). lia.
Qed.

Lemma n2be_be2n bs : Forall byte bs -> n2be (length bs) (be2n bs) = bs.
Proof.
  induction bs as [|x l IH] using rev_ind; intros F; [reflexivity|].
  apply Forall_app in F. destruct F as [Fl Fx]. inversion Fx; subst. unfold byte in *.
  rewrite app_length. cbn [length]. rewrite Nat.add_1_r. cbn [n2be]. rewrite be2n_snoc.
  rewrite N.div_add_l by lia. rewrite (N.div_small x 256) by lia. rewrite N.add_0_r, IH by assumption.
  f_equal. f_equal. rewrite N.add_comm, N.mod_add by lia. apply N.mod_small. assumption.
Qed.

Lemma be2n_bound bs : Forall byte bs -> be2n bs < 256 ^ N.of_nat (length bs).
Proof.
  induction bs as [|x l IH] using rev_ind; intros F; [cbn; lia|].
  apply Forall_app in F. destruct F as [Fl Fx]. inversion Fx; subst. unfold byte in *.
  rewrite app_length. cbn [length]. rewrite Nat.add_1_r, Nat2N.inj_succ, N.pow_succ_r', be2n_snoc.
  specialize (IH Fl). nia.
Qed.

Lemma n2be_byte k : forall n, Forall byte (n2be k n).
Proof.
  induction k; intros; cbn [n2be]; [constructor|]. apply Forall_app. split; [apply IHk|].
  constructor; [|constructor]. unfold byte. apply N.mod_lt. lia.
Qed.

Lemma lxor_byte a b : byte a -> byte b -> byte (N.lxor a b).
Proof.
  unfold byte. intros Ha Hb.
  destruct (N.eq_dec (N.lxor a b) 0) as [E|E]; [rewrite E; lia|].
  change 256 with (2 ^ 8). apply N.log2_lt_pow2; [lia|].
  assert (La : N.log2 a < 8). { destruct (N.eq_dec a 0) as [->|]; [cbn; lia|]. apply N.log2_lt_pow2; [lia|exact Ha]. }
  assert (Lb : N.log2 b < 8). { destruct (N.eq_dec b 0) as [->|]; [cbn; lia|]. apply N.log2_lt_pow2; [lia|exact Hb]. }
  pose proof (N.log2_lxor a b). lia.
Qed.
End Bytes.

Lemma bxor_length a b : length (bxor a b) = Nat.min (length a) (length b).
Proof. unfold bxor. rewrite map_length, combine_length. reflexivity. Qed.

Lemma bxor_byte a b : Forall byte a -> Forall byte b -> Forall byte (bxor a b).
Proof.
  revert b. induction a as [|x a IH]; intros b Fa Fb; [constructor|].
  destruct b as [|y b]; [constructor|]. inversion Fa; inversion Fb; subst.
  unfold bxor. cbn. constructor; [apply lxor_byte; assumption|apply IH; assumption].
Qed.

Lemma bxor_invol a k : length a = length k -> bxor (bxor a k) k = a.
Proof.
  revert k. induction a as [|x a IH]; intros [|y k] L; try discriminate; [reflexivity|].
  unfold bxor in *. cbn in *. f_equal; [|apply IH; lia].
  rewrite N.lxor_assoc, N.lxor_nilpotent, N.lxor_0_r. reflexivity.
Qed.

Lemma zeros_byte n : Forall byte (zeros n).
Proof. unfold zeros. induction n; cbn; constructor; [unfold byte; lia|assumption]. Qed.
Lemma zeros_length n : length (zeros n) = n.
Proof. apply repeat_length. Qed.

(* ---- sizes / export ------------------------------------------------------------------------- *)
Lemma sizeinbase2_le v k : (0 < v)%Z -> (0 <= k)%Z -> (sizeinbase2 v <= k)%Z <-> (v < 2 ^ k)%Z.
Proof.
  intros Hv Hk. unfold sizeinbase2. destruct (Z.eqb_spec v 0); [lia|]. rewrite Z.abs_eq by lia.
  pose proof (Z.log2_lt_pow2 v k Hv) as P. lia.
Qed.

Lemma sizeinbase2_pos v : (1 <= sizeinbase2 v)%Z.
Proof. unfold sizeinbase2. destruct (Z.eqb_spec v 0); [lia|]. pose proof (Z.log2_nonneg (Z.abs v)). lia. Qed.

Lemma sizeinbase2_gt v k : (0 < k)%Z -> (k < sizeinbase2 v)%Z -> (2 ^ k <= Z.abs v)%Z.
Proof.
  intros Hk H. unfold sizeinbase2 in H. destruct (Z.eqb_spec v 0).
  - lia.
  - assert (0 < Z.abs v)%Z by lia. apply Z.log2_le_pow2; lia.
Qed.

Lemma export_count_one s v : (0 < s)%nat -> (0 < v)%Z -> (sizeinbase2 v <= 8 * Z.of_nat s)%Z -> export_count s v = 1%nat.
Proof.
  intros Hs Hv Hb. unfold export_count. destruct (Z.eqb_spec v 0); [lia|].
  pose proof (sizeinbase2_pos v).
  replace ((sizeinbase2 v + 8 * Z.of_nat s - 1) / (8 * Z.of_nat s))%Z with 1%Z; [reflexivity|].
  apply Z.div_unique with (r := (sizeinbase2 v - 1)%Z); lia.
Qed.

Lemma export_bytes_one s v : (0 < s)%nat -> (0 < v)%Z -> (sizeinbase2 v <= 8 * Z.of_nat s)%Z ->
  export_bytes s v = n2be s (Z.to_N v).
Proof.
  intros Hs Hv Hb. unfold export_bytes. rewrite export_count_one by assumption. cbn [seq flat_map].
  rewrite app_nil_r, Nat.mul_0_r. cbn [N.of_nat]. rewrite N.pow_0_r, N.div_1_r, Z.abs_eq by lia. reflexivity.
Qed.

Lemma export_count_le1 s v : (0 < s)%nat -> (sizeinbase2 v <= 8 * Z.of_nat s)%Z -> (export_count s v <= 1)%nat.
Proof.
  intros Hs Hb. unfold export_count. destruct (Z.eqb_spec v 0); [lia|].
  pose proof (sizeinbase2_pos v).
  replace ((sizeinbase2 v + 8 * Z.of_nat s - 1) / (8 * Z.of_nat s))%Z with 1%Z; [lia|].
  apply Z.div_unique with (r := (sizeinbase2 v - 1)%Z); lia.
Qed.

Lemma export_bytes_zero s : export_bytes s 0 = [].
Proof. reflexivity. Qed.

Lemma export_bytes_length s v : length (export_bytes s v) = (export_count s v * s)%nat.
Proof.
  unfold export_bytes. generalize (export_count s v) as c. intros c. generalize 0%nat as st.
  induction c; intros st; cbn [seq flat_map]; [reflexivity|].
  rewrite app_length, n2be_length, IHc. lia.
Qed.

Lemma pow256 k : (256 ^ Z.of_nat k = 2 ^ (8 * Z.of_nat k))%Z.
Proof. rewrite Z.pow_mul_r by lia. reflexivity. Qed.

(* a word-sized nonzero value is exported as exactly its big-endian bytes *)
Lemma export_be2z yy : Forall byte yy -> (0 < length yy)%nat -> be2z yy <> 0%Z ->
  export_bytes (length yy) (be2z yy) = yy.
Proof.
  intros F L NZ. unfold be2z in *. pose proof (be2n_bound yy F) as B.
  assert (0 < Z.of_N (be2n yy))%Z by lia.
  rewrite export_bytes_one; try assumption.
  - rewrite N2Z.id. apply n2be_be2n. assumption.
  - apply sizeinbase2_le; [assumption|lia|]. rewrite <- pow256.
    apply N2Z.inj_lt in B. rewrite N2Z.inj_pow in B. rewrite nat_N_Z in B. exact B.
Qed.

Lemma be2z_range yy : Forall byte yy -> (0 <= be2z yy < 2 ^ (8 * Z.of_nat (length yy)))%Z.
Proof.
  intros F. unfold be2z. pose proof (be2n_bound yy F) as B. rewrite <- pow256.
  apply N2Z.inj_lt in B. rewrite N2Z.inj_pow in B. rewrite nat_N_Z in B. lia.
Qed.

(* ---- list helpers ------------------------------------------------------------------------------ *)
Lemma Forall_firstn' {A} (P : A -> Prop) n : forall l, Forall P l -> Forall P (firstn n l).
Proof. induction n; intros [|x l] F; cbn; try constructor; inversion F; subst; auto. Qed.
Lemma Forall_skipn' {A} (P : A -> Prop) n : forall l, Forall P l -> Forall P (skipn n l).
Proof. induction n; intros [|x l] F; cbn; try assumption; inversion F; subst; auto. Qed.
Lemma firstn_exact {A} (a b : list A) n : length a = n -> firstn n (a ++ b) = a.
Proof. intros <-. rewrite firstn_app, Nat.sub_diag, firstn_all. cbn. apply app_nil_r. Qed.
Lemma skipn_exact {A} (a b : list A) n : length a = n -> skipn n (a ++ b) = b.
Proof. intros <-. rewrite skipn_app, Nat.sub_diag, skipn_all. reflexivity. Qed.
Lemma fold_left_inv {A B} (P : A -> Prop) (Q : B -> Prop) (f : A -> B -> A) l :
  (forall a b, P a -> Q b -> P (f a b)) -> Forall Q l -> forall a, P a -> P (fold_left f l a).
Proof. intros Hf. induction l; intros F a0 Pa; cbn; [assumption|]. inversion F; subst. apply IHl; auto. Qed.

Lemma bytes_eqb_eq a b : bytes_eqb a b = true <-> a = b.
Proof.
  split; [|intros ->; apply bytes_eqb_refl].
  unfold bytes_eqb. revert b. induction a as [|x a IH]; intros [|y b]; cbn; try reflexivity; try discriminate.
  intros H. apply andb_prop in H. destruct H as [L H]. apply andb_prop in H. destruct H as [E H].
  apply N.eqb_eq in E. subst. f_equal. apply IH. rewrite L, H. reflexivity.
Qed.

Section RabinProofs.
Variable H1 H2 : bytes -> bytes.
Hypothesis H1_len : forall x, length (H1 x) = md.
Hypothesis H2_len : forall x, length (H2 x) = md.
Hypothesis H1_byte : forall x, Forall byte (H1 x).
Hypothesis H2_byte : forall x, Forall byte (H2 x).

(* ---- tmcg_g ------------------------------------------------------------------------------------- *)
Lemma splice_length buf off d : (off + length d <= length buf)%nat -> length (splice buf off d) = length buf.
Proof. intros. unfold splice. rewrite !app_length, firstn_length, skipn_length. lia. Qed.
Lemma splice_byte buf off d : Forall byte buf -> Forall byte d -> Forall byte (splice buf off d).
Proof.
  intros. unfold splice. apply Forall_app. split; [apply Forall_firstn'; assumption|].
  apply Forall_app. split; [assumption|apply Forall_skipn'; assumption].
Qed.

Definition g_inv (L : nat) (st : bytes * bytes) : Prop :=
  (length (fst st) = L /\ Forall byte (fst st)) /\ (length (snd st) = L /\ Forall byte (snd st)).

Lemma g_step_inv times input st i : (i < times)%nat -> g_inv ((times + 1) * md) st ->
  g_inv ((times + 1) * md) (g_step H1 H2 input st i).
Proof.
  intros Hi [[L1 B1] [L2 B2]]. unfold g_inv, g_step. cbn [fst snd].
  set (data := input ++ g_tag i ++ input).
  assert (S1 : length (splice (fst st) (i * (usesize + 2)) (H1 data)) = ((times + 1) * md)%nat).
  { rewrite splice_length; rewrite ?H1_len, ?L1; trivial. change usesize with 9%nat. change md with 32%nat. lia. }
  assert (S2 : length (splice (snd st) (i * (usesize + 2)) (H2 data)) = ((times + 1) * md)%nat).
  { rewrite splice_length; rewrite ?H2_len, ?L2; trivial. change usesize with 9%nat. change md with 32%nat. lia. }
  repeat split.
  - rewrite splice_length; rewrite ?H1_len, ?S1; trivial. change usesize with 9%nat. change md with 32%nat. lia.
  - repeat apply splice_byte; auto.
  - rewrite splice_length; rewrite ?H2_len, ?S2; trivial. change usesize with 9%nat. change md with 32%nat. lia.
  - repeat apply splice_byte; auto.
Qed.

Lemma tmcg_g_inv osize input :
  let times := (osize / usesize + 1)%nat in
  g_inv ((times + 1) * md)
        (fold_left (g_step H1 H2 input) (seq 0 times) (zeros ((times + 1) * md), zeros ((times + 1) * md))).
Proof.
  intros times.
  apply (fold_left_inv (g_inv ((times + 1) * md)) (fun i => (i < times)%nat)).
  - intros a b Pa Qb. apply g_step_inv; assumption.
  - apply Forall_forall. intros i Hin. apply in_seq in Hin. lia.
  - unfold g_inv. cbn [fst snd]. rewrite zeros_length. repeat split; auto using zeros_byte.
Qed.

Lemma tmcg_g_length osize input : length (tmcg_g H1 H2 osize input) = osize.
Proof.
  unfold tmcg_g. destruct (tmcg_g_inv osize input) as [[L1 _] [L2 _]].
  rewrite firstn_length, bxor_length, L1, L2.
  change usesize with 9%nat. change md with 32%nat.
  pose proof (Nat.div_mod osize 9). pose proof (Nat.mod_upper_bound osize 9). lia.
Qed.

Lemma tmcg_g_byte osize input : Forall byte (tmcg_g H1 H2 osize input).
Proof.
  unfold tmcg_g. destruct (tmcg_g_inv osize input) as [[_ B1] [_ B2]].
  apply Forall_firstn'. apply bxor_byte; assumption.
Qed.

(* ---- verification --------------------------------------------------------------------------------- *)
Lemma verify_core_square m heap data v v' :
  ((v * v) mod Z.abs m = (v' * v') mod Z.abs m)%Z ->
  verify_core H1 H2 m heap data v = verify_core H1 H2 m heap data v'.
Proof. intros E. unfold verify_core. rewrite E. reflexivity. Qed.

Lemma verify_core_neg m heap data v : verify_core H1 H2 m heap data (- v) = verify_core H1 H2 m heap data v.
Proof. apply verify_core_square. f_equal. lia. Qed.

Lemma verify_core_shift m heap data v k :
  verify_core H1 H2 m heap data (v + k * m) = verify_core H1 H2 m heap data v.
Proof.
  apply verify_core_square.
  replace ((v + k * m) * (v + k * m))%Z with (v * v + (2 * v * k + k * k * m) * m)%Z by ring.
  destruct (Z.abs_spec m) as [[_ ->]|[_ ->]].
  - apply Z_mod_plus_full.
  - replace ((2 * v * k + k * k * m) * m)%Z with ((- (2 * v * k + k * k * m)) * - m)%Z by ring. apply Z_mod_plus_full.
Qed.

Lemma mnsize_pos_modulus m : (md + K0 < mnsize_of m)%nat -> (0 < Z.abs m)%Z.
Proof.
  unfold mnsize_of, sizeinbase2. destruct (Z.eqb_spec m 0); [subst; cbn; lia|lia].
Qed.

Lemma export_fits s v : (0 <= v)%Z -> (sizeinbase2 v <= 8 * Z.of_nat s)%Z -> (length (export_bytes s v) <= s)%nat.
Proof.
  intros Hv Hb. rewrite export_bytes_length.
  destruct (Z.eq_dec v 0) as [->|NZ]; [cbn; lia|].
  destruct s as [|s]; [lia|]. rewrite export_count_one; lia.
Qed.

Theorem verify_core_no_overflow m heap data v : verify_core H1 H2 m heap data v <> Overflow.
Proof.
  unfold verify_core.
  destruct (Z.leb_spec (sizeinbase2 m) (Z.of_nat (mnsize_of m) * 8)); [discriminate|].
  destruct (Nat.leb_spec (mnsize_of m) (md + K0)); [discriminate|].
  destruct (Z.gtb_spec (sizeinbase2 ((v * v) mod Z.abs m)) (Z.of_nat (mnsize_of m) * 8)); cbn [orb]; [discriminate|].
  destruct (Z.eqb_spec ((v * v) mod Z.abs m) 0); [discriminate|].
  assert (P : (0 < Z.abs m)%Z) by (apply mnsize_pos_modulus; assumption).
  pose proof (Z.mod_pos_bound (v * v) (Z.abs m) P).
  assert (length (export_bytes (mnsize_of m) ((v * v) mod Z.abs m)) <= mnsize_of m)%nat by (apply export_fits; lia).
  destruct (Nat.ltb_spec (mnsize_of m + slack) (length (export_bytes (mnsize_of m) ((v * v) mod Z.abs m)))); [lia|].
  destruct (prab_test _ _ _ _ _); discriminate.
Qed.

(* the acceptance condition, spelled out *)
Definition verify_accepts (m : Z) (heap data : bytes) (v : Z) : Prop :=
  let mn := mnsize_of m in
  let foo := ((v * v) mod Z.abs m)%Z in
  (Z.of_nat mn * 8 < sizeinbase2 m)%Z /\ (md + K0 < mn)%nat /\ (sizeinbase2 foo <= Z.of_nat mn * 8)%Z /\ foo <> 0%Z /\
  let yy := buffer_after heap (export_bytes mn foo) in
  let w := firstn md yy in
  let g12 := tmcg_g H1 H2 (mn - md) w in
  w = firstn md (H1 (data ++ bxor (firstn K0 (skipn md yy)) (firstn K0 g12))) /\
  firstn (mn - md - K0) (skipn (md + K0) yy) = firstn (mn - md - K0) (skipn K0 g12).

Theorem verify_core_accept_iff m heap data v :
  verify_core H1 H2 m heap data v = Accept <-> verify_accepts m heap data v.
Proof.
  pose proof (verify_core_no_overflow m heap data v) as NO. revert NO.
  unfold verify_core, verify_accepts. cbv zeta.
  destruct (Z.leb_spec (sizeinbase2 m) (Z.of_nat (mnsize_of m) * 8)); [intros _; split; [discriminate|lia]|].
  destruct (Nat.leb_spec (mnsize_of m) (md + K0)); [intros _; split; [discriminate|lia]|].
  destruct (Z.gtb_spec (sizeinbase2 ((v * v) mod Z.abs m)) (Z.of_nat (mnsize_of m) * 8)); cbn [orb]; [intros _; split; [discriminate|lia]|].
  destruct (Z.eqb_spec ((v * v) mod Z.abs m) 0); [intros _; split; [discriminate|intros (_ & _ & _ & N & _); contradiction]|].
  destruct (Nat.ltb_spec (mnsize_of m + slack) (length (export_bytes (mnsize_of m) ((v * v) mod Z.abs m)))); [intros NO; contradiction|].
  intros _. unfold prab_test.
  match goal with |- context [bytes_eqb ?a ?b && bytes_eqb ?c ?d] =>
    pose proof (bytes_eqb_eq a b) as E1; pose proof (bytes_eqb_eq c d) as E2;
    destruct (bytes_eqb a b), (bytes_eqb c d) end; cbn [andb].
  - split; [intros _|reflexivity]. repeat split; try lia; try assumption; [apply E1|apply E2]; reflexivity.
  - split; [discriminate|]. intros (_ & _ & _ & _ & _ & B). apply E2 in B. discriminate.
  - split; [discriminate|]. intros (_ & _ & _ & _ & A & _). apply E1 in A. discriminate.
  - split; [discriminate|]. intros (_ & _ & _ & _ & A & _). apply E1 in A. discriminate.
Qed.

(* fix 5f58cf8: a value whose square is zero (0, m, any multiple of a root of zero) is refused before the export, so the
   uninitialised buffer is never read *)
Theorem verify_core_zero_square m heap data v :
  ((v * v) mod Z.abs m = 0)%Z -> verify_core H1 H2 m heap data v = Reject.
Proof.
  intros E. unfold verify_core. rewrite E.
  destruct (_ <=? _)%Z; [reflexivity|]. destruct (_ <=? _)%nat; [reflexivity|].
  rewrite Z.eqb_refl, orb_true_r. reflexivity.
Qed.

(* ---- the padded value parses back ------------------------------------------------------------------ *)
Lemma prab_test_parts mn data w r' gam rest :
  length w = md -> length r' = K0 -> length gam = (mn - md - K0)%nat ->
  prab_test H1 H2 mn data (w ++ r' ++ gam ++ rest) =
  bytes_eqb w (firstn md (H1 (data ++ bxor r' (firstn K0 (tmcg_g H1 H2 (mn - md) w))))) &&
  bytes_eqb gam (firstn (mn - md - K0) (skipn K0 (tmcg_g H1 H2 (mn - md) w))).
Proof.
  intros Lw Lr Lg. unfold prab_test.
  rewrite (firstn_exact w _ md Lw), (skipn_exact w _ md Lw), (firstn_exact r' _ K0 Lr).
  replace (w ++ r' ++ gam ++ rest) with ((w ++ r') ++ gam ++ rest) by (rewrite <- app_assoc; reflexivity).
  rewrite (skipn_exact (w ++ r') _ (md + K0)) by (rewrite app_length; lia).
  rewrite (firstn_exact gam _ _ Lg). reflexivity.
Qed.

Definition prab_bytes (m : Z) (data r : bytes) : bytes :=
  let mn := mnsize_of m in
  let w := firstn md (H1 (data ++ r)) in
  let g12 := tmcg_g H1 H2 (mn - md) w in
  w ++ bxor r (firstn K0 g12) ++ firstn (mn - md - K0) (skipn K0 g12).

Lemma sign_pad_bytes m data r : sign_pad H1 H2 m data r = be2z (prab_bytes m data r).
Proof. reflexivity. Qed.

Lemma prab_bytes_props m data r : length r = K0 -> Forall byte r -> (md + K0 < mnsize_of m)%nat ->
  length (prab_bytes m data r) = mnsize_of m /\ Forall byte (prab_bytes m data r).
Proof.
  intros Lr Br Hmn. unfold prab_bytes. cbv zeta.
  set (w := firstn md (H1 (data ++ r))). set (g12 := tmcg_g H1 H2 (mnsize_of m - md) w).
  assert (Lw : length w = md) by (unfold w; rewrite firstn_length, H1_len; lia).
  assert (Lg : length g12 = (mnsize_of m - md)%nat) by apply tmcg_g_length.
  split.
  - rewrite !app_length, bxor_length, !firstn_length, skipn_length, Lw, Lr, Lg. lia.
  - apply Forall_app. split; [apply Forall_firstn'; apply H1_byte|].
    apply Forall_app. split.
    + apply bxor_byte; [assumption|apply Forall_firstn'; apply tmcg_g_byte].
    + apply Forall_firstn'. apply Forall_skipn'. apply tmcg_g_byte.
Qed.

Lemma prab_roundtrip m data r rest : length r = K0 -> Forall byte r -> (md + K0 < mnsize_of m)%nat ->
  prab_test H1 H2 (mnsize_of m) data (prab_bytes m data r ++ rest) = true.
Proof.
  intros Lr Br Hmn. unfold prab_bytes. cbv zeta.
  set (w := firstn md (H1 (data ++ r))). set (g12 := tmcg_g H1 H2 (mnsize_of m - md) w).
  assert (Lw : length w = md) by (unfold w; rewrite firstn_length, H1_len; lia).
  assert (Lg : length g12 = (mnsize_of m - md)%nat) by apply tmcg_g_length.
  assert (Lk : length (firstn K0 g12) = K0) by (rewrite firstn_length, Lg; lia).
  rewrite <- !app_assoc. rewrite prab_test_parts.
  - fold g12. rewrite bxor_invol by lia. fold w. rewrite !bytes_eqb_refl. reflexivity.
  - exact Lw.
  - rewrite bxor_length, Lk, Lr. lia.
  - rewrite firstn_length, skipn_length, Lg. lia.
Qed.

(* a padded value is below 2^(8 mnsize) <= |m|: taking its square root and squaring again gives it back *)
Lemma modulus_lower m : (Z.of_nat (mnsize_of m) * 8 < sizeinbase2 m)%Z -> (md + K0 < mnsize_of m)%nat ->
  (2 ^ (8 * Z.of_nat (mnsize_of m)) <= Z.abs m)%Z.
Proof. intros A B. apply sizeinbase2_gt; lia. Qed.

Theorem verify_core_padded m heap data r s :
  (Z.of_nat (mnsize_of m) * 8 < sizeinbase2 m)%Z -> (md + K0 < mnsize_of m)%nat ->
  length r = K0 -> Forall byte r ->
  sign_pad H1 H2 m data r <> 0%Z ->
  ((s * s) mod Z.abs m = sign_pad H1 H2 m data r mod Z.abs m)%Z ->
  verify_core H1 H2 m heap data s = Accept.
Proof.
  intros Hbits Hmn Lr Br NZ Hs.
  destruct (prab_bytes_props m data r Lr Br Hmn) as [Ly By].
  pose proof (be2z_range _ By) as R. rewrite Ly in R.
  pose proof (modulus_lower m Hbits Hmn) as ML.
  rewrite sign_pad_bytes in *.
  rewrite (Z.mod_small (be2z (prab_bytes m data r))) in Hs by lia.
  unfold verify_core.
  destruct (Z.leb_spec (sizeinbase2 m) (Z.of_nat (mnsize_of m) * 8)); [lia|].
  destruct (Nat.leb_spec (mnsize_of m) (md + K0)); [lia|].
  rewrite Hs.
  assert (SB : (sizeinbase2 (be2z (prab_bytes m data r)) <= Z.of_nat (mnsize_of m) * 8)%Z).
  { apply sizeinbase2_le; try lia. replace (Z.of_nat (mnsize_of m) * 8)%Z with (8 * Z.of_nat (mnsize_of m))%Z by lia. lia. }
  destruct (Z.gtb_spec (sizeinbase2 (be2z (prab_bytes m data r))) (Z.of_nat (mnsize_of m) * 8)); cbn [orb]; [lia|].
  destruct (Z.eqb_spec (be2z (prab_bytes m data r)) 0); [contradiction|].
  assert (EX : export_bytes (mnsize_of m) (be2z (prab_bytes m data r)) = prab_bytes m data r).
  { rewrite <- Ly. apply export_be2z; try assumption; lia. }
  rewrite EX.
  destruct (Nat.ltb_spec (mnsize_of m + slack) (length (prab_bytes m data r))); [lia|].
  unfold buffer_after. rewrite prab_roundtrip by assumption. reflexivity.
Qed.

(* the verdict does not depend on what the uninitialised buffer held *)
Lemma prab_test_rest mn data l rest rest' : length l = mn -> (md + K0 < mn)%nat ->
  prab_test H1 H2 mn data (l ++ rest) = prab_test H1 H2 mn data (l ++ rest').
Proof.
  intros L Hm.
  assert (D : l = firstn md l ++ firstn K0 (skipn md l) ++ skipn K0 (skipn md l)).
  { rewrite (firstn_skipn K0 (skipn md l)). symmetry. apply firstn_skipn. }
  rewrite D, <- !app_assoc.
  rewrite !prab_test_parts; try reflexivity;
    rewrite ?firstn_length, ?skipn_length, ?firstn_length, ?skipn_length; lia.
Qed.

Theorem verify_core_heap_irrelevant m heap heap' data v :
  verify_core H1 H2 m heap data v = verify_core H1 H2 m heap' data v.
Proof.
  unfold verify_core.
  destruct (Z.leb_spec (sizeinbase2 m) (Z.of_nat (mnsize_of m) * 8)); [reflexivity|].
  destruct (Nat.leb_spec (mnsize_of m) (md + K0)); [reflexivity|].
  destruct (Z.gtb_spec (sizeinbase2 ((v * v) mod Z.abs m)) (Z.of_nat (mnsize_of m) * 8)); cbn [orb]; [reflexivity|].
  destruct (Z.eqb_spec ((v * v) mod Z.abs m) 0); [reflexivity|].
  assert (P : (0 < Z.abs m)%Z) by (apply mnsize_pos_modulus; assumption).
  pose proof (Z.mod_pos_bound (v * v) (Z.abs m) P).
  assert (L : length (export_bytes (mnsize_of m) ((v * v) mod Z.abs m)) = mnsize_of m).
  { rewrite export_bytes_length, export_count_one; lia. }
  destruct (_ <? _)%nat; [reflexivity|].
  unfold buffer_after. rewrite (prab_test_rest _ data _ _ (skipn (length (export_bytes (mnsize_of m) ((v * v) mod Z.abs m))) heap') L) by lia.
  reflexivity.
Qed.

(* ---- text framing ------------------------------------------------------------------------------------- *)
Lemma encode62_nobar z : Forall (fun c => c <> bar) (encode62 z).
Proof. apply plain_not_bar. apply encode62_plain. Qed.

Lemma framed_parse magic kid z :
  Forall (fun c => c <> bar) magic -> Forall (fun c => c <> bar) kid ->
  cm (magic ++ [bar] ++ kid ++ [bar] ++ encode62 z ++ [bar]) magic bar = Some (kid ++ [bar] ++ encode62 z ++ [bar]) /\
  split_at bar (kid ++ [bar] ++ encode62 z ++ [bar]) = Some (kid, encode62 z ++ [bar]) /\
  split_at bar (encode62 z ++ [bar]) = Some (encode62 z, []).
Proof.
  intros Fm Fk. repeat split.
  - apply (cm_magic magic bar _ Fm).
  - apply (split_at_app bar kid _ Fk).
  - apply (split_at_app bar (encode62 z) [] (encode62_nobar z)).
Qed.

Lemma str_sig_nobar : Forall (fun c => c <> bar) str_sig.
Proof. repeat constructor; discriminate. Qed.
Lemma str_enc_nobar : Forall (fun c => c <> bar) str_enc.
Proof. repeat constructor; discriminate. Qed.

Lemma verify_text_sig_text m ksig heap data kid s :
  Forall (fun c => c <> bar) kid -> kid_matches ksig kid = true ->
  verify_text H1 H2 m ksig heap data (sig_text kid s) = verify_core H1 H2 m heap data s.
Proof.
  intros Fk KM. destruct (framed_parse str_sig kid s str_sig_nobar Fk) as (P1 & P2 & P3).
  unfold verify_text, sig_text. rewrite P1, P2, KM. cbn [negb]. rewrite P3, base62_roundtrip. reflexivity.
Qed.

Theorem verify_text_accept_implies m ksig heap data t :
  verify_text H1 H2 m ksig heap data t = Accept ->
  exists s1 kid s2 vs rest v,
    cm t str_sig bar = Some s1 /\ split_at bar s1 = Some (kid, s2) /\ kid_matches ksig kid = true /\
    split_at bar s2 = Some (vs, rest) /\ decode62 vs = Some v /\ verify_core H1 H2 m heap data v = Accept.
Proof.
  unfold verify_text. intros E.
  destruct (cm t str_sig bar) as [s1|] eqn:E1; [|discriminate].
  destruct (split_at bar s1) as [[kid s2]|] eqn:E2; [|discriminate].
  destruct (kid_matches ksig kid) eqn:KM; cbn [negb] in E; [|discriminate].
  destruct (split_at bar s2) as [[vs rest]|] eqn:E3; [|discriminate].
  destruct (decode62 vs) as [v|] eqn:E4; [|discriminate].
  exists s1, kid, s2, vs, rest, v. repeat split; auto.
Qed.

(* ---- sign then verify ------------------------------------------------------------------------------------- *)
Variable qr : Z -> bool.
Variable roots : Z -> list Z.

Definition roots_sound (m : Z) : Prop := forall a s, In s (roots a) -> ((s * s) mod Z.abs m = a mod Z.abs m)%Z.
Definition digest_nonzero : Prop := forall x, ~ Forall (fun b => b = 0%N) (firstn md (H1 x)).
Definition kid_ok (ksig : bytes) : Prop :=
  let kid := keyid (Z.to_N TMCG_KEYID_SIZE) ksig in Forall (fun c => c <> bar) kid /\ kid_matches ksig kid = true.

Lemma be2n_zero bs : be2n bs = 0%N -> Forall (fun b => b = 0%N) bs.
Proof.
  induction bs as [|x l IH] using rev_ind; intros E; [constructor|].
  rewrite be2n_snoc in E. apply Forall_app. split; [apply IH; lia|]. constructor; [lia|constructor].
Qed.

Lemma sign_pad_nonzero m data r : digest_nonzero -> sign_pad H1 H2 m data r <> 0%Z.
Proof.
  intros NZ E. rewrite sign_pad_bytes in E. unfold be2z in E.
  assert (Z0 : be2n (prab_bytes m data r) = 0%N) by lia.
  apply be2n_zero in Z0. unfold prab_bytes in Z0. cbv zeta in Z0. apply Forall_app in Z0. destruct Z0 as [Zw _].
  exact (NZ _ Zw).
Qed.

Lemma sign_loop_some fuel m data : forall stream foo, Forall byte stream ->
  sign_loop H1 H2 qr fuel m data stream = Some foo ->
  exists r, length r = K0 /\ Forall byte r /\ foo = sign_pad H1 H2 m data r /\ qr foo = true.
Proof.
  induction fuel; intros stream foo Bs E; cbn [sign_loop] in E; [discriminate|].
  destruct (Nat.ltb_spec (length stream) K0); [discriminate|].
  destruct (qr (sign_pad H1 H2 m data (firstn K0 stream))) eqn:Q.
  - inversion E; subst. exists (firstn K0 stream). repeat split; auto.
    + rewrite firstn_length. lia.
    + apply Forall_firstn'. assumption.
  - apply (IHfuel (skipn K0 stream)); [apply Forall_skipn'; assumption|exact E].
Qed.

Theorem sign_verify_ok m ksig data stream idx t :
  roots_sound m -> digest_nonzero -> kid_ok ksig -> Forall byte stream ->
  sign_text H1 H2 qr roots m ksig data stream idx = Some t ->
  forall heap, verify_text H1 H2 m ksig heap data t = Accept.
Proof.
  intros RS NZ [Fk KM] Bs E heap. unfold sign_text in E.
  destruct (Z.leb_spec (sizeinbase2 m) (Z.of_nat (mnsize_of m) * 8)); [discriminate|].
  destruct (Nat.leb_spec (mnsize_of m) (md + K0)); [discriminate|].
  destruct (sign_loop H1 H2 qr (S (length stream)) m data stream) as [foo|] eqn:L; [|discriminate].
  destruct (nth_error (roots foo) idx) as [s|] eqn:N; [|discriminate].
  inversion E; subst t. clear E.
  rewrite verify_text_sig_text by assumption.
  destruct (sign_loop_some _ _ _ _ _ Bs L) as (r & Lr & Br & -> & _).
  apply nth_error_In in N. apply RS in N.
  apply (verify_core_padded m heap data r s); auto. apply sign_pad_nonzero. assumption.
Qed.

(* all four roots verify, and so do the negated root and any representative modulo m *)
Theorem roots_all_verify m heap data r s :
  roots_sound m -> digest_nonzero ->
  (Z.of_nat (mnsize_of m) * 8 < sizeinbase2 m)%Z -> (md + K0 < mnsize_of m)%nat -> length r = K0 -> Forall byte r ->
  In s (roots (sign_pad H1 H2 m data r)) ->
  verify_core H1 H2 m heap data s = Accept /\ verify_core H1 H2 m heap data (- s) = Accept /\
  forall k, verify_core H1 H2 m heap data (s + k * m) = Accept.
Proof.
  intros RS NZ Hb Hm Lr Br Hin.
  assert (A : verify_core H1 H2 m heap data s = Accept).
  { apply (verify_core_padded m heap data r s); auto. apply sign_pad_nonzero; assumption. }
  repeat split; [assumption|rewrite verify_core_neg; assumption|intros k; rewrite verify_core_shift; assumption].
Qed.

(* tamper evidence at the level of the padded value: two accepted nonzero squares that leave the same bytes in the
   buffer are the same square -- a different square needs different (w, r*, gamma), hence new oracle answers *)
Theorem export_injective s a b : (0 < s)%nat -> (0 < a)%Z -> (0 < b)%Z ->
  (sizeinbase2 a <= 8 * Z.of_nat s)%Z -> (sizeinbase2 b <= 8 * Z.of_nat s)%Z ->
  export_bytes s a = export_bytes s b -> a = b.
Proof.
  intros Hs Ha Hb Sa Sb E. rewrite !export_bytes_one in E by assumption.
  apply (f_equal be2n) in E. rewrite !be2n_n2be in E.
  apply sizeinbase2_le in Sa; try lia. apply sizeinbase2_le in Sb; try lia.
  rewrite <- pow256 in Sa, Sb.
  assert (Ta : (Z.to_N a < 256 ^ N.of_nat s)%N).
  { apply N2Z.inj_lt. rewrite Z2N.id, N2Z.inj_pow, nat_N_Z by lia. exact Sa. }
  assert (Tb : (Z.to_N b < 256 ^ N.of_nat s)%N).
  { apply N2Z.inj_lt. rewrite Z2N.id, N2Z.inj_pow, nat_N_Z by lia. exact Sb. }
  rewrite !N.mod_small in E by assumption. apply Z2N.inj in E; lia.
Qed.

(* ---- encrypt then decrypt --------------------------------------------------------------------------------- *)
Definition saep_open (s : nat) (yy : bytes) : option bytes :=
  let s2 := (2 * S0)%nat in
  let r := firstn (s - s2) (skipn s2 yy) in
  let Mt := bxor (firstn s2 yy) (tmcg_g H1 H2 s2 r) in
  if all_zero (firstn S0 (skipn S0 Mt)) then Some (firstn S0 Mt) else None.

Definition saep_bytes (m : Z) (value coins : bytes) : bytes :=
  let s2 := (2 * S0)%nat in
  let r := firstn (mnsize_of m - s2) coins in
  bxor (firstn S0 value ++ zeros S0) (tmcg_g H1 H2 s2 r) ++ r.

Lemma saep_pad_bytes m value coins : saep_pad H1 H2 m value coins = be2z (saep_bytes m value coins).
Proof. reflexivity. Qed.

Lemma all_zero_zeros n : all_zero (zeros n) = true.
Proof. unfold all_zero, zeros. induction n; cbn; auto. Qed.

Lemma saep_sizes m : saep_sizes_ok m = true -> (2 * S0 < mnsize_of m - 2 * S0)%nat /\ (2 * S0 + 1 < mnsize_of m)%nat.
Proof.
  unfold saep_sizes_ok, mnsize_of. change S0 with 20%nat. intros H.
  apply andb_prop in H. destruct H as [H _]. apply andb_prop in H. destruct H as [_ H]. lia.
Qed.

Lemma saep_bytes_props m value coins :
  saep_sizes_ok m = true -> length value = S0 -> Forall byte value ->
  (mnsize_of m - 2 * S0 <= length coins)%nat -> Forall byte coins ->
  length (saep_bytes m value coins) = mnsize_of m /\ Forall byte (saep_bytes m value coins) /\
  forall rest, saep_open (mnsize_of m) (saep_bytes m value coins ++ rest) = Some value.
Proof.
  intros OK Lv Bv Lc Bc. destruct (saep_sizes m OK) as [Z1 Z2].
  unfold saep_bytes. cbv zeta.
  set (r := firstn (mnsize_of m - 2 * S0) coins).
  set (Mt := firstn S0 value ++ zeros S0).
  assert (Lr : length r = (mnsize_of m - 2 * S0)%nat) by (unfold r; rewrite firstn_length; lia).
  assert (LM : length Mt = (2 * S0)%nat) by (unfold Mt; rewrite app_length, firstn_length, zeros_length; lia).
  assert (Lg : length (tmcg_g H1 H2 (2 * S0) r) = (2 * S0)%nat) by apply tmcg_g_length.
  assert (Lx : length (bxor Mt (tmcg_g H1 H2 (2 * S0) r)) = (2 * S0)%nat) by (rewrite bxor_length; lia).
  repeat split.
  - rewrite app_length, Lx, Lr. lia.
  - apply Forall_app. split.
    + apply bxor_byte; [|apply tmcg_g_byte]. unfold Mt. apply Forall_app. split; [apply Forall_firstn'; assumption|apply zeros_byte].
    + unfold r. apply Forall_firstn'. assumption.
  - intros rest. unfold saep_open. cbv zeta. rewrite <- app_assoc.
    rewrite (firstn_exact _ _ _ Lx), (skipn_exact _ _ _ Lx), (firstn_exact _ _ _ Lr).
    rewrite bxor_invol by lia. unfold Mt.
    rewrite (skipn_exact (firstn S0 value) (zeros S0)) by (rewrite firstn_length; lia).
    rewrite (firstn_all2 (zeros S0)) by (rewrite zeros_length; lia).
    rewrite all_zero_zeros.
    rewrite (firstn_exact (firstn S0 value) (zeros S0)) by (rewrite firstn_length; lia).
    rewrite firstn_all2 by lia. reflexivity.
Qed.

(* roots that are not the encrypted value: refused by the redundancy test, whatever the buffer held *)
Definition spurious_free (s : nat) (rho : Z) : Prop :=
  (0 < rho)%Z /\ forall heap, saep_open s (buffer_after heap (export_bytes s rho)) = None.

Lemma try_roots_step s heap rho rest : spurious_free s rho ->
  exists heap', try_roots H1 H2 s heap (rho :: rest) = try_roots H1 H2 s heap' rest.
Proof.
  intros [Hp SF]. cbn [try_roots].
  destruct (Z.leb_spec (sizeinbase2 rho) (Z.of_nat s * 8)); [|exists heap; reflexivity].
  assert (Hs : (0 < s)%nat) by (pose proof (sizeinbase2_pos rho); lia).
  assert (length (export_bytes s rho) <= s)%nat by (apply export_fits; lia).
  destruct (Nat.ltb_spec (s + slack) (length (export_bytes s rho))); [lia|].
  specialize (SF heap). unfold saep_open in SF. cbv zeta in SF.
  destruct (all_zero _); [discriminate|]. eexists; reflexivity.
Qed.

Lemma try_roots_hit s heap yy value rest : (0 < s)%nat -> length yy = s -> Forall byte yy -> be2z yy <> 0%Z ->
  (forall tl, saep_open s (yy ++ tl) = Some value) ->
  try_roots H1 H2 s heap (be2z yy :: rest) = DecValue value.
Proof.
  intros Hs Ly By NZ Op. cbn [try_roots].
  pose proof (be2z_range yy By) as R. rewrite Ly in R.
  assert (SB : (sizeinbase2 (be2z yy) <= 8 * Z.of_nat s)%Z) by (apply sizeinbase2_le; lia).
  destruct (Z.leb_spec (sizeinbase2 (be2z yy)) (Z.of_nat s * 8)); [|lia].
  assert (EX : export_bytes s (be2z yy) = yy) by (rewrite <- Ly; apply export_be2z; try assumption; lia).
  rewrite EX. destruct (Nat.ltb_spec (s + slack) (length yy)); [lia|].
  unfold buffer_after. specialize (Op (skipn (length yy) heap)). unfold saep_open in Op. cbv zeta in Op.
  destruct (all_zero _); [|discriminate]. inversion Op. reflexivity.
Qed.

Lemma try_roots_prefix s yy value : (0 < s)%nat -> length yy = s -> Forall byte yy -> be2z yy <> 0%Z ->
  (forall tl, saep_open s (yy ++ tl) = Some value) ->
  forall pre post heap, Forall (spurious_free s) pre ->
  try_roots H1 H2 s heap (pre ++ be2z yy :: post) = DecValue value.
Proof.
  intros Hs Ly By NZ Op pre. induction pre as [|rho pre IH]; intros post heap F.
  - apply try_roots_hit; assumption.
  - apply Forall_cons_iff in F. destruct F as [Hrho Hpre]. cbn [app].
    destruct (try_roots_step s heap rho (pre ++ be2z yy :: post) Hrho) as [heap' ->]. apply IH. assumption.
Qed.

Lemma decrypt_text_enc_text m ksig heap kid v :
  saep_sizes_ok m = true -> Forall (fun c => c <> bar) kid -> kid_matches ksig kid = true ->
  decrypt_text H1 H2 qr roots m ksig heap (enc_text kid v) =
  if qr v then try_roots H1 H2 (mnsize_of m) heap (roots v) else DecReject.
Proof.
  intros OK Fk KM. destruct (framed_parse str_enc kid v str_enc_nobar Fk) as (P1 & P2 & P3).
  unfold decrypt_text, enc_text. rewrite OK. cbn [negb]. rewrite P1, P2, KM. cbn [negb]. rewrite P3, base62_roundtrip. reflexivity.
Qed.

(* SAEP round trip, every modulus size that passes the padding-size tests *)
Theorem encrypt_decrypt_ok m ksig value coins t :
  kid_ok ksig ->
  length value = S0 -> Forall byte value -> (mnsize_of m - 2 * S0 <= length coins)%nat -> Forall byte coins ->
  encrypt_text H1 H2 m ksig value coins = Some t ->
  let x := saep_pad H1 H2 m value coins in
  let c := ((x * x) mod Z.abs m)%Z in
  x <> 0%Z -> qr c = true ->
  (exists pre post, roots c = pre ++ x :: post /\ Forall (spurious_free (mnsize_of m)) pre) ->
  forall heap, decrypt_text H1 H2 qr roots m ksig heap t = DecValue value.
Proof.
  intros [Fk KM] Lv Bv Lc Bc E x c NZ Q (pre & post & Rt & SF) heap.
  unfold encrypt_text in E. destruct (saep_sizes_ok m) eqn:OK; [|discriminate]. inversion E; subst t. clear E.
  fold x. fold c. rewrite decrypt_text_enc_text by assumption. rewrite Q, Rt.
  destruct (saep_bytes_props m value coins OK Lv Bv Lc Bc) as (Ly & By & Op).
  destruct (saep_sizes m OK) as [Z1 Z2].
  unfold x in *. rewrite saep_pad_bytes in *.
  apply try_roots_prefix; auto. lia.
Qed.

(* export_fits for decrypt (fix 288af9c), every size: only roots of at most 8*rabin_s bits are exported, i.e. at most one word *)
Theorem try_roots_no_overflow s : forall rs heap, try_roots H1 H2 s heap rs <> DecOverflow.
Proof.
  induction rs as [|root rest IH]; intros heap; cbn [try_roots]; [discriminate|].
  destruct (Z.leb_spec (sizeinbase2 root) (Z.of_nat s * 8)); [|apply IH].
  assert (Hs : (0 < s)%nat) by (pose proof (sizeinbase2_pos root); lia).
  assert (length (export_bytes s root) <= s)%nat.
  { rewrite export_bytes_length. pose proof (export_count_le1 s root Hs). nia. }
  destruct (Nat.ltb_spec (s + slack) (length (export_bytes s root))); [lia|].
  destruct (all_zero _); [discriminate|apply IH].
Qed.

Theorem decrypt_text_no_overflow m ksig heap t : decrypt_text H1 H2 qr roots m ksig heap t <> DecOverflow.
Proof.
  unfold decrypt_text.
  destruct (negb _); [discriminate|]. destruct (cm _ _ _); [|discriminate]. destruct (split_at _ _) as [[? ?]|]; [|discriminate].
  destruct (negb _); [discriminate|]. destruct (split_at _ _) as [[? ?]|]; [|discriminate]. destruct (decode62 _); [|discriminate].
  destruct (qr _); [apply try_roots_no_overflow|discriminate].
Qed.

(* ---- key validation ------------------------------------------------------------------------------------------ *)
Variable jacobi : Z -> Z -> Z.
Variable is_prime : Z -> bool.

Lemma challenge_cond cond fuel m : forall input foo input',
  challenge H1 H2 cond fuel m input = Some (foo, input') -> cond foo = true.
Proof.
  induction fuel; intros input foo input' E; cbn [challenge] in E; [discriminate|].
  destruct (cond _) eqn:C.
  - inversion E; subst. exact C.
  - eapply IHfuel. exact E.
Qed.

Definition round_ok (cond : Z -> bool) (eqn : Z -> Z -> bool) (cr : Z * Z) : Prop :=
  cond (fst cr) = true /\ eqn (fst cr) (snd cr) = true.

Lemma stage_rounds_sound cond eqn fuel m rounds : forall s input tr s' input',
  stage_rounds H1 H2 cond eqn rounds fuel m s input = @Ok _ (tr, s', input') ->
  length tr = rounds /\ Forall (round_ok cond eqn) tr.
Proof.
  induction rounds; intros s input tr s' input' E; cbn [stage_rounds] in E.
  - inversion E; subst. split; [reflexivity|constructor].
  - destruct (challenge H1 H2 cond fuel m input) as [[foo inp1]|] eqn:C; [|discriminate].
    destruct (split_at hat s) as [[vs s1]|]; [|discriminate].
    destruct (decode62 vs) as [resp|]; [|discriminate].
    destruct (eqn foo resp) eqn:Q; [|discriminate].
    destruct (stage_rounds H1 H2 cond eqn rounds fuel m s1 inp1) as [| |[[tr1 s2] inp2]] eqn:R; try discriminate.
    inversion E; subst. destruct (IHrounds _ _ _ _ _ R) as [L F].
    split; [cbn; lia|]. constructor; [|assumption]. split; [eapply challenge_cond; exact C|exact Q].
Qed.

Lemma run_stage_sound minimum cond eqn fuel m s input n tr s' input' :
  run_stage H1 H2 minimum cond eqn fuel m s input = @Ok _ (n, tr, s', input') ->
  (minimum <= Z.of_N n)%Z /\ (0 < n)%N /\ N.of_nat (length tr) = n /\ Forall (round_ok cond eqn) tr.
Proof.
  unfold run_stage, stage_header. intros E.
  destruct (split_at hat s) as [[cs s1]|]; [|discriminate].
  destruct (strtoul_full cs) as [c|]; [|discriminate].
  destruct (N.eqb_spec c 0); [discriminate|].
  destruct (Z.ltb_spec (Z.of_N c) minimum); [discriminate|].
  destruct (stage_rounds H1 H2 cond eqn (rounds_of c s1) fuel m s1 input) as [| |[[tr1 s2] inp2]] eqn:R; try discriminate.
  destruct (N.eqb_spec (N.of_nat (length tr1)) c); [|discriminate].
  inversion E; subst. destruct (stage_rounds_sound _ _ _ _ _ _ _ _ _ _ R) as [_ F].
  repeat split; try assumption; lia.
Qed.

Definition stage_valid (minimum : Z) (cond : Z -> bool) (eqn : Z -> Z -> bool) : Prop :=
  exists (n : N) (tr : list (Z * Z)),
    (minimum <= Z.of_N n)%Z /\ N.of_nat (length tr) = n /\ Forall (round_ok cond eqn) tr.

Definition nizk_valid (k : pubkey) : Prop :=
  let m := k_m k in
  (0 <= m)%Z /\
  stage_valid TMCG_KEY_NIZK_STAGE1 (cond_unit m) (eqn1 m) /\
  stage_valid TMCG_KEY_NIZK_STAGE2 (cond_unit m) (eqn2 m) /\
  stage_valid TMCG_KEY_NIZK_STAGE3 (cond_jac jacobi m) (eqn3 m (k_y k)).

Lemma nizk_check_sound fuel k : nizk_check H1 H2 jacobi fuel k = @Ok _ true -> nizk_valid k.
Proof.
  unfold nizk_check, nizk_valid. cbv zeta. intros E.
  destruct (Z.ltb_spec (k_m k) 0); [discriminate|].
  destruct (cm (k_nizk k) str_nzk hat) as [s0|]; [|discriminate].
  destruct (run_stage H1 H2 TMCG_KEY_NIZK_STAGE1 _ _ fuel (k_m k) s0 _) as [| |[[[n1 tr1] s1] i1]] eqn:R1; try discriminate.
  destruct (run_stage H1 H2 TMCG_KEY_NIZK_STAGE2 _ _ fuel (k_m k) s1 i1) as [| |[[[n2 tr2] s2] i2]] eqn:R2; try discriminate.
  destruct (run_stage H1 H2 TMCG_KEY_NIZK_STAGE3 _ _ fuel (k_m k) s2 i2) as [| |[[[n3 tr3] s3] i3]] eqn:R3; try discriminate.
  apply run_stage_sound in R1. apply run_stage_sound in R2. apply run_stage_sound in R3.
  destruct R1 as (A1 & _ & B1 & C1). destruct R2 as (A2 & _ & B2 & C2). destruct R3 as (A3 & _ & B3 & C3).
  split; [assumption|]. split; [|split].
  - exists n1, tr1. repeat split; assumption.
  - exists n2, tr2. repeat split; assumption.
  - exists n3, tr3. repeat split; assumption.
Qed.

Theorem check_accept_implies fuel heap k :
  check H1 H2 jacobi is_prime fuel heap k = @Ok _ true ->
  jacobi (k_y k) (k_m k) = 1%Z /\ Z.odd (k_m k) = true /\ is_prime (k_m k) = false /\
  verify_text H1 H2 (k_m k) (k_sig k) heap (selfsig_data k) (k_sig k) = Accept /\
  (contains str_NIZK (k_type k) = true -> nizk_valid k).
Proof.
  unfold check. cbv zeta. intros E.
  destruct (Z.eqb_spec (jacobi (k_y k) (k_m k)) 1); cbn [negb] in E; [|discriminate].
  destruct (Z.odd (k_m k)); cbn [negb] in E; [|discriminate].
  destruct (is_prime (k_m k)); [discriminate|].
  destruct (verify_text H1 H2 (k_m k) (k_sig k) heap (selfsig_data k) (k_sig k)); try discriminate.
  destruct (fermat_reject (k_m k)); [discriminate|].
  split; [assumption|]. split; [reflexivity|]. split; [reflexivity|]. split; [reflexivity|].
  intros C. rewrite C in E. cbn [negb] in E. eapply nizk_check_sound. exact E.
Qed.

(* what the stage equations say *)
Lemma congr_spec a b m : congr a b m = true <-> ((a - b) mod Z.abs m = 0)%Z.
Proof. unfold congr. apply Z.eqb_eq. Qed.
Lemma eqn1_spec m c r : eqn1 m c r = true <-> powm r m m = c.
Proof. unfold eqn1. apply Z.eqb_eq. Qed.
Lemma cond_unit_spec m c : cond_unit m c = true <-> Z.gcd c m = 1%Z.
Proof. unfold cond_unit. apply Z.eqb_eq. Qed.

(* the Fermat-number branch of check() can never be taken: m - 1 = 2^k with k = bit length of m is impossible *)
Lemma fermat_branch_dead m : (0 < m)%Z -> fermat_reject m = false.
Proof.
  intros Hm. unfold fermat_reject.
  destruct (Z.eqb_spec (m - 1) (2 ^ sizeinbase2 m)); [|reflexivity]. exfalso.
  unfold sizeinbase2 in e. destruct (Z.eqb_spec m 0); [lia|]. rewrite Z.abs_eq in e by lia.
  destruct (Z.log2_spec m Hm) as [_ U]. rewrite <- Z.add_1_r in U. lia.
Qed.
End RabinProofs.

(* ---- key text round trip ------------------------------------------------------------------------------------------ *)
Definition nobar (s : bytes) : Prop := Forall (fun c => c <> bar) s.

Lemma str_pub_nobar : nobar str_pub.
Proof. repeat constructor; discriminate. Qed.
Lemma str_sec_nobar : nobar str_sec.
Proof. repeat constructor; discriminate. Qed.

Theorem import_export_pub k : nobar (k_name k) -> nobar (k_email k) -> nobar (k_type k) -> nobar (k_nizk k) ->
  import_pub (export_pub k) = Some k.
Proof.
  destruct k as [name email type m y nizk sg]. cbn [k_name k_email k_type k_m k_y k_nizk k_sig]. intros Fn Fe Ft Fz.
  unfold import_pub, export_pub. cbn [k_name k_email k_type k_m k_y k_nizk k_sig]. cbn [app].
  rewrite (cm_magic str_pub bar _ str_pub_nobar).
  rewrite (split_at_app bar name _ Fn), (split_at_app bar email _ Fe), (split_at_app bar type _ Ft).
  rewrite (split_at_app bar (encode62 m) _ (encode62_nobar m)), base62_roundtrip.
  rewrite (split_at_app bar (encode62 y) _ (encode62_nobar y)), base62_roundtrip.
  rewrite (split_at_app bar nizk _ Fz). reflexivity.
Qed.

Theorem import_export_sec k p q : nobar (k_name k) -> nobar (k_email k) -> nobar (k_type k) -> nobar (k_nizk k) ->
  precompute_ok (k_m k) (k_y k) p q = true ->
  import_sec (export_sec k p q) = Some (k, p, q).
Proof.
  destruct k as [name email type m y nizk sg]. cbn [k_name k_email k_type k_m k_y k_nizk k_sig]. intros Fn Fe Ft Fz PC.
  unfold import_sec, export_sec. cbn [k_name k_email k_type k_m k_y k_nizk k_sig]. cbn [app].
  rewrite (cm_magic str_sec bar _ str_sec_nobar).
  rewrite (split_at_app bar name _ Fn), (split_at_app bar email _ Fe), (split_at_app bar type _ Ft).
  rewrite (split_at_app bar (encode62 m) _ (encode62_nobar m)), base62_roundtrip.
  rewrite (split_at_app bar (encode62 y) _ (encode62_nobar y)), base62_roundtrip.
  rewrite (split_at_app bar (encode62 p) _ (encode62_nobar p)), base62_roundtrip.
  rewrite (split_at_app bar (encode62 q) _ (encode62_nobar q)), base62_roundtrip.
  rewrite (split_at_app bar nizk _ Fz), PC. reflexivity.
Qed.
