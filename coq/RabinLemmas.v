(* RabinLemmas: proofs about RabinModel (C10). *)
From Coq Require Import ZArith NArith List Bool Lia ZifyBool.
From LT Require Import gen_Consts CodecModel CodecLemmas Zbase RabinModel.
Import ListNotations.

Definition byte (b : N) : Prop := (b < 256)%N.

(* ---- bytes <-> numbers --------------------------------------------------------------------- *)
Section Bytes.
Local Open Scope N_scope.

Lemma be2n_snoc l x : be2n (l ++ [x]) = be2n l * 256 + x.
Proof. unfold be2n. rewrite fold_left_app. reflexivity. Qed.

Lemma n2be_length k : forall n, length (n2be k n) = k.
Proof. induction k; intros; cbn [n2be]; [reflexivity|]. rewrite app_length, IHk. cbn. lia. Qed.

Lemma be2n_n2be k : forall n, be2n (n2be k n) = n mod 256 ^ N.of_nat k.
Proof.
  induction k; intros n.
  - cbn. rewrite N.mod_1_r. reflexivity.
  - cbn [n2be]. rewrite be2n_snoc, IHk, Nat2N.inj_succ, N.pow_succ_r'.
    rewrite (N.mod_mul_r n 256 (256 ^ N.of_nat k)) by (try apply N.pow_nonzero; lia). lia.
Qed.

Lemma n2be_be2n bs : Forall byte bs -> n2be (length bs) (be2n bs) = bs.
Proof.
  induction bs as [|x l IH] using rev_ind; intros F; [reflexivity|].
  apply Forall_app in F. destruct F as [Fl Fx]. inversion Fx; subst. unfold byte in *.
  rewrite app_length. cbn [length]. rewrite Nat.add_1_r. cbn [n2be]. rewrite be2n_snoc.
  rewrite N.div_add_l by lia. rewrite (N.div_small x 256) by lia. rewrite N.add_0_r, IH by assumption.
  f_equal. f_equal. rewrite N.add_comm, N.mod_add by lia. apply N.mod_small. assumption.
Qed.

Lemma be2n_bound bs : Forall byte bs -> be2n bs < 256 ^ N.of_nat (length bs).
Proof.
  induction bs as [|x l IH] using rev_ind; intros F; [cbn; lia|].
  apply Forall_app in F. destruct F as [Fl Fx]. inversion Fx; subst. unfold byte in *.
  rewrite app_length. cbn [length]. rewrite Nat.add_1_r, Nat2N.inj_succ, N.pow_succ_r', be2n_snoc.
  specialize (IH Fl). nia.
Qed.

Lemma n2be_byte k : forall n, Forall byte (n2be k n).
Proof.
  induction k; intros; cbn [n2be]; [constructor|]. apply Forall_app. split; [apply IHk|].
  constructor; [|constructor]. unfold byte. apply N.mod_lt. lia.
Qed.

Lemma lxor_byte a b : byte a -> byte b -> byte (N.lxor a b).
Proof.
  unfold byte. intros Ha Hb.
  destruct (N.eq_dec (N.lxor a b) 0) as [E|E]; [rewrite E; lia|].
  change 256 with (2 ^ 8). apply N.log2_lt_pow2; [lia|].
  assert (La : N.log2 a < 8). { destruct (N.eq_dec a 0) as [->|]; [cbn; lia|]. apply N.log2_lt_pow2; [lia|exact Ha]. }
  assert (Lb : N.log2 b < 8). { destruct (N.eq_dec b 0) as [->|]; [cbn; lia|]. apply N.log2_lt_pow2; [lia|exact Hb]. }
  pose proof (N.log2_lxor a b). lia.
Qed.
End Bytes.

Lemma bxor_length a b : length (bxor a b) = Nat.min (length a) (length b).
Proof. unfold bxor. rewrite map_length, combine_length. reflexivity. Qed.

Lemma bxor_byte a b : Forall byte a -> Forall byte b -> Forall byte (bxor a b).
Proof.
  revert b. induction a as [|x a IH]; intros b Fa Fb; [constructor|].
  destruct b as [|y b]; [constructor|]. inversion Fa; inversion Fb; subst.
  unfold bxor. cbn. constructor; [apply lxor_byte; assumption|apply IH; assumption].
Qed.

Lemma bxor_invol a k : length a = length k -> bxor (bxor a k) k = a.
Proof.
  revert k. induction a as [|x a IH]; intros [|y k] L; try discriminate; [reflexivity|].
  unfold bxor in *. cbn in *. f_equal; [|apply IH; lia].
  rewrite N.lxor_assoc, N.lxor_nilpotent, N.lxor_0_r. reflexivity.
Qed.

Lemma zeros_byte n : Forall byte (zeros n).
Proof. unfold zeros. induction n; cbn; constructor; [unfold byte; lia|assumption]. Qed.
Lemma zeros_length n : length (zeros n) = n.
Proof. apply repeat_length. Qed.

(* ---- sizes / export ------------------------------------------------------------------------- *)
Lemma sizeinbase2_le v k : (0 < v)%Z -> (0 <= k)%Z -> (sizeinbase2 v <= k)%Z <-> (v < 2 ^ k)%Z.
Proof.
  intros Hv Hk. unfold sizeinbase2. destruct (Z.eqb_spec v 0); [lia|]. rewrite Z.abs_eq by lia.
  pose proof (Z.log2_lt_pow2 v k Hv) as P. lia.
Qed.

Lemma sizeinbase2_pos v : (1 <= sizeinbase2 v)%Z.
Proof. unfold sizeinbase2. destruct (Z.eqb_spec v 0); [lia|]. pose proof (Z.log2_nonneg (Z.abs v)). lia. Qed.

Lemma sizeinbase2_gt v k : (0 < k)%Z -> (k < sizeinbase2 v)%Z -> (2 ^ k <= Z.abs v)%Z.
Proof.
  intros Hk H. unfold sizeinbase2 in H. destruct (Z.eqb_spec v 0).
  - lia.
  - assert (0 < Z.abs v)%Z by lia. apply Z.log2_le_pow2; lia.
Qed.

Lemma export_count_one s v : (0 < s)%nat -> (0 < v)%Z -> (sizeinbase2 v <= 8 * Z.of_nat s)%Z -> export_count s v = 1%nat.
Proof.
  intros Hs Hv Hb. unfold export_count. destruct (Z.eqb_spec v 0); [lia|].
  pose proof (sizeinbase2_pos v).
  replace ((sizeinbase2 v + 8 * Z.of_nat s - 1) / (8 * Z.of_nat s))%Z with 1%Z; [reflexivity|].
  apply Z.div_unique with (r := (sizeinbase2 v - 1)%Z); lia.
Qed.

Lemma export_bytes_one s v : (0 < s)%nat -> (0 < v)%Z -> (sizeinbase2 v <= 8 * Z.of_nat s)%Z ->
  export_bytes s v = n2be s (Z.to_N v).
Proof.
  intros Hs Hv Hb. unfold export_bytes. rewrite export_count_one by assumption. cbn [seq flat_map].
  rewrite app_nil_r, Nat.mul_0_r. cbn [N.of_nat]. rewrite N.pow_0_r, N.div_1_r, Z.abs_eq by lia. reflexivity.
Qed.

Lemma export_bytes_zero s : export_bytes s 0 = [].
Proof. reflexivity. Qed.

Lemma export_bytes_length s v : length (export_bytes s v) = (export_count s v * s)%nat.
Proof.
  unfold export_bytes. generalize (export_count s v) as c. intros c. generalize 0%nat as st.
  induction c; intros st; cbn [seq flat_map]; [reflexivity|].
  rewrite app_length, n2be_length, IHc. lia.
Qed.

Lemma pow256 k : (256 ^ Z.of_nat k = 2 ^ (8 * Z.of_nat k))%Z.
Proof. rewrite Z.pow_mul_r by lia. reflexivity. Qed.

(* a word-sized nonzero value is exported as exactly its big-endian bytes *)
Lemma export_be2z yy : Forall byte yy -> (0 < length yy)%nat -> be2z yy <> 0%Z ->
  export_bytes (length yy) (be2z yy) = yy.
Proof.
  intros F L NZ. unfold be2z in *. pose proof (be2n_bound yy F) as B.
  assert (0 < Z.of_N (be2n yy))%Z by lia.
  rewrite export_bytes_one; try assumption.
  - rewrite N2Z.id. apply n2be_be2n. assumption.
  - apply sizeinbase2_le; [assumption|lia|]. rewrite <- pow256.
    apply N2Z.inj_lt in B. rewrite N2Z.inj_pow in B. rewrite nat_N_Z in B. exact B.
Qed.

Lemma be2z_range yy : Forall byte yy -> (0 <= be2z yy < 2 ^ (8 * Z.of_nat (length yy)))%Z.
Proof.
  intros F. unfold be2z. pose proof (be2n_bound yy F) as B. rewrite <- pow256.
  apply N2Z.inj_lt in B. rewrite N2Z.inj_pow in B. rewrite nat_N_Z in B. lia.
Qed.

(* ---- list helpers ------------------------------------------------------------------------------ *)
Lemma Forall_firstn' {A} (P : A -> Prop) n : forall l, Forall P l -> Forall P (firstn n l).
Proof. induction n; intros [|x l] F; cbn; try constructor; inversion F; subst; auto. Qed.
Lemma Forall_skipn' {A} (P : A -> Prop) n : forall l, Forall P l -> Forall P (skipn n l).
Proof. induction n; intros [|x l] F; cbn; try assumption; inversion F; subst; auto. Qed.
Lemma firstn_exact {A} (a b : list A) n : length a = n -> firstn n (a ++ b) = a.
Proof. intros <-. rewrite firstn_app, Nat.sub_diag, firstn_all. cbn. apply app_nil_r. Qed.
Lemma skipn_exact {A} (a b : list A) n : length a = n -> skipn n (a ++ b) = b.
Proof. intros <-. rewrite skipn_app, Nat.sub_diag, skipn_all. reflexivity. Qed.
Lemma fold_left_inv {A B} (P : A -> Prop) (Q : B -> Prop) (f : A -> B -> A) l :
  (forall a b, P a -> Q b -> P (f a b)) -> Forall Q l -> forall a, P a -> P (fold_left f l a).
Proof. intros Hf. induction l; intros F a0 Pa; cbn; [assumption|]. inversion F; subst. apply IHl; auto. Qed.

Lemma bytes_eqb_eq a b : bytes_eqb a b = true <-> a = b.
Proof.
  split; [|intros ->; apply bytes_eqb_refl].
  unfold bytes_eqb. revert b. induction a as [|x a IH]; intros [|y b]; cbn; try reflexivity; try discriminate.
  intros H. apply andb_prop in H. destruct H as [L H]. apply andb_prop in H. destruct H as [E H].
  apply N.eqb_eq in E. subst. f_equal. apply IH. rewrite L, H. reflexivity.
Qed.

Section RabinProofs.
Variable H1 H2 : bytes -> bytes.
Hypothesis H1_len : forall x, length (H1 x) = md.
Hypothesis H2_len : forall x, length (H2 x) = md.
Hypothesis H1_byte : forall x, Forall byte (H1 x).
Hypothesis H2_byte : forall x, Forall byte (H2 x).

(* ---- tmcg_g ------------------------------------------------------------------------------------- *)
Lemma splice_length buf off d : (off + length d <= length buf)%nat -> length (splice buf off d) = length buf.
Proof. intros. unfold splice. rewrite !app_length, firstn_length, skipn_length. lia. Qed.
Lemma splice_byte buf off d : Forall byte buf -> Forall byte d -> Forall byte (splice buf off d).
Proof.
  intros. unfold splice. apply Forall_app. split; [apply Forall_firstn'; assumption|].
  apply Forall_app. split; [assumption|apply Forall_skipn'; assumption].
Qed.

Definition g_inv (L : nat) (st : bytes * bytes) : Prop :=
  (length (fst st) = L /\ Forall byte (fst st)) /\ (length (snd st) = L /\ Forall byte (snd st)).

Lemma g_step_inv times input st i : (i < times)%nat -> g_inv ((times + 1) * md) st ->
  g_inv ((times + 1) * md) (g_step H1 H2 input st i).
Proof.
  intros Hi [[L1 B1] [L2 B2]]. unfold g_inv, g_step. cbn [fst snd].
  set (data := input ++ g_tag i ++ input).
  assert (S1 : length (splice (fst st) (i * (usesize + 2)) (H1 data)) = ((times + 1) * md)%nat).
  { rewrite splice_length; rewrite ?H1_len, ?L1; trivial. change usesize with 9%nat. change md with 32%nat. lia. }
  assert (S2 : length (splice (snd st) (i * (usesize + 2)) (H2 data)) = ((times + 1) * md)%nat).
  { rewrite splice_length; rewrite ?H2_len, ?L2; trivial. change usesize with 9%nat. change md with 32%nat. lia. }
  repeat split.
  - rewrite splice_length; rewrite ?H1_len, ?S1; trivial. change usesize with 9%nat. change md with 32%nat. lia.
  - repeat apply splice_byte; auto.
  - rewrite splice_length; rewrite ?H2_len, ?S2; trivial. change usesize with 9%nat. change md with 32%nat. lia.
  - repeat apply splice_byte; auto.
Qed.

Lemma tmcg_g_inv osize input :
  let times := (osize / usesize + 1)%nat in
  g_inv ((times + 1) * md)
        (fold_left (g_step H1 H2 input) (seq 0 times) (zeros ((times + 1) * md), zeros ((times + 1) * md))).
Proof.
  intros times.
  apply (fold_left_inv (g_inv ((times + 1) * md)) (fun i => (i < times)%nat)).
  - intros a b Pa Qb. apply g_step_inv; assumption.
  - apply Forall_forall. intros i Hin. apply in_seq in Hin. lia.
  - unfold g_inv. cbn [fst snd]. rewrite zeros_length. repeat split; auto using zeros_byte.
Qed.

Lemma tmcg_g_length osize input : length (tmcg_g H1 H2 osize input) = osize.
Proof.
  unfold tmcg_g. destruct (tmcg_g_inv osize input) as [[L1 _] [L2 _]].
  rewrite firstn_length, bxor_length, L1, L2.
  change usesize with 9%nat. change md with 32%nat.
  pose proof (Nat.div_mod osize 9). pose proof (Nat.mod_upper_bound osize 9). lia.
Qed.

Lemma tmcg_g_byte osize input : Forall byte (tmcg_g H1 H2 osize input).
Proof.
  unfold tmcg_g. destruct (tmcg_g_inv osize input) as [[_ B1] [_ B2]].
  apply Forall_firstn'. apply bxor_byte; assumption.
Qed.

(* ---- verification --------------------------------------------------------------------------------- *)
Lemma verify_core_square m heap data v v' :
  ((v * v) mod Z.abs m = (v' * v') mod Z.abs m)%Z ->
  verify_core H1 H2 m heap data v = verify_core H1 H2 m heap data v'.
Proof. intros E. unfold verify_core. rewrite E. reflexivity. Qed.

Lemma verify_core_neg m heap data v : verify_core H1 H2 m heap data (- v) = verify_core H1 H2 m heap data v.
Proof. apply verify_core_square. f_equal. lia. Qed.

Lemma verify_core_shift m heap data v k :
  verify_core H1 H2 m heap data (v + k * m) = verify_core H1 H2 m heap data v.
Proof.
  apply verify_core_square.
  replace ((v + k * m) * (v + k * m))%Z with (v * v + (2 * v * k + k * k * m) * m)%Z by ring.
  destruct (Z.abs_spec m) as [[_ ->]|[_ ->]].
  - apply Z_mod_plus_full.
  - replace ((2 * v * k + k * k * m) * m)%Z with ((- (2 * v * k + k * k * m)) * - m)%Z by ring. apply Z_mod_plus_full.
Qed.

Lemma mnsize_pos_modulus m : (md + K0 < mnsize_of m)%nat -> (0 < Z.abs m)%Z.
Proof.
  unfold mnsize_of, sizeinbase2. destruct (Z.eqb_spec m 0); [subst; cbn; lia|lia].
Qed.

Lemma export_fits s v : (0 <= v)%Z -> (sizeinbase2 v <= 8 * Z.of_nat s)%Z -> (length (export_bytes s v) <= s)%nat.
Proof.
  intros Hv Hb. rewrite export_bytes_length.
  destruct (Z.eq_dec v 0) as [->|NZ]; [cbn; lia|].
  destruct s as [|s]; [lia|]. rewrite export_count_one; lia.
Qed.

Theorem verify_core_no_overflow m heap data v : verify_core H1 H2 m heap data v <> Overflow.
Proof.
  unfold verify_core.
  destruct (Z.leb_spec (sizeinbase2 m) (Z.of_nat (mnsize_of m) * 8)); [discriminate|].
  destruct (Nat.leb_spec (mnsize_of m) (md + K0)); [discriminate|].
  destruct (Z.gtb_spec (sizeinbase2 ((v * v) mod Z.abs m)) (Z.of_nat (mnsize_of m) * 8)); [discriminate|].
  assert (P : (0 < Z.abs m)%Z) by (apply mnsize_pos_modulus; assumption).
  pose proof (Z.mod_pos_bound (v * v) (Z.abs m) P).
  assert (length (export_bytes (mnsize_of m) ((v * v) mod Z.abs m)) <= mnsize_of m)%nat by (apply export_fits; lia).
  destruct (Nat.ltb_spec (mnsize_of m + slack) (length (export_bytes (mnsize_of m) ((v * v) mod Z.abs m)))); [lia|].
  destruct (prab_test _ _ _ _ _); discriminate.
Qed.

(* the acceptance condition, spelled out *)
Definition verify_accepts (m : Z) (heap data : bytes) (v : Z) : Prop :=
  let mn := mnsize_of m in
  let foo := ((v * v) mod Z.abs m)%Z in
  (Z.of_nat mn * 8 < sizeinbase2 m)%Z /\ (md + K0 < mn)%nat /\ (sizeinbase2 foo <= Z.of_nat mn * 8)%Z /\
  let yy := buffer_after heap (export_bytes mn foo) in
  let w := firstn md yy in
  let g12 := tmcg_g H1 H2 (mn - md) w in
  w = firstn md (H1 (data ++ bxor (firstn K0 (skipn md yy)) (firstn K0 g12))) /\
  firstn (mn - md - K0) (skipn (md + K0) yy) = firstn (mn - md - K0) (skipn K0 g12).

Theorem verify_core_accept_iff m heap data v :
  verify_core H1 H2 m heap data v = Accept <-> verify_accepts m heap data v.
Proof.
  pose proof (verify_core_no_overflow m heap data v) as NO. revert NO.
  unfold verify_core, verify_accepts. cbv zeta.
  destruct (Z.leb_spec (sizeinbase2 m) (Z.of_nat (mnsize_of m) * 8)); [intros _; split; [discriminate|lia]|].
  destruct (Nat.leb_spec (mnsize_of m) (md + K0)); [intros _; split; [discriminate|lia]|].
  destruct (Z.gtb_spec (sizeinbase2 ((v * v) mod Z.abs m)) (Z.of_nat (mnsize_of m) * 8)); [intros _; split; [discriminate|lia]|].
  destruct (Nat.ltb_spec (mnsize_of m + slack) (length (export_bytes (mnsize_of m) ((v * v) mod Z.abs m)))); [intros NO; contradiction|].
  intros _. unfold prab_test.
  match goal with |- context [bytes_eqb ?a ?b && bytes_eqb ?c ?d] =>
    pose proof (bytes_eqb_eq a b) as E1; pose proof (bytes_eqb_eq c d) as E2;
    destruct (bytes_eqb a b), (bytes_eqb c d) end; cbn [andb].
  - split; [intros _|reflexivity]. repeat split; try lia; [apply E1|apply E2]; reflexivity.
  - split; [discriminate|]. intros (_ & _ & _ & _ & B). apply E2 in B. discriminate.
  - split; [discriminate|]. intros (_ & _ & _ & A & _). apply E1 in A. discriminate.
  - split; [discriminate|]. intros (_ & _ & _ & A & _). apply E1 in A. discriminate.
Qed.

(* a value whose square is zero leaves the buffer untouched: whatever a previous accepted verification of the same
   data left there is accepted again *)
Theorem stale_buffer_forgery m heap data v :
  verify_core H1 H2 m heap data v = Accept ->
  let heap' := buffer_after heap (export_bytes (mnsize_of m) ((v * v) mod Z.abs m)) in
  verify_core H1 H2 m heap' data 0 = Accept.
Proof.
  intros A heap'. apply verify_core_accept_iff in A. apply verify_core_accept_iff.
  unfold verify_accepts in *. cbv zeta in *. destruct A as (A1 & A2 & A3 & A4 & A5).
  assert (P : (0 < Z.abs m)%Z) by (apply mnsize_pos_modulus; assumption).
  rewrite Z.mul_0_l, Z.mod_0_l by lia. rewrite export_bytes_zero.
  unfold buffer_after at 1 3 5. cbn [app length skipn].
  repeat split; try assumption. cbn. lia.
Qed.

(* ---- the padded value parses back ------------------------------------------------------------------ *)
Lemma prab_test_parts mn data w r' gam rest :
  length w = md -> length r' = K0 -> length gam = (mn - md - K0)%nat ->
  prab_test H1 H2 mn data (w ++ r' ++ gam ++ rest) =
  bytes_eqb w (firstn md (H1 (data ++ bxor r' (firstn K0 (tmcg_g H1 H2 (mn - md) w))))) &&
  bytes_eqb gam (firstn (mn - md - K0) (skipn K0 (tmcg_g H1 H2 (mn - md) w))).
Proof.
  intros Lw Lr Lg. unfold prab_test.
  rewrite (firstn_exact w _ md Lw), (skipn_exact w _ md Lw), (firstn_exact r' _ K0 Lr).
  replace (w ++ r' ++ gam ++ rest) with ((w ++ r') ++ gam ++ rest) by (rewrite <- app_assoc; reflexivity).
  rewrite (skipn_exact (w ++ r') _ (md + K0)) by (rewrite app_length; lia).
  rewrite (firstn_exact gam _ _ Lg). reflexivity.
Qed.

Definition prab_bytes (m : Z) (data r : bytes) : bytes :=
  let mn := mnsize_of m in
  let w := firstn md (H1 (data ++ r)) in
  let g12 := tmcg_g H1 H2 (mn - md) w in
  w ++ bxor r (firstn K0 g12) ++ firstn (mn - md - K0) (skipn K0 g12).

Lemma sign_pad_bytes m data r : sign_pad H1 H2 m data r = be2z (prab_bytes m data r).
Proof. reflexivity. Qed.

Lemma prab_bytes_props m data r : length r = K0 -> Forall byte r -> (md + K0 < mnsize_of m)%nat ->
  length (prab_bytes m data r) = mnsize_of m /\ Forall byte (prab_bytes m data r).
Proof.
  intros Lr Br Hmn. unfold prab_bytes. cbv zeta.
  set (w := firstn md (H1 (data ++ r))). set (g12 := tmcg_g H1 H2 (mnsize_of m - md) w).
  assert (Lw : length w = md) by (unfold w; rewrite firstn_length, H1_len; lia).
  assert (Lg : length g12 = (mnsize_of m - md)%nat) by apply tmcg_g_length.
  split.
  - rewrite !app_length, bxor_length, !firstn_length, skipn_length, Lw, Lr, Lg. lia.
  - apply Forall_app. split; [apply Forall_firstn'; apply H1_byte|].
    apply Forall_app. split.
    + apply bxor_byte; [assumption|apply Forall_firstn'; apply tmcg_g_byte].
    + apply Forall_firstn'. apply Forall_skipn'. apply tmcg_g_byte.
Qed.

Lemma prab_roundtrip m data r rest : length r = K0 -> Forall byte r -> (md + K0 < mnsize_of m)%nat ->
  prab_test H1 H2 (mnsize_of m) data (prab_bytes m data r ++ rest) = true.
Proof.
  intros Lr Br Hmn. unfold prab_bytes. cbv zeta.
  set (w := firstn md (H1 (data ++ r))). set (g12 := tmcg_g H1 H2 (mnsize_of m - md) w).
  assert (Lw : length w = md) by (unfold w; rewrite firstn_length, H1_len; lia).
  assert (Lg : length g12 = (mnsize_of m - md)%nat) by apply tmcg_g_length.
  assert (Lk : length (firstn K0 g12) = K0) by (rewrite firstn_length, Lg; lia).
  rewrite <- !app_assoc. rewrite prab_test_parts.
  - fold g12. rewrite bxor_invol by lia. fold w. rewrite !bytes_eqb_refl. reflexivity.
  - exact Lw.
  - rewrite bxor_length, Lk, Lr. lia.
  - rewrite firstn_length, skipn_length, Lg. lia.
Qed.

(* a padded value is below 2^(8 mnsize) <= |m|: taking its square root and squaring again gives it back *)
Lemma modulus_lower m : (Z.of_nat (mnsize_of m) * 8 < sizeinbase2 m)%Z -> (md + K0 < mnsize_of m)%nat ->
  (2 ^ (8 * Z.of_nat (mnsize_of m)) <= Z.abs m)%Z.
Proof. intros A B. apply sizeinbase2_gt; lia. Qed.

Theorem verify_core_padded m heap data r s :
  (Z.of_nat (mnsize_of m) * 8 < sizeinbase2 m)%Z -> (md + K0 < mnsize_of m)%nat ->
  length r = K0 -> Forall byte r ->
  sign_pad H1 H2 m data r <> 0%Z ->
  ((s * s) mod Z.abs m = sign_pad H1 H2 m data r mod Z.abs m)%Z ->
  verify_core H1 H2 m heap data s = Accept.
Proof.
  intros Hbits Hmn Lr Br NZ Hs.
  destruct (prab_bytes_props m data r Lr Br Hmn) as [Ly By].
  pose proof (be2z_range _ By) as R. rewrite Ly in R.
  pose proof (modulus_lower m Hbits Hmn) as ML.
  rewrite sign_pad_bytes in *.
  rewrite (Z.mod_small (be2z (prab_bytes m data r))) in Hs by lia.
  unfold verify_core.
  destruct (Z.leb_spec (sizeinbase2 m) (Z.of_nat (mnsize_of m) * 8)); [lia|].
  destruct (Nat.leb_spec (mnsize_of m) (md + K0)); [lia|].
  rewrite Hs.
  assert (SB : (sizeinbase2 (be2z (prab_bytes m data r)) <= Z.of_nat (mnsize_of m) * 8)%Z).
  { apply sizeinbase2_le; try lia. replace (Z.of_nat (mnsize_of m) * 8)%Z with (8 * Z.of_nat (mnsize_of m))%Z by lia. lia. }
  destruct (Z.gtb_spec (sizeinbase2 (be2z (prab_bytes m data r))) (Z.of_nat (mnsize_of m) * 8)); [lia|].
  assert (EX : export_bytes (mnsize_of m) (be2z (prab_bytes m data r)) = prab_bytes m data r).
  { rewrite <- Ly. apply export_be2z; try assumption; lia. }
  rewrite EX.
  destruct (Nat.ltb_spec (mnsize_of m + slack) (length (prab_bytes m data r))); [lia|].
  unfold buffer_after. rewrite prab_roundtrip by assumption. reflexivity.
Qed.
End RabinProofs.
