From Coq Require Import Extraction ExtrOcamlBasic.
From LT Require Import PgpLenModel.
Extraction "model.ml" packet_length_decode packet_body_extract packet_decode_frame mpi_decode subpacket_header radix64_decode.
