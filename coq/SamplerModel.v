(* SamplerModel: executable model of the random samplers of src/mpz_srandom.cc (C07, used by C02).
   Anchors:  tmcg_mpz_grandom_ui             mpz_srandom.cc:45-63   (8 random bytes -> one unsigned long, native = little endian)
             tmcg_mpz_grandom_ui_nomodbias   mpz_srandom.cc:65-82   (div, max in unsigned long arithmetic, rejection loop)
             tmcg_mpz_{ss,s,w}random_mod     mpz_srandom.cc:102-122 (`% modulo` applied by the callers)
             tmcg_mpz_grandomb               mpz_srandom.cc:124-148 ((size+7)/8 bytes big endian, mod 2^size)
             tmcg_mpz_grandomm               mpz_srandom.cc:176-195 ((bitlen m + 64 + 7)/8 bytes big endian, mpz_mod)
   Randomness is an explicit finite list of bytes (what gcry_randomize / gcry_create_nonce deliver, in the order
   they are requested).  The three quality levels only select the libgcrypt entry point; they do not occur here.
   Platform facts used: unsigned long and size_t are 64 bit, the byte order is little endian (x86-64).
   Definitions only -- proofs live in SamplerLemmas.v. *)
From Coq Require Import ZArith NArith List Bool.
From LT Require Import gen_Consts.
Import ListNotations.
Local Open Scope N_scope.

(* outcome of a modelled call *)
Inductive res (A : Type) : Type :=
| Ret (a : A)        (* normal return *)
| NeedCoins          (* the finite coin list is exhausted (the real code would go on reading) *)
| Throw              (* std::invalid_argument is thrown *)
| Oob                (* out-of-range vector access: undefined behaviour of the real code *)
| AssertFail         (* an assert() fails: abort *)
| DivZero.           (* division by zero inside GMP: SIGFPE *)
Arguments Ret {A} a.
Arguments NeedCoins {A}.
Arguments Throw {A}.
Arguments Oob {A}.
Arguments AssertFail {A}.
Arguments DivZero {A}.

Definition bind {A B} (x : res A) (f : A -> res B) : res B :=
  match x with
  | Ret a => f a
  | NeedCoins => NeedCoins | Throw => Throw | Oob => Oob | AssertFail => AssertFail | DivZero => DivZero
  end.

(* ---- unsigned long arithmetic ------------------------------------------------------------ *)
Definition W : N := 18446744073709551616.          (* 2^64 *)
Definition ulong_max : N := W - 1.
Definition add_w (a b : N) : N := (a + b) mod W.
Definition sub_w (a b : N) : N := (a mod W + W - b mod W) mod W.
Definition mul_w (a b : N) : N := (a * b) mod W.

(* div = (ULONG_MAX - modulo + 1) / modulo;  max = ((div + 1) * modulo) - 1;   mpz_srandom.cc:75-76 *)
Definition nomodbias_div (m : N) : N := add_w (sub_w ulong_max m) 1 / m.
Definition nomodbias_max (m : N) : N := sub_w (mul_w (add_w (nomodbias_div m) 1) m) 1.
(* the loop `do rnd = ...; while (rnd > max)` keeps exactly the words with *)
Definition nomodbias_accept (m w : N) : bool := negb (nomodbias_max m <? w).

(* ---- coins ----------------------------------------------------------------------------- *)
Definition le_value (bs : list N) : N := fold_right (fun b acc => b + 256 * acc) 0 bs.   (* native unsigned long *)
Definition be_value (bs : list N) : N := fold_left (fun acc b => acc * 256 + b) bs 0.    (* mpz_import(.., 1, 1, 1, 0, ..) *)

Definition draw (k : nat) (s : list N) : res (list N * list N) :=
  if (length s <? k)%nat then NeedCoins else Ret (firstn k s, skipn k s).

(* tmcg_mpz_grandom_ui *)
Definition grandom_ui (s : list N) : res (N * list N) :=
  bind (draw 8 s) (fun br => Ret (le_value (fst br), snd br)).

(* the rejection loop; every iteration consumes 8 bytes, so fuel = 1 + length of the coin list never runs out first *)
Fixpoint nomodbias_loop (fuel : nat) (max : N) (s : list N) : res (N * list N) :=
  match fuel with
  | O => NeedCoins
  | S f => bind (grandom_ui s) (fun wr => if max <? fst wr then nomodbias_loop f max (snd wr) else Ret wr)
  end.

(* tmcg_mpz_grandom_ui_nomodbias *)
Definition grandom_ui_nomodbias (m : N) (s : list N) : res (N * list N) :=
  if m <? 2 then Throw else nomodbias_loop (S (length s)) (nomodbias_max m) s.

(* tmcg_mpz_ssrandom_mod / tmcg_mpz_srandom_mod / tmcg_mpz_wrandom_mod *)
Definition random_mod (m : N) (s : list N) : res (N * list N) :=
  bind (grandom_ui_nomodbias m s) (fun wr => Ret (fst wr mod m, snd wr)).

(* mpz_sizeinbase(m, 2): 1 for zero *)
Definition bitlen (n : N) : N := N.log2 n + 1.

(* tmcg_mpz_grandomb: size = 0 throws *)
Definition grandomb (size : N) (s : list N) : res (N * list N) :=
  if size =? 0 then Throw
  else bind (draw (N.to_nat ((size + 7) / 8)) s) (fun br => Ret (be_value (fst br) mod 2 ^ size, snd br)).

(* tmcg_mpz_grandomm: the bytes are read before mpz_mod divides; mpz_mod uses |m| *)
Definition randomm_nbytes (m : Z) : N := (bitlen (Z.abs_N m) + 64 + 7) / 8.
Definition grandomm (m : Z) (s : list N) : res (Z * list N) :=
  bind (draw (N.to_nat (randomm_nbytes m)) s) (fun br =>
    if (m =? 0)%Z then DivZero else Ret (Z.of_N (be_value (fst br) mod Z.abs_N m), snd br)).

(* number of values v < n with v mod m = t  (the counting statement of the uniformity theorems) *)
Definition fibre_count (n m t : N) : N := n / m + (if t <? n mod m then 1 else 0).

(* ---- the residue cache: tmcg_mpz_ssrandomm_cache_init / _cache / _cache_done, mpz_srandom.cc:222-276 ------------- *)
(* k successive tmcg_mpz_ssrandomm(., m) draws (cache[0] first) *)
Fixpoint draw_many (k : nat) (m : Z) (s : list N) : res (list Z * list N) :=
  match k with
  | O => Ret ([], s)
  | S k' => bind (grandomm m s) (fun vr => bind (draw_many k' m (snd vr)) (fun vs => Ret (fst vr :: fst vs, snd vs)))
  end.

Record cache : Type := { c_vals : list Z; c_mod : Z; c_avail : nat }.

(* n = 0 or n > TMCG_MAX_SSRANDOMM_CACHE throws *)
Definition cache_init (n : nat) (m : Z) (s : list N) : res (cache * list N) :=
  if (n =? 0)%nat || (Z.to_nat TMCG_MAX_SSRANDOMM_CACHE <? n)%nat then Throw
  else bind (draw_many n m s) (fun vs => Ret ({| c_vals := fst vs; c_mod := m; c_avail := n |}, snd vs)).

(* cache hit iff the moduli are equal and an entry is left (taken from the top); otherwise a fresh draw modulo m *)
Definition cache_get (c : cache) (m : Z) (s : list N) : res ((Z * cache) * list N) :=
  if (m =? c_mod c)%Z && (0 <? c_avail c)%nat then
    match nth_error (c_vals c) (c_avail c - 1) with
    | Some v => Ret ((v, {| c_vals := c_vals c; c_mod := c_mod c; c_avail := c_avail c - 1 |}), s)
    | None => Oob
    end
  else bind (grandomm m s) (fun vr => Ret ((fst vr, c), snd vr)).

Definition cache_done (c : cache) : cache := {| c_vals := []; c_mod := 0%Z; c_avail := 0 |}.

(* a whole life cycle: init for modulus q with n entries, then one query per modulus in ms *)
Fixpoint cache_queries (c : cache) (ms : list Z) (s : list N) : res (list Z * list N) :=
  match ms with
  | [] => Ret ([], s)
  | m :: ms' => bind (cache_get c m s) (fun x =>
                bind (cache_queries (snd (fst x)) ms' (snd x)) (fun vs => Ret (fst (fst x) :: fst vs, snd vs)))
  end.
Definition cache_run (n : nat) (q : Z) (ms : list Z) (s : list N) : res (list Z * list N) :=
  bind (cache_init n q s) (fun cs => cache_queries (fst cs) ms (snd cs)).
