(* CutChooseModel (C03): the cut-and-choose proof of stack equality for the VTMF encoding.
   Anchors: src/SchindelhauerTMCG.cc  TMCG_ProveStackEquality (VTMF_Card overload) :1372-1412,
            TMCG_VerifyStackEquality (VTMF_Card overload) :1690-1782 (incl. the fixes 517d04b: size of the received secret,
            b8eb596: exponents in [0,q), f1b80db: both stacks tested for group membership).
   Reuses ShuffleModel (C02): mix = TMCG_MixStack, glue = TMCG_GlueStackSecret, create_stack_secret = TMCG_CreateStackSecret,
   and CodecModel.perm_check (the bijection test of TMCG_StackSecret::import, which `in >> ss` runs).
   The hashed commitment (TMCG_HASH_COMMITMENT = 1: tmcg_mpz_shash of the exported stack) is an oracle Hc on stacks.
   Exponents of a stack secret are non-negative integers (N) once the verifier's range check has passed.
   Outcomes are ShuffleModel's `res` (Ret b = the verifier returns b).  Definitions only -- proofs in CutChooseLemmas.v. *)
From Coq Require Import ZArith NArith List Bool.
From LT Require Import gen_Consts Zbase CodecModel SamplerModel ShuffleModel SigmaPrim.
Import ListNotations.
Local Open Scope Z_scope.

Definition vcard := (Z * Z)%type.
Definition vsecret := list (N * N).

Section CutChoose.
  Variable Hc : list vcard -> Z.     (* commitment oracle: hash of the exported stack *)
  Variable G : group.                (* p, q, g *)
  Variable h : Z.                    (* common public key *)

  Let p := gp G.
  Let q := gq G.
  Let g := gg G.

  Definition cmask (c : vcard) (r : N) : vcard := vmask p g h c (Z.of_N r).
  Definition cadd (r1 r2 : N) : N := Z.to_N (vadd q (Z.of_N r1) (Z.of_N r2)).
  Definition cmix := mix vcard N cmask.
  Definition cglue := glue N cadd.

  Definition secN (ss : list (N * Z)) : vsecret := map (fun pr => (fst pr, Z.to_N (snd pr))) ss.
  Definition secZ (ss : vsecret) : list (N * Z) := map (fun pr => (fst pr, Z.of_N (snd pr))) ss.

  (* ---- prover, one iteration: fresh secret pi (from TMCG_CreateStackSecret), commitment, answer to the challenge bit;
          bit = true means the question is odd (the fresh secret is revealed), false: the glued secret ---- *)
  Definition prove_round (s2 : list vcard) (sigma pi : vsecret) (bit : bool) : res (Z * vsecret) :=
    bind (cmix s2 pi) (fun s3 =>
      if bit then Ret (Hc s3, pi) else bind (cglue sigma pi) (fun gam => Ret (Hc s3, gam))).

  (* ---- verifier, one iteration, on the parsed message (commitment, stack secret with integer exponents) ---- *)
  (* "verify cyclic shift": cy = ss[0].first; ((++cy) % size) == ss[j].first for j = 1.. *)
  Definition cyclic_ok (idx : list N) : bool :=
    match idx with
    | [] => true
    | c0 :: _ =>
      forallb (fun j => match nth_error idx j with
                        | Some x => ((c0 + N.of_nat j) mod N.of_nat (length idx) =? x)%N
                        | None => false
                        end) (seq 1 (length idx - 1))
    end.

  Definition verify_round (s s2 : list vcard) (cyclic bit : bool) (com : Z) (resp : list (N * Z)) : res bool :=
    if negb (perm_check resp (N.of_nat (length resp))) then Ret false          (* in >> ss fails *)
    else if negb (length resp =? length s)%nat then Ret false                  (* fix 517d04b *)
    else if existsb (fun pr => (snd pr <? 0) || (q <=? snd pr)) resp then Ret false   (* fix b8eb596 *)
    else bind (cmix (if bit then s2 else s) (secN resp)) (fun s4 =>
      if negb (Hc s4 =? com) then Ret false
      else if cyclic && negb (cyclic_ok (map fst resp)) then Ret false
      else Ret true).

  (* ---- the whole protocol with an honest prover ---- *)
  Definition card_ok (c : vcard) : bool := check_element G (fst c) && check_element G (snd c).

  (* size test and group membership of both stacks (fix f1b80db) *)
  Definition verify_pre (s s2 : list vcard) : bool :=
    (length s =? length s2)%nat && forallb (fun cc => card_ok (fst cc) && card_ok (snd cc)) (combine s2 s).

  (* k iterations: the prover's coins feed TMCG_CreateStackSecret, the verifier's coins are the challenge bits *)
  Fixpoint honest_rounds (k : nat) (cyclic : bool) (s s2 : list vcard) (sigma : vsecret)
           (coins : list N) (bits : list bool) : res bool :=
    match k with
    | O => Ret true
    | S k' =>
      match bits with
      | [] => NeedCoins
      | bit :: bits' =>
        bind (create_stack_secret cyclic (length s) q coins) (fun x =>
          let pi := secN (snd (fst x)) in
          bind (prove_round s2 sigma pi bit) (fun cr =>
            bind (verify_round s s2 cyclic bit (fst cr) (secZ (snd cr))) (fun ok =>
              if ok then honest_rounds k' cyclic s s2 sigma (snd x) bits' else Ret false)))
      end
    end.

  (* the prover runs min(kappa, TMCG_MAX_ZNP_ITERATIONS) iterations, the verifier kappa: beyond the limit the verifier reads
     from a finished prover (operator>> throws) *)
  Definition honest_run (kappa : Z) (cyclic : bool) (s s2 : list vcard) (sigma : vsecret)
             (coins : list N) (bits : list bool) : res bool :=
    if negb (verify_pre s s2) then Ret false
    else if TMCG_MAX_ZNP_ITERATIONS <? kappa then SamplerModel.Throw
    else honest_rounds (Z.to_nat kappa) cyclic s s2 sigma coins bits.
End CutChoose.
