From Coq Require Import Extraction ExtrOcamlBasic.
From Coq Require Import NArith.
From LT Require Import SigmaPrim KeyRingModel SigmaModel PedersenModel SamplerModel ShuffleModel CutChooseModel SkcProveModel.
Extraction "model.ml" table_oracle verify_nizk compute_nizk keyi_commit keyi_respond keyi_challenge keyi_verify
  cp_prove cp_verify or_prove_first or_prove_second or_verify vtmf_masking_value vtmf_mask mask_prove mask_verify
  remask remask_fast remask_prove remask_verify decrypt_prove decrypt_init decrypt_update decrypt_final
  commit_by commit pverify skc_prove skc_verify create_stack_secret secN secZ prove_round verify_round ft_base ft_t N.succ.
