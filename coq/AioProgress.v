(* AioProgress: proofs about AioModel, part 4 -- a receiver that keeps being called settles: after more than
   3*|pipe| + |buf| + 1 calls nothing remains to be delivered, unless the receive buffer is full of bytes that hold no
   complete record while more are waiting (the "read buffer exceeded" state of the code). *)
From Coq Require Import ZArith NArith List Bool Lia.
From LT Require Import gen_Consts CodecModel CodecLemmas AioModel AioLemmas.
Import ListNotations.

Section Progress.
Variable P : prims.
Variable c : cfg.
Variable nonce : bytes.

Notation deliveries := (stream_deliveries P c nonce).
Notation wf := (wf P c).

Definition mu (st : rstate) (pipe : bytes) : nat :=
  (3 * length pipe + length (r_buf st) + (if r_flag st then 1 else 0))%nat.

(* buf_flag cleared means: nothing parseable buffered (or still waiting for the IV) *)
Definition flag_ok (st : rstate) : Prop :=
  r_flag st = false -> first_record (eff_maclen P c) (r_buf st) = None \/ (encr c = true /\ r_iv st = false).

(* "read buffer exceeded": bytes are waiting, the buffer has no room, and nothing buffered can be parsed *)
Definition stuck (st : rstate) (pipe : bytes) : Prop :=
  pipe <> [] /\ Z.to_nat (buf_in_size - blen (r_buf st)) = O /\ r_flag st = false /\ flag_ok st.

Lemma firstn_nil_cases {A} n (l : list A) : firstn n l = [] -> n = O \/ l = [].
Proof. destruct n, l; cbn; auto; discriminate. Qed.

Lemma read_progress st pipe st1 p1 : r_flag st = false -> flag_ok st -> recv_read P c st pipe = (st1, p1) ->
  (st1 = st /\ p1 = pipe /\ (pipe = [] \/ stuck st pipe)) \/
  (flag_ok st1 /\ (3 * length p1 + length (r_buf st1) + 2 <= 3 * length pipe + length (r_buf st))%nat).
Proof.
  intros F FO H. unfold recv_read in H.
  set (room := Z.to_nat (buf_in_size - blen (r_buf st))) in *.
  pose proof (firstn_skipn room pipe) as FS.
  pose proof (f_equal (@length _) (firstn_skipn room pipe)) as LP. rewrite app_length in LP.
  destruct (firstn room pipe) as [|g0 gr] eqn:G.
  - left. injection H as <- <-. rewrite (firstn_nil_skipn _ _ G). split; [reflexivity|]. split; [reflexivity|].
    destruct (firstn_nil_cases _ _ G) as [R|R]; [|now left].
    destruct pipe as [|p0 pr]; [now left|]. right. split; [discriminate|]. split; [exact R|]. split; [exact F|exact FO].
  - right. set (got := g0 :: gr) in *.
    assert (LG : (1 <= length got)%nat) by (cbn; lia).
    destruct (encr c) eqn:E.
    + destruct (negb (r_iv st) && (blklen P <=? length (r_buf st ++ got))%nat) eqn:T.
      * injection H as <- <-. cbn [r_buf r_flag]. split.
        -- intros F1. destruct (skipn (blklen P) (r_buf st ++ got)) eqn:B; [now left|discriminate].
        -- rewrite (skipn_length (blklen P)), app_length. cbn [length] in *. lia.
      * injection H as <- <-. cbn [r_buf r_flag r_iv]. split.
        -- intros F1. destruct (r_iv st) eqn:I; [discriminate|]. right. auto.
        -- rewrite app_length. lia.
    + injection H as <- <-. cbn [r_buf r_flag]. split; [intros F1; discriminate|]. rewrite app_length. lia.
Qed.

Lemma parse_none st : recv_parse P c nonce st = None -> first_record (eff_maclen P c) (r_buf st) = None.
Proof.
  unfold recv_parse. destruct (first_record _ _) as [[[l t] r]|]; [|reflexivity].
  destruct (process_record P c nonce (core_of st) l t) as [o k]. destruct o; discriminate.
Qed.

(* one call: the measure drops, or the link is stalled for good, or nothing happens any more *)
Lemma call_progress st pipe o st' pipe' : flag_ok st -> recv_call P c nonce st pipe = (o, st', pipe') ->
  flag_ok st' /\
  ((mu st' pipe' < mu st pipe)%nat \/
   (o = Some Stall /\ pipe' = pipe /\ r_flag st' = true /\ recv_parse P c nonce st' = Some (Stall, st')) \/
   (o = None /\ st' = st /\ pipe' = pipe /\ r_flag st = false /\ (pipe = [] \/ stuck st pipe))).
Proof.
  intros FO H. unfold recv_call in H. destruct (r_flag st) eqn:F.
  - destruct (recv_parse P c nonce st) as [[o1 st1]|] eqn:PA.
    + injection H as <- <- <-. unfold recv_parse in PA.
      destruct (first_record (eff_maclen P c) (r_buf st)) as [[[l t] r]|] eqn:E; [|discriminate].
      pose proof (first_record_shorter _ _ _ _ _ E) as L.
      destruct (process_record P c nonce (core_of st) l t) as [o2 k] eqn:PR.
      destruct o2; injection PA as <- <-.
      * split; [intros F1; cbn [r_flag r_buf] in *; destruct r; [now left|congruence]|].
        left. unfold mu. cbn [r_buf r_flag]. rewrite F. destruct r; cbn [length] in *; lia.
      * split; [intros F1; cbn [r_flag r_buf] in *; destruct r; [now left|congruence]|].
        left. unfold mu. cbn [r_buf r_flag]. rewrite F. destruct r; cbn [length] in *; lia.
      * split; [intros F1; cbn [r_flag] in F1; congruence|].
        right. left. split; [reflexivity|]. split; [reflexivity|]. split; [exact F|].
        unfold recv_parse. cbn [r_buf]. rewrite E.
        destruct k as [ks kc kb kh]. unfold core_of. cbn [r_sqn r_chunk r_bad r_hist k_sqn k_chunk k_bad k_hist].
        rewrite (process_stall _ _ _ _ _ _ _ PR). rewrite F. reflexivity.
    + destruct (recv_read P c (clear_flag st) pipe) as [st1 p1] eqn:RD. injection H as <- <- <-.
      pose proof (parse_none _ PA) as FN.
      assert (FO0 : flag_ok (clear_flag st)) by (intros _; now left).
      destruct (read_progress (clear_flag st) pipe st1 p1 eq_refl FO0 RD) as [(-> & -> & _)|[FO1 LE]].
      * split; [exact FO0|]. left. unfold mu. cbn [clear_flag r_buf r_flag]. rewrite F. lia.
      * split; [exact FO1|]. left. unfold mu. cbn [clear_flag r_buf] in LE. rewrite F. destruct (r_flag st1); lia.
  - destruct (recv_read P c st pipe) as [st1 p1] eqn:RD. injection H as <- <- <-.
    destruct (read_progress st pipe st1 p1 F FO RD) as [(-> & -> & Q)|[FO1 LE]].
    + split; [exact FO|]. right. right. auto.
    + split; [exact FO1|]. left. unfold mu. rewrite F. destruct (r_flag st1); lia.
Qed.

Lemma stalled_forever st pipe : r_flag st = true -> recv_parse P c nonce st = Some (Stall, st) ->
  forall n, run P c nonce st pipe (repeat Call n) = (repeat (Some Stall) n, st, pipe).
Proof.
  intros F PA. induction n as [|n IH]; [reflexivity|].
  cbn [repeat run]. unfold recv_call. rewrite F, PA, IH. reflexivity.
Qed.

Lemma idle_forever st pipe : r_flag st = false -> recv_read P c st pipe = (st, pipe) ->
  forall n, run P c nonce st pipe (repeat Call n) = (repeat None n, st, pipe).
Proof.
  intros F RD. induction n as [|n IH]; [reflexivity|].
  cbn [repeat run]. unfold recv_call. rewrite F, RD, IH. reflexivity.
Qed.

Lemma stalled_nothing st s : wf st -> r_flag st = true -> recv_parse P c nonce st = Some (Stall, st) -> deliveries st s = [].
Proof.
  intros W F PA.
  assert (IVd : encr c = false \/ r_iv st = true).
  { destruct (encr c) eqn:E; [|now left]. right. destruct (r_iv st) eqn:I; [reflexivity|].
    destruct (W E I) as [_ F']. congruence. }
  rewrite (deliveries_iv_done P c nonce st s IVd). cbn [stream_records].
  unfold recv_parse in PA.
  destruct (first_record (eff_maclen P c) (r_buf st)) as [[[l t] r]|] eqn:E; [|discriminate].
  rewrite (first_record_app _ _ s _ _ _ E).
  destruct (process_record P c nonce (core_of st) l t) as [o k]. destruct o; try reflexivity.
  - injection PA as PA. discriminate.
  - injection PA as PA. discriminate.
Qed.

Lemma quiet_nothing st : wf st ->
  (first_record (eff_maclen P c) (r_buf st) = None \/ (encr c = true /\ r_iv st = false)) -> deliveries st [] = [].
Proof.
  intros W [H|[E I]]; [now apply settled|].
  unfold stream_deliveries. rewrite app_nil_r, E, I. cbn [negb andb].
  destruct (W E I) as [L _]. destruct (Nat.leb_spec (blklen P) (length (r_buf st))); [lia|reflexivity].
Qed.

(* after more than mu calls: nothing remains to be delivered, or the buffer is full with bytes still waiting *)
Theorem settle n : forall st pipe os st' pipe', wf st -> flag_ok st -> (mu st pipe < n)%nat ->
  run P c nonce st pipe (repeat Call n) = (os, st', pipe') ->
  deliveries st' pipe' = [] \/ stuck st' pipe'.
Proof.
  induction n as [|n IH]; intros st pipe os st' pipe' W FO M R; [lia|].
  cbn [repeat run] in R.
  destruct (recv_call P c nonce st pipe) as [[o st1] p1] eqn:CS.
  destruct (run P c nonce st1 p1 (repeat Call n)) as [[os2 st2] p2] eqn:RN.
  injection R as <- <- <-.
  destruct (call_step P c nonce _ _ _ _ _ [] W CS) as [_ W1].
  destruct (call_progress _ _ _ _ _ FO CS) as [FO1 [D|[(_ & -> & F1 & PA)|(_ & -> & -> & F & Q)]]].
  - eapply IH; try eassumption. lia.
  - rewrite (stalled_forever st1 pipe F1 PA n) in RN. injection RN as _ <- <-.
    left. now apply stalled_nothing.
  - assert (RD : recv_read P c st pipe = (st, pipe)).
    { unfold recv_call in CS. rewrite F in CS. destruct (recv_read P c st pipe) as [a b]. congruence. }
    rewrite (idle_forever st pipe F RD n) in RN. injection RN as _ <- <-.
    destruct Q as [->|S]; [|now right]. left. apply quiet_nothing; [exact W|]. exact (FO F).
Qed.

Lemma flag_ok0 : flag_ok rstate0.
Proof. intros _. now left. Qed.

(* flag_ok is kept by every schedule *)
Lemma run_flag_ok evs : forall st pipe os st' pipe', flag_ok st ->
  run P c nonce st pipe evs = (os, st', pipe') -> flag_ok st'.
Proof.
  induction evs as [|e r IH]; intros st pipe os st' pipe' FO H.
  - cbn in H. injection H as _ <- _. exact FO.
  - destruct e as [ch|]; cbn [run] in H.
    + eapply IH; eassumption.
    + destruct (recv_call P c nonce st pipe) as [[o st1] p1] eqn:CS.
      destruct (run P c nonce st1 p1 r) as [[os2 st2] p2] eqn:RN. injection H as _ <- _.
      destruct (call_progress _ _ _ _ _ FO CS) as [FO1 _]. eapply IH; eassumption.
Qed.

Lemma run_app evs1 : forall evs2 st pipe os1 st1 p1 os2 st2 p2,
  run P c nonce st pipe evs1 = (os1, st1, p1) -> run P c nonce st1 p1 evs2 = (os2, st2, p2) ->
  run P c nonce st pipe (evs1 ++ evs2) = (os1 ++ os2, st2, p2).
Proof.
  induction evs1 as [|e r IH]; intros evs2 st pipe os1 st1 p1 os2 st2 p2 H1 H2.
  - cbn in H1. injection H1 as <- <- <-. exact H2.
  - destruct e as [ch|]; cbn [run app] in *.
    + eapply IH; eassumption.
    + destruct (recv_call P c nonce st pipe) as [[o sta] pa].
      destruct (run P c nonce sta pa r) as [[osb stb] pb] eqn:RN. injection H1 as <- <- <-.
      rewrite (IH evs2 sta pa osb stb pb os2 st2 p2 RN H2). reflexivity.
Qed.

End Progress.
