(* C07 -- Shuffle permutations and random residues are uniform.
   Uniformity is a counting statement about the map  coins |-> result  (libgcrypt's bytes are taken to be uniform
   and independent: that is the trusted assumption).  Property theorems only: `exact <lemma>` + Print Assumptions. *)
From Coq Require Import ZArith NArith List Bool Lia Permutation.
From LT Require Import gen_Consts SamplerModel SamplerLemmas ShuffleModel ShuffleLemmas ShuffleUniform.
Import ListNotations.
Local Open Scope N_scope.

(* ---- bounded sampler tmcg_mpz_*random_mod ---- *)
(* the machine arithmetic (incl. the wrap-around of (div+1)*m for powers of two) computes (2^64 / m) * m - 1 *)
Theorem C07_nomodbias_max : forall m, 2 <= m < W -> nomodbias_max m = (W / m) * m - 1.
Proof. exact nomodbias_max_spec. Qed.
Print Assumptions C07_nomodbias_max.

Theorem C07_nomodbias_accept_iff : forall m w, 2 <= m < W -> (nomodbias_accept m w = true <-> w < (W / m) * m).
Proof. exact nomodbias_accept_iff. Qed.
Print Assumptions C07_nomodbias_accept_iff.

(* every residue t < m has exactly 2^64 / m accepted raw words: (k, t) |-> k*m + t is a bijection from
   [0, 2^64/m) x [0, m) onto the accepted words, with inverse w |-> (w / m, w mod m) *)
Theorem C07_nomodbias_fibre_forward : forall m w, 2 <= m < W -> w < W -> nomodbias_accept m w = true ->
  w / m < W / m /\ w mod m < m /\ w = (w / m) * m + w mod m.
Proof. exact nomodbias_fibre_forward. Qed.
Print Assumptions C07_nomodbias_fibre_forward.

Theorem C07_nomodbias_fibre_backward : forall m k t, 2 <= m < W -> k < W / m -> t < m ->
  k * m + t < W /\ nomodbias_accept m (k * m + t) = true /\ (k * m + t) / m = k /\ (k * m + t) mod m = t.
Proof. exact nomodbias_fibre_backward. Qed.
Print Assumptions C07_nomodbias_fibre_backward.

Theorem C07_nomodbias_residue_words : forall m t w, 2 <= m < W -> t < m ->
  ((w < W /\ nomodbias_accept m w = true /\ w mod m = t) <-> exists k, k < W / m /\ w = k * m + t).
Proof. exact nomodbias_residue_words. Qed.
Print Assumptions C07_nomodbias_residue_words.

Theorem C07_nomodbias_accept_half : forall m, 2 <= m < W -> W < 2 * ((W / m) * m).
Proof. exact nomodbias_accept_half. Qed.
Print Assumptions C07_nomodbias_accept_half.

(* the 8 random bytes and the 2^64 words correspond one to one *)
Theorem C07_word_bytes_bijection :
  (forall bs, is_bytes bs -> length bs = 8%nat -> le_value bs < W) /\
  (forall bs bs', is_bytes bs -> is_bytes bs' -> length bs = 8%nat -> length bs' = 8%nat -> le_value bs = le_value bs' -> bs = bs') /\
  (forall w, w < W -> exists bs, is_bytes bs /\ length bs = 8%nat /\ le_value bs = w).
Proof. exact word_bytes_bijection. Qed.
Print Assumptions C07_word_bytes_bijection.

(* the loop over the coin stream: first word accepted -> returned reduced; rejected -> skipped *)
Theorem C07_random_mod_accept : forall m b r, 2 <= m -> length b = 8%nat -> nomodbias_accept m (le_value b) = true ->
  random_mod m (b ++ r) = Ret (le_value b mod m, r).
Proof. exact random_mod_accept. Qed.
Print Assumptions C07_random_mod_accept.

Theorem C07_random_mod_reject : forall m b r, 2 <= m -> length b = 8%nat -> nomodbias_accept m (le_value b) = false ->
  random_mod m (b ++ r) = random_mod m r.
Proof. exact random_mod_reject. Qed.
Print Assumptions C07_random_mod_reject.

(* no drawn value ever lies outside its range *)
Theorem C07_random_mod_range : forall m s c r, random_mod m s = Ret (c, r) ->
  2 <= m /\ c < m /\ exists pre, s = pre ++ r /\ (length pre >= 8)%nat.
Proof. exact random_mod_range. Qed.
Print Assumptions C07_random_mod_range.

Theorem C07_random_mod_outcomes : forall m s,
  match random_mod m s with Ret _ | NeedCoins => 2 <= m | Throw => m < 2 | _ => False end.
Proof. exact random_mod_outcomes. Qed.
Print Assumptions C07_random_mod_outcomes.

(* ---- Fisher-Yates and rotation ---- *)
(* the n! admissible coin vectors (c_i < n - i) are mapped injectively to permutations of 0..n-1 *)
Theorem C07_fisher_yates_uniform : forall n, (1 <= n)%nat ->
  let dom := all_coins (n - 1) 0 n in
  length dom = fact n /\ NoDup dom /\ (forall cs, In cs dom <-> admissible (n - 1) 0 n cs) /\
  (forall cs, In cs dom -> exists pi, fisher_yates n cs = Some pi /\ Permutation (iota n) pi) /\
  (forall cs cs', In cs dom -> In cs' dom -> fisher_yates n cs = fisher_yates n cs' -> cs = cs') /\
  NoDup (map (fisher_yates n) dom) /\ length (map (fisher_yates n) dom) = fact n.
Proof. exact fisher_yates_uniform. Qed.
Print Assumptions C07_fisher_yates_uniform.

(* ... and onto: every permutation of 0..n-1 is the image of an admissible coin vector (so of exactly one) *)
Theorem C07_fisher_yates_surj : forall n target, (1 <= n)%nat -> Permutation (iota n) target ->
  exists cs, admissible (n - 1) 0 n cs /\ fisher_yates n cs = Some target.
Proof. exact fisher_yates_surj. Qed.
Print Assumptions C07_fisher_yates_surj.

(* the generator on a coin stream = the sampler's coins (moduli n, n-1, .., 2) fed to that map *)
Theorem C07_random_permutation_fast_coins : forall n s pi s', random_permutation_fast n s = Ret (pi, s') ->
  exists cs, draw_coins (n - 1) 0 n s = Ret (cs, s') /\ admissible (n - 1) 0 n cs /\ fisher_yates n cs = Some pi.
Proof. exact random_permutation_fast_coins. Qed.
Print Assumptions C07_random_permutation_fast_coins.

Theorem C07_rotation_inj : forall n r r', small_n n -> r < N.of_nat n -> r' < N.of_nat n -> rotation n r = rotation n r' -> r = r'.
Proof. exact rotation_inj. Qed.
Print Assumptions C07_rotation_inj.

Theorem C07_rotation_offset_inj : forall n r r', small_n n -> r < N.of_nat n -> r' < N.of_nat n ->
  rotation_offset n r = rotation_offset n r' -> r = r'.
Proof. exact rotation_offset_inj. Qed.
Print Assumptions C07_rotation_offset_inj.

Theorem C07_rotation_offset_surj : forall n o, small_n n -> o < N.of_nat n -> exists r, r < N.of_nat n /\ rotation_offset n r = o.
Proof. exact rotation_offset_surj. Qed.
Print Assumptions C07_rotation_offset_surj.

Theorem C07_random_rotation : forall n s o pi s', random_rotation n s = Ret ((o, pi), s') ->
  (2 <= n)%nat /\ exists r, r < N.of_nat n /\ pi = rotation n r /\ o = rotation_offset n r.
Proof. exact random_rotation_spec. Qed.
Print Assumptions C07_random_rotation.

(* ---- residue sampler tmcg_mpz_*randomm and bit sampler tmcg_mpz_*randomb ---- *)
Theorem C07_grandomm_range : forall m s v r, grandomm m s = Ret (v, r) ->
  m <> 0%Z /\ (0 <= v < Z.abs m)%Z /\ exists b, s = b ++ r /\ length b = N.to_nat (randomm_nbytes m) /\
  v = Z.of_N (be_value b mod Z.abs_N m).
Proof. exact grandomm_range. Qed.
Print Assumptions C07_grandomm_range.

Theorem C07_randomm_space : forall m, W * Z.abs_N m <= 256 ^ randomm_nbytes m.
Proof. exact randomm_space. Qed.
Print Assumptions C07_randomm_space.

(* among the 256^nbytes raw values every residue has floor or ceil of N/|m| preimages, and N/|m| >= 2^64 *)
Theorem C07_grandomm_count : forall m t v, m <> 0%Z -> t < Z.abs_N m ->
  let n := 256 ^ randomm_nbytes m in let a := Z.abs_N m in
  ((v < n /\ v mod a = t) <-> exists k, k < fibre_count n a t /\ v = k * a + t) /\
  n / a <= fibre_count n a t <= n / a + 1 /\ W <= n / a.
Proof. exact grandomm_count. Qed.
Print Assumptions C07_grandomm_count.

Theorem C07_bytes_value_bijection :
  (forall bs, is_bytes bs -> be_value bs < 256 ^ N.of_nat (length bs)) /\
  (forall bs bs', is_bytes bs -> is_bytes bs' -> length bs = length bs' -> be_value bs = be_value bs' -> bs = bs') /\
  (forall k v, v < 256 ^ N.of_nat k -> exists bs, is_bytes bs /\ length bs = k /\ be_value bs = v).
Proof. exact (conj be_value_lt (conj be_value_inj be_value_surj)). Qed.
Print Assumptions C07_bytes_value_bijection.

Theorem C07_grandomb_range : forall size s v r, grandomb size s = Ret (v, r) ->
  0 < size /\ v < 2 ^ size /\ exists b, s = b ++ r /\ length b = N.to_nat ((size + 7) / 8) /\ v = be_value b mod 2 ^ size.
Proof. exact grandomb_range. Qed.
Print Assumptions C07_grandomb_range.

Theorem C07_grandomb_count : forall size t, 0 < size -> t < 2 ^ size ->
  let n := 256 ^ ((size + 7) / 8) in fibre_count n (2 ^ size) t = n / 2 ^ size /\ n mod 2 ^ size = 0.
Proof. exact grandomb_count. Qed.
Print Assumptions C07_grandomb_count.

Theorem C07_fibre_count : forall n m t v, 0 < m -> t < m ->
  ((v < n /\ v mod m = t) <-> exists k, k < fibre_count n m t /\ v = k * m + t).
Proof. exact fibre_count_spec. Qed.
Print Assumptions C07_fibre_count.

(* ---- the residue cache tmcg_mpz_ssrandomm_cache_init / _cache ---- *)
(* every cached value is an ordinary residue draw modulo the cache modulus from its own block of random bytes
   (so C07_grandomm_count applies to it), all in range *)
Theorem C07_cache_init : forall n m s c s', cache_init n m s = Ret (c, s') ->
  (1 <= n <= Z.to_nat TMCG_MAX_SSRANDOMM_CACHE)%nat /\ c_mod c = m /\ c_avail c = n /\ length (c_vals c) = n /\ cache_wf c /\
  exists chunks, s = concat chunks ++ s' /\ Forall (fun b => length b = N.to_nat (randomm_nbytes m)) chunks /\
                 c_vals c = map (fun b => Z.of_N (be_value b mod Z.abs_N m)) chunks.
Proof. exact cache_init_spec. Qed.
Print Assumptions C07_cache_init.

(* a query for modulus m: in range for m in BOTH branches; a hit (same modulus, entry left) hands out a not yet used
   cached draw and consumes it, otherwise the answer is a fresh draw modulo m (not modulo the cache modulus) *)
Theorem C07_cache_get : forall c m s v c' s', cache_wf c -> cache_get c m s = Ret ((v, c'), s') ->
  in_range_m m v /\ cache_wf c' /\
  ((m = c_mod c /\ (0 < c_avail c)%nat /\ nth_error (c_vals c) (c_avail c - 1) = Some v /\
    c_avail c' = (c_avail c - 1)%nat /\ c_vals c' = c_vals c /\ c_mod c' = c_mod c /\ s' = s) \/
   ((m <> c_mod c \/ c_avail c = O) /\ grandomm m s = Ret (v, s') /\ c' = c)).
Proof. exact cache_get_spec. Qed.
Print Assumptions C07_cache_get.

Theorem C07_cache_run_range : forall n q ms s vs s', cache_run n q ms s = Ret (vs, s') -> Forall2 in_range_m ms vs.
Proof. exact cache_run_range. Qed.
Print Assumptions C07_cache_run_range.

(* ---- non-vacuity / sanity on concrete values ---- *)
Example C07_max_3 : nomodbias_max 3 = 18446744073709551614.
Proof. vm_compute. reflexivity. Qed.
Example C07_max_pow2 : nomodbias_max 4096 = 18446744073709551615.
Proof. vm_compute. reflexivity. Qed.
Example C07_max_big : nomodbias_max 9223372036854775809 = 9223372036854775808.
Proof. vm_compute. reflexivity. Qed.
Example C07_reject_example : random_mod 3 ([255;255;255;255;255;255;255;255] ++ [4;0;0;0;0;0;0;0]) = Ret (1, []).
Proof. vm_compute. reflexivity. Qed.
Example C07_fy_example : fisher_yates 4 [2; 0; 1] = Some [2; 1; 3; 0].
Proof. vm_compute. reflexivity. Qed.
Example C07_all_coins_3 : all_coins 2 0 3 = [[0;0];[0;1];[1;0];[1;1];[2;0];[2;1]].
Proof. vm_compute. reflexivity. Qed.
Example C07_randomm_example : grandomm 11 [0;0;0;0;0;0;0;1;7] = Ret (10%Z, []).
Proof. vm_compute. reflexivity. Qed.
Example C07_cache_example :
  cache_run 2 11 [11; 5; 11; 11]%Z (repeat 0 8 ++ [7] ++ repeat 0 8 ++ [9] ++ repeat 0 8 ++ [9] ++ repeat 0 8 ++ [10])
  = Ret ([9; 4; 7; 10]%Z, []).
Proof. vm_compute. reflexivity. Qed.
