(* SamplerLemmas: proofs about SamplerModel (C07; used by C02). *)
From Coq Require Import ZArith NArith List Bool Lia ZifyBool Permutation.
From LT Require Import gen_Consts SamplerModel.
Import ListNotations.
Local Open Scope N_scope.

(* ---- the acceptance bound of the bounded sampler --------------------------------------------- *)
Lemma W_pos : 0 < W.
Proof. reflexivity. Qed.

Lemma div_mul_le (w m : N) : m <> 0 -> (w / m) * m <= w.
Proof. intros. rewrite N.mul_comm. now apply N.mul_div_le. Qed.

Lemma div_mul_gt (w m : N) : m <> 0 -> w < (w / m) * m + m.
Proof. intros. pose proof (N.mul_succ_div_gt w m H). lia. Qed.

Lemma nomodbias_div_spec m : 2 <= m < W -> nomodbias_div m = W / m - 1.
Proof.
  intros Hm. unfold nomodbias_div, add_w, sub_w, ulong_max.
  pose proof W_pos.
  rewrite (N.mod_small (W - 1)) by lia. rewrite (N.mod_small m) by lia.
  replace (W - 1 + W - m) with ((W - 1 - m) + 1 * W) by lia.
  rewrite N.mod_add by lia. rewrite (N.mod_small (W - 1 - m)) by lia.
  rewrite (N.mod_small (W - 1 - m + 1)) by lia.
  assert (1 <= W / m) by (apply N.div_le_lower_bound; lia).
  symmetry. apply N.div_unique with (r := W mod m).
  - apply N.mod_lt; lia.
  - pose proof (N.div_mod W m). nia.
Qed.

Theorem nomodbias_max_spec m : 2 <= m < W -> nomodbias_max m = (W / m) * m - 1.
Proof.
  intros Hm. unfold nomodbias_max. rewrite nomodbias_div_spec by assumption.
  pose proof W_pos.
  assert (1 <= W / m) by (apply N.div_le_lower_bound; lia).
  assert (W / m < W) by (apply N.div_lt; lia).
  unfold add_w. replace (W / m - 1 + 1) with (W / m) by lia. rewrite (N.mod_small (W / m)) by lia.
  pose proof (div_mul_le W m ltac:(lia)) as HK.
  unfold mul_w, sub_w. rewrite (N.mod_small 1) by lia.
  destruct (N.eq_dec (W / m * m) W) as [E | NE].
  - rewrite E. rewrite N.mod_same by lia. rewrite N.mod_0_l by lia. rewrite N.mod_small; lia.
  - rewrite (N.mod_small (W / m * m)) by lia. rewrite (N.mod_small (W / m * m)) by lia.
    replace (W / m * m + W - 1) with ((W / m * m - 1) + 1 * W) by nia.
    rewrite N.mod_add by lia. apply N.mod_small. lia.
Qed.

(* accepted raw words are exactly [0, (W/m)*m) *)
Theorem nomodbias_accept_iff m w : 2 <= m < W -> (nomodbias_accept m w = true <-> w < (W / m) * m).
Proof.
  intros Hm. unfold nomodbias_accept. rewrite nomodbias_max_spec by assumption.
  assert (1 <= W / m) by (apply N.div_le_lower_bound; lia).
  assert (1 <= W / m * m) by nia.
  destruct (N.ltb_spec (W / m * m - 1) w); cbn; split; intros; try discriminate; try lia.
Qed.

(* at least half of all words are accepted: the loop ends after 2 iterations on average, at worst *)
Theorem nomodbias_accept_half m : 2 <= m < W -> W < 2 * ((W / m) * m).
Proof.
  intros Hm. pose proof (div_mul_gt W m ltac:(lia)).
  assert (1 <= W / m) by (apply N.div_le_lower_bound; lia).
  destruct (N.le_gt_cases (2 * m) W) as [L | G]; nia.
Qed.

(* every residue t has exactly W/m accepted raw words: w |-> (w / m, w mod m) is a bijection between the
   accepted words and [0, W/m) x [0, m), with inverse (k, t) |-> k * m + t *)
Theorem nomodbias_fibre_forward m w : 2 <= m < W -> w < W -> nomodbias_accept m w = true ->
  w / m < W / m /\ w mod m < m /\ w = (w / m) * m + w mod m.
Proof.
  intros Hm Hw A. apply nomodbias_accept_iff in A; [|assumption].
  repeat split.
  - apply N.div_lt_upper_bound; [lia|]. lia.
  - apply N.mod_lt; lia.
  - pose proof (N.div_mod w m ltac:(lia)). lia.
Qed.

Theorem nomodbias_fibre_backward m k t : 2 <= m < W -> k < W / m -> t < m ->
  k * m + t < W /\ nomodbias_accept m (k * m + t) = true /\ (k * m + t) / m = k /\ (k * m + t) mod m = t.
Proof.
  intros Hm Hk Ht.
  pose proof (div_mul_le W m ltac:(lia)).
  assert (k * m + t < W / m * m) by nia.
  repeat split.
  - lia.
  - apply nomodbias_accept_iff; assumption.
  - symmetry. apply N.div_unique with (r := t); [assumption | lia].
  - symmetry. apply N.mod_unique with (q := k); [assumption | lia].
Qed.

Corollary nomodbias_residue_words m t w : 2 <= m < W -> t < m ->
  ((w < W /\ nomodbias_accept m w = true /\ w mod m = t) <-> exists k, k < W / m /\ w = k * m + t).
Proof.
  intros Hm Ht. split.
  - intros (Hw & A & E). exists (w / m). destruct (nomodbias_fibre_forward m w Hm Hw A) as (a & b & c).
    split; [assumption | lia].
  - intros (k & Hk & ->). destruct (nomodbias_fibre_backward m k t Hm Hk Ht) as (a & b & c & d). auto.
Qed.

Lemma fibre_inj m k k' t t' : t < m -> t' < m -> k * m + t = k' * m + t' -> k = k' /\ t = t'.
Proof.
  intros Ht Ht' E. assert (m <> 0) by lia.
  assert (k = k').
  { transitivity ((k * m + t) / m).
    - apply N.div_unique with (r := t); [assumption | lia].
    - rewrite E. symmetry. apply N.div_unique with (r := t'); [assumption | lia]. }
  subst. split; [reflexivity | lia].
Qed.

(* ---- general counting: values below n in a residue class ------------------------------------- *)
Theorem fibre_count_spec n m t v : 0 < m -> t < m ->
  ((v < n /\ v mod m = t) <-> exists k, k < fibre_count n m t /\ v = k * m + t).
Proof.
  intros Hm Ht. unfold fibre_count.
  pose proof (N.div_mod n m ltac:(lia)) as D. pose proof (N.mod_lt n m ltac:(lia)) as R.
  split.
  - intros (Hv & E). exists (v / m).
    pose proof (N.div_mod v m ltac:(lia)) as Dv. rewrite E in Dv.
    split; [|lia].
    destruct (N.ltb_spec t (n mod m)).
    + assert (v / m <= n / m); [|lia]. apply N.div_le_mono; lia.
    + assert (v / m < n / m); [|lia].
      destruct (N.lt_ge_cases (v / m) (n / m)); [assumption|]. exfalso. nia.
  - intros (k & Hk & ->). split.
    + revert Hk. destruct (N.ltb_spec t (n mod m)); intros Hk.
      * assert (k * m <= (n / m) * m) by (apply N.mul_le_mono_r; lia).
        set (a := n / m) in *. set (b := n mod m) in *. clearbody a b. lia.
      * assert ((k + 1) * m <= (n / m) * m) by (apply N.mul_le_mono_r; lia).
        set (a := n / m) in *. set (b := n mod m) in *. clearbody a b. lia.
    + symmetry. apply N.mod_unique with (q := k); [assumption | lia].
Qed.

Lemma fibre_count_bounds n m t : 0 < m -> n / m <= fibre_count n m t <= n / m + 1.
Proof. intros. unfold fibre_count. destruct (t <? n mod m); lia. Qed.

Lemma fibre_count_sum_exact n m : 0 < m -> m * (n / m) + n mod m = n.
Proof. intros. symmetry. apply N.div_mod. lia. Qed.

(* ---- bytes <-> numbers ---------------------------------------------------------------------- *)
Definition is_bytes (bs : list N) : Prop := Forall (fun b => b < 256) bs.

Lemma le_value_lt bs : is_bytes bs -> le_value bs < 256 ^ N.of_nat (length bs).
Proof.
  induction 1 as [|b bs Hb _ IH]; [cbn; lia|].
  cbn [le_value fold_right length]. fold (le_value bs).
  rewrite Nat2N.inj_succ, N.pow_succ_r'. lia.
Qed.

Lemma le_value_inj bs bs' : is_bytes bs -> is_bytes bs' -> length bs = length bs' ->
  le_value bs = le_value bs' -> bs = bs'.
Proof.
  intros H. revert bs'. induction H as [|b bs Hb _ IH]; intros [|b' bs'] H' L E; try discriminate; [reflexivity|].
  inversion H' as [|? ? Hb' Hbs']; subst. cbn [le_value fold_right] in E. fold (le_value bs) in E. fold (le_value bs') in E.
  assert (b = b' /\ le_value bs = le_value bs') as [-> E'] by lia.
  f_equal. apply IH; auto.
Qed.

Fixpoint le_bytes (k : nat) (v : N) : list N :=
  match k with O => [] | S k' => v mod 256 :: le_bytes k' (v / 256) end.

Lemma le_bytes_spec k : forall v, is_bytes (le_bytes k v) /\ length (le_bytes k v) = k /\
  le_value (le_bytes k v) = v mod 256 ^ N.of_nat k.
Proof.
  induction k as [|k IH]; intros v.
  - cbn. repeat split; [constructor | now rewrite N.mod_1_r].
  - destruct (IH (v / 256)) as (B & L & V). cbn [le_bytes]. repeat split.
    + constructor; [apply N.mod_lt; lia | assumption].
    + cbn. now rewrite L.
    + cbn [le_value fold_right]. fold (le_value (le_bytes k (v / 256))). rewrite V.
      rewrite Nat2N.inj_succ, N.pow_succ_r'.
      rewrite N.mod_mul_r by (try apply N.pow_nonzero; lia). reflexivity.
Qed.

(* the 2^64 words and the 8-byte strings correspond one to one: uniform bytes give uniform words *)
Theorem word_bytes_bijection :
  (forall bs, is_bytes bs -> length bs = 8%nat -> le_value bs < W) /\
  (forall bs bs', is_bytes bs -> is_bytes bs' -> length bs = 8%nat -> length bs' = 8%nat -> le_value bs = le_value bs' -> bs = bs') /\
  (forall w, w < W -> exists bs, is_bytes bs /\ length bs = 8%nat /\ le_value bs = w).
Proof.
  repeat split.
  - intros bs B L. pose proof (le_value_lt bs B) as H. rewrite L in H. exact H.
  - intros bs bs' B B' L L' E. apply le_value_inj; congruence.
  - intros w Hw. exists (le_bytes 8 w). destruct (le_bytes_spec 8 w) as (B & L & V).
    repeat split; try assumption. rewrite V. apply N.mod_small. exact Hw.
Qed.

Lemma be_le_value bs : be_value bs = le_value (rev bs).
Proof.
  unfold be_value, le_value. rewrite fold_left_rev_right.
  generalize 0. induction bs as [|b bs IH]; intros a; [reflexivity|].
  cbn [fold_left]. rewrite IH. f_equal. lia.
Qed.

Lemma is_bytes_rev bs : is_bytes bs -> is_bytes (rev bs).
Proof. unfold is_bytes. rewrite !Forall_forall. intros H x Hx. apply H. now apply in_rev. Qed.

Lemma be_value_lt bs : is_bytes bs -> be_value bs < 256 ^ N.of_nat (length bs).
Proof. intros. rewrite be_le_value, <- rev_length. apply le_value_lt. now apply is_bytes_rev. Qed.

Lemma be_value_inj bs bs' : is_bytes bs -> is_bytes bs' -> length bs = length bs' -> be_value bs = be_value bs' -> bs = bs'.
Proof.
  intros B B' L E. rewrite !be_le_value in E. apply le_value_inj in E; try (now apply is_bytes_rev).
  - rewrite <- (rev_involutive bs), <- (rev_involutive bs'). now f_equal.
  - now rewrite !rev_length.
Qed.

Lemma be_value_surj k v : v < 256 ^ N.of_nat k -> exists bs, is_bytes bs /\ length bs = k /\ be_value bs = v.
Proof.
  intros Hv. destruct (le_bytes_spec k v) as (B & L & V). exists (rev (le_bytes k v)). repeat split.
  - now apply is_bytes_rev.
  - now rewrite rev_length.
  - rewrite be_le_value, rev_involutive, V. now apply N.mod_small.
Qed.

(* ---- the coin stream ------------------------------------------------------------------------ *)
Lemma draw_spec k s b r : draw k s = Ret (b, r) -> s = b ++ r /\ length b = k /\ (length r + k = length s)%nat.
Proof.
  unfold draw. destruct (Nat.ltb_spec (length s) k); [discriminate|]. intros E. injection E as <- <-.
  rewrite firstn_skipn, firstn_length, skipn_length. repeat split; lia.
Qed.

Lemma draw_app k b r : length b = k -> draw k (b ++ r) = Ret (b, r).
Proof.
  intros L. unfold draw. rewrite app_length.
  destruct (Nat.ltb_spec (length b + length r) k); [lia|].
  rewrite <- L. rewrite firstn_app, Nat.sub_diag, firstn_all, skipn_app, Nat.sub_diag, skipn_all. cbn. now rewrite app_nil_r.
Qed.

Lemma grandom_ui_spec s w r : grandom_ui s = Ret (w, r) ->
  exists b, s = b ++ r /\ length b = 8%nat /\ w = le_value b.
Proof.
  unfold grandom_ui. destruct (draw 8 s) as [[b r']| | | | |] eqn:D; cbn; try discriminate.
  intros E. injection E as <- <-. apply draw_spec in D. exists b. intuition.
Qed.

Lemma grandom_ui_app b r : length b = 8%nat -> grandom_ui (b ++ r) = Ret (le_value b, r).
Proof. intros L. unfold grandom_ui. now rewrite draw_app. Qed.

Lemma nomodbias_loop_fuel max : forall f1 f2 s, (length s < f1)%nat -> (length s < f2)%nat ->
  nomodbias_loop f1 max s = nomodbias_loop f2 max s.
Proof.
  induction f1 as [|f1 IH]; intros [|f2] s L1 L2; try lia.
  cbn [nomodbias_loop]. destruct (grandom_ui s) as [[w r]| | | | |] eqn:G; cbn; try reflexivity.
  destruct (max <? w); [|reflexivity].
  apply grandom_ui_spec in G. destruct G as (b & -> & Lb & _). rewrite app_length in *. apply IH; lia.
Qed.

(* the two unfolding equations of the bounded sampler: an accepted first word is returned, a rejected one is skipped *)
Theorem random_mod_accept m b r : 2 <= m -> length b = 8%nat -> nomodbias_accept m (le_value b) = true ->
  random_mod m (b ++ r) = Ret (le_value b mod m, r).
Proof.
  intros Hm L A. unfold random_mod, grandom_ui_nomodbias.
  destruct (N.ltb_spec m 2); [lia|]. cbn [nomodbias_loop]. rewrite grandom_ui_app by assumption. cbn [bind fst snd].
  unfold nomodbias_accept in A. destruct (nomodbias_max m <? le_value b); [discriminate|]. reflexivity.
Qed.

Theorem random_mod_reject m b r : 2 <= m -> length b = 8%nat -> nomodbias_accept m (le_value b) = false ->
  random_mod m (b ++ r) = random_mod m r.
Proof.
  intros Hm L A. unfold random_mod, grandom_ui_nomodbias.
  destruct (N.ltb_spec m 2); [lia|].
  remember (nomodbias_loop (S (length r)) (nomodbias_max m) r) as rhs eqn:R.
  cbn [nomodbias_loop]. rewrite grandom_ui_app by assumption. cbn [bind fst snd].
  unfold nomodbias_accept in A. destruct (nomodbias_max m <? le_value b); [|discriminate].
  subst rhs. f_equal. apply nomodbias_loop_fuel; rewrite ?app_length; lia.
Qed.

Lemma nomodbias_loop_ret max : forall f s w r, nomodbias_loop f max s = Ret (w, r) ->
  w <= max /\ exists pre, s = pre ++ r /\ (length pre >= 8)%nat.
Proof.
  induction f as [|f IH]; intros s w r; [discriminate|].
  cbn [nomodbias_loop]. destruct (grandom_ui s) as [[w0 r0]| | | | |] eqn:G; cbn; try discriminate.
  apply grandom_ui_spec in G. destruct G as (b & -> & Lb & ->).
  destruct (N.ltb_spec max (le_value b)).
  - intros E. apply IH in E. destruct E as (Hw & pre & -> & Lp). split; [assumption|].
    exists (b ++ pre). rewrite app_assoc. split; [reflexivity|]. rewrite app_length. lia.
  - intros E. injection E as <- <-. split; [assumption|]. exists b. split; [reflexivity | lia].
Qed.

(* no drawn value ever lies outside its range; coins are consumed; the only other outcomes are
   "bad modulo" (0 or 1) and "more coins needed" *)
Theorem random_mod_range m s c r : random_mod m s = Ret (c, r) ->
  2 <= m /\ c < m /\ exists pre, s = pre ++ r /\ (length pre >= 8)%nat.
Proof.
  unfold random_mod, grandom_ui_nomodbias. destruct (N.ltb_spec m 2); [discriminate|].
  destruct (nomodbias_loop _ _ s) as [[w r']| | | | |] eqn:E; cbn; try discriminate.
  intros E'. injection E' as <- <-. apply nomodbias_loop_ret in E. destruct E as (_ & pre).
  split; [assumption|]. split; [apply N.mod_lt; lia | assumption].
Qed.

Lemma nomodbias_loop_outcomes max : forall f s, match nomodbias_loop f max s with Ret _ | NeedCoins => True | _ => False end.
Proof.
  induction f as [|f IH]; intros s; [exact I|]. cbn [nomodbias_loop]. unfold grandom_ui, draw.
  destruct (length s <? 8)%nat; cbn; [exact I|]. destruct (max <? _); [apply IH | exact I].
Qed.

Theorem random_mod_outcomes m s :
  match random_mod m s with Ret _ | NeedCoins => 2 <= m | Throw => m < 2 | _ => False end.
Proof.
  unfold random_mod, grandom_ui_nomodbias. destruct (N.ltb_spec m 2); [assumption|].
  pose proof (nomodbias_loop_outcomes (nomodbias_max m) (S (length s)) s) as HO.
  destruct (nomodbias_loop _ _ s); cbn; tauto.
Qed.

(* ---- residue sampler (grandomm) and bit sampler (grandomb) ------------------------------------ *)
Lemma bitlen_spec n : n < 2 ^ bitlen n.
Proof.
  unfold bitlen. destruct (N.eq_dec n 0) as [->|NZ]; [cbn; lia|].
  rewrite N.add_1_r. apply N.log2_spec. lia.
Qed.

Lemma pow256 k : 256 ^ k = 2 ^ (8 * k).
Proof. change 256 with (2 ^ 8). now rewrite N.pow_mul_r. Qed.

(* the raw number has at least 64 bits more than the modulus: N = 256^nbytes >= 2^64 * |m| *)
Theorem randomm_space m : W * Z.abs_N m <= 256 ^ randomm_nbytes m.
Proof.
  unfold randomm_nbytes. set (a := Z.abs_N m). set (l := bitlen a).
  pose proof (bitlen_spec a) as Ha. fold l in Ha.
  rewrite pow256.
  assert (l + 64 <= 8 * ((l + 64 + 7) / 8)).
  { pose proof (N.div_mod (l + 64 + 7) 8 ltac:(lia)). pose proof (N.mod_lt (l + 64 + 7) 8 ltac:(lia)).
    set (d := (l + 64 + 7) / 8) in *. set (e := (l + 64 + 7) mod 8) in *. clearbody d e. lia. }
  apply N.le_trans with (2 ^ (l + 64)).
  - rewrite N.pow_add_r. change (2 ^ 64) with W. nia.
  - apply N.pow_le_mono_r; lia.
Qed.

Theorem grandomm_range m s v r : grandomm m s = Ret (v, r) ->
  m <> 0%Z /\ (0 <= v < Z.abs m)%Z /\ exists b, s = b ++ r /\ length b = N.to_nat (randomm_nbytes m) /\
  v = Z.of_N (be_value b mod Z.abs_N m).
Proof.
  unfold grandomm. destruct (draw _ s) as [[b r']| | | | |] eqn:D; cbn [bind fst snd]; try discriminate.
  destruct (Z.eqb_spec m 0); [discriminate|]. intros E. injection E as <- <-.
  apply draw_spec in D. destruct D as (-> & L & _).
  split; [assumption|]. split.
  - assert (NZ : Z.abs_N m <> 0) by (destruct m; [congruence | discriminate | discriminate]).
    pose proof (N.mod_lt (be_value b) (Z.abs_N m) NZ) as Hlt.
    rewrite <- N2Z.inj_abs_N. set (x := be_value b mod Z.abs_N m) in *. clearbody x. lia.
  - exists b. auto.
Qed.

Theorem grandomm_outcomes m s :
  match grandomm m s with Ret _ => m <> 0%Z | NeedCoins => True | DivZero => m = 0%Z | _ => False end.
Proof.
  unfold grandomm, draw. destruct (_ <? _)%nat; cbn; [exact I|]. destruct (Z.eqb_spec m 0); assumption.
Qed.

(* counting: among the N = 256^nbytes equally likely raw values every residue t < |m| has
   floor(N/|m|) or floor(N/|m|)+1 preimages, and floor(N/|m|) >= 2^64 *)
Theorem grandomm_count m t v : m <> 0%Z -> t < Z.abs_N m ->
  let n := 256 ^ randomm_nbytes m in let a := Z.abs_N m in
  ((v < n /\ v mod a = t) <-> exists k, k < fibre_count n a t /\ v = k * a + t) /\
  n / a <= fibre_count n a t <= n / a + 1 /\ W <= n / a.
Proof.
  intros Hm Ht n a. assert (0 < a) by (unfold a; destruct m; [congruence | reflexivity | reflexivity]). split; [|split].
  - apply fibre_count_spec; assumption.
  - apply fibre_count_bounds; assumption.
  - apply N.div_le_lower_bound; [lia|]. rewrite N.mul_comm. apply randomm_space.
Qed.

Theorem grandomb_range size s v r : grandomb size s = Ret (v, r) ->
  0 < size /\ v < 2 ^ size /\ exists b, s = b ++ r /\ length b = N.to_nat ((size + 7) / 8) /\ v = be_value b mod 2 ^ size.
Proof.
  unfold grandomb. destruct (N.eqb_spec size 0); [discriminate|].
  destruct (draw _ s) as [[b r']| | | | |] eqn:D; cbn [bind fst snd]; try discriminate.
  intros E. injection E as <- <-. apply draw_spec in D. destruct D as (-> & L & _).
  split; [lia|]. split; [apply N.mod_lt, N.pow_nonzero; lia|]. exists b. auto.
Qed.

(* exactly uniform: 2^size divides the number of raw values, every residue has the same number of preimages *)
Theorem grandomb_count size t : 0 < size -> t < 2 ^ size ->
  let n := 256 ^ ((size + 7) / 8) in fibre_count n (2 ^ size) t = n / 2 ^ size /\ n mod 2 ^ size = 0.
Proof.
  intros Hs Ht n.
  assert (E : n mod 2 ^ size = 0).
  { unfold n. rewrite pow256.
    assert (size <= 8 * ((size + 7) / 8)).
    { pose proof (N.div_mod (size + 7) 8 ltac:(lia)). pose proof (N.mod_lt (size + 7) 8 ltac:(lia)).
      set (d := (size + 7) / 8) in *. set (e := (size + 7) mod 8) in *. clearbody d e. lia. }
    replace (8 * ((size + 7) / 8)) with ((8 * ((size + 7) / 8) - size) + size) by lia.
    rewrite N.pow_add_r. apply N.mod_mul. apply N.pow_nonzero. lia. }
  split; [|exact E]. unfold fibre_count. rewrite E. destruct (N.ltb_spec t 0); lia.
Qed.

(* ---- the residue cache ------------------------------------------------------------------------------------------ *)
Definition in_range_m (m v : Z) : Prop := (0 <= v < Z.abs m)%Z.
Definition cache_wf (c : cache) : Prop := (c_avail c <= length (c_vals c))%nat /\ Forall (in_range_m (c_mod c)) (c_vals c).

(* every cached value is an ordinary residue draw from its own block of random bytes *)
Lemma draw_many_spec m : forall k s vs s', draw_many k m s = Ret (vs, s') ->
  length vs = k /\ Forall (in_range_m m) vs /\
  exists chunks, s = concat chunks ++ s' /\ Forall (fun b => length b = N.to_nat (randomm_nbytes m)) chunks /\
                 vs = map (fun b => Z.of_N (be_value b mod Z.abs_N m)) chunks.
Proof.
  induction k as [|k IH]; intros s vs s'; cbn [draw_many].
  - intros E. injection E as <- <-. repeat split; [constructor|]. exists []. repeat split; constructor.
  - destruct (grandomm m s) as [[v s1]| | | | |] eqn:G; cbn [bind fst snd]; try discriminate.
    destruct (draw_many k m s1) as [[vs1 s2]| | | | |] eqn:D; cbn [bind fst snd]; try discriminate.
    intros E. injection E as <- <-. apply IH in D. destruct D as (L & F & chunks & -> & FL & ->).
    apply grandomm_range in G. destruct G as (_ & R & b & -> & Lb & ->).
    repeat split; [cbn; now rewrite L | constructor; assumption|].
    exists (b :: chunks). cbn [concat map]. rewrite app_assoc. repeat split. now constructor.
Qed.

Theorem cache_init_spec n m s c s' : cache_init n m s = Ret (c, s') ->
  (1 <= n <= Z.to_nat TMCG_MAX_SSRANDOMM_CACHE)%nat /\ c_mod c = m /\ c_avail c = n /\ length (c_vals c) = n /\ cache_wf c /\
  exists chunks, s = concat chunks ++ s' /\ Forall (fun b => length b = N.to_nat (randomm_nbytes m)) chunks /\
                 c_vals c = map (fun b => Z.of_N (be_value b mod Z.abs_N m)) chunks.
Proof.
  unfold cache_init. destruct (Nat.eqb_spec n 0); cbn [orb]; [discriminate|].
  destruct (Nat.ltb_spec (Z.to_nat TMCG_MAX_SSRANDOMM_CACHE) n); [discriminate|].
  destruct (draw_many n m s) as [[vs s1]| | | | |] eqn:D; cbn [bind fst snd]; try discriminate.
  intros E. injection E as <- <-. apply draw_many_spec in D. destruct D as (L & F & X).
  cbn. unfold cache_wf. cbn. repeat split; try lia; assumption.
Qed.

(* range and provenance of every query, in both branches *)
Theorem cache_get_spec c m s v c' s' : cache_wf c -> cache_get c m s = Ret ((v, c'), s') ->
  in_range_m m v /\ cache_wf c' /\
  ((m = c_mod c /\ (0 < c_avail c)%nat /\ nth_error (c_vals c) (c_avail c - 1) = Some v /\
    c_avail c' = (c_avail c - 1)%nat /\ c_vals c' = c_vals c /\ c_mod c' = c_mod c /\ s' = s) \/
   ((m <> c_mod c \/ c_avail c = O) /\ grandomm m s = Ret (v, s') /\ c' = c)).
Proof.
  intros (WA & WF). unfold cache_get.
  destruct (Z.eqb_spec m (c_mod c)) as [Em|NEm]; cbn [andb].
  - destruct (Nat.ltb_spec 0 (c_avail c)) as [Ha|Ha].
    + destruct (nth_error (c_vals c) (c_avail c - 1)) as [v0|] eqn:N; [|discriminate].
      intros E. injection E as <- <- <-. split.
      * rewrite Em. rewrite Forall_forall in WF. apply WF. eapply nth_error_In; eassumption.
      * split; [unfold cache_wf; cbn; split; [lia | assumption]|]. left. cbn. repeat split; auto.
    + destruct (grandomm m s) as [[v0 s0]| | | | |] eqn:G; cbn [bind fst snd]; try discriminate.
      intros E. injection E as <- <- <-. pose proof (grandomm_range _ _ _ _ G) as (_ & R & _).
      split; [exact R|]. split; [split; assumption|]. right. repeat split; auto. right. lia.
  - destruct (grandomm m s) as [[v0 s0]| | | | |] eqn:G; cbn [bind fst snd]; try discriminate.
    intros E. injection E as <- <- <-. pose proof (grandomm_range _ _ _ _ G) as (_ & R & _).
    split; [exact R|]. split; [split; assumption|]. right. repeat split; auto.
Qed.

Lemma cache_queries_range : forall ms c s vs s', cache_wf c -> cache_queries c ms s = Ret (vs, s') -> Forall2 in_range_m ms vs.
Proof.
  induction ms as [|m ms IH]; intros c s vs s' W; cbn [cache_queries].
  - intros E. injection E as <- <-. constructor.
  - destruct (cache_get c m s) as [[[v c1] s1]| | | | |] eqn:G; cbn [bind fst snd]; try discriminate.
    destruct (cache_queries c1 ms s1) as [[vs1 s2]| | | | |] eqn:Q; cbn [bind fst snd]; try discriminate.
    intros E. injection E as <- <-. destruct (cache_get_spec _ _ _ _ _ _ W G) as (R & W1 & _).
    constructor; [exact R | eapply IH; eassumption].
Qed.

(* whatever cache was initialised (any modulus q, any size) and whatever moduli are queried afterwards:
   every answer lies in the range of the modulus it was asked for *)
Theorem cache_run_range n q ms s vs s' : cache_run n q ms s = Ret (vs, s') -> Forall2 in_range_m ms vs.
Proof.
  unfold cache_run. destruct (cache_init n q s) as [[c s1]| | | | |] eqn:I; cbn [bind fst snd]; try discriminate.
  apply cache_init_spec in I. destruct I as (_ & _ & _ & _ & W & _). now apply cache_queries_range.
Qed.
