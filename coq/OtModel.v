(* OtModel: executable model of the Naor-Pinkas oblivious transfer of libtmcg (C18) as functions of the coins.
   Anchors: src/NaorPinkasEOTP.cc
     :195-264 Send_interactive_OneOutOfTwo        (send_2)      :266-338 Choose_interactive_OneOutOfTwo   (choose_2_first, choose_second)
     :340-428 Send_interactive_OneOutOfN          (send_n)      :430-508 Choose_interactive_OneOutOfN     (choose_n_first, choose_second)
     :510-588 Send_interactive_OneOutOfN_optimized (send_opt)   :590-662 Choose_..._OneOutOfN_optimized   (choose_opt_first, choose_second)
   A coin is the value returned by tmcg_mpz_srandomm(., q) (an integer in [0, q)); tmcg_mpz_spowm / tmcg_mpz_fspowm are
   modelled by their specification b^e mod p for e >= 0 (C09), mpz_invert by Zbase.invm, CheckElement by
   CheckGroupModel.check_element.  None = the function returns false (sender: nothing is sent).
   Definitions only -- proofs live in OtLemmas.v. *)
From Coq Require Import ZArith List Bool.
From LT Require Import Zbase CheckGroupModel.
Import ListNotations.
Local Open Scope Z_scope.

Definition is_elem (p q a : Z) : bool :=
  match check_element p q a with Accept => true | _ => false end.

(* w = x^s * g^r mod p ; ENC = ((z^s * y^r mod p) * M) mod p *)
Definition enc_pair (p g x y z M s r : Z) : Z * Z :=
  ((powm x s p * powm g r p) mod p, (((powm z s p * powm y r p) mod p) * M) mod p).

(* for i, for j < i: z[i] == z[j] -> false *)
Fixpoint distinct (zs : list Z) : bool :=
  match zs with
  | [] => true
  | z :: r => negb (existsb (Z.eqb z) r) && distinct r
  end.

(* ---- sender ------------------------------------------------------------------------------------------ *)
(* coins are consumed in the order s_i, r_i per message *)
Fixpoint enc_all (p g x y : Z) (zs Ms : list Z) (coins : list (Z * Z)) : list (Z * Z) :=
  match zs, Ms, coins with
  | z :: zs', M :: Ms', (s, r) :: cs' => enc_pair p g x y z M s r :: enc_all p g x y zs' Ms' cs'
  | _, _, _ => []
  end.

Definition send_n (p q g : Z) (Ms : list Z) (x y : Z) (zs : list Z) (coins : list (Z * Z)) : option (list (Z * Z)) :=
  if is_elem p q x && is_elem p q y && forallb (is_elem p q) zs && distinct zs
  then Some (enc_all p g x y zs Ms coins) else None.

(* 1-of-2: the coins are drawn in the order r0, s0, r1, s1 *)
Definition send_2 (p q g : Z) (M0 M1 : Z) (x y z0 z1 : Z) (r0 s0 r1 s1 : Z) : option (list (Z * Z)) :=
  if is_elem p q x && is_elem p q y && (is_elem p q z0 && is_elem p q z1) && negb (z0 =? z1)
  then Some [enc_pair p g x y z0 M0 s0 r0; enc_pair p g x y z1 M1 s1 r1] else None.

(* optimised 1-of-N: only z_0 is received, z_i = z_{i-1} * g mod p *)
Fixpoint enc_opt (p g x y z : Z) (first : bool) (Ms : list Z) (coins : list (Z * Z)) : list (Z * Z) :=
  match Ms, coins with
  | M :: Ms', (s, r) :: cs' =>
    let z' := if first then z else (z * g) mod p in
    enc_pair p g x y z' M s r :: enc_opt p g x y z' false Ms' cs'
  | _, _ => []
  end.

Definition send_opt (p q g : Z) (Ms : list Z) (x y z0 : Z) (coins : list (Z * Z)) : option (list (Z * Z)) :=
  if is_elem p q x && is_elem p q y && is_elem p q z0
  then Some (enc_opt p g x y z0 true Ms coins) else None.

(* ---- chooser ------------------------------------------------------------------------------------------ *)
(* 1-of-N first move: coins a, b, then one coin per index (the one at sigma is drawn and overwritten by ab mod q) *)
Fixpoint zs_of (p g : Z) (sigma : nat) (ab : Z) (i : nat) (cs : list Z) : list Z :=
  match cs with
  | [] => []
  | c :: r => powm g (if Nat.eqb i sigma then ab else c) p :: zs_of p g sigma ab (S i) r
  end.

Definition choose_n_first (p q g : Z) (sigma : nat) (a b : Z) (cs : list Z) : Z * Z * list Z :=
  (powm g a p, powm g b p, zs_of p g sigma ((a * b) mod q) 0 cs).

(* 1-of-2 first move: coins a, b, c (c for the index not chosen) *)
Definition choose_2_first (p q g : Z) (sigma : nat) (a b c : Z) : Z * Z * list Z :=
  let zab := powm g ((a * b) mod q) p in
  let zc := powm g c p in
  (powm g a p, powm g b p, if Nat.eqb sigma 0 then [zab; zc] else [zc; zab]).

(* optimised first move: z_0 = g^(ab mod q) / g^sigma; None = the assert on mpz_invert fails *)
Definition choose_opt_first (p q g : Z) (sigma : nat) (a b : Z) : option (Z * Z * Z) :=
  match invm (powm g (Z.of_nat sigma) p) p with
  | Some i => Some (powm g a p, powm g b p, (powm g ((a * b) mod q) p * i) mod p)
  | None => None
  end.

(* second move (all three variants): every w_i must be a group element, M = ENC_sigma / w_sigma^b *)
Definition open_with (p b : Z) (wc : Z * Z) : option Z :=
  match invm (powm (fst wc) b p) p with
  | Some i => Some ((snd wc * i) mod p)
  | None => None
  end.

Definition choose_second (p q : Z) (sigma : nat) (b : Z) (resp : list (Z * Z)) : option Z :=
  if forallb (fun wc => is_elem p q (fst wc)) resp
  then match nth_error resp sigma with
       | Some wc => open_with p b wc
       | None => None
       end
  else None.

(* the "curious chooser": the same computation applied to a ciphertext that was not chosen *)
Definition curious (p b : Z) (resp : list (Z * Z)) (i : nat) : option Z :=
  match nth_error resp i with
  | Some wc => open_with p b wc
  | None => None
  end.
