From Coq Require Import Extraction ExtrOcamlBasic.
From LT Require Import CodecModel CoinFlipModel TsigModel TsigDssModel.
(* decode62 is extracted only because ocaml/drvcore.ml refers to the extracted type n (binary naturals) *)
Extraction "model.ml" nts_verify dss_verify nts_share nts_share_check nts_combine nts_challenge fpowm powm_signed interp0 dss_lincomb dss_r_from dss_sign decode62.
