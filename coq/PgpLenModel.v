(* PgpLenModel: executable model of the index / length logic on the receiving side of the OpenPGP parsers (C12).
   Anchors (src/CallasDonnerhackeFinneyShawThayerRFC4880.cc):
     PacketLengthDecode   8075-8165     packet_length_decode
     PacketBodyExtract    11402-11478   packet_body_extract   (header octet + partial-length loop)
     PacketDecode         12776-12872   packet_decode_frame   (same loop, by-reference `in` and `current_packet`)
     PacketMPIDecode      8277-8306     mpi_decode
     SubpacketDecode      10864-10932   subpacket_header      (length-of-length, type octet, slice check in uint32_t!)
     Radix64Decode        7270-7294 and NotRadix64 (.hh:1395-1404), tables regenerated into gen_Tables.v
   plus the index logic of TMCG_MixStack (src/SchindelhauerTMCG.cc:1208-1243) on an imported stack secret.
   Octet strings are `list N` (each element < 256 when it comes from the wire).  C integer types are modelled
   explicitly: uint32_t arithmetic is reduced with [u32]; size_t / iterator arithmetic is exact.
   Definitions only -- proofs live in PgpLenLemmas.v. *)
From Coq Require Import ZArith NArith List Bool.
From LT Require Import gen_Consts gen_Tables.
Import ListNotations.
Local Open Scope N_scope.

Definition octets := list N.
Definition u32 (x : N) : N := x mod 4294967296.
Definition be32 (a b c d : N) : N := u32 (a * 16777216 + b * 65536 + c * 256 + d).
Definition lenN (l : octets) : N := N.of_nat (length l).

(* ---- PacketLengthDecode ------------------------------------------------------------------ *)
(* return value 0 = LenErr, 42 = LenIndet (old format, length type 3), otherwise the header length *)
Inductive lenres :=
| LenErr
| LenOk (headlen : nat) (len : N) (part : bool)
| LenIndet (len : N).

Definition packet_length_decode (inp : octets) (newformat : bool) (lentype : N) : lenres :=
  match inp with
  | [] => LenErr
  | b0 :: r =>
    if newformat then
      if b0 <? 192 then LenOk 1 b0 false
      else if b0 <? 224 then
        match r with
        | b1 :: _ => LenOk 2 (u32 ((b0 - 192) * 256 + b1 + 192)) false
        | [] => LenErr
        end
      else if b0 =? 255 then
        match r with
        | b1 :: b2 :: b3 :: b4 :: _ => LenOk 5 (be32 b1 b2 b3 b4) false
        | _ => LenErr
        end
      else LenOk 1 (u32 (2 ^ (N.land b0 31))) true
    else
      if lentype =? 0 then LenOk 1 b0 false
      else if lentype =? 1 then
        match r with
        | b1 :: _ => LenOk 2 (u32 (b0 * 256 + b1)) false
        | [] => LenErr
        end
      else if lentype =? 2 then
        match r with
        | b1 :: b2 :: b3 :: _ => LenOk 4 (be32 b0 b1 b2 b3) false
        | _ => LenErr
        end
      else if lentype =? 3 then LenIndet (u32 (lenN inp))
      else LenErr
  end.

(* ---- the partial-body-length loop shared by PacketBodyExtract and PacketDecode ------------- *)
(* state: work = octets not yet consumed, body = packet body collected so far, cur = current_packet copy *)
Inductive loopres :=
| LoopErr (work body cur : octets)
| LoopOk (work body cur : octets) (indet : bool)
| LoopFuel.

Definition partial_allowed (tag : N) : bool := (tag =? 8) || (tag =? 9) || (tag =? 11) || (tag =? 18).

(* one iteration after the header was decoded: None = `return 0`, Some = new state *)
Definition frame_step (work body cur : octets) (headlen : nat) (len : N) (part first : bool) (tag : N)
  : option (octets * octets * octets) :=
  if lenN work <? N.of_nat headlen + len then None
  else if part && first && (len <? 512) then None
  else if part && negb (partial_allowed tag) then None
  else
    let l := N.to_nat len in
    Some (skipn (headlen + l) work, body ++ firstn l (skipn headlen work), cur ++ firstn (headlen + l) work).

Fixpoint frame_loop (fuel : nat) (work : octets) (newformat : bool) (lentype tag : N) (first : bool)
  (body cur : octets) : loopres :=
  match fuel with
  | O => LoopFuel
  | S f =>
    match packet_length_decode work newformat lentype with
    | LenErr => LoopErr work body cur
    | LenIndet len =>
      match frame_step work body cur 0 len false first tag with
      | None => LoopErr work body cur
      | Some (w, b, c) => LoopOk w b c true
      end
    | LenOk hl len part =>
      match frame_step work body cur hl len part first tag with
      | None => LoopErr work body cur
      | Some (w, b, c) => if part then frame_loop f w newformat lentype tag false b c else LoopOk w b c false
      end
    end
  end.

(* packet tag octet: (newformat, lentype, tag); None = bit 7 not set *)
Definition header_tag (t : N) : option (bool * N * N) :=
  if N.land t 128 =? 0 then None
  else if N.land t 64 =? 64 then Some (true, 0, t - 192)
  else Some (false, N.land t 3, N.land (N.shiftr t 2) 31).

(* number of loop iterations that are always enough (every partial chunk consumes its header octet) *)
Definition frame_fuel (work : octets) : nat := S (length work).

(* PacketBodyExtract: returned tag octet (0 = error) and the `out` vector; None = model ran out of fuel *)
Definition packet_body_extract (inp : octets) : option (N * octets) :=
  match inp with
  | [] => Some (0, [])
  | t :: work =>
    match header_tag t with
    | None => Some (0, [])
    | Some (nf, lt, tag) =>
      match frame_loop (frame_fuel work) work nf lt tag true [] [] with
      | LoopOk _ body _ _ => Some (tag, body)
      | LoopErr _ body _ => Some (0, body)
      | LoopFuel => None
      end
    end
  end.

(* PacketDecode up to the switch over the tag: what is left in `in`, what was appended to current_packet *)
Inductive frameres :=
| FrameErr (rest cur : octets)
| FrameOk (tag : N) (newformat indet : bool) (body rest cur : octets)
| FrameFuel.

Definition packet_decode_frame (inp : octets) : frameres :=
  match inp with
  | [] => FrameErr [] []
  | t :: work =>
    match header_tag t with
    | None => FrameErr work [t]
    | Some (nf, lt, tag) =>
      match frame_loop (frame_fuel work) work nf lt tag true [] [t] with
      | LoopOk w body cur indet => FrameOk tag nf indet body w cur
      | LoopErr w _ cur => FrameErr w cur
      | LoopFuel => FrameFuel
      end
    end
  end.

(* ---- PacketMPIDecode ------------------------------------------------------------------------ *)
Definition from_be (l : octets) : N := fold_left (fun a b => a * 256 + b) l 0.
Definition sum16 (s : N) (l : octets) : N := fold_left (fun a b => (a + b) mod 65536) l s.

Inductive mpires :=
| MpiErr (sum : N)
| MpiOk (consumed : nat) (value : N) (sum : N).

Definition mpi_decode (inp : octets) (sum : N) : mpires :=
  match inp with
  | b0 :: b1 :: r =>
    let buflen := (b0 * 256 + b1 + 7) / 8 in
    let sum1 := sum16 sum [b0; b1] in
    if lenN inp <? 2 + buflen then MpiErr sum1
    else
      let buf := firstn (N.to_nat buflen) r in
      MpiOk (2 + N.to_nat buflen) (from_be buf) (sum16 sum1 buf)
  | _ => MpiErr sum
  end.

(* ---- SubpacketDecode: header, type octet and the slice check ---------------------------------- *)
(* headlen and len are uint32_t in the code: the test `in.size() < (headlen + len)` is evaluated modulo 2^32,
   the following iterator arithmetic `in.begin()+headlen+len` is not. *)
Inductive subres :=
| SubErr
| SubOk (headlen : nat) (len : N) (critical : bool) (type : N).

Definition subpacket_lengths (inp : octets) : option (nat * N * N) :=   (* headlen, raw length, type octet *)
  match inp with
  | b0 :: b1 :: r =>
    if b0 <? 192 then Some (2%nat, b0, b1)
    else if b0 <? 255 then
      match r with
      | b2 :: _ => Some (3%nat, u32 ((b0 - 192) * 256 + b1 + 192), b2)
      | [] => None
      end
    else if b0 =? 255 then
      match r with
      | b2 :: b3 :: b4 :: b5 :: _ => Some (6%nat, be32 b1 b2 b3 b4, b5)
      | _ => None
      end
    else None
  | _ => None
  end.

Definition subpacket_header (inp : octets) : subres :=
  match subpacket_lengths inp with
  | None => SubErr
  | Some (hl, len0, t) =>
    let critical := N.land t 128 =? 128 in
    let type := if critical then t - 128 else t in
    if len0 =? 0 then SubErr
    else
      let len := len0 - 1 in
      if lenN inp <? u32 (N.of_nat hl + len) then SubErr
      else SubOk hl len critical type
  end.

(* the slice [headlen, headlen+len) the code then copies and erases lies inside the input *)
Definition sub_slice_inside (inp : octets) (r : subres) : bool :=
  match r with
  | SubErr => true
  | SubOk hl len _ _ => N.of_nat hl + len <=? lenN inp
  end.

(* ---- Radix64Decode ------------------------------------------------------------------------------ *)
(* (size_t)c for a (signed) char c holding the octet b *)
Definition char_index (b : N) : N := if b <? 128 then b else 18446744073709551360 + b.

(* NotRadix64: the loop runs over sizeof(table) = 64 characters + the terminating NUL; the comparison
   promotes the signed char and the unsigned table entry to int *)
Definition not_radix64 (b : N) : bool :=
  negb (existsb (fun t => (b <? 128) && (b =? t)) (src_tRadix64 ++ [0])).

Definition r64_lookup (b : N) : option N :=
  if char_index b <? N.of_nat (length src_fRadix64)
  then match nth_error src_fRadix64 (N.to_nat (char_index b)) with Some z => Some (Z.to_N z) | None => None end
  else None.

Definition byte (x : N) : N := x mod 256.

Definition r64_quad (l0 l1 l2 l3 : N) : octets :=
  let t0 := byte (N.shiftl (N.land l0 63) 2 + N.shiftr (N.land l1 48) 4) in
  let t1 := byte (N.shiftl (N.land l1 15) 4 + N.shiftr (N.land l2 60) 2) in
  let t2 := byte (N.shiftl (N.land l2 3) 6 + N.land l3 63) in
  (if l1 =? 255 then [] else [t0]) ++ (if l2 =? 255 then [] else [t1]) ++ (if l3 =? 255 then [] else [t2]).

(* n groups of four characters; None = an index outside the string or outside the reverse table *)
Fixpoint r64_groups (n : nat) (p : octets) : option octets :=
  match n with
  | O => Some []
  | S m =>
    match p with
    | a :: b :: c :: d :: rest =>
      match r64_lookup a, r64_lookup b, r64_lookup c, r64_lookup d, r64_groups m rest with
      | Some l0, Some l1, Some l2, Some l3, Some o => Some (r64_quad l0 l1 l2 l3 ++ o)
      | _, _, _, _, _ => None
      end
    | _ => None
    end
  end.

Definition radix64_decode (s : octets) : option octets :=
  let f := filter (fun b => negb (not_radix64 b)) s in
  let len := length f in
  let padded := f ++ repeat 61 (4 - Nat.modulo len 4) in
  r64_groups (Nat.div (len + 3) 4) padded.

(* ---- TMCG_MixStack on a received stack secret (SchindelhauerTMCG.cc:1208-1243, 1640-1652, 1730-1735) -- *)
(* the verifier's guard added by fix 517d04b, then the indices s[ss[i].first] and ss[ss[i].first] for i < |s| *)
Definition mix_guard {A B} (s : list A) (ss : list (N * B)) : bool := Nat.eqb (length ss) (length s).

Definition mix_indices_ok {A B} (s : list A) (ss : list (N * B)) : bool :=
  forallb (fun i => match nth_error ss i with
                    | Some (j, _) => (j <? N.of_nat (length s)) && (j <? N.of_nat (length ss))
                    | None => false
                    end) (seq 0 (length s)).
