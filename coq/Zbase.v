(* Zbase: executable modular arithmetic shared by all algebraic models (stdlib style).
   powm  = square-and-multiply modular exponentiation (what mpz_powm computes for e >= 0, p > 0)
   invm  = modular inverse by extended Euclid (mpz_invert): Some x with 0 <= x < p and a*x = 1 (mod p), or None
   Proofs: powm_spec (equals b^e mod p), exponent laws, and the prime-order-subgroup lemma
   (g^q = 1, g <> 1, q prime  ==>  g^a = g^b <-> a = b (mod q)) used by C01/C04/C06/C15-C18. *)
From Coq Require Import ZArith Znumtheory Lia List Bool.
Import ListNotations.
Local Open Scope Z_scope.

Fixpoint powm_pos (b : Z) (e : positive) (p : Z) : Z :=
  match e with
  | xH => b mod p
  | xO e' => let t := powm_pos b e' p in (t * t) mod p
  | xI e' => let t := powm_pos b e' p in ((t * t) mod p * b) mod p
  end.

(* negative exponents are not handled here (callers go through invm first, as mpz_powm does) *)
Definition powm (b e p : Z) : Z :=
  match e with
  | Z0 => 1 mod p
  | Zpos e' => powm_pos b e' p
  | Zneg _ => 0
  end.

Definition mulm (a b p : Z) : Z := (a * b) mod p.

(* extended Euclid on (a mod p, p) with fuel = bit length; returns gcd and Bezout coefficient of a *)
Fixpoint egcd_fuel (fuel : nat) (r0 r1 s0 s1 : Z) : Z * Z :=
  match fuel with
  | O => (r0, s0)
  | S f => if r1 =? 0 then (r0, s0)
           else let q := r0 / r1 in egcd_fuel f r1 (r0 - q * r1) s1 (s0 - q * s1)
  end.

Definition invm (a p : Z) : option Z :=
  if p <=? 0 then None else
  let '(g, s) := egcd_fuel (S (2 * Z.to_nat (Z.log2_up p + 1))) (a mod p) p 1 0 in
  if g =? 1 then Some (s mod p) else if (p =? 1) then Some 0 else None.

(* ---- powm -------------------------------------------------------------------------------- *)
Lemma powm_pos_spec b e p : 0 < p -> powm_pos b e p = b ^ Zpos e mod p.
Proof.
  intros Hp. induction e as [e IH|e IH|]; cbn [powm_pos].
  - rewrite IH. rewrite Pos2Z.inj_xI.
    replace (2 * Z.pos e + 1) with (Z.pos e + Z.pos e + 1) by lia.
    rewrite !Z.pow_add_r, Z.pow_1_r by lia.
    rewrite <- (Zmult_mod (b ^ Z.pos e) (b ^ Z.pos e) p).
    now rewrite Zmult_mod_idemp_l.
  - rewrite IH. rewrite Pos2Z.inj_xO.
    replace (2 * Z.pos e) with (Z.pos e + Z.pos e) by lia.
    rewrite Z.pow_add_r by lia. now rewrite <- Zmult_mod.
  - now rewrite Z.pow_1_r.
Qed.

Lemma powm_spec b e p : 0 < p -> 0 <= e -> powm b e p = b ^ e mod p.
Proof.
  intros Hp He. destruct e as [|e|e]; cbn [powm].
  - reflexivity.
  - now apply powm_pos_spec.
  - lia.
Qed.

Lemma powm_range b e p : 0 < p -> 0 <= e -> 0 <= powm b e p < p.
Proof. intros. rewrite powm_spec by assumption. now apply Z.mod_pos_bound. Qed.

Lemma powm_add b e1 e2 p : 0 < p -> 0 <= e1 -> 0 <= e2 ->
  powm b (e1 + e2) p = (powm b e1 p * powm b e2 p) mod p.
Proof.
  intros. rewrite !powm_spec by lia. rewrite Z.pow_add_r by lia. apply Zmult_mod.
Qed.

Lemma pow_mod_base b e p : 0 < p -> 0 <= e -> (b mod p) ^ e mod p = b ^ e mod p.
Proof.
  intros Hp He. pattern e. apply natlike_ind; [reflexivity| |assumption].
  intros x Hx IH. rewrite !Z.pow_succ_r by assumption.
  rewrite Zmult_mod, IH, Zmod_mod, <- Zmult_mod. reflexivity.
Qed.

Lemma powm_mul b e1 e2 p : 0 < p -> 0 <= e1 -> 0 <= e2 ->
  powm b (e1 * e2) p = powm (powm b e1 p) e2 p.
Proof.
  intros. rewrite !powm_spec by nia. rewrite pow_mod_base by lia.
  now rewrite Z.pow_mul_r by lia.
Qed.

Lemma powm_mul_base a b e p : 0 < p -> 0 <= e ->
  powm (a * b) e p = (powm a e p * powm b e p) mod p.
Proof.
  intros. rewrite !powm_spec by lia. rewrite Z.pow_mul_l. apply Zmult_mod.
Qed.

Lemma powm_base_mod b e p : 0 < p -> 0 <= e -> powm (b mod p) e p = powm b e p.
Proof. intros. rewrite !powm_spec by lia. now apply pow_mod_base. Qed.

Lemma powm_1_l e p : 0 < p -> 0 <= e -> powm 1 e p = 1 mod p.
Proof. intros. rewrite powm_spec by lia. now rewrite Z.pow_1_l. Qed.

Lemma powm_0_r b p : powm b 0 p = 1 mod p.
Proof. reflexivity. Qed.

Lemma powm_1_r b p : powm b 1 p = b mod p.
Proof. reflexivity. Qed.

(* ---- prime-order subgroup ------------------------------------------------------------------- *)
Section Order.
  Variables p q g : Z.
  Hypothesis Hp : 1 < p.
  Hypothesis Hq : prime q.
  Hypothesis Hgq : powm g q p = 1.
  Hypothesis Hg1 : g mod p <> 1.

  Let q_pos : 1 < q.
  Proof. destruct Hq. lia. Qed.

  Lemma pw (e : Z) : 0 <= e -> powm g e p = g ^ e mod p.
  Proof. intros. apply powm_spec; lia. Qed.

  Lemma gq1 : g ^ q mod p = 1.
  Proof. rewrite <- pw by lia. exact Hgq. Qed.

  Lemma pow_q_mult (w : Z) : 0 <= w -> g ^ (w * q) mod p = 1.
  Proof.
    intros Hw. rewrite Z.mul_comm, Z.pow_mul_r by lia.
    rewrite <- pow_mod_base by lia. rewrite gq1. rewrite Z.pow_1_l by lia. apply Z.mod_1_l. lia.
  Qed.

  Lemma pow_mod_q (e : Z) : 0 <= e -> g ^ e mod p = g ^ (e mod q) mod p.
  Proof.
    intros He. rewrite (Z.div_mod e q) at 1 by lia.
    rewrite Z.pow_add_r.
    - rewrite Zmult_mod. rewrite (Z.mul_comm q). rewrite pow_q_mult.
      + rewrite Z.mul_1_l. apply Zmod_mod.
      + apply Z.div_pos; lia.
    - apply Z.mul_nonneg_nonneg; [lia|apply Z.div_pos; lia].
    - apply Z.mod_pos_bound. lia.
  Qed.

  (* an exponent d in (0,q) with g^d = 1 forces g = 1 *)
  Lemma no_small_order (d : Z) : 0 < d < q -> g ^ d mod p <> 1.
  Proof.
    intros Hd H1.
    assert (R : rel_prime d q).
    { apply rel_prime_sym. apply prime_rel_prime; [assumption|].
      intros Hdiv. apply Z.divide_pos_le in Hdiv; lia. }
    destruct (rel_prime_bezout _ _ R) as [u v Huv].
    (* positive representative of u *)
    set (u' := u mod q).
    assert (Hu' : 0 <= u' < q) by (apply Z.mod_pos_bound; lia).
    assert (E : (u' * d) mod q = 1).
    { unfold u'. rewrite Zmult_mod_idemp_l.
      replace (u * d) with (1 + (- v) * q) by lia.
      rewrite Z.mod_add by lia. apply Z.mod_1_l. lia. }
    set (w := (u' * d) / q).
    assert (Hw : 0 <= w) by (apply Z.div_pos; nia).
    assert (D : u' * d = w * q + 1).
    { pose proof (Z.div_mod (u' * d) q ltac:(lia)) as DM. rewrite E in DM. unfold w. lia. }
    assert (A : g ^ (u' * d) mod p = g mod p).
    { rewrite D. rewrite Z.pow_add_r, Z.pow_1_r by nia.
      rewrite Zmult_mod, pow_q_mult by assumption. rewrite Z.mul_1_l. apply Zmod_mod. }
    assert (B : g ^ (u' * d) mod p = 1).
    { rewrite (Z.mul_comm u' d), Z.pow_mul_r by lia.
      rewrite <- pow_mod_base by lia. rewrite H1. rewrite Z.pow_1_l by lia. apply Z.mod_1_l. lia. }
    rewrite A in B. contradiction.
  Qed.

  Lemma pow_cancel (a b : Z) : 0 <= a <= b -> g ^ a mod p = g ^ b mod p -> g ^ (b - a) mod p = 1.
  Proof.
    intros Hab E.
    (* multiply by g^((q-1)*a): g^a * g^((q-1)a) = g^(q a) = 1 *)
    assert (I : forall x, 0 <= x -> (g ^ x * g ^ ((q - 1) * a)) mod p = g ^ (x + (q - 1) * a) mod p).
    { intros x Hx. rewrite Z.pow_add_r by nia. reflexivity. }
    assert (L : (g ^ a * g ^ ((q - 1) * a)) mod p = 1).
    { rewrite I by lia. replace (a + (q - 1) * a) with (a * q) by lia. apply pow_q_mult. lia. }
    assert (Rr : (g ^ b * g ^ ((q - 1) * a)) mod p = g ^ (b - a) mod p).
    { rewrite I by lia. replace (b + (q - 1) * a) with ((b - a) + a * q) by lia.
      rewrite Z.pow_add_r by nia. rewrite Zmult_mod, pow_q_mult by lia.
      rewrite Z.mul_1_r. apply Zmod_mod. }
    rewrite <- Rr. rewrite Zmult_mod, <- E, <- Zmult_mod. exact L.
  Qed.

  Theorem pow_inj_mod_q (a b : Z) : 0 <= a -> 0 <= b ->
    (g ^ a mod p = g ^ b mod p <-> a mod q = b mod q).
  Proof.
    intros Ha Hb. split.
    - intros E. rewrite (pow_mod_q a), (pow_mod_q b) in E by assumption.
      pose proof (Z.mod_pos_bound a q ltac:(lia)) as Ba.
      pose proof (Z.mod_pos_bound b q ltac:(lia)) as Bb.
      destruct (Z.lt_trichotomy (a mod q) (b mod q)) as [L|[L|L]]; [exfalso|assumption|exfalso].
      + apply (no_small_order (b mod q - a mod q)); [lia|]. apply pow_cancel; [lia|assumption].
      + apply (no_small_order (a mod q - b mod q)); [lia|]. apply pow_cancel; [lia|now symmetry].
    - intros E. rewrite (pow_mod_q a), (pow_mod_q b) by assumption. now rewrite E.
  Qed.

  Corollary powm_inj_mod_q (a b : Z) : 0 <= a -> 0 <= b ->
    (powm g a p = powm g b p <-> a mod q = b mod q).
  Proof. intros. rewrite !pw by assumption. now apply pow_inj_mod_q. Qed.

  Corollary powm_inj_small (a b : Z) : 0 <= a < q -> 0 <= b < q -> powm g a p = powm g b p -> a = b.
  Proof.
    intros Ha Hb E. apply powm_inj_mod_q in E; [|lia|lia].
    rewrite !Z.mod_small in E by lia. assumption.
  Qed.

  Lemma powm_mod_q (e : Z) : 0 <= e -> powm g (e mod q) p = powm g e p.
  Proof.
    intros. rewrite !pw; [|assumption|apply Z.mod_pos_bound; lia]. symmetry. now apply pow_mod_q.
  Qed.
End Order.
