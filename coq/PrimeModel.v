(* PrimeModel -- acceptance logic of the prime generators of src/mpz_sprime.cc (C09), as far as it is deterministic
   given the primality oracle and the random candidates.  Definitions only.
     is_prime z  =  mpz_probab_prime_p(z, reps) != 0   (Miller-Rabin: an oracle here, a parameter of every function)
   tmcg_mpz_lprime (:2419-2454) is modelled completely (both draw loops, the candidates are inputs).
   tmcg_mpz_sprime_test (:2129-2232, behind tmcg_mpz_sprime, _smprime, _sprime2g, _sprime3mod4): the start value and
   the FINAL acceptance (additional test, step 4 "2^q = +-1 mod p", step 5 primality of q) are modelled; the small-prime
   sieves and the base-2 Miller-Rabin pre-test in between only reject candidates and are not modelled (they reject
   more than non-primes: also p with 2p+1 divisible by a table prime), so the model cannot predict WHICH candidate
   is returned, only that the returned one passes `sprime_accepts`. *)
From Coq Require Import ZArith List Bool.
From LT Require Import Zbase PowmModel.
Import ListNotations.
Local Open Scope Z_scope.

Section Oracle.
  Variable is_prime : Z -> bool.

  (* ---- tmcg_mpz_lprime ------------------------------------------------------------------------------------------ *)
  (* do wrandomb(q, qsize) while (sizeinbase(q) < qsize || !probab_prime(q)) *)
  Definition lprime_q_ok (qsize q : Z) : bool := (qsize <=? bitlen q) && is_prime q.

  Definition lprime_adjust (k : Z) : Z := if Z.odd k then k + 1 else k.

  (* one pass of the outer do-while with a cofactor candidate of sufficient size *)
  Definition lprime_try (psize q kraw : Z) : option (Z * Z) :=
    let k := lprime_adjust kraw in
    let p := q * k + 1 in
    if (Z.gcd k q =? 1) && (psize <=? bitlen p) && is_prime p then Some (p, k) else None.

  (* the k draws in order: too short ones are redrawn by the inner loop, the others are tried *)
  Fixpoint lprime_ks (psize qsize q : Z) (kcands : list Z) : option (Z * Z) :=
    match kcands with
    | [] => None
    | kraw :: tl =>
      if psize - qsize <=? bitlen kraw
      then match lprime_try psize q kraw with Some r => Some r | None => lprime_ks psize qsize q tl end
      else lprime_ks psize qsize q tl
    end.

  Inductive gen_outcome : Type :=
  | GenOk (p q k : Z)
  | GenThrow            (* invalid_argument "qsize >= psize" *)
  | GenMore.            (* the given candidates are exhausted: the loop would draw again *)

  Definition lprime_run (psize qsize : Z) (qcands kcands : list Z) : gen_outcome :=
    if psize <=? qsize then GenThrow
    else match find (lprime_q_ok qsize) qcands with
         | None => GenMore
         | Some q => match lprime_ks psize qsize q kcands with
                     | Some (p, k) => GenOk p q k
                     | None => GenMore
                     end
         end.

  (* ---- tmcg_mpz_sprime_test: start value and final acceptance ------------------------------------------------------ *)
  Inductive test_kind : Type := NoTest | Test7mod8 | Test3mod4.     (* notest / test7mod8 / test3mod4, :2024-2044 *)

  Definition extra_test (t : test_kind) (p : Z) : bool :=
    match t with NoTest => true | Test7mod8 => p mod 8 =? 7 | Test3mod4 => p mod 4 =? 3 end.

  (* do srandomb(q, qsize) while (sizeinbase(q) < qsize); if even: q + 1      :2140-2145 *)
  Definition sprime_start (qsize qraw : Z) : option Z :=
    if qsize <=? bitlen qraw then Some (if Z.even qraw then qraw + 1 else qraw) else None.

  (* additional test, step 4 (2^q = +-1 mod p) and step 5 (q probably prime)    :2183-2184,2214-2222 *)
  Definition sprime_final (t : test_kind) (q p : Z) : bool :=
    extra_test t p && ((powm 2 q p =? 1) || (powm 2 q p =? p - 1)) && is_prime q.

  (* (q, p) is a value the incremental search can return from the raw start qraw: q = q0 + 2i, i >= 1, p = 2q + 1 *)
  Definition sprime_accepts (t : test_kind) (qsize qraw q p : Z) : bool :=
    match sprime_start qsize qraw with
    | None => false
    | Some q0 => (q0 <? q) && Z.even (q - q0) && (p =? 2 * q + 1) && sprime_final t q p
    end.
End Oracle.
