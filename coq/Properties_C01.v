(* C01 -- Opening a masked card returns the type it was created with.
   Property theorems only: each is closed by `exact <lemma>` and followed by Print Assumptions. *)
From Coq Require Import ZArith Znumtheory List Lia Permutation Bool.
From LT Require Import gen_Consts Zbase PowmModel PowmLemmas VtmfModel VtmfLemmas VtmfCount TmcgModel TmcgLemmas.
Import ListNotations.
Local Open Scope Z_scope.

(* Discrete-log encoding.  For every admissible group (odd p, g of prime order q modulo p: Schnorr group with
   random or canonical generator, or the QR group of a safe prime), every number of players with every key
   vector, every type T < 2^w <= q, every chain of re-maskings (any length, any exponents the tables are built
   for, timing protection on or off per step): opened with the shares of all players the card has type T. *)
Theorem C01_vtmf_open : forall G w x_own others T chain,
  wf_group G -> 2 ^ Z.of_nat w <= gq G -> Z.of_nat w <= TMCG_MAX_FPOWM_T ->
  wfe G x_own -> Forall (wfe G) others -> 0 <= T < 2 ^ Z.of_nat w -> Forall (fun rb => wfe G (fst rb)) chain ->
  open_run G w x_own others others T chain = inl T.
Proof. exact open_all_shares. Qed.
Print Assumptions C01_vtmf_open.

(* Exact result when the players in `missing` do not contribute: with R the sum of all masking exponents,
   the opening returns (T + R * sum missing) mod q if that is a valid type, and the sentinel 2^w otherwise. *)
Theorem C01_vtmf_missing_share_exact : forall G w x_own others contributing missing T chain,
  wf_group G -> 2 ^ Z.of_nat w <= gq G -> Z.of_nat w <= TMCG_MAX_FPOWM_T ->
  wfe G x_own -> Forall (wfe G) others -> Permutation others (contributing ++ missing) ->
  0 <= T < 2 ^ Z.of_nat w -> Forall (fun rb => wfe G (fst rb)) chain ->
  open_run G w x_own others contributing T chain
  = inl (expected_type G w (T + zsum (map fst chain) * zsum missing)).
Proof. exact open_run_spec. Qed.
Print Assumptions C01_vtmf_missing_share_exact.

(* ... in particular never T, unless q divides R * sum missing (probability 1/q over the coins) *)
Theorem C01_vtmf_missing_share_not_T : forall G w x_own others contributing missing T chain t,
  wf_group G -> 2 ^ Z.of_nat w <= gq G -> Z.of_nat w <= TMCG_MAX_FPOWM_T ->
  wfe G x_own -> Forall (wfe G) others -> Permutation others (contributing ++ missing) ->
  0 <= T < 2 ^ Z.of_nat w -> Forall (fun rb => wfe G (fst rb)) chain ->
  (zsum (map fst chain) * zsum missing) mod gq G <> 0 ->
  open_run G w x_own others contributing T chain = inl t -> t <> T.
Proof. exact open_missing_not_T. Qed.
Print Assumptions C01_vtmf_missing_share_not_T.

(* "Returns the sentinel instead of T" holds only up to the 2^w - 1 residues that are valid types: the
   unconditional statement is refuted by a concrete run (q = 11, w = 2: type 1 opens as type 3). *)
Theorem C01_vtmf_missing_share_always_sentinel_refuted :
  exists G w x_own others contributing T chain t,
    wf_group G /\ 2 ^ Z.of_nat w <= gq G /\ wfe G x_own /\ Forall (wfe G) others /\
    contributing <> others /\ 0 <= T < 2 ^ Z.of_nat w /\
    open_run G w x_own others contributing T chain = inl t /\ t <> T /\ t <> 2 ^ Z.of_nat w.
Proof. exact open_missing_valid_type_witness. Qed.
Print Assumptions C01_vtmf_missing_share_always_sentinel_refuted.

(* The counting form of "up to negligible probability".  By C01_vtmf_missing_share_exact an opening without the players
   whose keys sum to xJ returns outcome_for G w T xJ R = expected_type G w (T + R * xJ), R the accumulated masking exponent.
   For xJ not divisible by q, R |-> (T + R*xJ) mod q permutes Z_q; so over the q residues R = 0 .. q-1: *)
Theorem C01_missing_share_count_T : forall G w T xJ, prime (gq G) -> 2 ^ Z.of_nat w <= gq G ->
  0 <= T < 2 ^ Z.of_nat w -> xJ mod gq G <> 0 ->
  length (filter (fun R => outcome_for G w T xJ R =? T) (zseq (Z.to_nat (gq G)))) = 1%nat.
Proof. exact count_correct. Qed.
Print Assumptions C01_missing_share_count_T.

Theorem C01_missing_share_count_wrong_valid : forall G w T xJ, prime (gq G) -> 2 ^ Z.of_nat w <= gq G ->
  0 <= T < 2 ^ Z.of_nat w -> xJ mod gq G <> 0 ->
  Z.of_nat (length (filter (fun R => (outcome_for G w T xJ R <? 2 ^ Z.of_nat w) && negb (outcome_for G w T xJ R =? T))
                           (zseq (Z.to_nat (gq G))))) = 2 ^ Z.of_nat w - 1.
Proof. exact count_wrong_valid. Qed.
Print Assumptions C01_missing_share_count_wrong_valid.

Theorem C01_missing_share_count_sentinel : forall G w T xJ, prime (gq G) -> 2 ^ Z.of_nat w <= gq G ->
  xJ mod gq G <> 0 ->
  Z.of_nat (length (filter (fun R => outcome_for G w T xJ R =? 2 ^ Z.of_nat w) (zseq (Z.to_nat (gq G)))))
  = gq G - 2 ^ Z.of_nat w.
Proof. exact count_sentinel. Qed.
Print Assumptions C01_missing_share_count_sentinel.

(* Verify_Update verifies first and multiplies afterwards: a rejected share leaves the decryption state d unchanged ... *)
Theorem C01_rejected_share_unchanged : forall G d dj, dec_update G d (dj, false) = (false, d).
Proof. exact rejected_update_unchanged. Qed.
Print Assumptions C01_rejected_share_unchanged.

(* ... so over an arbitrary list of update attempts only the accepted ones count, in their order ... *)
Theorem C01_only_accepted_updates_count : forall G atts d,
  dec_attempts G d atts = dec_accumulate G d (map fst (filter snd atts)).
Proof. exact dec_attempts_filter. Qed.
Print Assumptions C01_only_accepted_updates_count.

(* ... and opening after ANY interleaving of rejected offers (Bad) and correct shares (Good) returns T as soon as the
   correct shares of all other players are among the offers *)
Theorem C01_open_after_rejected_shares : forall G w x_own others atts T chain,
  wf_group G -> 2 ^ Z.of_nat w <= gq G -> Z.of_nat w <= TMCG_MAX_FPOWM_T ->
  wfe G x_own -> Forall (wfe G) others -> Permutation others (goods atts) ->
  0 <= T < 2 ^ Z.of_nat w -> Forall (fun rb => wfe G (fst rb)) chain ->
  open_run_att G w x_own others atts T chain = inl T.
Proof. exact open_after_rejected_shares. Qed.
Print Assumptions C01_open_after_rejected_shares.

(* Quadratic-residue encoding.  nqr i is player i's residuosity test, J i the units of Jacobi symbol +1 and
   U i the units modulo m_i; the premises are the algebra of a valid key (squares are residues, y_i is a
   non-residue of Jacobi symbol +1).  For every k >= 1, w, T < 2^w and every chain of maskings with admissible
   secrets, the XOR over all players of the residuosity bits is T. *)
Theorem C01_tmcg_open : forall (k w : nat) (km ky : nat -> Z) (nqr : nat -> Z -> bool)
    (J U : nat -> Z -> Prop),
  (forall i, J i 1) -> (forall i, J i (ky i)) ->
  (forall i z r, J i z -> U i r -> J i ((((r * r) mod km i) * z) mod km i)) ->
  (forall i z, J i z -> J i ((z * ky i) mod km i)) ->
  (forall i, nqr i 1 = false) -> (forall i, nqr i (ky i) = true) ->
  (forall i z r, J i z -> U i r -> nqr i ((((r * r) mod km i) * z) mod km i) = nqr i z) ->
  (forall i z, J i z -> nqr i ((z * ky i) mod km i) = negb (nqr i z)) ->
  (0 < k)%nat ->
  forall T chain, 0 <= T < 2 ^ Z.of_nat w -> Forall (good_secret k w U) chain ->
  type_of_card k w (self_bits nqr (mask_chain km ky (open_card_qr ky T) chain)) = T.
Proof. exact tmcg_open_ok. Qed.
Print Assumptions C01_tmcg_open.

(* ... restated for arbitrary announced integers: TMCG_VerifyCardSecret stores the received number unchecked and selects the
   proof by its PARITY, TMCG_TypeOfCard toggles by parity; any matrix B of announced values whose parities are the verified
   residuosities opens to T (0/1, 2, -3, 2^64 ... alike) *)
Theorem C01_tmcg_open_any_announced_bits : forall (k w : nat) (km ky : nat -> Z) (nqr : nat -> Z -> bool)
    (J U : nat -> Z -> Prop),
  (forall i, J i 1) -> (forall i, J i (ky i)) ->
  (forall i z r, J i z -> U i r -> J i ((((r * r) mod km i) * z) mod km i)) ->
  (forall i z, J i z -> J i ((z * ky i) mod km i)) ->
  (forall i, nqr i 1 = false) -> (forall i, nqr i (ky i) = true) ->
  (forall i z r, J i z -> U i r -> nqr i ((((r * r) mod km i) * z) mod km i) = nqr i z) ->
  (forall i z, J i z -> nqr i ((z * ky i) mod km i) = negb (nqr i z)) ->
  (0 < k)%nat ->
  forall T chain B, 0 <= T < 2 ^ Z.of_nat w -> Forall (good_secret k w U) chain ->
  (forall i j, (i < k)%nat -> (j < w)%nat -> Z.odd (B i j) = nqr i (mask_chain km ky (open_card_qr ky T) chain i j)) ->
  type_of_card k w B = T.
Proof. exact tmcg_open_any_bits. Qed.
Print Assumptions C01_tmcg_open_any_announced_bits.

(* the secrets TMCG_CreateCardSecret produces (row `index` = XOR of the others) are admissible *)
Theorem C01_tmcg_created_secret_admissible : forall (k w : nat) (U : nat -> Z -> Prop) index r b,
  (index < k)%nat -> (forall i j, (i < k)%nat -> (j < w)%nat -> U i (r i j)) ->
  good_secret k w U (r, complete_secret k index b).
Proof. exact completed_secret_good. Qed.
Print Assumptions C01_tmcg_created_secret_admissible.

(* non-vacuity *)
Example C01_nonvacuous_group : wf_group {| gp := 23; gq := 11; gg := 2 |}.
Proof. exact small_group_wf. Qed.
Example C01_nonvacuous_run :
  open_run {| gp := 23; gq := 11; gg := 2 |} 2 3 [5; 7] [5; 7] 3 [(4, true); (9, false)] = inl 3.
Proof. vm_compute. reflexivity. Qed.
Example C01_nonvacuous_rejected :
  open_run_att {| gp := 23; gq := 11; gg := 2 |} 2 3 [5; 7] [Bad 4; Good 7; Bad 9; Bad 1; Good 5] 3 [(4, true); (9, false)] = inl 3.
Proof. vm_compute. reflexivity. Qed.
