(* C19 -- field layouts of the OpenPGP packets the library emits or reads (RFC 4880 section 5, RFC 6637,
   4880bis for v5 keys / AEAD): body encoders written from the RFC field lists and the decoders as implemented
   (PacketDecodeTag1 .. PacketDecodeTag20, CallasDonnerhackeFinneyShawThayerRFC4880.cc:11486-12780).
   Definitions only; proofs are in PgpPacketLemmas.v. *)
From Coq Require Import ZArith NArith List Bool.
From LT Require Import PgpCodecModel PgpSigModel.
Import ListNotations.
Local Open Scope N_scope.

(* ------------------------------------------------------------------------------------------------ *)
(* fields                                                                                             *)
(* ------------------------------------------------------------------------------------------------ *)
Inductive key_material :=
| KmRSA (n e : N)
| KmElg (p g y : N)
| KmDSA (p q g y : N)
| KmECsig (oid : list N) (pk : N)                         (* ECDSA, EdDSA: curve OID, point *)
| KmECDH (oid : list N) (pk : N) (kdf_hash kdf_sk : N).   (* RFC 6637: plus KDF parameters 03 01 hash cipher *)

Inductive esk_material :=
| EskRSA (me : N)
| EskElg (gk myk : N)
| EskECDH (epk : N) (wrapped : list N).

Inductive s2k_spec :=
| S2kSimple (hash : N)
| S2kSalted (hash : N) (salt : list N)
| S2kIterated (hash : N) (salt : list N) (count : N).

Inductive packet_fields :=
| PfPkesk (keyid : list N) (algo : N) (esk : esk_material)                                   (* tag 1, version 3 *)
| PfSig4 (version type pkalgo hashalgo : N) (hashed unhashed left : list N) (mpis : list N)  (* tag 2, version 4/5 *)
| PfSig3 (type time : N) (issuer : list N) (pkalgo hashalgo : N) (left : list N) (mpis : list N)
| PfSkesk4 (skalgo : N) (s2k : s2k_spec) (esk : list N)                                      (* tag 3 *)
| PfSkesk5 (skalgo aeadalgo : N) (s2k : s2k_spec) (iv esk : list N)
| PfKey (tag version time algo : N) (km : key_material)                                      (* tags 6, 14 *)
| PfComp (algo : N) (data : list N)                                                          (* tag 8 *)
| PfSed (data : list N)                                                                      (* tag 9 *)
| PfLit (format : N) (filename : list N) (time : N) (data : list N)                          (* tag 11 *)
| PfUid (uid : list N)                                                                       (* tag 13 *)
| PfSeipd (data : list N)                                                                    (* tag 18, version 1 *)
| PfMdc (hash : list N)                                                                      (* tag 19 *)
| PfAead (skalgo aeadalgo chunksize : N) (iv data : list N).                                 (* tag 20, version 1 *)

Inductive decoded :=
| PdOk (f : packet_fields)
| PdError                 (* the decoder returns 0 *)
| PdUnsupported           (* the decoder returns one of its warning codes 0xFA .. 0xFE *)
| PdNotModelled.          (* tags 4, 5, 7, 10, 12, 17: decoded by the library, not by this model *)

(* ------------------------------------------------------------------------------------------------ *)
(* encoders (bodies): RFC field lists                                                                 *)
(* ------------------------------------------------------------------------------------------------ *)
Definition PK_ECDSA : N := 19. Definition PK_EDDSA : N := 22.

Definition km_octets (km : key_material) : list N :=
  match km with
  | KmRSA n e => mpi_encode n ++ mpi_encode e
  | KmElg p g y => mpi_encode p ++ mpi_encode g ++ mpi_encode y
  | KmDSA p q g y => mpi_encode p ++ mpi_encode q ++ mpi_encode g ++ mpi_encode y
  | KmECsig oid pk => len oid :: oid ++ mpi_encode pk
  | KmECDH oid pk h s => len oid :: oid ++ mpi_encode pk ++ [3; 1; h; s]
  end.

(* which key material an algorithm identifier announces *)
Definition km_matches (algo : N) (km : key_material) : bool :=
  match km with
  | KmRSA _ _ => (algo =? 1) || (algo =? 2) || (algo =? 3)
  | KmElg _ _ _ => algo =? 16
  | KmDSA _ _ _ _ => algo =? 17
  | KmECsig _ _ => (algo =? 19) || (algo =? 22)
  | KmECDH _ _ _ _ => algo =? 18
  end.

Definition key_body_v4 (time algo : N) (km : key_material) : list N := 4 :: be4 time ++ algo :: km_octets km.
(* version 5: a four-octet count of the key material octets follows the algorithm *)
Definition key_body_v5 (time algo : N) (km : key_material) : list N :=
  5 :: be4 time ++ algo :: be4 (len (km_octets km)) ++ km_octets km.

Definition esk_octets (e : esk_material) : list N :=
  match e with
  | EskRSA me => mpi_encode me
  | EskElg gk myk => mpi_encode gk ++ mpi_encode myk
  | EskECDH epk w => mpi_encode epk ++ len w :: w
  end.
Definition esk_matches (algo : N) (e : esk_material) : bool :=
  match e with
  | EskRSA _ => (algo =? 1) || (algo =? 2)
  | EskElg _ _ => algo =? 16
  | EskECDH _ _ => algo =? 18
  end.
Definition pkesk_body (keyid : list N) (algo : N) (e : esk_material) : list N := 3 :: keyid ++ algo :: esk_octets e.

Definition sig4_body (version type pkalgo hashalgo : N) (hashed unhashed left : list N) (mpis : list N) : list N :=
  version :: type :: pkalgo :: hashalgo :: be2 (len hashed) ++ hashed ++ be2 (len unhashed) ++ unhashed ++ left
    ++ concat (map mpi_encode mpis).
Definition sig3_body (type time : N) (issuer : list N) (pkalgo hashalgo : N) (left : list N) (mpis : list N) : list N :=
  3 :: 5 :: type :: be4 time ++ issuer ++ pkalgo :: hashalgo :: left ++ concat (map mpi_encode mpis).

Definition s2k_octets (s : s2k_spec) : list N :=
  match s with
  | S2kSimple h => [0; h]
  | S2kSalted h salt => 1 :: h :: salt
  | S2kIterated h salt c => 3 :: h :: salt ++ [c]
  end.
(* RFC 4880 5.3 (version 4) and 4880bis (version 5, AEAD) *)
Definition skesk4_body (skalgo : N) (s : s2k_spec) (esk : list N) : list N := 4 :: skalgo :: s2k_octets s ++ esk.
Definition skesk5_body (skalgo aead : N) (s : s2k_spec) (iv esk : list N) : list N :=
  5 :: skalgo :: aead :: s2k_octets s ++ iv ++ esk.

Definition comp_body (algo : N) (data : list N) : list N := algo :: data.
Definition lit_body (format : N) (filename : list N) (time : N) (data : list N) : list N :=
  format :: len filename :: filename ++ be4 time ++ data.
Definition seipd_body (data : list N) : list N := 1 :: data.
Definition aead_body (skalgo aead chunksize : N) (iv data : list N) : list N := 1 :: skalgo :: aead :: chunksize :: iv ++ data.

Definition fields_tag (f : packet_fields) : N :=
  match f with
  | PfPkesk _ _ _ => 1 | PfSig4 _ _ _ _ _ _ _ _ => 2 | PfSig3 _ _ _ _ _ _ _ => 2
  | PfSkesk4 _ _ _ => 3 | PfSkesk5 _ _ _ _ _ => 3 | PfKey tag _ _ _ _ => tag | PfComp _ _ => 8 | PfSed _ => 9
  | PfLit _ _ _ _ => 11 | PfUid _ => 13 | PfSeipd _ => 18 | PfMdc _ => 19 | PfAead _ _ _ _ _ => 20
  end.

Definition fields_body (f : packet_fields) : list N :=
  match f with
  | PfPkesk k a e => pkesk_body k a e
  | PfSig4 v t p h hs us l ms => sig4_body v t p h hs us l ms
  | PfSig3 t tm i p h l ms => sig3_body t tm i p h l ms
  | PfSkesk4 sk s e => skesk4_body sk s e
  | PfSkesk5 sk a s iv e => skesk5_body sk a s iv e
  | PfKey _ v tm a km => if v =? 5 then key_body_v5 tm a km else key_body_v4 tm a km
  | PfComp a d => comp_body a d
  | PfSed d => d
  | PfLit fm fn tm d => lit_body fm fn tm d
  | PfUid u => u
  | PfSeipd d => seipd_body d
  | PfMdc h => h
  | PfAead sk a cs iv d => aead_body sk a cs iv d
  end.

Definition packet_of (f : packet_fields) : list N := packet (fields_tag f) (fields_body f).

(* ------------------------------------------------------------------------------------------------ *)
(* decoders as implemented                                                                            *)
(* ------------------------------------------------------------------------------------------------ *)
(* k MPIs in a row; every one must decode (consumed > 0) *)
Fixpoint mpis_decode (k : nat) (l : list N) : option (list N * list N) :=
  match k with
  | O => Some ([], l)
  | S k' => match mpi_decode l with
            | Some (v, c) => match mpis_decode k' (skipn c l) with
                             | Some (vs, r) => Some (v :: vs, r)
                             | None => None
                             end
            | None => None
            end
  end.
(* PacketDecodeTag1/Tag2 insist on more than two octets before each MPI *)
Fixpoint mpis_decode_strict (k : nat) (l : list N) : option (list N * list N) :=
  match k with
  | O => Some ([], l)
  | S k' => if (length l <=? 2)%nat then None
            else match mpi_decode l with
                 | Some (v, c) => match mpis_decode_strict k' (skipn c l) with
                                  | Some (vs, r) => Some (v :: vs, r)
                                  | None => None
                                  end
                 | None => None
                 end
  end.

Definition oid_split (l : list N) : option (list N * list N) :=
  match l with
  | n :: r => if (n =? 0) || (n =? 255) then None
              else if len r <? n then None
              else Some (firstn (N.to_nat n) r, skipn (N.to_nat n) r)
  | [] => None
  end.

Definition decode_key (tag : N) (body : list N) : decoded :=
  if (length body <? 10)%nat then PdError
  else match body with
  | v :: t1 :: t2 :: t3 :: t4 :: algo :: r =>
      let time := be_value [t1; t2; t3; t4] in
      if negb ((v =? 4) || (v =? 5)) then PdUnsupported
      else
        let m := if v =? 4 then r else skipn 4 r in
        if (algo =? 1) || (algo =? 2) || (algo =? 3) then
          match mpis_decode 2 m with Some ([n; e], _) => PdOk (PfKey tag v time algo (KmRSA n e)) | _ => PdError end
        else if algo =? 16 then
          match mpis_decode 3 m with Some ([p; g; y], _) => PdOk (PfKey tag v time algo (KmElg p g y)) | _ => PdError end
        else if algo =? 17 then
          match mpis_decode 4 m with Some ([p; q; g; y], _) => PdOk (PfKey tag v time algo (KmDSA p q g y)) | _ => PdError end
        else if algo =? 18 then
          match oid_split m with
          | Some (oid, r2) =>
              match mpis_decode 1 r2 with
              | Some ([pk], [a; b; h; s]) => if (a =? 3) && (b =? 1) then PdOk (PfKey tag v time algo (KmECDH oid pk h s)) else PdError
              | _ => PdError
              end
          | None => PdError
          end
        else if (algo =? 19) || (algo =? 22) then
          match oid_split m with
          | Some (oid, r2) => match mpis_decode 1 r2 with Some ([pk], _) => PdOk (PfKey tag v time algo (KmECsig oid pk)) | _ => PdError end
          | None => PdError
          end
        else PdUnsupported
  | _ => PdError
  end.

Definition decode_pkesk (body : list N) : decoded :=
  if (length body <? 16)%nat then PdError
  else match body with
  | v :: r =>
      if negb (v =? 3) then PdUnsupported
      else
        let keyid := firstn 8 r in
        match skipn 8 r with
        | algo :: m =>
            if (algo =? 1) || (algo =? 2) then
              match mpis_decode_strict 1 m with Some ([me], _) => PdOk (PfPkesk keyid algo (EskRSA me)) | _ => PdError end
            else if algo =? 16 then
              match mpis_decode_strict 2 m with Some ([gk; myk], _) => PdOk (PfPkesk keyid algo (EskElg gk myk)) | _ => PdError end
            else if algo =? 18 then
              match mpis_decode_strict 1 m with
              | Some ([epk], r2) =>
                  if (length r2 <=? 2)%nat then PdError
                  else match r2 with
                       | n :: w => if (n =? 0) || (n =? 255) then PdError
                                   else if len w <? n then PdError
                                   else PdOk (PfPkesk keyid algo (EskECDH epk (firstn (N.to_nat n) w)))
                       | [] => PdError
                       end
              | _ => PdError
              end
            else PdUnsupported
        | [] => PdError
        end
  | [] => PdError
  end.

(* the subpacket areas must be well formed for the library (SubpacketParse); the model checks the framing and
   the subpacket types it knows (see PgpSigModel.subpkts_fields) *)
Definition area_ok (area : list N) : bool :=
  match subpkts_fields (S (length area)) area
          {| sf_version := 0; sf_type := 0; sf_pkalgo := 0; sf_hashalgo := 0; sf_created := 0; sf_sigexp := 0;
             sf_keyexp := 0; sf_flags := []; sf_issuer := [] |} with
  | Some _ => true | None => false
  end.

Definition sig_mpi_count (pkalgo : N) : option nat :=
  if (pkalgo =? 1) || (pkalgo =? 3) then Some 1%nat
  else if (pkalgo =? 17) || (pkalgo =? 19) || (pkalgo =? 22) then Some 2%nat
  else None.

Definition decode_sig (body : list N) : decoded :=
  match body with
  | [] => PdError
  | v :: _ =>
    if v =? 3 then
      if (length body <? 22)%nat then PdError
      else match body with
      | _ :: five :: ty :: t1 :: t2 :: t3 :: t4 :: r =>
          if negb (five =? 5) then PdError
          else
            let issuer := firstn 8 r in
            match skipn 8 r with
            | pk :: h :: l1 :: l2 :: m =>
                match sig_mpi_count pk with
                | None => PdUnsupported
                | Some k => match mpis_decode_strict k m with
                            | Some (ms, _) => PdOk (PfSig3 ty (be_value [t1; t2; t3; t4]) issuer pk h [l1; l2] ms)
                            | None => PdError
                            end
                end
            | _ => PdError
            end
      | _ => PdError
      end
    else if (v =? 4) || (v =? 5) then
      if (length body <? 12)%nat then PdError
      else match body with
      | _ :: ty :: pk :: h :: a :: b :: r =>
          let hl := N.to_nat (a * 256 + b) in
          if (length r <? hl)%nat then PdError
          else
            let hashed := firstn hl r in
            if negb (area_ok hashed) then PdError
            else match skipn hl r with
            | c :: d :: r2 =>
                let ul := N.to_nat (c * 256 + d) in
                if (length r2 <? ul)%nat then PdError
                else
                  let unhashed := firstn ul r2 in
                  if negb (area_ok unhashed) then PdError
                  else match skipn ul r2 with
                  | l1 :: l2 :: m =>
                      match sig_mpi_count pk with
                      | None => PdUnsupported
                      | Some k => match mpis_decode_strict k m with
                                  | Some (ms, _) => PdOk (PfSig4 v ty pk h hashed unhashed [l1; l2] ms)
                                  | None => PdError
                                  end
                      end
                  | _ => PdError
                  end
            | _ => PdError
            end
      | _ => PdError
      end
    else PdUnsupported
  end.

Definition aead_ivlen_n (aead : N) : nat := if aead =? 1 then 16%nat else if aead =? 2 then 15%nat else 0%nat.

Definition decode_skesk (body : list N) : decoded :=
  match body with
  | [] => PdError
  | v :: _ =>
    if v =? 4 then
      match body with
      | _ :: sk :: st :: h :: r =>
          if st =? 0 then PdOk (PfSkesk4 sk (S2kSimple h) r)
          else if st =? 1 then
            if (length r <? 8)%nat then PdError else PdOk (PfSkesk4 sk (S2kSalted h (firstn 8 r)) (skipn 8 r))
          else if st =? 3 then
            if (length r <? 9)%nat then PdError
            else PdOk (PfSkesk4 sk (S2kIterated h (firstn 8 r) (nth 8 r 0)) (skipn 9 r))
          else PdUnsupported
      | _ => PdError
      end
    else if v =? 5 then
      match body with
      | _ :: sk :: ae :: st :: h :: r =>
          let ivl := aead_ivlen_n ae in
          if st =? 0 then
            if (length r <? ivl)%nat then PdError
            else if (length r =? ivl)%nat then PdError
            else PdOk (PfSkesk5 sk ae (S2kSimple h) (firstn ivl r) (skipn ivl r))
          else if st =? 1 then
            if (length r <? 8 + ivl)%nat then PdError
            else if (length r =? 8 + ivl)%nat then PdError
            else PdOk (PfSkesk5 sk ae (S2kSalted h (firstn 8 r)) (firstn ivl (skipn 8 r)) (skipn (8 + ivl) r))
          else if st =? 3 then
            if (length r <? 9 + ivl)%nat then PdError
            else if (length r =? 9 + ivl)%nat then PdError
            else PdOk (PfSkesk5 sk ae (S2kIterated h (firstn 8 r) (nth 8 r 0)) (firstn ivl (skipn 9 r)) (skipn (9 + ivl) r))
          else PdUnsupported
      | _ => PdError
      end
    else PdUnsupported
  end.

Definition decode_lit (body : list N) : decoded :=
  match body with
  | fm :: fl :: r =>
      let n := N.to_nat fl in
      if (length r <? n + 4)%nat then PdError
      else
        let data := skipn (n + 4) r in
        match data with
        | [] => PdError                      (* "error: no data" *)
        | _ => PdOk (PfLit fm (firstn n r) (be_value (firstn 4 (skipn n r))) data)
        end
  | _ => PdError
  end.

Definition decode_aead (body : list N) : decoded :=
  match body with
  | v :: sk :: ae :: cs :: r =>
      if negb (v =? 1) then PdUnsupported
      else
        let ivl := aead_ivlen_n ae in
        if (length r <=? ivl)%nat then PdError
        else PdOk (PfAead sk ae cs (firstn ivl r) (skipn ivl r))
  | _ => PdError
  end.

Definition decode_body (tag : N) (newformat : bool) (body : list N) : decoded :=
  if tag =? 1 then decode_pkesk body
  else if tag =? 2 then decode_sig body
  else if tag =? 3 then decode_skesk body
  else if (tag =? 6) || (tag =? 14) then decode_key tag body
  else if tag =? 8 then match body with a :: (_ :: _) as d => PdOk (PfComp a d) | _ => PdError end
  else if tag =? 9 then match body with [] => PdError | _ => PdOk (PfSed body) end
  else if tag =? 11 then decode_lit body
  else if tag =? 13 then PdOk (PfUid body)
  else if tag =? 18 then
    match body with
    | v :: d => match d with [] => PdError | _ => if v =? 1 then PdOk (PfSeipd d) else PdUnsupported end
    | [] => PdError
    end
  else if tag =? 19 then if negb newformat then PdError else if (length body =? 20)%nat then PdOk (PfMdc body) else PdError
  else if tag =? 20 then decode_aead body
  else if (tag =? 4) || (tag =? 5) || (tag =? 7) || (tag =? 10) || (tag =? 12) || (tag =? 17) then PdNotModelled
  else PdUnsupported.

(* PacketDecode: header (as PacketBodyExtract) and body *)
Definition packet_decode (l : list N) : decoded :=
  match body_extract l with
  | None => PdError
  | Some (tag, body) =>
      let newformat := match l with t :: _ => 64 <=? t mod 128 | [] => false end in
      decode_body tag newformat body
  end.

(* ------------------------------------------------------------------------------------------------ *)
(* The hashed part of a signature as the PacketSigPrepare* functions build it (:8598-9320): a list of   *)
(* subpackets (type, critical, body) per RFC 4880 5.2.3.x / 4880bis, framed by `subpacket`             *)
(* ------------------------------------------------------------------------------------------------ *)
Definition sp := (N * bool * list N)%type.
Definition area_of (l : list sp) : list N := concat (map (fun s : sp => let '(t, c, b) := s in subpacket t c b) l).
Definition prepared (version type pkalgo hashalgo : N) (l : list sp) : list N :=
  version :: type :: pkalgo :: hashalgo :: be2 (len (area_of l)) ++ area_of l.

Definition sp_issuer (crit : bool) (issuer : list N) : list sp :=
  if (length issuer =? 20)%nat then [(16, crit, skipn 12 issuer)]
  else if (length issuer =? 8)%nat then [(16, crit, issuer)] else [].
Definition sp_issuerfpr4 (issuer : list N) : list sp :=
  if (length issuer =? 20)%nat then [(33, false, 4 :: issuer)] else [].
Definition sp_opt_time (t : N) (v : N) : list sp := if v mod 18446744073709551616 =? 0 then [] else [(t, false, be4 v)].
Definition sp_policy (p : list N) : list sp := match p with [] => [] | _ => [(26, false, p)] end.
(* 5.2.3.16: four flag octets (human readable), two-octet name length, two-octet value length, name, value *)
Definition sp_notation (nv : list N * list N) : sp :=
  (20, false, [128; 0; 0; 0] ++ be2 (len (fst nv)) ++ be2 (len (snd nv)) ++ fst nv ++ snd nv).
Definition sp_prefs (flags : list N) (bis : bool) : list sp :=
  [(21, false, [10; 9; 8]); (22, false, [1]); (23, false, [128]); (27, false, flags); (30, false, [if bis then 3 else 1])].
Definition sp_aead_prefs (bis : bool) : list sp := if bis then [(34, false, [1; 2])] else [].

Definition prep_self (type pk h sigtime keyexp : N) (flags issuer : list N) (bis : bool) : list N :=
  prepared 4 type pk h ([(2, false, be4 sigtime)] ++ sp_opt_time 9 keyexp ++ [(11, false, [9; 10])] ++ sp_issuer false issuer
                        ++ sp_prefs flags bis ++ sp_issuerfpr4 issuer ++ sp_aead_prefs bis).
Definition prep_revoker (pk h sigtime : N) (flags issuer : list N) (pk2 : N) (revoker : list N) (bis : bool) : list N :=
  prepared 4 31 pk h ([(2, false, be4 sigtime); (11, false, [9; 10])]
                      ++ (match revoker with [] => [] | _ => [(12, true, 128 :: pk2 :: firstn 20 revoker)] end)
                      ++ sp_issuer false issuer ++ sp_prefs flags bis ++ sp_issuerfpr4 issuer ++ sp_aead_prefs bis).
Definition prep_detached (type pk h sigtime sigexp : N) (policy issuer : list N) : list N :=
  prepared 4 type pk h ([(2, false, be4 sigtime)] ++ sp_opt_time 3 sigexp ++ sp_issuer false issuer ++ sp_policy policy
                        ++ (if (length issuer =? 20)%nat then [(33, false, 4 :: issuer)]
                            else if (length issuer =? 32)%nat then [(33, false, 5 :: issuer)] else [])).
Definition prep_detached_v5 (type pk h sigtime sigexp : N) (policy issuerfpr : list N) : list N :=
  prepared 5 type pk h ([(2, false, be4 sigtime)] ++ sp_opt_time 3 sigexp ++ sp_policy policy
                        ++ [(33, false, (if (length issuerfpr =? 20)%nat then 4 else if (length issuerfpr =? 32)%nat then 5 else 0) :: issuerfpr)]).
Definition prep_revocation (type pk h sigtime revcode : N) (reason issuer : list N) : list N :=
  prepared 4 type pk h ([(2, false, be4 sigtime)] ++ sp_issuer false issuer ++ [(29, false, revcode :: reason)] ++ sp_issuerfpr4 issuer).
Definition prep_certification (type pk h sigtime sigexp : N) (policy issuer : list N) : list N :=
  prepared 4 type pk h ([(2, false, be4 sigtime)] ++ sp_opt_time 3 sigexp ++ sp_issuer false issuer ++ sp_policy policy ++ sp_issuerfpr4 issuer).
Definition prep_timestamp_hash (pk h sigtime : N) (policy issuer : list N) (tpk th : N) (thash : list N)
    (notations : list (list N * list N)) : list N :=
  prepared 4 64 pk h ([(2, true, be4 sigtime); (7, true, [0])] ++ sp_issuer true issuer ++ map sp_notation notations ++ sp_policy policy
                      ++ [(31, true, tpk :: th :: thash)] ++ sp_issuerfpr4 issuer).
Definition prep_timestamp_sig (pk h sigtime : N) (policy issuer target : list N) (notations : list (list N * list N)) : list N :=
  prepared 4 64 pk h ([(2, true, be4 sigtime); (7, true, [0])] ++ sp_issuer true issuer ++ map sp_notation notations ++ sp_policy policy
                      ++ [(32, true, target)] ++ sp_issuerfpr4 issuer).
Definition prep_attestation (pk h sigtime : N) (policy issuer attested : list N) (notations : list (list N * list N)) : list N :=
  prepared 4 22 pk h ([(2, true, be4 sigtime)] ++ sp_issuer true issuer ++ map sp_notation notations ++ sp_policy policy
                      ++ sp_issuerfpr4 issuer ++ [(37, true, attested)]).
