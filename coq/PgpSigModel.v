(* C20 -- OpenPGP signatures and encryption: the framing and decision logic of
   CallasDonnerhackeFinneyShawThayerRFC4880.cc that decides what is hashed, when a signature is valid and when
   a decrypted message is released.  Cryptographic primitives (hash, cipher, AEAD, public-key verification) are
   parameters of the definitions that use them.  Definitions only; proofs are in PgpSigLemmas.v. *)
From Coq Require Import ZArith NArith List Bool.
From LT Require Import PgpCodecModel.
Import ListNotations.
Local Open Scope N_scope.

(* ------------------------------------------------------------------------------------------------ *)
(* What a signature hashes (RFC 4880 5.2.4; :13078-13910 and TMCG_OpenPGP_Signature::VerifyData)     *)
(* ------------------------------------------------------------------------------------------------ *)
(* the part of the signature packet that is hashed after the signed data *)
Definition sig_trailer_v3 (type time : N) : list N := type :: be4 time.
Definition sig_trailer_v4 (type pkalgo hashalgo : N) (hspd : list N) : list N :=
  4 :: type :: pkalgo :: hashalgo :: be2 (len hspd) ++ hspd.
(* version 5 as implemented: document signatures append six further octets (format, file name length, date;
   zero for detached signatures) before the final length field *)
Definition sig_trailer_v5 (type pkalgo hashalgo : N) (hspd meta : list N) : list N :=
  5 :: type :: pkalgo :: hashalgo :: be2 (len hspd) ++ hspd ++ meta.

Definition tail_v4 (trailer : list N) : list N := 4 :: 255 :: be4 (len trailer).
Definition tail_v5 (trailer : list N) : list N := 5 :: 255 :: be8 (len trailer).

(* canonical text: a line feed not preceded by a carriage return gets one *)
Fixpoint text_canon_from (last : N) (data : list N) : list N :=
  match data with
  | [] => []
  | c :: r => (if (c =? 10) && negb (last =? 13) then [13; c] else [c]) ++ text_canon_from c r
  end.
Definition text_canon (data : list N) : list N := text_canon_from 33 data.

(* what is signed *)
Inductive signed_object :=
| SoBinary (data : list N)
| SoText (data : list N)
| SoStandalone
| SoCertUid (key uid : list N)             (* key packet body, user ID *)
| SoCertUat (key uat : list N)             (* key packet body, user attribute *)
| SoKey (key : list N)                     (* direct key signature / key revocation *)
| SoSubkey (primary subkey : list N).      (* subkey binding, primary key binding, subkey revocation *)

Definition key_frame_v4 (key : list N) : list N := 153 :: be2 (len key) ++ key.
Definition key_frame_v5 (key : list N) : list N := 154 :: be4 (len key) ++ key.

Definition signed_octets_v4 (o : signed_object) : list N :=
  match o with
  | SoBinary d => d
  | SoText d => text_canon d
  | SoStandalone => []
  | SoCertUid k u => key_frame_v4 k ++ 180 :: be4 (len u) ++ u
  | SoCertUat k u => key_frame_v4 k ++ 209 :: be4 (len u) ++ u
  | SoKey k => key_frame_v4 k
  | SoSubkey p s => key_frame_v4 p ++ key_frame_v4 s
  end.

(* CertificationHash chooses the user-attribute form iff the attribute argument is non-empty *)
Definition cert_object (key uid uat : list N) : signed_object :=
  match uat with [] => SoCertUid key uid | _ => SoCertUat key uat end.

Definition hash_input_v4 (o : signed_object) (trailer : list N) : list N :=
  signed_octets_v4 o ++ trailer ++ tail_v4 trailer.

(* version 3: no final length field, user IDs without prefix *)
Definition signed_octets_v3 (o : signed_object) : list N :=
  match o with
  | SoCertUid k u => key_frame_v4 k ++ u
  | _ => signed_octets_v4 o
  end.
Definition hash_input_v3 (o : signed_object) (trailer : list N) : list N := signed_octets_v3 o ++ trailer.

Definition signed_octets_v5 (o : signed_object) : list N :=
  match o with
  | SoBinary d => d
  | SoText d => text_canon d
  | SoStandalone => []
  | SoCertUid k u => key_frame_v5 k ++ 180 :: be4 (len u) ++ u
  | SoCertUat k u => key_frame_v5 k ++ 209 :: be4 (len u) ++ u
  | SoKey k => key_frame_v5 k
  | SoSubkey p s => key_frame_v5 p ++ key_frame_v5 s
  end.
Definition hash_input_v5 (o : signed_object) (trailer : list N) : list N :=
  signed_octets_v5 o ++ trailer ++ tail_v5 trailer.

Definition left16 (hash : list N) : list N := firstn 2 hash.

(* every line feed is preceded by a carriage return ([last] = the octet before the text) *)
Fixpoint crlf_okb (last : N) (d : list N) : bool :=
  match d with
  | [] => true
  | c :: r => (negb (c =? 10) || (last =? 13)) && crlf_okb c r
  end.
Definition canonical_text (d : list N) : bool := crlf_okb 33 d.

(* what TMCG_OpenPGP_Signature::VerifyData hashes for a document signature of the given version (:505-860):
   version 3: type and creation time; version 4: the hashed part of the packet; version 5: the hashed part followed by
   six octets of literal-data metadata -- zeros for a detached signature, format / file name / date otherwise *)
Definition v5_meta_detached : list N := repeat 0 6.
Definition v5_meta_literal (format : N) (filename : list N) (time : N) : list N := format :: len filename :: filename ++ be4 time.

Definition verify_hash_input (version type pkalgo hashalgo : N) (hspd : list N) (creation : N) (meta : list N)
    (text : bool) (data : list N) : option (list N) :=
  let o := if text then SoText data else SoBinary data in
  if version =? 3 then Some (hash_input_v3 o (sig_trailer_v3 type creation))
  else if version =? 4 then Some (hash_input_v4 o (sig_trailer_v4 type pkalgo hashalgo hspd))
  else if version =? 5 then Some (hash_input_v5 o (sig_trailer_v5 type pkalgo hashalgo hspd meta))
  else None.

(* ------------------------------------------------------------------------------------------------ *)
(* Validity rules (TMCG_OpenPGP_Signature::CheckValidity, :389-437) and integrity (:439-500)          *)
(* ------------------------------------------------------------------------------------------------ *)
Inductive validity := Valid | Expired | OlderThanKey | FarFuture | WeakHash.

Definition strong_hash (h : N) : bool := (h =? 8) || (h =? 9) || (h =? 10) || (h =? 12) || (h =? 14).
Definition future_slack : Z := (60 * 60 * 25)%Z.

Definition check_validity (current creation expiration keycreation : Z) (hashalgo : N) : validity :=
  if (negb (expiration =? 0)%Z && (creation + expiration <? current)%Z) then Expired
  else if (creation <? keycreation)%Z then OlderThanKey
  else if (current + future_slack <? creation)%Z then FarFuture
  else if negb (strong_hash hashalgo) then WeakHash
  else Valid.

Inductive sig_algo := SigRSA | SigDSA | SigECDSA | SigEdDSA | SigUnsupported.
Definition sig_algo_of (pkalgo : N) : sig_algo :=
  if (pkalgo =? 1) || (pkalgo =? 3) then SigRSA
  else if pkalgo =? 17 then SigDSA
  else if pkalgo =? 19 then SigECDSA
  else if pkalgo =? 22 then SigEdDSA
  else SigUnsupported.

(* quick check on the left 16 bits (only when exactly two octets were parsed), then the primitive *)
Definition check_integrity (verify : sig_algo -> list N -> bool) (pkalgo : N) (left hash : list N) : bool :=
  if ((length left =? 2)%nat && negb (octets_eqb left (left16 hash))) then false
  else match sig_algo_of pkalgo with
       | SigUnsupported => false
       | a => verify a hash
       end.

(* ------------------------------------------------------------------------------------------------ *)
(* Message decryption (TMCG_OpenPGP_Message::Decrypt / CheckMDC, :6634-6847)                          *)
(* ------------------------------------------------------------------------------------------------ *)
Record enc_message := {
  have_sed : bool; have_seipd : bool; have_aead : bool;
  enc_data : list N
}.

Inductive dec_result :=
| DecOk (out : list N)
| DecNoData | DecBadKey | DecCipherError | DecNoMDC | DecBadMDC | DecUnprotected.

Definition mdc_input (prefix body : list N) : list N := prefix ++ body ++ [211; 20].   (* 0xD3 0x14 *)

Definition check_mdc (sha1 : list N -> list N) (seipd : bool) (prefix mdc body : list N) : bool :=
  seipd && negb (length prefix =? 0)%nat && negb (length mdc =? 0)%nat && negb (length body =? 0)%nat
  && octets_eqb mdc (sha1 (mdc_input prefix body)).

(* [key_ok]: the session key has one of the three accepted lengths; [cfb_dec] returns prefix and plaintext;
   [aead_dec] is SymmetricDecryptAEAD *)
Definition decrypt (sha1 : list N -> list N)
    (cfb_dec : list N -> option (list N * list N)) (aead_dec : list N -> option (list N))
    (key_ok : bool) (m : enc_message) : dec_result :=
  match enc_data m with
  | [] => DecNoData
  | _ =>
    if negb key_ok then DecBadKey
    else if have_aead m then
      match aead_dec (enc_data m) with Some out => DecOk out | None => DecCipherError end
    else
      match cfb_dec (enc_data m) with
      | None => DecCipherError
      | Some (prefix, out) =>
          if have_seipd m then
            let n := length out in
            if (n <? 22)%nat then DecNoMDC
            else if negb ((nth (n - 22) out 0 =? 211) && (nth (n - 21) out 0 =? 20)) then DecNoMDC
            else if check_mdc sha1 true prefix (skipn (n - 20) out) (firstn (n - 22) out) then DecOk out
            else DecBadMDC
          else DecUnprotected
      end
  end.

(* ------------------------------------------------------------------------------------------------ *)
(* AEAD chunking (SymmetricEncryptAEAD / SymmetricDecryptAEAD, :14079-15498)                          *)
(* ------------------------------------------------------------------------------------------------ *)
Inductive aead_mode := EAX | OCB.
Definition aead_ivlen (a : aead_mode) : nat := match a with EAX => 16%nat | OCB => 15%nat end.

(* xor an eight-octet big-endian value into the last eight octets of the nonce *)
Fixpoint xor_zip (a b : list N) : list N :=
  match a, b with
  | p :: a', q :: b' => N.lxor p q :: xor_zip a' b'
  | _, _ => a
  end.
Definition xor_tail (iv x : list N) : list N :=
  let k := (length iv - length x)%nat in firstn k iv ++ xor_zip (skipn k iv) x.

(* as implemented: the nonce buffer is updated in place, so chunk c uses IV xor (0 xor 1 xor ... xor c) *)
Fixpoint cum_xor (c : nat) : N := match c with O => 0 | S k => N.lxor (cum_xor k) (N.of_nat (S k)) end.
Definition chunk_nonce_impl (iv : list N) (c : nat) : list N := xor_tail iv (be8 (cum_xor c)).
(* RFC 4880bis 5.16.1/5.16.2: starting IV xor chunk index *)
Definition chunk_nonce_rfc (iv : list N) (c : nat) : list N := xor_tail iv (be8 (N.of_nat c)).

(* associated data: packet tag 0xD4, version, cipher, mode, chunk size octet, chunk index;
   the final tag additionally covers the total number of plaintext octets *)
Definition aead_ad_prefix (version skalgo aeadalgo chunksize : N) : list N := [212; version; skalgo; aeadalgo; chunksize].
Definition chunk_ad (pre : list N) (idx : N) : list N := pre ++ be8 idx.
Definition final_ad (pre : list N) (idx total : N) : list N := pre ++ be8 idx ++ be8 total.

Definition chunk_dim (chunksize : N) : N := 2 ^ (chunksize + 6).
(* number of full chunks before the last (possibly full, never empty) chunk *)
Definition enc_full_chunks (chunksize plain_len : N) : N := (plain_len - 1) / chunk_dim chunksize.
Definition dec_full_chunks (chunksize ct_len : N) : N := (ct_len - 1 - 16) / (chunk_dim chunksize + 16).
(* length of the ciphertext the encoder produces for a non-empty plaintext *)
Definition enc_ct_len (chunksize plain_len : N) : N :=
  plain_len + 16 * (enc_full_chunks chunksize plain_len + 1) + 16.

(* ------------------------------------------------------------------------------------------------ *)
(* Fields a parsed version-4 signature carries (SubpacketDecode :10870, SubpacketParse :11271,        *)
(* PacketDecodeTag2 :11552, and the four places that build a TMCG_OpenPGP_Signature from the context:  *)
(* SignatureParse, PublicKeyBlockParse_Tag2 (public and private key blocks), MessageParse_Tag2)        *)
(* ------------------------------------------------------------------------------------------------ *)
Record sig_fields := {
  sf_version : N; sf_type : N; sf_pkalgo : N; sf_hashalgo : N;
  sf_created : N; sf_sigexp : N; sf_keyexp : N;
  sf_flags : list N; sf_issuer : list N
}.

(* one subpacket: (type without the critical bit, body, rest); lengths below 192 in one octet, 192..254 in two,
   255 + four octets; a zero length (no type octet) is an error *)
Definition subpkt_split (l : list N) : option (N * list N * list N) :=
  match l with
  | a :: r =>
      let hl := if a <? 192 then Some (a, r)
                else if a <? 255 then match r with b :: r' => Some ((a - 192) * 256 + b + 192, r') | [] => None end
                else match r with
                     | b :: c :: d :: e :: r' => Some (u32 (b * 16777216 + c * 65536 + d * 256 + e), r')
                     | _ => None
                     end in
      match hl with
      | Some (n, t :: r') =>
          if n =? 0 then None
          else if len r' <? n - 1 then None
          else Some (t mod 128, firstn (N.to_nat (n - 1)) r', skipn (N.to_nat (n - 1)) r')
      | _ => None
      end
  | [] => None
  end.

Definition set_time (body : list N) : option N :=
  if (length body =? 4)%nat then Some (be_value body) else None.

(* the subpacket types that carry the modelled fields; every other type is left to the library
   (the harness only feeds areas produced by the library's own encoders) *)
Fixpoint subpkts_fields (fuel : nat) (area : list N) (f : sig_fields) : option sig_fields :=
  match area with
  | [] => Some f
  | _ =>
    match fuel with
    | O => None
    | S k =>
      match subpkt_split area with
      | None => None
      | Some (t, body, rest) =>
          let upd :=
            if t =? 2 then match set_time body with
                           | Some v => Some {| sf_version := sf_version f; sf_type := sf_type f; sf_pkalgo := sf_pkalgo f; sf_hashalgo := sf_hashalgo f;
                                               sf_created := v; sf_sigexp := sf_sigexp f; sf_keyexp := sf_keyexp f; sf_flags := sf_flags f; sf_issuer := sf_issuer f |}
                           | None => None end
            else if t =? 3 then match set_time body with
                           | Some v => Some {| sf_version := sf_version f; sf_type := sf_type f; sf_pkalgo := sf_pkalgo f; sf_hashalgo := sf_hashalgo f;
                                               sf_created := sf_created f; sf_sigexp := v; sf_keyexp := sf_keyexp f; sf_flags := sf_flags f; sf_issuer := sf_issuer f |}
                           | None => None end
            else if t =? 9 then match set_time body with
                           | Some v => Some {| sf_version := sf_version f; sf_type := sf_type f; sf_pkalgo := sf_pkalgo f; sf_hashalgo := sf_hashalgo f;
                                               sf_created := sf_created f; sf_sigexp := sf_sigexp f; sf_keyexp := v; sf_flags := sf_flags f; sf_issuer := sf_issuer f |}
                           | None => None end
            else if t =? 16 then
              if (length body =? 8)%nat
              then Some {| sf_version := sf_version f; sf_type := sf_type f; sf_pkalgo := sf_pkalgo f; sf_hashalgo := sf_hashalgo f;
                           sf_created := sf_created f; sf_sigexp := sf_sigexp f; sf_keyexp := sf_keyexp f; sf_flags := sf_flags f; sf_issuer := body |}
              else None
            else if t =? 27 then
              if (32 <? length body)%nat then None
              else Some {| sf_version := sf_version f; sf_type := sf_type f; sf_pkalgo := sf_pkalgo f; sf_hashalgo := sf_hashalgo f;
                           sf_created := sf_created f; sf_sigexp := sf_sigexp f; sf_keyexp := sf_keyexp f; sf_flags := body; sf_issuer := sf_issuer f |}
            else Some f in
          match upd with Some f' => subpkts_fields k rest f' | None => None end
      end
    end
  end.

(* body of a version-4 signature packet -> fields of the signature object.
   [key_context]: the signature is read from a key block (the key expiration time is kept); signatures read by
   SignatureParse or from a message get key expiration 0 *)
Definition sig_body_fields (key_context : bool) (body : list N) : option sig_fields :=
  match body with
  | v :: t :: pk :: h :: l1 :: l2 :: r =>
      if negb (v =? 4) then None
      else
        let n := N.to_nat (l1 * 256 + l2) in
        if (length r <? n)%nat then None
        else match subpkts_fields (S n) (firstn n r)
                     {| sf_version := v; sf_type := t; sf_pkalgo := pk; sf_hashalgo := h; sf_created := 0; sf_sigexp := 0;
                        sf_keyexp := 0; sf_flags := []; sf_issuer := repeat 0 8 |} with
             | Some f => Some (if key_context then f
                               else {| sf_version := sf_version f; sf_type := sf_type f; sf_pkalgo := sf_pkalgo f; sf_hashalgo := sf_hashalgo f;
                                       sf_created := sf_created f; sf_sigexp := sf_sigexp f; sf_keyexp := 0; sf_flags := sf_flags f; sf_issuer := sf_issuer f |})
             | None => None
             end
  | _ => None
  end.

(* the validity verdict of a parsed signature: CheckValidity on exactly these fields *)
Definition sig_fields_validity (current keycreation : Z) (f : sig_fields) : validity :=
  check_validity current (Z.of_N (sf_created f)) (Z.of_N (sf_sigexp f)) keycreation (sf_hashalgo f).

(* ------------------------------------------------------------------------------------------------ *)
(* What AsymmetricVerifyEdDSA hands to the primitive (:16200-16290): the two MPIs of the packet are     *)
(* numbers, so leading zero octets of R and S are gone; values shorter than 32 octets are padded back  *)
(* to 32 octets, full-length values are passed as libgcrypt integers (observed: minimal big-endian)     *)
(* ------------------------------------------------------------------------------------------------ *)
Definition sexp_mpi (v : N) : list N := be_bytes (mpi_octets v) v.
Definition eddsa_component (v : N) : list N := if (mpi_octets v <? 32)%nat then be_bytes 32 v else sexp_mpi v.
Definition eddsa_sigval (r s : N) : option (list N * list N) :=
  let rl := mpi_octets r in let sl := mpi_octets s in
  if ((rl =? 0) || (32 <? rl) || (sl =? 0) || (32 <? sl))%nat then None
  else Some (eddsa_component r, eddsa_component s).
