(* C20 -- OpenPGP signatures and encryption: the framing and decision logic of
   CallasDonnerhackeFinneyShawThayerRFC4880.cc that decides what is hashed, when a signature is valid and when
   a decrypted message is released.  Cryptographic primitives (hash, cipher, AEAD, public-key verification) are
   parameters of the definitions that use them.  Definitions only; proofs are in PgpSigLemmas.v. *)
From Coq Require Import ZArith NArith List Bool.
From LT Require Import PgpCodecModel.
Import ListNotations.
Local Open Scope N_scope.

(* ------------------------------------------------------------------------------------------------ *)
(* What a signature hashes (RFC 4880 5.2.4; :13078-13910 and TMCG_OpenPGP_Signature::VerifyData)     *)
(* ------------------------------------------------------------------------------------------------ *)
(* the part of the signature packet that is hashed after the signed data *)
Definition sig_trailer_v3 (type time : N) : list N := type :: be4 time.
Definition sig_trailer_v4 (type pkalgo hashalgo : N) (hspd : list N) : list N :=
  4 :: type :: pkalgo :: hashalgo :: be2 (len hspd) ++ hspd.
(* version 5 as implemented: document signatures append six further octets (format, file name length, date;
   zero for detached signatures) before the final length field *)
Definition sig_trailer_v5 (type pkalgo hashalgo : N) (hspd meta : list N) : list N :=
  5 :: type :: pkalgo :: hashalgo :: be2 (len hspd) ++ hspd ++ meta.

Definition tail_v4 (trailer : list N) : list N := 4 :: 255 :: be4 (len trailer).
Definition tail_v5 (trailer : list N) : list N := 5 :: 255 :: be8 (len trailer).

(* canonical text: a line feed not preceded by a carriage return gets one *)
Fixpoint text_canon_from (last : N) (data : list N) : list N :=
  match data with
  | [] => []
  | c :: r => (if (c =? 10) && negb (last =? 13) then [13; c] else [c]) ++ text_canon_from c r
  end.
Definition text_canon (data : list N) : list N := text_canon_from 33 data.

(* what is signed *)
Inductive signed_object :=
| SoBinary (data : list N)
| SoText (data : list N)
| SoStandalone
| SoCertUid (key uid : list N)             (* key packet body, user ID *)
| SoCertUat (key uat : list N)             (* key packet body, user attribute *)
| SoKey (key : list N)                     (* direct key signature / key revocation *)
| SoSubkey (primary subkey : list N).      (* subkey binding, primary key binding, subkey revocation *)

Definition key_frame_v4 (key : list N) : list N := 153 :: be2 (len key) ++ key.
Definition key_frame_v5 (key : list N) : list N := 154 :: be4 (len key) ++ key.

Definition signed_octets_v4 (o : signed_object) : list N :=
  match o with
  | SoBinary d => d
  | SoText d => text_canon d
  | SoStandalone => []
  | SoCertUid k u => key_frame_v4 k ++ 180 :: be4 (len u) ++ u
  | SoCertUat k u => key_frame_v4 k ++ 209 :: be4 (len u) ++ u
  | SoKey k => key_frame_v4 k
  | SoSubkey p s => key_frame_v4 p ++ key_frame_v4 s
  end.

(* CertificationHash chooses the user-attribute form iff the attribute argument is non-empty *)
Definition cert_object (key uid uat : list N) : signed_object :=
  match uat with [] => SoCertUid key uid | _ => SoCertUat key uat end.

Definition hash_input_v4 (o : signed_object) (trailer : list N) : list N :=
  signed_octets_v4 o ++ trailer ++ tail_v4 trailer.

(* version 3: no final length field, user IDs without prefix *)
Definition signed_octets_v3 (o : signed_object) : list N :=
  match o with
  | SoCertUid k u => key_frame_v4 k ++ u
  | _ => signed_octets_v4 o
  end.
Definition hash_input_v3 (o : signed_object) (trailer : list N) : list N := signed_octets_v3 o ++ trailer.

Definition signed_octets_v5 (o : signed_object) : list N :=
  match o with
  | SoBinary d => d
  | SoText d => text_canon d
  | SoStandalone => []
  | SoCertUid k u => key_frame_v5 k ++ 180 :: be4 (len u) ++ u
  | SoCertUat k u => key_frame_v5 k ++ 209 :: be4 (len u) ++ u
  | SoKey k => key_frame_v5 k
  | SoSubkey p s => key_frame_v5 p ++ key_frame_v5 s
  end.
Definition hash_input_v5 (o : signed_object) (trailer : list N) : list N :=
  signed_octets_v5 o ++ trailer ++ tail_v5 trailer.

Definition left16 (hash : list N) : list N := firstn 2 hash.

(* ------------------------------------------------------------------------------------------------ *)
(* Validity rules (TMCG_OpenPGP_Signature::CheckValidity, :389-437) and integrity (:439-500)          *)
(* ------------------------------------------------------------------------------------------------ *)
Inductive validity := Valid | Expired | OlderThanKey | FarFuture | WeakHash.

Definition strong_hash (h : N) : bool := (h =? 8) || (h =? 9) || (h =? 10) || (h =? 12) || (h =? 14).
Definition future_slack : Z := (60 * 60 * 25)%Z.

Definition check_validity (current creation expiration keycreation : Z) (hashalgo : N) : validity :=
  if (negb (expiration =? 0)%Z && (creation + expiration <? current)%Z) then Expired
  else if (creation <? keycreation)%Z then OlderThanKey
  else if (current + future_slack <? creation)%Z then FarFuture
  else if negb (strong_hash hashalgo) then WeakHash
  else Valid.

Inductive sig_algo := SigRSA | SigDSA | SigECDSA | SigEdDSA | SigUnsupported.
Definition sig_algo_of (pkalgo : N) : sig_algo :=
  if (pkalgo =? 1) || (pkalgo =? 3) then SigRSA
  else if pkalgo =? 17 then SigDSA
  else if pkalgo =? 19 then SigECDSA
  else if pkalgo =? 22 then SigEdDSA
  else SigUnsupported.

(* quick check on the left 16 bits (only when exactly two octets were parsed), then the primitive *)
Definition check_integrity (verify : sig_algo -> list N -> bool) (pkalgo : N) (left hash : list N) : bool :=
  if ((length left =? 2)%nat && negb (octets_eqb left (left16 hash))) then false
  else match sig_algo_of pkalgo with
       | SigUnsupported => false
       | a => verify a hash
       end.

(* ------------------------------------------------------------------------------------------------ *)
(* Message decryption (TMCG_OpenPGP_Message::Decrypt / CheckMDC, :6634-6847)                          *)
(* ------------------------------------------------------------------------------------------------ *)
Record enc_message := {
  have_sed : bool; have_seipd : bool; have_aead : bool;
  enc_data : list N
}.

Inductive dec_result :=
| DecOk (out : list N)
| DecNoData | DecBadKey | DecCipherError | DecNoMDC | DecBadMDC | DecUnprotected.

Definition mdc_input (prefix body : list N) : list N := prefix ++ body ++ [211; 20].   (* 0xD3 0x14 *)

Definition check_mdc (sha1 : list N -> list N) (seipd : bool) (prefix mdc body : list N) : bool :=
  seipd && negb (length prefix =? 0)%nat && negb (length mdc =? 0)%nat && negb (length body =? 0)%nat
  && octets_eqb mdc (sha1 (mdc_input prefix body)).

(* [key_ok]: the session key has one of the three accepted lengths; [cfb_dec] returns prefix and plaintext;
   [aead_dec] is SymmetricDecryptAEAD *)
Definition decrypt (sha1 : list N -> list N)
    (cfb_dec : list N -> option (list N * list N)) (aead_dec : list N -> option (list N))
    (key_ok : bool) (m : enc_message) : dec_result :=
  match enc_data m with
  | [] => DecNoData
  | _ =>
    if negb key_ok then DecBadKey
    else if have_aead m then
      match aead_dec (enc_data m) with Some out => DecOk out | None => DecCipherError end
    else
      match cfb_dec (enc_data m) with
      | None => DecCipherError
      | Some (prefix, out) =>
          if have_seipd m then
            let n := length out in
            if (n <? 22)%nat then DecNoMDC
            else if negb ((nth (n - 22) out 0 =? 211) && (nth (n - 21) out 0 =? 20)) then DecNoMDC
            else if check_mdc sha1 true prefix (skipn (n - 20) out) (firstn (n - 22) out) then DecOk out
            else DecBadMDC
          else DecUnprotected
      end
  end.

(* ------------------------------------------------------------------------------------------------ *)
(* AEAD chunking (SymmetricEncryptAEAD / SymmetricDecryptAEAD, :14079-15498)                          *)
(* ------------------------------------------------------------------------------------------------ *)
Inductive aead_mode := EAX | OCB.
Definition aead_ivlen (a : aead_mode) : nat := match a with EAX => 16%nat | OCB => 15%nat end.

(* xor an eight-octet big-endian value into the last eight octets of the nonce *)
Fixpoint xor_zip (a b : list N) : list N :=
  match a, b with
  | p :: a', q :: b' => N.lxor p q :: xor_zip a' b'
  | _, _ => a
  end.
Definition xor_tail (iv x : list N) : list N :=
  let k := (length iv - length x)%nat in firstn k iv ++ xor_zip (skipn k iv) x.

(* as implemented: the nonce buffer is updated in place, so chunk c uses IV xor (0 xor 1 xor ... xor c) *)
Fixpoint cum_xor (c : nat) : N := match c with O => 0 | S k => N.lxor (cum_xor k) (N.of_nat (S k)) end.
Definition chunk_nonce_impl (iv : list N) (c : nat) : list N := xor_tail iv (be8 (cum_xor c)).
(* RFC 4880bis 5.16.1/5.16.2: starting IV xor chunk index *)
Definition chunk_nonce_rfc (iv : list N) (c : nat) : list N := xor_tail iv (be8 (N.of_nat c)).

(* associated data: packet tag 0xD4, version, cipher, mode, chunk size octet, chunk index;
   the final tag additionally covers the total number of plaintext octets *)
Definition aead_ad_prefix (version skalgo aeadalgo chunksize : N) : list N := [212; version; skalgo; aeadalgo; chunksize].
Definition chunk_ad (pre : list N) (idx : N) : list N := pre ++ be8 idx.
Definition final_ad (pre : list N) (idx total : N) : list N := pre ++ be8 idx ++ be8 total.

Definition chunk_dim (chunksize : N) : N := 2 ^ (chunksize + 6).
(* number of full chunks before the last (possibly full, never empty) chunk *)
Definition enc_full_chunks (chunksize plain_len : N) : N := (plain_len - 1) / chunk_dim chunksize.
Definition dec_full_chunks (chunksize ct_len : N) : N := (ct_len - 1 - 16) / (chunk_dim chunksize + 16).
(* length of the ciphertext the encoder produces for a non-empty plaintext *)
Definition enc_ct_len (chunksize plain_len : N) : N :=
  plain_len + 16 * (enc_full_chunks chunksize plain_len + 1) + 16.
