(* ShuffleLemmas: proofs about ShuffleModel (C02: mix / glue / generators / import check). *)
From Coq Require Import ZArith NArith List Bool Lia ZifyBool Permutation FinFun Zdiv.
From LT Require Import gen_Consts Zbase CodecModel SamplerModel SamplerLemmas ShuffleModel.
Import ListNotations.
Local Open Scope N_scope.

(* ---- vectors ------------------------------------------------------------------------------------ *)
Lemma upd_length {A} (l : list A) : forall k x, length (upd l k x) = length l.
Proof. induction l as [|h t IH]; intros [|k] x; cbn; auto. Qed.

Lemma nth_error_upd_eq {A} (l : list A) : forall k x, (k < length l)%nat -> nth_error (upd l k x) k = Some x.
Proof. induction l as [|h t IH]; intros [|k] x L; cbn in *; try lia; auto. apply IH. lia. Qed.

Lemma nth_error_upd_neq {A} (l : list A) : forall k j x, k <> j -> nth_error (upd l k x) j = nth_error l j.
Proof. induction l as [|h t IH]; intros [|k] [|j] x NE; cbn; auto; try congruence. Qed.

Lemma nthN_spec {A} (l : list A) j x : nthN l j = Some x <-> (j < N.of_nat (length l) /\ nth_error l (N.to_nat j) = Some x).
Proof.
  unfold nthN. destruct (N.ltb_spec j (N.of_nat (length l))) as [L|L].
  - split; [intros E; split; assumption | intros [_ E]; exact E].
  - split; [discriminate | intros [L' _]; lia].
Qed.

Lemma nthN_of_nat {A} (l : list A) i : nthN l (N.of_nat i) = nth_error l i.
Proof.
  unfold nthN. rewrite Nat2N.id. destruct (N.ltb_spec (N.of_nat i) (N.of_nat (length l))); [reflexivity|].
  symmetry. apply nth_error_None. lia.
Qed.

Lemma iota_length n : length (iota n) = n.
Proof. unfold iota. now rewrite map_length, seq_length. Qed.

Lemma nth_error_iota n i : (i < n)%nat -> nth_error (iota n) i = Some (N.of_nat i).
Proof. intros. unfold iota. rewrite nth_error_map, nth_error_nth' with (d := O) by (rewrite seq_length; lia). now rewrite seq_nth. Qed.

Lemma in_iota n x : In x (iota n) <-> x < N.of_nat n.
Proof.
  unfold iota. rewrite in_map_iff. split.
  - intros (i & <- & Hi). apply in_seq in Hi. lia.
  - intros L. exists (N.to_nat x). split; [lia|]. apply in_seq. lia.
Qed.

Lemma NoDup_iota n : NoDup (iota n).
Proof. unfold iota. apply Injective_map_NoDup; [|apply seq_NoDup]. intros a b E. lia. Qed.

(* ---- seq_res -------------------------------------------------------------------------------------- *)
Lemma seq_res_ret {A} (l : list (res A)) r : seq_res l = Ret r <-> Forall2 (fun x a => x = Ret a) l r.
Proof.
  revert r. induction l as [|x l IH]; intros r; cbn.
  - split; [intros E; injection E as <-; constructor | intros F; inversion F; reflexivity].
  - destruct x as [a| | | | |]; cbn; try (split; [discriminate | intros F; inversion F; discriminate]).
    destruct (seq_res l) as [t| | | | |] eqn:E; cbn;
      try (split; [discriminate | intros F; inversion F as [|? ? ? ? _ F']; subst; apply IH in F'; discriminate]).
    split.
    + intros E'. injection E' as <-. constructor; [reflexivity | now apply IH].
    + intros F. inversion F as [|? ? ? ? Ea F']; subst. injection Ea as <-. apply IH in F'. now injection F' as <-.
Qed.

Lemma seq_res_map_ret {A B} (f : B -> res A) (l : list B) r :
  seq_res (map f l) = Ret r <-> Forall2 (fun i a => f i = Ret a) l r.
Proof.
  rewrite seq_res_ret. split; intros F.
  - remember (map f l) as m eqn:E. revert l E. induction F as [|x a m r Hx F IH]; intros [|i l0] E; try discriminate; constructor;
      injection E as -> ->; auto.
  - induction F; constructor; auto.
Qed.

Lemma seq_res_map_total {A B} (f : B -> res A) (l : list B) :
  (forall i, In i l -> exists a, f i = Ret a) -> exists r, seq_res (map f l) = Ret r.
Proof.
  induction l as [|i l IH]; intros H; [exists []; reflexivity|].
  destruct (H i (or_introl eq_refl)) as (a & Ea). destruct IH as (r & Er); [intros; apply H; now right|].
  exists (a :: r). cbn. rewrite Ea. cbn. rewrite Er. reflexivity.
Qed.

Lemma Forall2_seq_nth {A} (P : nat -> A -> Prop) n (l : list A) : forall b,
  Forall2 P (seq b n) l <-> (length l = n /\ forall i a, nth_error l i = Some a -> P (b + i)%nat a).
Proof.
  revert l. induction n as [|n IH]; intros l b; cbn [seq].
  - split.
    + intros F. inversion F. split; [reflexivity|]. intros [|i] a; discriminate.
    + intros [L _]. destruct l; [constructor | discriminate].
  - split.
    + intros F. inversion F as [|? a0 ? l0 Pa F']; subst. apply IH in F'. destruct F' as [L H]. split; [cbn; now rewrite L|].
      intros [|i] a E; cbn in E.
      * injection E as <-. now rewrite Nat.add_0_r.
      * rewrite <- Nat.add_succ_comm. now apply H.
    + intros [L H]. destruct l as [|a0 l0]; [discriminate|]. constructor.
      * specialize (H O a0 eq_refl). now rewrite Nat.add_0_r in H.
      * apply IH. split; [cbn in L; lia|]. intros i a E. rewrite Nat.add_succ_comm. apply (H (S i)). exact E.
Qed.

(* ---- Fisher-Yates: the result is a permutation, for every coin list ----------------------------------- *)
Definition transp (i j n : nat) : nat := if (n =? i)%nat then j else if (n =? j)%nat then i else n.

Lemma transp_inj i j : Injective (transp i j).
Proof.
  intros a b. unfold transp.
  destruct (Nat.eqb_spec a i), (Nat.eqb_spec b i), (Nat.eqb_spec a j), (Nat.eqb_spec b j); lia.
Qed.

Lemma swap_idx_nth pi i j pi' : swap_idx pi i j = Ret pi' ->
  length pi' = length pi /\ (i < length pi)%nat /\ (j < length pi)%nat /\
  forall n, nth_error pi' n = nth_error pi (transp i j n).
Proof.
  unfold swap_idx. destruct (nth_error pi i) as [a|] eqn:Ea; [|discriminate].
  destruct (nth_error pi j) as [b|] eqn:Eb; [|discriminate]. intros E. injection E as <-.
  assert (Li : (i < length pi)%nat) by (apply nth_error_Some; congruence).
  assert (Lj : (j < length pi)%nat) by (apply nth_error_Some; congruence).
  rewrite !upd_length. repeat split; try assumption.
  intros n. unfold transp. destruct (Nat.eqb_spec n j) as [->|Nj].
  - rewrite nth_error_upd_eq by (rewrite upd_length; assumption).
    destruct (Nat.eqb_spec j i) as [->|]; congruence.
  - rewrite nth_error_upd_neq by congruence. destruct (Nat.eqb_spec n i) as [->|Ni].
    + rewrite nth_error_upd_eq by assumption. congruence.
    + now rewrite nth_error_upd_neq by congruence.
Qed.

Lemma swap_idx_perm pi i j pi' : swap_idx pi i j = Ret pi' -> Permutation pi pi'.
Proof.
  intros E. apply swap_idx_nth in E. destruct E as (L & _ & _ & H).
  apply Permutation_nth_error. split; [congruence|]. exists (transp i j). split; [apply transp_inj | exact H].
Qed.

Lemma swap_idx_total pi i j : (i < length pi)%nat -> (j < length pi)%nat -> exists pi', swap_idx pi i j = Ret pi'.
Proof.
  intros Li Lj. unfold swap_idx.
  destruct (nth_error pi i) eqn:Ei; [|apply nth_error_None in Ei; lia].
  destruct (nth_error pi j) eqn:Ej; [|apply nth_error_None in Ej; lia]. eauto.
Qed.

Theorem fy_loop_perm n : forall k i pi s pi' s', fy_loop k i n pi s = Ret (pi', s') -> Permutation pi pi'.
Proof.
  induction k as [|k IH]; intros i pi s pi' s'; cbn [fy_loop].
  - intros E. injection E as <- <-. apply Permutation_refl.
  - destruct (random_mod _ s) as [[c r]| | | | |]; cbn [bind fst snd]; try discriminate.
    destruct (swap_idx pi i _) as [pi1| | | | |] eqn:Sw; cbn [bind]; try discriminate.
    intros E. apply IH in E. apply swap_idx_perm in Sw. eapply Permutation_trans; eassumption.
Qed.

Theorem random_permutation_fast_perm n s pi s' : random_permutation_fast n s = Ret (pi, s') -> Permutation (iota n) pi.
Proof. destruct n; cbn [random_permutation_fast]; [discriminate|]. apply fy_loop_perm. Qed.

(* with an index vector of the right length the loop never leaves the vector and the sampler never throws *)
Theorem fy_loop_outcomes n : forall k i pi s, length pi = n -> (i + k + 1 = n)%nat ->
  match fy_loop k i n pi s with Ret _ | NeedCoins => True | _ => False end.
Proof.
  induction k as [|k IH]; intros i pi s L Hk; cbn [fy_loop]; [exact I|].
  pose proof (random_mod_outcomes (N.of_nat (n - i)) s) as HO.
  destruct (random_mod _ s) as [[c r]| | | | |] eqn:R; cbn [bind fst snd]; try exact I; try lia.
  apply random_mod_range in R. destruct R as (_ & Hc & _).
  destruct (swap_idx_total pi i (i + N.to_nat c)) as (pi1 & Sw); try lia.
  rewrite Sw. cbn [bind]. apply IH; [|lia]. apply swap_idx_nth in Sw. destruct Sw as (L1 & _). congruence.
Qed.

Corollary random_permutation_fast_outcomes n s : (1 <= n)%nat ->
  match random_permutation_fast n s with Ret _ | NeedCoins => True | _ => False end.
Proof. destruct n; [lia|]. intros _. cbn [random_permutation_fast]. apply fy_loop_outcomes; [apply iota_length | lia]. Qed.

(* ---- rotation ------------------------------------------------------------------------------------- *)
Lemma mod_once a n : n <= a < 2 * n -> a mod n = a - n.
Proof. intros H. symmetry. apply N.mod_unique with (q := 1); lia. Qed.

Lemma seq_plus a len : seq a len = map (fun i => (a + i)%nat) (seq 0 len).
Proof.
  revert a. induction len as [|len IH]; intros a; [reflexivity|].
  cbn [seq map]. rewrite Nat.add_0_r. f_equal. rewrite <- (seq_shift len 0), map_map. rewrite (IH (S a)).
  apply map_ext. intros. lia.
Qed.

Definition small_n (n : nat) : Prop := 2 * N.of_nat n <= W.

Lemma max_cards_small n : (n <= max_cards)%nat -> small_n n.
Proof. unfold small_n, max_cards. intros H. assert (N.of_nat n <= 512) by (unfold TMCG_MAX_CARDS in H; lia). unfold W. lia. Qed.

Lemma rotation_nth n r i : small_n n -> r < N.of_nat n -> (i < n)%nat ->
  nth_error (rotation n r) i = Some ((r + N.of_nat i) mod N.of_nat n).
Proof.
  intros Hn Hr Hi. unfold rotation. rewrite nth_error_map, nth_error_nth' with (d := O) by (rewrite seq_length; lia).
  rewrite seq_nth by lia. cbn [plus option_map]. unfold add_w. rewrite (N.mod_small (r + N.of_nat i) W); [reflexivity|]. unfold small_n in Hn. lia.
Qed.

Lemma rotation_length n r : length (rotation n r) = n.
Proof. unfold rotation. now rewrite map_length, seq_length. Qed.

(* the index vector of a rotation is iota cut at r and glued together the other way round *)
Theorem rotation_is_shift n r : small_n n -> r < N.of_nat n ->
  let a := N.to_nat r in
  iota n = map N.of_nat (seq 0 a) ++ map N.of_nat (seq a (n - a)) /\
  rotation n r = map N.of_nat (seq a (n - a)) ++ map N.of_nat (seq 0 a).
Proof.
  intros Hn Hr a. assert (Ha : (a < n)%nat) by lia. unfold small_n in Hn. split.
  - unfold iota. rewrite <- map_app. f_equal.
    pose proof (seq_app a (n - a) 0) as SA. replace (a + (n - a))%nat with n in SA by lia. exact SA.
  - unfold rotation.
    pose proof (seq_app (n - a) a 0) as SA. replace (n - a + a)%nat with n in SA by lia. rewrite SA, map_app. f_equal.
    + rewrite (seq_plus a). rewrite map_map. apply map_ext_in. intros i Hi. apply in_seq in Hi.
      unfold add_w. rewrite (N.mod_small _ W) by lia. rewrite N.mod_small by lia. lia.
    + cbn [plus]. rewrite (seq_plus (n - a)). rewrite map_map. apply map_ext_in. intros i Hi. apply in_seq in Hi.
      unfold add_w. rewrite (N.mod_small _ W) by lia. rewrite mod_once by lia. lia.
Qed.

Corollary rotation_perm n r : small_n n -> r < N.of_nat n -> Permutation (iota n) (rotation n r).
Proof. intros Hn Hr. destruct (rotation_is_shift n r Hn Hr) as [-> ->]. apply Permutation_app_comm. Qed.

Lemma rotation_offset_spec n r : small_n n -> r < N.of_nat n ->
  rotation_offset n r = (if r =? 0 then 0 else N.of_nat n - r) /\ rotation_offset n r < N.of_nat n.
Proof.
  intros Hn Hr. unfold rotation_offset, sub_w, small_n in *.
  rewrite (N.mod_small (N.of_nat n)) by lia. rewrite (N.mod_small r) by lia.
  destruct (N.eqb_spec r 0) as [->|NZ].
  - rewrite N.sub_0_r. rewrite (mod_once (N.of_nat n + W)) by lia. replace (N.of_nat n + W - W) with (N.of_nat n) by lia.
    rewrite N.mod_same by lia. lia.
  - rewrite (mod_once (N.of_nat n + W - r)) by lia. replace (N.of_nat n + W - r - W) with (N.of_nat n - r) by lia.
    rewrite N.mod_small by lia. lia.
Qed.

(* the reported offset is where the cards went: input card i lies at position (i + offset) mod n of the mixed stack
   (the index vector there is i) *)
Theorem rotation_offset_lands n r i : small_n n -> r < N.of_nat n -> (i < n)%nat ->
  nth_error (rotation n r) (N.to_nat ((N.of_nat i + rotation_offset n r) mod N.of_nat n)) = Some (N.of_nat i).
Proof.
  intros Hn Hr Hi. destruct (rotation_offset_spec n r Hn Hr) as [E _]. rewrite E. unfold small_n in Hn.
  destruct (N.eqb_spec r 0) as [->|NZ].
  - rewrite N.add_0_r, N.mod_small by lia. rewrite Nat2N.id. rewrite rotation_nth by (assumption || lia).
    rewrite N.add_0_l, N.mod_small by lia. reflexivity.
  - destruct (N.lt_ge_cases (N.of_nat i) r) as [Lt|Ge].
    + rewrite N.mod_small by lia. rewrite rotation_nth by (assumption || lia). f_equal.
      rewrite N2Nat.id. rewrite mod_once by lia. lia.
    + rewrite mod_once by lia. rewrite rotation_nth by (assumption || lia). f_equal.
      rewrite N2Nat.id. rewrite N.mod_small by lia. lia.
Qed.

Theorem random_rotation_spec n s o pi s' : random_rotation n s = Ret ((o, pi), s') ->
  (2 <= n)%nat /\ exists r, r < N.of_nat n /\ pi = rotation n r /\ o = rotation_offset n r.
Proof.
  unfold random_rotation. destruct (random_mod _ s) as [[r s1]| | | | |] eqn:R; cbn [bind fst snd]; try discriminate.
  intros E. injection E as <- <- <-. apply random_mod_range in R. destruct R as (H2 & Hr & _).
  split; [lia|]. exists r. auto.
Qed.

(* r |-> rotation is injective on [0, n), and so is r |-> offset: uniform r gives a uniform shift *)
Theorem rotation_inj n r r' : small_n n -> r < N.of_nat n -> r' < N.of_nat n -> rotation n r = rotation n r' -> r = r'.
Proof.
  intros Hn Hr Hr' E. assert (0 < n)%nat by lia.
  pose proof (rotation_nth n r 0 Hn Hr ltac:(lia)) as A. pose proof (rotation_nth n r' 0 Hn Hr' ltac:(lia)) as B.
  rewrite E in A. rewrite A in B. injection B as B. cbn in B. rewrite !N.add_0_r in B. rewrite !N.mod_small in B by lia. exact B.
Qed.

Theorem rotation_offset_inj n r r' : small_n n -> r < N.of_nat n -> r' < N.of_nat n ->
  rotation_offset n r = rotation_offset n r' -> r = r'.
Proof.
  intros Hn Hr Hr' E. destruct (rotation_offset_spec n r Hn Hr) as [A _]. destruct (rotation_offset_spec n r' Hn Hr') as [B _].
  rewrite A, B in E. destruct (N.eqb_spec r 0), (N.eqb_spec r' 0); lia.
Qed.

Theorem rotation_offset_surj n o : small_n n -> o < N.of_nat n -> exists r, r < N.of_nat n /\ rotation_offset n r = o.
Proof.
  intros Hn Ho. exists (if o =? 0 then 0 else N.of_nat n - o). destruct (N.eqb_spec o 0) as [->|NZ].
  - split; [lia|]. destruct (rotation_offset_spec n 0 Hn ltac:(lia)) as [A _]. exact A.
  - assert (Hr : N.of_nat n - o < N.of_nat n) by lia. split; [exact Hr|].
    destruct (rotation_offset_spec n _ Hn Hr) as [A _]. rewrite A. destruct (N.eqb_spec (N.of_nat n - o) 0); lia.
Qed.

Lemma nth_error_firstn_lt {A} (l : list A) : forall m i, (i < m)%nat -> nth_error (firstn m l) i = nth_error l i.
Proof.
  induction l as [|x l IH]; intros [|m] [|i] H; cbn; try lia; auto. apply IH. lia.
Qed.

(* ---- mixing ----------------------------------------------------------------------------------------- *)
Section Mix.
  Variables card secret : Type.
  Variable mask : card -> secret -> card.
  Notation mix := (mix card secret mask).
  Notation mix_card := (mix_card card secret mask).

  Definition in_range (n : nat) (ss : list (N * secret)) : Prop := Forall (fun p => fst p < N.of_nat n) ss.

  Lemma mix_ret s ss s2 : mix s ss = Ret s2 <->
    (length s = length ss /\ exists l, Forall2 (fun i c => mix_card s ss i = Ret c) (seq 0 (length s)) l /\ s2 = firstn max_cards l).
  Proof.
    unfold ShuffleModel.mix. destruct (Nat.eqb_spec (length s) (length ss)) as [E|NE]; cbn [negb].
    - destruct (seq_res _) as [l| | | | |] eqn:S; cbn [bind].
      + apply seq_res_map_ret in S. split.
        * intros R. injection R as <-. split; [assumption|]. exists l. auto.
        * intros (_ & l' & F & ->). apply seq_res_map_ret in F. apply seq_res_map_ret in S. congruence.
      + split; [discriminate|]. intros (_ & l' & F & _). apply seq_res_map_ret in F. congruence.
      + split; [discriminate|]. intros (_ & l' & F & _). apply seq_res_map_ret in F. congruence.
      + split; [discriminate|]. intros (_ & l' & F & _). apply seq_res_map_ret in F. congruence.
      + split; [discriminate|]. intros (_ & l' & F & _). apply seq_res_map_ret in F. congruence.
      + split; [discriminate|]. intros (_ & l' & F & _). apply seq_res_map_ret in F. congruence.
    - split; [discriminate | intros [E _]; contradiction].
  Qed.

  (* the mixed stack has the size of the input (stacks never exceed TMCG_MAX_CARDS: push is bounded) *)
  Theorem mix_length s ss s2 : mix s ss = Ret s2 -> (length s <= max_cards)%nat -> length s2 = length s.
  Proof.
    intros M Hn. apply mix_ret in M. destruct M as (_ & l & F & ->).
    apply Forall2_seq_nth in F. destruct F as (Ll & _). rewrite firstn_length. lia.
  Qed.

  (* card i of the output is the re-masking of the input card designated by the i-th index,
     with the secret stored at THAT index (not at i) *)
  Theorem mix_nth s ss s2 i : mix s ss = Ret s2 -> (i < length s)%nat -> (i < max_cards)%nat ->
    exists j r0 c j' r, nth_error ss i = Some (j, r0) /\ nthN s j = Some c /\ nthN ss j = Some (j', r) /\
                        nth_error s2 i = Some (mask c r).
  Proof.
    intros M Hi Hm. apply mix_ret in M. destruct M as (L & l & F & ->).
    apply Forall2_seq_nth in F. destruct F as (Ll & H).
    destruct (nth_error l i) as [c'|] eqn:E; [|apply nth_error_None in E; lia].
    specialize (H i c' E). cbn in H. unfold ShuffleModel.mix_card in H.
    destruct (nth_error ss i) as [[j r0]|]; [|discriminate].
    destruct (nthN s j) as [c|] eqn:Ec; [|discriminate].
    destruct (nthN ss j) as [[j' r]|] eqn:Er; [|discriminate]. injection H as Hc.
    exists j, r0, c, j', r. repeat split; try reflexivity; try assumption.
    rewrite Hc, <- E. now apply nth_error_firstn_lt.
  Qed.

  (* normal return exactly for equal sizes and indices inside the stack; otherwise abort resp. undefined behaviour *)
  Theorem mix_total s ss : length s = length ss -> in_range (length s) ss -> exists s2, mix s ss = Ret s2.
  Proof.
    intros L R. destruct (seq_res_map_total (mix_card s ss) (seq 0 (length s))) as (l & E).
    - intros i Hi. apply in_seq in Hi. unfold ShuffleModel.mix_card.
      destruct (nth_error ss i) as [[j r0]|] eqn:Ei; [|apply nth_error_None in Ei; lia].
      assert (Hj : j < N.of_nat (length s)).
      { unfold in_range in R. rewrite Forall_forall in R. apply (R (j, r0)). eapply nth_error_In; eassumption. }
      destruct (nth_error s (N.to_nat j)) as [c|] eqn:Ec; [|apply nth_error_None in Ec; lia].
      destruct (nth_error ss (N.to_nat j)) as [[j' r]|] eqn:Er; [|apply nth_error_None in Er; lia].
      unfold nthN. rewrite <- L. destruct (N.ltb_spec j (N.of_nat (length s))); [|lia]. rewrite Ec, Er. eauto.
    - exists (firstn max_cards l). unfold ShuffleModel.mix. rewrite L, Nat.eqb_refl. cbn [negb]. rewrite <- L, E. reflexivity.
  Qed.

  Theorem mix_assert s ss : length s <> length ss -> mix s ss = AssertFail.
  Proof. intros NE. unfold ShuffleModel.mix. destruct (Nat.eqb_spec (length s) (length ss)); [contradiction | reflexivity]. Qed.

  Theorem mix_ret_in_range s ss s2 : mix s ss = Ret s2 -> length s = length ss /\ in_range (length s) ss.
  Proof.
    intros M. apply mix_ret in M. destruct M as (L & l & F & _). split; [assumption|].
    apply Forall2_seq_nth in F. destruct F as (Ll & H). unfold in_range. apply Forall_forall. intros [j r0] Hin.
    apply In_nth_error in Hin. destruct Hin as (i & Ei).
    assert (i < length ss)%nat by (apply nth_error_Some; congruence).
    destruct (nth_error l i) as [c'|] eqn:E; [|apply nth_error_None in E; lia].
    specialize (H i c' E). cbn in H. unfold ShuffleModel.mix_card in H. rewrite Ei in H.
    destruct (nthN s j) as [c|] eqn:Ec; [|discriminate]. apply nthN_spec in Ec. cbn. tauto.
  Qed.

  (* ---- card types: an abstract opening that masking does not change (C01) ------------------------- *)
  Section Types.
    Variable T : Type.
    Variable open : card -> T.
    Hypothesis open_mask : forall c r, open (mask c r) = open c.

    Definition type_at (s : list card) (j : N) : list T := match nthN s j with Some c => [open c] | None => [] end.

    Theorem mix_type_nth s ss s2 i : mix s ss = Ret s2 -> (i < length s)%nat -> (i < max_cards)%nat ->
      exists j r0 c, nth_error ss i = Some (j, r0) /\ nthN s j = Some c /\
                     nth_error (map open s2) i = Some (open c).
    Proof.
      intros M Hi Hm. destruct (mix_nth s ss s2 i M Hi Hm) as (j & r0 & c & j' & r & A & B & C & D).
      exists j, r0, c. repeat split; try assumption. rewrite nth_error_map, D. cbn. now rewrite open_mask.
    Qed.

    Lemma flat_map_pointwise {X Y Z} (g : X -> list Z) (h : Y -> Z) : forall (xs : list X) (ys : list Y),
      length xs = length ys ->
      (forall i x y, nth_error xs i = Some x -> nth_error ys i = Some y -> g x = [h y]) ->
      map h ys = flat_map g xs.
    Proof.
      induction xs as [|x xs IH]; intros [|y ys] L H; try discriminate; [reflexivity|].
      cbn. rewrite (H O x y eq_refl eq_refl). cbn. f_equal. apply IH; [cbn in L; lia|].
      intros i x' y' A B. apply (H (S i)); assumption.
    Qed.

    Lemma types_flat s ss s2 : mix s ss = Ret s2 -> (length s <= max_cards)%nat ->
      map open s2 = flat_map (type_at s) (map fst ss).
    Proof.
      intros M Hn. apply mix_ret in M. destruct M as (L & l & F & ->).
      apply Forall2_seq_nth in F. destruct F as (Ll & H).
      rewrite firstn_all2 by lia.
      apply flat_map_pointwise; [rewrite map_length; congruence|].
      intros i j c Ej Ec. specialize (H i c Ec). cbn in H. unfold ShuffleModel.mix_card in H.
      rewrite nth_error_map in Ej. destruct (nth_error ss i) as [[j0 r0]|]; [|discriminate]. cbn in Ej. injection Ej as ->.
      unfold type_at. destruct (nthN s j) as [c0|]; [|discriminate].
      destruct (nthN ss j) as [[j' r]|]; [|discriminate]. injection H as <-. now rewrite open_mask.
    Qed.

    Lemma types_iota s : flat_map (type_at s) (iota (length s)) = map open s.
    Proof.
      symmetry. apply flat_map_pointwise; [now rewrite iota_length|].
      intros i x c Ex Ec. assert (i < length s)%nat by (apply nth_error_Some; congruence).
      rewrite nth_error_iota in Ex by assumption. injection Ex as <-.
      unfold type_at. rewrite nthN_of_nat, Ec. reflexivity.
    Qed.

    (* the multiset of card types is preserved: nothing duplicated, dropped or re-typed *)
    Theorem mix_types_perm s ss s2 : mix s ss = Ret s2 -> (length s <= max_cards)%nat ->
      Permutation (map fst ss) (iota (length s)) -> Permutation (map open s2) (map open s).
    Proof.
      intros M Hn P. rewrite (types_flat s ss s2 M Hn), <- types_iota. now apply Permutation_flat_map.
    Qed.
  End Types.
End Mix.

(* the result of a mix call does not depend on what the result object held before: it is a function of (s, ss) only *)
Lemma fold_push_firstn {A} (l : list A) : forall acc, (length acc <= max_cards)%nat ->
  fold_left stack_push l acc = firstn max_cards (acc ++ l).
Proof.
  induction l as [|x l IH]; intros acc H; cbn [fold_left].
  - rewrite app_nil_r. symmetry. apply firstn_all2. exact H.
  - unfold stack_push at 2. destruct (Nat.ltb_spec (length acc) max_cards) as [Lt|Ge].
    + rewrite IH by (rewrite app_length; cbn [length]; lia). now rewrite <- app_assoc.
    + rewrite IH by exact H. rewrite !firstn_app. replace (max_cards - length acc)%nat with O by lia. now rewrite !firstn_O.
Qed.

Theorem mix_into_ignores_old (card secret : Type) (mask : card -> secret -> card) old s ss :
  mix_into card secret mask old s ss = mix card secret mask s ss.
Proof.
  unfold mix_into, mix. destruct (negb _); [reflexivity|]. destruct (seq_res _); cbn [bind]; try reflexivity.
  f_equal. unfold stack_clear. apply fold_push_firstn. cbn [length]. lia.
Qed.

(* ---- find_position ------------------------------------------------------------------------------------ *)
Lemma find_position_from_shift {A} (l : list (N * A)) i : forall pos,
  find_position_from pos l i = (pos + find_position_from 0 l i)%nat.
Proof.
  induction l as [|[j x] l IH]; intros pos; cbn; [lia|].
  destruct (j =? i); [lia|]. rewrite (IH (S pos)), (IH 1%nat). lia.
Qed.

Lemma find_position_cons {A} j (x : A) l i :
  find_position ((j, x) :: l) i = if j =? i then O else S (find_position l i).
Proof. unfold find_position. cbn. destruct (j =? i); [reflexivity|]. now rewrite find_position_from_shift. Qed.

Lemma find_position_le {A} (l : list (N * A)) i : (find_position l i <= length l)%nat.
Proof. induction l as [|[j x] l IH]; [cbn; lia|]. rewrite find_position_cons. destruct (j =? i); cbn; lia. Qed.

Lemma find_position_in {A} (l : list (N * A)) i : (find_position l i < length l)%nat <-> In i (map fst l).
Proof.
  induction l as [|[j x] l IH]; [cbn; split; [lia | tauto]|].
  rewrite find_position_cons. cbn [map fst In length]. destruct (N.eqb_spec j i) as [->|NE].
  - split; [auto | lia].
  - split.
    + intros H. right. apply IH. lia.
    + intros [E|H]; [contradiction|]. apply IH in H. lia.
Qed.

Lemma find_position_nth {A} (l : list (N * A)) i : (find_position l i < length l)%nat ->
  exists x, nth_error l (find_position l i) = Some (i, x).
Proof.
  induction l as [|[j x] l IH]; [cbn; lia|].
  rewrite find_position_cons. destruct (N.eqb_spec j i) as [->|NE]; cbn [length nth_error].
  - eauto.
  - intros H. apply IH. lia.
Qed.

Lemma find_position_NoDup {A} (l : list (N * A)) : forall b a x, NoDup (map fst l) -> nth_error l b = Some (a, x) ->
  find_position l a = b.
Proof.
  induction l as [|[j y] l IH]; intros [|b] a x ND E; cbn in E; try discriminate.
  - injection E as -> ->. rewrite find_position_cons, N.eqb_refl. reflexivity.
  - rewrite find_position_cons. cbn [map fst] in ND. inversion ND as [|? ? Hnin ND']; subst.
    destruct (N.eqb_spec j a) as [->|NE].
    + exfalso. apply Hnin. apply nth_error_In in E. apply (in_map fst) in E. exact E.
    + f_equal. eapply IH; eassumption.
Qed.

(* ---- gluing: mixing twice = mixing once with the glued secret ------------------------------------------ *)
Section Glue.
  Variables card secret : Type.
  Variable mask : card -> secret -> card.
  Variable addsec : secret -> secret -> secret.
  Hypothesis mask_mask : forall c r1 r2, mask (mask c r1) r2 = mask c (addsec r1 r2).
  Notation mix := (mix card secret mask).
  Notation mix_card := (mix_card card secret mask).
  Notation glue := (glue secret addsec).
  Notation glue_entry := (glue_entry secret addsec).

  Lemma glue_ret sigma pi gam : glue sigma pi = Ret gam ->
    length sigma = length pi /\ exists l, Forall2 (fun i e => glue_entry sigma pi i = Ret e) (seq 0 (length sigma)) l /\
                                          gam = firstn max_cards l.
  Proof.
    unfold ShuffleModel.glue. destruct (Nat.eqb_spec (length sigma) (length pi)) as [E|NE]; cbn [negb]; [|discriminate].
    destruct (seq_res _) as [l| | | | |] eqn:S; cbn [bind]; try discriminate.
    intros R. injection R as <-. apply seq_res_map_ret in S. split; [assumption|]. exists l. auto.
  Qed.

  Lemma perm_iota_facts {A} (l : list (N * A)) n : Permutation (map fst l) (iota n) ->
    length l = n /\ NoDup (map fst l) /\ (forall i, (i < n)%nat -> In (N.of_nat i) (map fst l)) /\
    Forall (fun p => fst p < N.of_nat n) l.
  Proof.
    intros P. repeat split.
    - apply Permutation_length in P. now rewrite map_length, iota_length in P.
    - eapply Permutation_NoDup; [apply Permutation_sym; exact P | apply NoDup_iota].
    - intros i Hi. eapply Permutation_in; [apply Permutation_sym; exact P|]. apply in_iota. lia.
    - apply Forall_forall. intros p Hp. apply in_iota. eapply Permutation_in; [exact P|]. now apply in_map.
  Qed.

  Theorem glue_total sigma pi n : length sigma = n -> length pi = n -> Permutation (map fst sigma) (iota n) ->
    in_range secret n pi -> exists gam, glue sigma pi = Ret gam.
  Proof.
    intros Ls Lp P R. destruct (perm_iota_facts sigma n P) as (_ & ND & Hin & Rs).
    destruct (seq_res_map_total (glue_entry sigma pi) (seq 0 (length sigma))) as (l & E).
    - intros i Hi. apply in_seq in Hi. unfold ShuffleModel.glue_entry.
      assert (Hp : (find_position sigma (N.of_nat i) < length sigma)%nat) by (apply find_position_in, Hin; lia).
      destruct (Nat.ltb_spec (find_position sigma (N.of_nat i)) (length sigma)); [|lia]. cbn [negb].
      destruct (nth_error sigma i) as [[x r1]|] eqn:E1; [|apply nth_error_None in E1; lia].
      destruct (nth_error pi (find_position sigma (N.of_nat i))) as [[y r2]|] eqn:E2; [|apply nth_error_None in E2; lia].
      destruct (nth_error pi i) as [[b z]|] eqn:E3; [|apply nth_error_None in E3; lia].
      assert (Hb : b < N.of_nat n).
      { unfold in_range in R. rewrite Forall_forall in R. apply (R (b, z)). eapply nth_error_In; eassumption. }
      destruct (nth_error sigma (N.to_nat b)) as [[a w]|] eqn:E4; [|apply nth_error_None in E4; lia].
      unfold nthN. destruct (N.ltb_spec b (N.of_nat (length sigma))); [|lia]. rewrite E4. eauto.
    - exists (firstn max_cards l). unfold ShuffleModel.glue. rewrite Ls, Lp, Nat.eqb_refl. cbn [negb]. rewrite <- Ls, E. reflexivity.
  Qed.

  (* the index component of the glued secret is the composition, its secrets are the sums *)
  Theorem glue_nth sigma pi gam n i : glue sigma pi = Ret gam -> length sigma = n -> (n <= max_cards)%nat -> (i < n)%nat ->
    exists x r1 y r2 b z a w,
      nth_error sigma i = Some (x, r1) /\ nth_error pi (find_position sigma (N.of_nat i)) = Some (y, r2) /\
      nth_error pi i = Some (b, z) /\ nthN sigma b = Some (a, w) /\ nth_error gam i = Some (a, addsec r1 r2).
  Proof.
    intros G Ls Hn Hi. apply glue_ret in G. destruct G as (L & l & F & ->).
    apply Forall2_seq_nth in F. destruct F as (Ll & H).
    destruct (nth_error l i) as [e|] eqn:E; [|apply nth_error_None in E; lia].
    specialize (H i e E). cbn in H. unfold ShuffleModel.glue_entry in H.
    destruct (negb _); [discriminate|].
    destruct (nth_error sigma i) as [[x r1]|] eqn:E1; [|discriminate].
    destruct (nth_error pi (find_position sigma (N.of_nat i))) as [[y r2]|] eqn:E2; [|discriminate].
    destruct (nth_error pi i) as [[b z]|] eqn:E3; [|discriminate].
    destruct (nthN sigma b) as [[a w]|] eqn:E4; [|discriminate]. injection H as He.
    exists x, r1, y, r2, b, z, a, w. repeat split; try reflexivity; try assumption.
    rewrite nth_error_firstn_lt by lia. now rewrite He.
  Qed.

  Theorem glue_length sigma pi gam : glue sigma pi = Ret gam -> (length sigma <= max_cards)%nat -> length gam = length sigma.
  Proof.
    intros G Hn. apply glue_ret in G. destruct G as (L & l & F & ->).
    apply Forall2_seq_nth in F. destruct F as (Ll & _). rewrite firstn_length. lia.
  Qed.

  Theorem glue_ok s sigma pi n : length s = n -> length sigma = n -> length pi = n -> (n <= max_cards)%nat ->
    Permutation (map fst sigma) (iota n) -> in_range secret n pi ->
    exists s1 gam s2, mix s sigma = Ret s1 /\ glue sigma pi = Ret gam /\ mix s1 pi = Ret s2 /\ mix s gam = Ret s2.
  Proof.
    intros Lc Ls Lp Hn P R.
    destruct (perm_iota_facts sigma n P) as (_ & ND & Hin & Rs).
    destruct (mix_total card secret mask s sigma) as (s1 & M1); [congruence | now rewrite Lc|].
    assert (L1 : length s1 = n) by (rewrite (mix_length _ _ _ _ _ _ M1); lia).
    destruct (mix_total card secret mask s1 pi) as (s2 & M2); [congruence | now rewrite L1|].
    destruct (glue_total sigma pi n Ls Lp P R) as (gam & G).
    assert (Lg : length gam = n) by (rewrite (glue_length _ _ _ G); lia).
    exists s1, gam, s2. repeat split; try assumption.
    apply mix_ret. split; [congruence|].
    pose proof M2 as M2'. apply mix_ret in M2'. destruct M2' as (_ & l & F & ->). exists l. split; [|reflexivity].
    rewrite Lc, <- L1. apply Forall2_seq_nth in F. destruct F as (Ll & H). apply Forall2_seq_nth. split; [assumption|].
    intros i c E. specialize (H i c E). cbn [plus] in *.
    assert (Hi : (i < n)%nat) by (rewrite <- L1, <- Ll; apply nth_error_Some; congruence).
    (* unfold the outer mix at i *)
    unfold ShuffleModel.mix_card in H.
    destruct (nth_error pi i) as [[b z]|] eqn:Epi; [|discriminate].
    destruct (nthN s1 b) as [c1|] eqn:Ec1; [|discriminate].
    destruct (nthN pi b) as [[b' t]|] eqn:Et; [|discriminate]. injection H as Hc.
    apply nthN_spec in Ec1. destruct Ec1 as (Hb & Ec1). apply nthN_spec in Et. destruct Et as (_ & Et).
    (* the inner mix at b *)
    destruct (mix_nth _ _ _ s sigma s1 (N.to_nat b) M1 ltac:(lia) ltac:(lia)) as (a & w0 & c0 & a' & r & Es & Ec0 & Er & Es1).
    rewrite Ec1 in Es1. injection Es1 as Hc1.
    apply nthN_spec in Er. destruct Er as (Ha & Er).
    (* the glued secret at i and at a *)
    destruct (glue_nth sigma pi gam n i G Ls Hn Hi) as (x & r1 & y & r2 & b2 & z2 & a2 & w2 & G1 & G2 & G3 & G4 & G5).
    rewrite Epi in G3. injection G3 as <- <-.
    apply nthN_spec in G4. destruct G4 as (_ & G4). rewrite Es in G4. injection G4 as <- <-.
    destruct (glue_nth sigma pi gam n (N.to_nat a) G Ls Hn ltac:(lia)) as (x' & r1' & y' & r2' & b3 & z3 & a3 & w3 & K1 & K2 & K3 & K4 & K5).
    rewrite N2Nat.id in K2. rewrite (find_position_NoDup sigma (N.to_nat b) a w0 ND Es) in K2.
    rewrite Et in K2. injection K2 as <- <-. rewrite Er in K1. injection K1 as <- <-.
    unfold ShuffleModel.mix_card. rewrite G5.
    assert (E1 : nthN s a = Some c0) by exact Ec0. rewrite E1.
    assert (E2 : nthN gam a = Some (a3, addsec r t)) by (apply nthN_spec; split; [lia | exact K5]). rewrite E2.
    f_equal. rewrite <- Hc, Hc1. symmetry. apply mask_mask.
  Qed.

  (* the glued secret is again a bijection *)
  Theorem glue_perm sigma pi gam n : glue sigma pi = Ret gam -> (n <= max_cards)%nat ->
    Permutation (map fst sigma) (iota n) -> Permutation (map fst pi) (iota n) -> Permutation (map fst gam) (iota n).
  Proof.
    intros G Hn Ps Pp.
    destruct (perm_iota_facts sigma n Ps) as (Ls & _). destruct (perm_iota_facts pi n Pp) as (Lp & _).
    pose proof (glue_length _ _ _ G ltac:(lia)) as Lg.
    set (g := fun b : N => match nthN sigma b with Some (a, _) => [a] | None => [] end).
    assert (E1 : map fst gam = flat_map g (map fst pi)).
    { transitivity (map (fun x : N => x) (map fst gam)); [now rewrite map_id|].
      apply flat_map_pointwise; [rewrite !map_length; congruence|].
      intros i b a Eb Ea. rewrite nth_error_map in Eb, Ea.
      assert (Hi : (i < n)%nat). { rewrite <- Lp. apply nth_error_Some. destruct (nth_error pi i); [congruence | discriminate]. }
      destruct (glue_nth sigma pi gam n i G Ls Hn Hi) as (x & r1 & y & r2 & b2 & z2 & a2 & w2 & G1 & G2 & G3 & G4 & G5).
      rewrite G3 in Eb. rewrite G5 in Ea. cbn in Eb, Ea. injection Eb as <-. injection Ea as <-. unfold g. now rewrite G4. }
    assert (E2 : map fst sigma = flat_map g (iota n)).
    { transitivity (map (fun x : N => x) (map fst sigma)); [now rewrite map_id|].
      apply flat_map_pointwise; [rewrite map_length, iota_length; congruence|].
      intros i b a Eb Ea. assert (Hi : (i < n)%nat) by (rewrite <- (iota_length n); apply nth_error_Some; congruence).
      rewrite nth_error_iota in Eb by assumption. injection Eb as <-. rewrite nth_error_map in Ea.
      unfold g. rewrite nthN_of_nat. destruct (nth_error sigma i) as [[a' w]|]; [|discriminate]. cbn in Ea. congruence. }
    rewrite E1. eapply Permutation_trans; [apply Permutation_flat_map; exact Pp|]. rewrite <- E2. exact Ps.
  Qed.
End Glue.

(* ---- the import check -------------------------------------------------------------------------------------- *)
Lemma perm_check_spec {A} (l : list (N * A)) n :
  perm_check l (N.of_nat n) = true <-> forall i, (i < n)%nat -> (find_position l (N.of_nat i) < n)%nat.
Proof.
  unfold perm_check. rewrite Nat2N.id, forallb_forall. split.
  - intros H i Hi. specialize (H i ltac:(apply in_seq; lia)). lia.
  - intros H i Hi. apply in_seq in Hi. specialize (H i ltac:(lia)). lia.
Qed.

(* a fresh object (the whole vector was just read): accepted exactly when the indices are a bijection on {0..n-1} *)
Theorem import_check_iff {A} (l : list (N * A)) :
  perm_check l (N.of_nat (length l)) = true <-> Permutation (map fst l) (iota (length l)).
Proof.
  rewrite perm_check_spec. split.
  - intros H. apply Permutation_sym. apply NoDup_Permutation_bis.
    + apply NoDup_iota.
    + rewrite map_length, iota_length. lia.
    + intros x Hx. apply in_iota in Hx. apply find_position_in.
      specialize (H (N.to_nat x) ltac:(lia)). now rewrite N2Nat.id in H.
  - intros P i Hi. apply find_position_in. eapply Permutation_in; [apply Permutation_sym; exact P|]. apply in_iota. lia.
Qed.

Lemma read_pairs_length size : forall k s ps r, read_pairs size k s = Some (ps, r) -> length ps = k.
Proof.
  induction k as [|k IH]; intros s ps r; cbn [read_pairs].
  - intros E. injection E as <- <-. reflexivity.
  - destruct (field s hat) as [[f r0]|]; [|discriminate].
    destruct (strtoul_full f) as [idx|]; [|discriminate].
    destruct (idx <? size); [|discriminate].
    destruct (field r0 hat) as [[g r1]|]; [|discriminate].
    destruct (import_vsecret g) as [sec|]; [|discriminate].
    destruct (read_pairs size k r1) as [[ps' r2]|] eqn:E; [|discriminate].
    intros E'. injection E' as <- <-. cbn. f_equal. eapply IH. exact E.
Qed.

(* the textual importer (fresh object): whatever it accepts carries a bijection ... *)
Theorem import_accepts_only_bijections t ss : import_vstacksecret [] t = Some ss ->
  Permutation (map fst ss) (iota (length ss)) /\ (1 <= length ss <= max_cards)%nat.
Proof.
  unfold import_vstacksecret. destruct (cm t magic_sts hat) as [r0|]; [|discriminate].
  unfold import_size. destruct (field r0 hat) as [[f r]|]; [|discriminate].
  destruct (strtoul_full f) as [v|]; [|discriminate].
  destruct ((1 <=? v) && (v <=? Z.to_N TMCG_MAX_CARDS)) eqn:HB; [|discriminate].
  apply andb_true_iff in HB. destruct HB as [H1 H2]. apply N.leb_le in H1, H2.
  destruct (read_pairs v (N.to_nat v) r) as [[ps rest]|] eqn:RP; [|discriminate].
  cbn [app]. destruct (perm_check ps v) eqn:PC; [|discriminate].
  intros E. injection E as <-. apply read_pairs_length in RP.
  split.
  - apply import_check_iff. rewrite RP, N2Nat.id. exact PC.
  - rewrite RP. unfold max_cards. lia.
Qed.

(* ... and a text whose index fields parse but do not form a bijection is refused *)
Theorem import_refuses_non_bijections t r0 n r1 ps rest :
  cm t magic_sts hat = Some r0 -> import_size r0 = Some (n, r1) -> read_pairs n (N.to_nat n) r1 = Some (ps, rest) ->
  ~ Permutation (map fst ps) (iota (N.to_nat n)) -> import_vstacksecret [] t = None.
Proof.
  intros C S RP NP. unfold import_vstacksecret. rewrite C, S, RP. cbn [app].
  destruct (perm_check ps n) eqn:PC; [|reflexivity]. exfalso. apply NP.
  pose proof (read_pairs_length _ _ _ _ _ RP) as L. rewrite <- L. apply import_check_iff. now rewrite L, N2Nat.id.
Qed.

(* ---- TMCG_CreateStackSecret ----------------------------------------------------------------------------------- *)
Lemma masking_value_loop_spec q : forall fuel s v r, masking_value_loop fuel q s = Ret (v, r) -> (2 <= v < Z.abs q)%Z.
Proof.
  induction fuel as [|fuel IH]; intros s v r; cbn [masking_value_loop]; [discriminate|].
  destruct (grandomm q s) as [[v0 r0]| | | | |] eqn:G; cbn [bind fst snd]; try discriminate.
  destruct (Z.eqb_spec v0 0); cbn [orb]; [apply IH|].
  destruct (Z.eqb_spec v0 1); [apply IH|].
  intros E. injection E as <- <-. apply grandomm_range in G. lia.
Qed.

Lemma masking_values_spec q : forall k s vs r, masking_values k q s = Ret (vs, r) ->
  length vs = k /\ Forall (fun v => 2 <= v < Z.abs q)%Z vs.
Proof.
  induction k as [|k IH]; intros s vs r; cbn [masking_values].
  - intros E. injection E as <- <-. split; [reflexivity | constructor].
  - destruct (masking_value q s) as [[v r0]| | | | |] eqn:M; cbn [bind fst snd]; try discriminate.
    destruct (masking_values k q r0) as [[vs' r1]| | | | |] eqn:MS; cbn [bind fst snd]; try discriminate.
    intros E. injection E as <- <-. apply IH in MS. destruct MS as (L & F).
    apply masking_value_loop_spec in M. split; [cbn; now rewrite L | now constructor].
Qed.

(* every freshly generated stack secret contains a bijection; a requested rotation is a cyclic shift whose
   offset is the returned value; all card secrets are in [2, q) *)
Theorem create_stack_secret_spec cyclic n q s o ss s' : create_stack_secret cyclic n q s = Ret ((o, ss), s') ->
  (n <= max_cards)%nat /\ length ss = n /\ Permutation (map fst ss) (iota n) /\
  Forall (fun p => 2 <= snd p < Z.abs q)%Z ss /\
  (if cyclic then (2 <= n)%nat /\ exists r, r < N.of_nat n /\ map fst ss = rotation n r /\ o = rotation_offset n r
   else (1 <= n)%nat /\ o = 0).
Proof.
  unfold create_stack_secret. destruct (Nat.ltb_spec max_cards n) as [|Hn]; [discriminate|].
  set (gen := if cyclic then _ else _).
  destruct gen as [[[o1 pi] s1]| | | | |] eqn:G; cbn [bind fst snd]; try discriminate.
  destruct (masking_values n q s1) as [[vs s2]| | | | |] eqn:MS; cbn [bind fst snd]; try discriminate.
  intros E. injection E as <- <- <-. apply masking_values_spec in MS. destruct MS as (Lv & Fv).
  assert (Hpi : length pi = n /\ Permutation (iota n) pi /\
    (if cyclic then (2 <= n)%nat /\ exists r, r < N.of_nat n /\ pi = rotation n r /\ o1 = rotation_offset n r
     else (1 <= n)%nat /\ o1 = 0)).
  { unfold gen in G. destruct cyclic.
    - apply random_rotation_spec in G. destruct G as (H2 & r & Hr & -> & ->).
      split; [apply rotation_length|]. split; [apply rotation_perm; [now apply max_cards_small | assumption]|]. split; [assumption|]. exists r. auto.
    - destruct (random_permutation_fast n s) as [[pi0 s0]| | | | |] eqn:RP; cbn [bind fst snd] in G; try discriminate.
      injection G as <- <- <-. pose proof (random_permutation_fast_perm _ _ _ _ RP) as P.
      split; [apply Permutation_length in P; now rewrite iota_length in P|]. split; [assumption|].
      split; [|reflexivity]. destruct n; [discriminate RP | lia]. }
  destruct Hpi as (Lpi & Ppi & Hc).
  assert (Efst : map fst (combine pi vs) = pi).
  { rewrite <- Lpi in Lv. clear -Lv. revert vs Lv. induction pi as [|a pi IH]; intros [|v vs] L; cbn in *; try discriminate; [reflexivity|].
    f_equal. apply IH. lia. }
  split; [assumption|]. split; [rewrite combine_length; lia|]. rewrite Efst. split; [now apply Permutation_sym|]. split.
  - apply Forall_forall. intros [a v] Hin. apply in_combine_r in Hin. rewrite Forall_forall in Fv. now apply Fv.
  - exact Hc.
Qed.

(* ---- the two encodings satisfy the homomorphism hypothesis of glue_ok -------------------------------------------- *)
Lemma powm_mod_order b e p q : (1 < p)%Z -> (0 < q)%Z -> (0 <= e)%Z -> powm b q p = 1%Z -> powm b (e mod q) p = powm b e p.
Proof.
  intros Hp Hq He Hb.
  pose proof (Z.mod_pos_bound e q Hq) as Hm. pose proof (Z.div_pos e q He Hq) as Hd.
  rewrite powm_spec in Hb by lia. rewrite !powm_spec by lia.
  replace (b ^ e)%Z with (b ^ (q * (e / q)) * b ^ (e mod q))%Z.
  - rewrite Z.mul_mod by lia. rewrite Z.pow_mul_r by lia. rewrite <- (pow_mod_base (b ^ q)) by lia.
    rewrite Hb, Z.pow_1_l by lia. rewrite (Z.mod_1_l p) by lia. rewrite Z.mul_1_l. now rewrite Z.mod_mod by lia.
  - rewrite <- Z.pow_add_r by (try apply Z.mul_nonneg_nonneg; lia). f_equal. symmetry. apply Z.div_mod. lia.
Qed.

Ltac mod_ring m :=
  match goal with |- (?a mod m = ?b mod m)%Z => change (eqm m a b) end;
  let P1 := fresh in let P2 := fresh in
  pose proof (Zmult_eqm m) as P1; pose proof (eqm_setoid m) as P2;
  rewrite !(Zmod_eqm m); unfold eqm; f_equal; ring.

(* VTMF: re-masking twice = re-masking once with the sum of the exponents reduced mod q *)
Theorem vmask_vmask p q g h c r1 r2 : (1 < p)%Z -> (0 < q)%Z -> powm g q p = 1%Z -> powm h q p = 1%Z ->
  (0 <= r1)%Z -> (0 <= r2)%Z -> vmask p g h (vmask p g h c r1) r2 = vmask p g h c (vadd q r1 r2).
Proof.
  intros Hp Hq Hg Hh H1 H2. unfold vmask, vadd. cbn [fst snd].
  rewrite !powm_mod_order by (assumption || lia). rewrite !powm_add by lia.
  f_equal; mod_ring p.
Qed.

(* QR encoding, entry-wise: masking twice = masking once with the product of the r (times y if both bits are set)
   and the exclusive or of the bits *)
Theorem qmask_qmask m y z s1 s2 : (0 < m)%Z -> qmask m y (qmask m y z s1) s2 = qmask m y z (qadd m y s1 s2).
Proof.
  intros Hm. destruct s1 as [r1 [|]], s2 as [r2 [|]]; unfold qmask, qadd; cbn [fst snd andb xorb];
    mod_ring m.
Qed.

(* glue_ok instantiated for the VTMF encoding; the exponents are the non-negative integers (type N), which is
   what MaskingValue and the glue produce *)
Definition vmaskN (p g h : Z) (c : Z * Z) (r : N) : Z * Z := vmask p g h c (Z.of_N r).
Definition vaddN (q : Z) (r1 r2 : N) : N := Z.to_N (vadd q (Z.of_N r1) (Z.of_N r2)).

Lemma vmaskN_vmaskN p q g h : (1 < p)%Z -> (0 < q)%Z -> powm g q p = 1%Z -> powm h q p = 1%Z ->
  forall c r1 r2, vmaskN p g h (vmaskN p g h c r1) r2 = vmaskN p g h c (vaddN q r1 r2).
Proof.
  intros Hp Hq Hg Hh c r1 r2. unfold vmaskN, vaddN. rewrite Z2N.id.
  - apply vmask_vmask; try assumption; lia.
  - unfold vadd. apply Z.mod_pos_bound. assumption.
Qed.

Theorem vtmf_glue_ok p q g h : (1 < p)%Z -> (0 < q)%Z -> powm g q p = 1%Z -> powm h q p = 1%Z ->
  forall s sigma pi n, length s = n -> length sigma = n -> length pi = n -> (n <= max_cards)%nat ->
  Permutation (map fst sigma) (iota n) -> in_range N n pi ->
  exists s1 gam s2, mix (Z * Z) N (vmaskN p g h) s sigma = Ret s1 /\ glue N (vaddN q) sigma pi = Ret gam /\
                    mix (Z * Z) N (vmaskN p g h) s1 pi = Ret s2 /\ mix (Z * Z) N (vmaskN p g h) s gam = Ret s2.
Proof.
  intros Hp Hq Hg Hh. apply glue_ok. now apply vmaskN_vmaskN.
Qed.
