(* C19 -- OpenPGP encodings (RFC 4880 sections 3.2, 3.7.1.3, 4.2, 5.x, 6, 12.2; 4880bis for v5/AEAD).
   Executable reference written from the RFC text; the correspondence harness (harness/c19.cc) runs the real
   CallasDonnerhackeFinneyShawThayerRFC4880 functions on the same inputs and the results are compared byte for byte.
   Definitions only; proofs are in PgpCodecLemmas.v.
   Octets are [N] (< 256), texts are lists of octets. Lengths/indices are [nat], scalars are [N]. *)
From Coq Require Import ZArith NArith List Bool.
From LT Require Import gen_Consts.
Import ListNotations.
Local Open Scope N_scope.

Definition octet (b : N) : Prop := b < 256.
Definition octets (l : list N) : Prop := Forall octet l.
Definition len (l : list N) : N := N.of_nat (length l).

(* ------------------------------------------------------------------------------------------------ *)
(* Radix-64 (RFC 4880 6.3 / 6.4)                                                                      *)
(* ------------------------------------------------------------------------------------------------ *)
(* Table of section 6.3: 0..25 'A'..'Z', 26..51 'a'..'z', 52..61 '0'..'9', 62 '+', 63 '/' ; pad '=' *)
Definition r64_char (v : N) : N :=
  if v <? 26 then 65 + v
  else if v <? 52 then 97 + (v - 26)
  else if v <? 62 then 48 + (v - 52)
  else if v =? 62 then 43 else 47.

Definition r64_val (c : N) : option N :=
  if (65 <=? c) && (c <=? 90) then Some (c - 65)
  else if (97 <=? c) && (c <=? 122) then Some (c - 71)
  else if (48 <=? c) && (c <=? 57) then Some (c + 4)
  else if c =? 43 then Some 62
  else if c =? 47 then Some 63
  else None.

Definition PAD : N := 61.   (* '=' *)
Definition CR : N := 13.
Definition LF : N := 10.

(* 24-bit groups -> four characters; 16 and 8 remaining bits -> three resp. two characters and pad *)
Fixpoint r64_chars (l : list N) : list N :=
  match l with
  | a :: b :: c :: r =>
      r64_char (a / 4) :: r64_char ((a mod 4) * 16 + b / 16) :: r64_char ((b mod 16) * 4 + c / 64)
        :: r64_char (c mod 64) :: r64_chars r
  | [a; b] => [r64_char (a / 4); r64_char ((a mod 4) * 16 + b / 16); r64_char ((b mod 16) * 4); PAD]
  | [a] => [r64_char (a / 4); r64_char ((a mod 4) * 16); PAD; PAD]
  | [] => []
  end.

(* lines of at most [mc] characters joined by CR LF; no line end after the last line.
   (Radix64Encode keeps a running character count and emits CR LF after every [mc]-th character while more
   output follows; for mc a multiple of four -- proven for the configured value -- that is this function.) *)
Fixpoint wrap_lines (fuel mc : nat) (l : list N) : list N :=
  match fuel with
  | O => l
  | S f => if (length l <=? mc)%nat then l else firstn mc l ++ CR :: LF :: wrap_lines f mc (skipn mc l)
  end.

Definition radix64_mc : nat := Z.to_nat TMCG_OPENPGP_RADIX64_MC.

Definition radix64_encode (linebreaks : bool) (l : list N) : list N :=
  let cs := r64_chars l in
  if linebreaks then (if (radix64_mc =? 0)%nat then cs else wrap_lines (length cs) radix64_mc cs) else cs.

(* Decoder as implemented: every character outside the alphabet is dropped first -- including '=' -- except
   NUL, which the library's filter keeps (its alphabet array is compared including the terminating NUL) and
   which then acts like a pad.  Missing characters at the end count as pad. *)
Definition r64_keep (c : N) : bool := match r64_val c with Some _ => true | None => c =? 0 end.
Definition r64_lookup (c : N) : N := match r64_val c with Some v => v | None => 255 end.

Definition r64_quad (l0 l1 l2 l3 : N) : list N :=
  let t0 := (l0 mod 64) * 4 + (l1 / 16) mod 4 in
  let t1 := (l1 mod 16) * 16 + (l2 / 4) mod 16 in
  let t2 := (l2 mod 4) * 64 + l3 mod 64 in
  (if l1 =? 255 then [] else [t0]) ++ (if l2 =? 255 then [] else [t1]) ++ (if l3 =? 255 then [] else [t2]).

Fixpoint r64_quads (l : list N) : list N :=
  match l with
  | a :: b :: c :: d :: r => r64_quad a b c d ++ r64_quads r
  | [a; b; c] => r64_quad a b c 255
  | [a; b] => r64_quad a b 255 255
  | [a] => r64_quad a 255 255 255
  | [] => []
  end.

Definition radix64_decode (s : list N) : list N := r64_quads (map r64_lookup (filter r64_keep s)).

(* ------------------------------------------------------------------------------------------------ *)
(* CRC-24 (RFC 4880 6.1): bitwise definition                                                          *)
(* ------------------------------------------------------------------------------------------------ *)
Definition crc24_init : N := Z.to_N TMCG_OPENPGP_CRC24_INIT.
Definition crc24_poly : N := Z.to_N TMCG_OPENPGP_CRC24_POLY.

Definition crc24_shift (poly crc : N) : N :=
  let c := N.shiftl crc 1 in if N.testbit c 24 then N.lxor c poly else c.
Definition crc24_octet (poly crc b : N) : N :=
  N.iter 8 (crc24_shift poly) (N.lxor crc (N.shiftl b 16)).
Definition crc24_run (poly init : N) (l : list N) : N := fold_left (crc24_octet poly) l init.
Definition crc24 (l : list N) : N := N.land (crc24_run crc24_poly crc24_init l) 16777215.

Definition be3 (v : N) : list N := [(v / 65536) mod 256; (v / 256) mod 256; v mod 256].
Definition crc24_octets (l : list N) : list N := be3 (crc24 l).
(* "=" followed by the radix-64 form of the three CRC octets *)
Definition crc24_encode (l : list N) : list N := PAD :: radix64_encode true (crc24_octets l).

(* ------------------------------------------------------------------------------------------------ *)
(* ASCII armor (RFC 4880 6.2)                                                                         *)
(* ------------------------------------------------------------------------------------------------ *)
Inductive armor_type := ArmMessage | ArmSignature | ArmPrivateKey | ArmPublicKey | ArmFile.

Definition ascii (s : list nat) : list N := map N.of_nat s.
Definition dashes : list N := [45; 45; 45; 45; 45].
Definition txt_BEGIN_PGP : list N := [66; 69; 71; 73; 78; 32; 80; 71; 80; 32].      (* "BEGIN PGP " *)
Definition txt_END_PGP : list N := [69; 78; 68; 32; 80; 71; 80; 32].                 (* "END PGP " *)
Definition armor_name (t : armor_type) : list N :=
  match t with
  | ArmMessage => [77; 69; 83; 83; 65; 71; 69]                                                  (* MESSAGE *)
  | ArmSignature => [83; 73; 71; 78; 65; 84; 85; 82; 69]                                        (* SIGNATURE *)
  | ArmPrivateKey => [80; 82; 73; 86; 65; 84; 69; 32; 75; 69; 89; 32; 66; 76; 79; 67; 75]       (* PRIVATE KEY BLOCK *)
  | ArmPublicKey => [80; 85; 66; 76; 73; 67; 32; 75; 69; 89; 32; 66; 76; 79; 67; 75]            (* PUBLIC KEY BLOCK *)
  | ArmFile => [65; 82; 77; 79; 82; 69; 68; 32; 70; 73; 76; 69]                                 (* ARMORED FILE *)
  end.
Definition armor_begin (t : armor_type) : list N := dashes ++ txt_BEGIN_PGP ++ armor_name t ++ dashes.
Definition armor_end (t : armor_type) : list N := dashes ++ txt_END_PGP ++ armor_name t ++ dashes.
Definition crlf : list N := [CR; LF].
Definition txt_Version : list N := [86; 101; 114; 115; 105; 111; 110; 58; 32].      (* "Version: " *)
Definition txt_Comment : list N := [67; 111; 109; 109; 101; 110; 116; 58; 32].      (* "Comment: " *)

(* ArmorEncode: [t = None] is the library's "default:" branch (no header and tail line, e.g. ARMOR_FILE);
   [version] is the text after "Version: " when the version header is requested *)
Definition armor_encode (t : option armor_type) (version : option (list N)) (comment data : list N) : list N :=
  (match t with Some ty => armor_begin ty ++ crlf | None => [] end)
  ++ (match version with Some v => txt_Version ++ v ++ crlf | None => [] end)
  ++ (match comment with [] => [] | _ => txt_Comment ++ comment ++ crlf end)
  ++ crlf
  ++ radix64_encode true data ++ crlf
  ++ crc24_encode data ++ crlf
  ++ (match t with Some ty => armor_end ty ++ crlf | None => [] end).

(* std::string::find(pat, from) *)
Fixpoint prefix_at (pat s : list N) : bool :=
  match pat, s with
  | [], _ => true
  | p :: pr, c :: sr => (p =? c) && prefix_at pr sr
  | _ :: _, [] => false
  end.
Fixpoint find_from_aux (pat s : list N) (pos : nat) : option nat :=
  if prefix_at pat s then Some pos
  else match s with [] => None | _ :: r => find_from_aux pat r (S pos) end.
Definition find_from (pat s : list N) (from : nat) : option nat :=
  if (length s <? from)%nat then None else find_from_aux pat (skipn from s) from.
Definition substr (s : list N) (pos n : nat) : list N := firstn n (skipn pos s).
Fixpoint octets_eqb (a b : list N) : bool :=
  match a, b with
  | [], [] => true
  | x :: a', y :: b' => (x =? y) && octets_eqb a' b'
  | _, _ => false
  end.

Definition is_blank (c : N) : bool := (c =? 32) || (c =? 9) || (c =? 13).
Definition strip_blanks (s : list N) : list N := filter (fun c => negb (is_blank c)) s.

Definition armor_types : list armor_type := [ArmMessage; ArmSignature; ArmPrivateKey; ArmPublicKey; ArmFile].

(* first type (in the library's order) whose BEGIN and END lines both occur, END after BEGIN *)
Fixpoint armor_detect (ts : list armor_type) (s : list N) : option armor_type :=
  match ts with
  | [] => None
  | t :: r =>
      match find_from (armor_begin t) s 0, find_from (armor_end t) s 0 with
      | Some sp, Some ep => if (sp <? ep)%nat then Some t else armor_detect r s
      | _, _ => armor_detect r s
      end
  end.

Inductive armor_result :=
| ArmOk (t : armor_type) (data : list N)
| ArmNoBlock              (* header and trailer not found *)
| ArmNoSeparator          (* blank line not found *)
| ArmNested               (* another five-dash line between header and tail *)
| ArmBadChecksum
| ArmBadLayout.           (* positions inconsistent *)

(* ArmorDecode as implemented (positions are those of std::string::find; npos comparisons made explicit) *)
Definition armor_decode (s : list N) : armor_result :=
  match armor_detect armor_types s with
  | None => ArmNoBlock
  | Some t =>
      let w := strip_blanks s in
      let fspos := find_from (strip_blanks (armor_begin t)) w 0 in
      let fepos := find_from (strip_blanks (armor_end t)) w 0 in
      (* spos may be npos when blanks-stripping changed the picture: find(x, npos) is npos *)
      let frpos := match fspos with Some p => find_from [LF; LF] w p | None => None end in
      match frpos with
      | None => ArmNoSeparator
      | Some rpos =>
          match fspos with
          | None => ArmNoSeparator
          | Some spos =>
              let fcpos := match find_from [LF; PAD] w spos with Some c => Some c | None => fepos end in
              if negb (match find_from dashes w (spos + 33), fepos with
                       | Some a, Some b => (a =? b)%nat
                       | None, None => true
                       | _, _ => false
                       end) then ArmNested
              else
                (* cpos / epos = npos behave as "very large" in the unsigned comparisons *)
                let lt_opt (a : nat) (b : option nat) := match b with Some v => (a <? v)%nat | None => true end in
                if ((spos + 24 <? rpos)%nat && lt_opt (rpos + 2)%nat fcpos)%bool then
                  let data := match fcpos with
                              | Some cpos => substr w (rpos + 2) (cpos - rpos - 2)
                              | None => skipn (rpos + 2) w
                              end in
                  let dec := radix64_decode data in
                  let check := match fcpos with
                               | Some cpos => if lt_opt (cpos + 6)%nat fepos
                                              then octets_eqb (crc24_encode dec) (substr w (cpos + 1) 5)
                                              else true
                               | None => true
                               end in
                  if check then ArmOk t dec else ArmBadChecksum
                else ArmBadLayout
          end
      end
  end.

(* ------------------------------------------------------------------------------------------------ *)
(* Packet headers (RFC 4880 4.2)                                                                      *)
(* ------------------------------------------------------------------------------------------------ *)
(* new-format packet tag octet: bits 7 and 6 set, tag in bits 5..0 (the library always writes new format) *)
Definition tag_encode (tag : N) : list N := [N.lor tag 192].

Definition be2 (v : N) : list N := [(v / 256) mod 256; v mod 256].
Definition be4 (v : N) : list N := [(v / 16777216) mod 256; (v / 65536) mod 256; (v / 256) mod 256; v mod 256].
Definition be8 (v : N) : list N := be4 (v / 4294967296) ++ be4 v.

(* 4.2.2: one octet below 192, two octets below 8384, else 0xFF and a four-octet scalar *)
Definition pktlen_encode (n : N) : list N :=
  if n <? 192 then [n mod 256]
  else if n <? 8384 then be2 (n - 192 + 49152)
  else 255 :: be4 n.

Inductive pktlen :=
| LenDefinite (n : N) (consumed : nat)      (* body length, octets of the length header *)
| LenPartial (n : N)                        (* partial body length (one header octet) *)
| LenIndeterminate (n : N).                 (* old format, length type 3: the rest of the input *)

Definition u32 (v : N) : N := v mod 4294967296.

Definition pktlen_decode (l : list N) (newformat : bool) (lentype : N) : option pktlen :=
  match l with
  | [] => None
  | a :: r =>
      if newformat then
        if a <? 192 then Some (LenDefinite a 1)
        else if a <? 224 then
          match r with b :: _ => Some (LenDefinite ((a - 192) * 256 + b + 192) 2) | [] => None end
        else if a =? 255 then
          match r with
          | b :: c :: d :: e :: _ => Some (LenDefinite (u32 (b * 16777216 + c * 65536 + d * 256 + e)) 5)
          | _ => None
          end
        else Some (LenPartial (2 ^ (a mod 32)))
      else
        if lentype =? 0 then Some (LenDefinite a 1)
        else if lentype =? 1 then
          match r with b :: _ => Some (LenDefinite (a * 256 + b) 2) | [] => None end
        else if lentype =? 2 then
          match r with
          | b :: c :: d :: _ => Some (LenDefinite (u32 (a * 16777216 + b * 65536 + c * 256 + d)) 4)
          | _ => None
          end
        else if lentype =? 3 then Some (LenIndeterminate (u32 (len l)))
        else None
  end.

(* PacketBodyExtract: tag octet, then a chain of partial body lengths closed by a definite length *)
Definition data_tag (tag : N) : bool := (tag =? 8) || (tag =? 9) || (tag =? 11) || (tag =? 18).

Fixpoint body_chunks (fuel : nat) (work : list N) (newformat : bool) (lentype tag : N) (first : bool)
  : option (list N) :=
  match fuel with
  | O => None
  | S f =>
      match pktlen_decode work newformat lentype with
      | None => None
      | Some (LenDefinite n h) =>
          if len work <? N.of_nat h + n then None else Some (substr work h (N.to_nat n))
      | Some (LenIndeterminate n) =>
          if len work <? n then None else Some (substr work 0 (N.to_nat n))
      | Some (LenPartial n) =>
          if len work <? 1 + n then None
          else if first && (n <? 512) then None
          else if negb (data_tag tag) then None
          else match body_chunks f (skipn (1 + N.to_nat n) work) newformat lentype tag false with
               | Some rest => Some (substr work 1 (N.to_nat n) ++ rest)
               | None => None
               end
      end
  end.

(* result: (packet tag, body); None = the library's return value 0 *)
Definition body_extract (l : list N) : option (N * list N) :=
  match l with
  | [] => None
  | t :: work =>
      if t <? 128 then None
      else
        let newformat := 64 <=? t mod 128 in
        let tag := if newformat then t - 192 else (t / 4) mod 32 in
        let lentype := if newformat then 0 else t mod 4 in
        match body_chunks (S (length work)) work newformat lentype tag true with
        | Some body => Some (tag, body)
        | None => None
        end
  end.

(* ------------------------------------------------------------------------------------------------ *)
(* Multiprecision integers (RFC 4880 3.2), strings                                                    *)
(* ------------------------------------------------------------------------------------------------ *)
Fixpoint be_bytes (k : nat) (n : N) : list N :=
  match k with O => [] | S k' => be_bytes k' (N.shiftr n 8) ++ [N.land n 255] end.
Definition be_value (l : list N) : N := fold_left (fun acc b => N.shiftl acc 8 + b) l 0.

Definition mpi_octets (n : N) : nat := N.to_nat ((N.size n + 7) / 8).
Definition mpi_encode (n : N) : list N := be2 (N.size n) ++ be_bytes (mpi_octets n) n.

Definition sum16 (s : N) (l : list N) : N := fold_left (fun acc b => (acc + b) mod 65536) l s.

(* result: value, octets consumed; None = return value 0.  The announced bit count is only used to derive
   the octet count; leading zero bits are accepted. *)
Definition mpi_decode (l : list N) : option (N * nat) :=
  match l with
  | a :: b :: r =>
      let k := N.to_nat ((a * 256 + b + 7) / 8) in
      if (length r <? k)%nat then None else Some (be_value (firstn k r), (2 + k)%nat)
  | _ => None
  end.
(* the running 16-bit checksum of secret-key material as PacketMPIDecode maintains it *)
Definition mpi_decode_sum (s : N) (l : list N) : N :=
  match l with
  | a :: b :: r =>
      let k := N.to_nat ((a * 256 + b + 7) / 8) in
      if (length r <? k)%nat then sum16 s [a; b] else sum16 s (a :: b :: firstn k r)
  | _ => s
  end.

Definition string_encode (s : list N) : list N := pktlen_encode (len s) ++ s.
Definition string_decode (l : list N) : option (list N * nat) :=
  match pktlen_decode l true 255 with
  | Some (LenDefinite n h) =>
      if n =? 0 then None
      else if len l <? n + N.of_nat h then None
      else Some (substr l h (N.to_nat n), (N.to_nat n + h)%nat)
  | _ => None
  end.

(* ------------------------------------------------------------------------------------------------ *)
(* String-to-key (RFC 4880 3.7.1)                                                                     *)
(* ------------------------------------------------------------------------------------------------ *)
(* 3.7.1.3: count = (16 + (c & 15)) << ((c >> 4) + 6) *)
Definition s2k_count (c : N) : N := (16 + c mod 16) * 2 ^ (c / 16 + 6).

(* octets given to hash instance number [nzp] (preloaded with nzp zero octets): salt+passphrase once in full,
   then repeated cyclically until [cnt] octets have been hashed (cnt = 0 for the non-iterated forms) *)
Definition s2k_stream (cnt : N) (nzp : nat) (data : list N) : list N :=
  let l := len data in
  if (l =? 0) then repeat 0 nzp
  else
    let total := N.max cnt l in
    repeat 0 nzp ++ concat (repeat data (N.to_nat (total / l))) ++ firstn (N.to_nat (total mod l)) data.

(* number of hash instances and key assembly: instances = sklen / hashlen + 1, outputs concatenated, cut to sklen *)
Definition s2k_instances (sklen hashlen : N) : N := sklen / hashlen + 1.

(* ------------------------------------------------------------------------------------------------ *)
(* Fingerprints and key identifiers (RFC 4880 12.2; 4880bis for v5): the hashed octets                 *)
(* ------------------------------------------------------------------------------------------------ *)
Definition fpr_v4_input (body : list N) : list N := 153 :: be2 (len body) ++ body.      (* 0x99, two-octet length *)
Definition fpr_v5_input (body : list N) : list N := 154 :: be4 (len body) ++ body.      (* 0x9A, four-octet length *)
Definition keyid_v4 (fpr : list N) : list N := substr fpr 12 8.       (* low-order 64 bits of the SHA-1 *)
Definition keyid_v5 (fpr : list N) : list N := firstn 8 fpr.          (* high-order 64 bits of the SHA-256 *)

(* ------------------------------------------------------------------------------------------------ *)
(* Packets the library emits (field layouts of RFC 4880 section 5)                                    *)
(* ------------------------------------------------------------------------------------------------ *)
Definition packet (tag : N) (body : list N) : list N := tag_encode tag ++ pktlen_encode (len body) ++ body.

Definition PK_RSA : N := 1.  Definition PK_RSA_E : N := 2.  Definition PK_RSA_S : N := 3.
Definition PK_ELG : N := 16. Definition PK_DSA : N := 17.   Definition PK_ECDH : N := 18.

(* 5.1 public-key encrypted session key, version 3 *)
Definition pkesk_rsa (keyid : list N) (me : N) : list N := packet 1 (3 :: keyid ++ PK_RSA :: mpi_encode me).
Definition pkesk_elg (keyid : list N) (gk myk : N) : list N :=
  packet 1 (3 :: keyid ++ PK_ELG :: mpi_encode gk ++ mpi_encode myk).
Definition pkesk_ecdh (keyid : list N) (epk : N) (rkw : list N) : list N :=
  packet 1 (3 :: keyid ++ PK_ECDH :: mpi_encode epk ++ (len rkw) mod 256 :: rkw).

(* 5.2.3 version 4 signature: hashed area as prepared, empty unhashed area, left 16 bits, MPIs *)
Definition sig_packet (hashed_part left : list N) (mpis : list N) : list N :=
  packet 2 (hashed_part ++ [0; 0] ++ left ++ concat (map mpi_encode mpis)).

(* 5.2.3.1 signature subpacket *)
Definition subpacket (type : N) (critical : bool) (data : list N) : list N :=
  pktlen_encode (len data + 1) ++ (if critical then N.lor type 128 else type) :: data.

(* 5.5.2 version 4 public key / subkey (tag 6 / 14) *)
Definition pub_body (keytime algo : N) (mpis : list N) : list N :=
  4 :: be4 keytime ++ algo :: concat (map mpi_encode mpis).
Definition pub_packet (tag keytime algo p q g y : N) : option (list N) :=
  if (algo =? PK_RSA) || (algo =? PK_RSA_E) || (algo =? PK_RSA_S) then Some (packet tag (pub_body keytime algo [p; q]))
  else if algo =? PK_ELG then Some (packet tag (pub_body keytime algo [p; g; y]))
  else if algo =? PK_DSA then Some (packet tag (pub_body keytime algo [p; q; g; y]))
  else None.      (* "not supported": nothing is emitted *)

Definition sed_packet (data : list N) : list N := packet 9 data.
Definition lit_packet (time : N) (data : list N) : list N := packet 11 (98 :: 0 :: be4 time ++ data).
Definition uid_packet (uid : list N) : list N := packet 13 uid.
Definition seipd_packet (data : list N) : list N := packet 18 (1 :: data).
(* 5.14: the MDC packet always has the header 0xD3 0x14 *)
Definition mdc_packet (hash : list N) : list N := tag_encode 19 ++ 20 :: hash.
Definition aead_packet (skalgo aeadalgo chunksize : N) (iv data : list N) : list N :=
  packet 20 (1 :: skalgo :: aeadalgo :: chunksize :: iv ++ data).
