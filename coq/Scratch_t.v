From Coq Require Import ZArith Znumtheory List Lia.
From LT Require Import Zbase CodecModel CheckGroupModel CheckGroupLemmas OtModel OtLemmas.
Import ListNotations.
Local Open Scope Z_scope.
Example e0 : choose_n_first 23 11 2 1 3 5 [7; 9; 2] = (8, 9, [13; 16; 4]).
Proof. vm_compute. reflexivity. Qed.
Example e1 : exists resp, send_n 23 11 2 [4; 8; 16] 8 9 [13; 16; 4] [(1, 2); (3, 4); (5, 6)] = Some resp /\
               choose_second 23 11 1 5 resp = Some 8 /\ curious 23 5 resp 0 <> Some 4.
Proof. eexists. split; [vm_compute; reflexivity|]. idtac "a". split; [vm_compute; reflexivity|]. idtac "b". vm_compute. discriminate. Qed.
