From Coq Require Import Extraction ExtrOcamlBasic.
From LT Require Import FsModel VtmfVerModel SkcModel.
Extraction "model.ml" fs_ser flat_pairs table_hash verdict_code mk_grp key_verify keyint_verify cp_verify mask_verify remask_verify
  decrypt_verify or_verify mk_pkey test_membership ped_verify mk_skc skc_verify.
