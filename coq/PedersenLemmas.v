(* PedersenLemmas (C03): Commit = CommitBy (with and without timing protection) = h^r * prod g_i^{m_i} for every number of
   messages, i.e. on both sides of the table limit TMCG_MAX_FPOWM_N, and Verify accepts it. *)
From Coq Require Import ZArith Znumtheory Lia List Bool ZifyBool.
From LT Require Import Zbase gen_Consts SigmaPrim SigmaArith PedersenModel.
Import ListNotations.
Local Open Scope Z_scope.

Record wf_pcom (C : pcom) : Prop := mkWfP {
  wp_p : 1 < pc_p C;
  wp_odd : Z.odd (pc_p C) = true;
  wp_q : 0 < pc_q C;
  wp_t : sizeinbase2 (pc_q C) <= TMCG_MAX_FPOWM_T;
  wp_h : powm (pc_h C) (pc_q C) (pc_p C) = 1;
  wp_g : Forall (fun gi => powm gi (pc_q C) (pc_p C) = 1) (pc_g C)
}.

Definition msgs_ok (q : Z) (ms : list Z) : Prop := Forall (fun m => 0 <= m < q) ms.

Section P.
  Variable C : pcom.
  Hypothesis WF : wf_pcom C.
  Let p := pc_p C.
  Let q := pc_q C.
  Let Hp : 1 < p. Proof. exact (wp_p _ WF). Qed.
  Let Hodd : Z.odd p = true. Proof. exact (wp_odd _ WF). Qed.
  Let Hq : 0 < q. Proof. exact (wp_q _ WF). Qed.
  Let Ht : sizeinbase2 q <= TMCG_MAX_FPOWM_T. Proof. exact (wp_t _ WF). Qed.

  (* all four ways of computing g_i^m agree with powm: table or no table, protection or not *)
  Lemma gen_pow_spec prot idx gi m : powm gi q p = 1 -> 0 <= m < q -> gen_pow prot idx gi m p q = Some (powm gi m p).
  Proof.
    intros Hg Hm. unfold gen_pow. destruct (Z.of_nat idx <? TMCG_MAX_FPOWM_N); destruct prot.
    - now apply fspowm_spec.
    - now apply fpowm_spec.
    - apply (spowm_spec gi q m p); try assumption; lia.
    - unfold mpz_powm. destruct (m <? 0) eqn:E; [lia|reflexivity].
  Qed.

  Lemma h_pow_spec prot r : 0 <= r < q -> h_pow prot C r = Some (powm (pc_h C) r p).
  Proof.
    intros Hr. unfold h_pow. fold p q. destruct prot.
    - apply fspowm_spec; try assumption. exact (wp_h _ WF).
    - now apply fpowm_spec.
  Qed.

  Lemma gen_prod_nil gs : gen_prod gs [] p = 1.
  Proof. destruct gs; reflexivity. Qed.

  Lemma commit_loop_reduced prot : forall ms gs idx acc, 0 <= acc < p ->
    Forall (fun gi => powm gi q p = 1) gs -> msgs_ok q ms -> (length ms <= length gs)%nat ->
    commit_loop prot idx gs ms acc p q = Some ((acc * gen_prod gs ms p) mod p).
  Proof.
    induction ms as [|m ms IH]; intros gs idx acc Ha Hg Hm Hl.
    - cbn [commit_loop]. rewrite gen_prod_nil, Z.mul_1_r. rewrite Z.mod_small by lia. reflexivity.
    - destruct gs as [|gi gs]; [exfalso; simpl in Hl; inversion Hl|].
      inversion Hg as [|? ? Hgi Hgs]; subst. inversion Hm as [|? ? Hmi Hms]; subst.
      cbn [commit_loop gen_prod]. rewrite (gen_pow_spec prot idx gi m Hgi Hmi).
      cbn [length] in Hl.
      rewrite IH; [|apply Z.mod_pos_bound; lia|assumption|assumption|lia].
      rewrite Zmult_mod_idemp_l. f_equal. f_equal. ring.
  Qed.

  Lemma len_ok (ms : list Z) : (length ms <= length (pc_g C))%nat -> (length (pc_g C) <? length ms)%nat = false.
  Proof. intros. apply Nat.ltb_ge. assumption. Qed.

  (* CommitBy, both settings of TimingAttackProtection, every number of messages *)
  Theorem commit_by_spec r ms prot : 0 <= r < q -> msgs_ok q ms -> (length ms <= length (pc_g C))%nat ->
    commit_by C r ms prot = Some (commitment C r ms).
  Proof.
    intros Hr Hm Hl. unfold commit_by, commitment. fold p q. rewrite (len_ok ms Hl).
    destruct (q <=? r) eqn:E; [lia|]. rewrite (h_pow_spec prot r Hr).
    apply commit_loop_reduced; try assumption. apply powm_range; lia. exact (wp_g _ WF).
  Qed.

  Theorem commit_spec raw ms : msgs_ok q ms -> (length ms <= length (pc_g C))%nat ->
    commit C raw ms = Some (commitment C (raw mod q) ms, raw mod q).
  Proof.
    intros Hm Hl. unfold commit, srandomm. fold p q. rewrite (len_ok ms Hl).
    pose proof (Z.mod_pos_bound raw q Hq) as Hr. rewrite (h_pow_spec true _ Hr).
    rewrite commit_loop_reduced; try assumption; [reflexivity|apply powm_range; lia|exact (wp_g _ WF)].
  Qed.

  Corollary commit_eq_commit_by raw ms prot : msgs_ok q ms -> (length ms <= length (pc_g C))%nat ->
    exists c, commit C raw ms = Some (c, raw mod q) /\ commit_by C (raw mod q) ms prot = Some c.
  Proof.
    intros Hm Hl. exists (commitment C (raw mod q) ms). split; [now apply commit_spec|].
    apply commit_by_spec; try assumption. apply Z.mod_pos_bound. exact Hq.
  Qed.

  (* the commitment is a unit: every factor is an element of order dividing q *)
  Lemma unit_mul a b : (exists x, (a * x) mod p = 1) -> (exists y, (b * y) mod p = 1) -> exists z, ((a * b) mod p * z) mod p = 1.
  Proof.
    intros [x Hx] [y Hy]. exists (x * y). rewrite Zmult_mod_idemp_l.
    replace (a * b * (x * y)) with ((a * x) * (b * y)) by ring. rewrite Zmult_mod, Hx, Hy. apply Z.mod_1_l. lia.
  Qed.

  Lemma powm_unit b e : powm b q p = 1 -> 0 <= e -> exists x, (powm b e p * x) mod p = 1.
  Proof.
    intros Hb He. exists (powm b ((q - 1) * e) p). rewrite <- powm_add by nia.
    replace (e + (q - 1) * e) with (e * q) by ring. rewrite powm_spec by nia. apply (cyc_pow_mult p q b Hp Hq Hb). lia.
  Qed.

  Lemma gen_prod_unit : forall gs ms, Forall (fun gi => powm gi q p = 1) gs -> msgs_ok q ms ->
    exists x, (gen_prod gs ms p * x) mod p = 1.
  Proof.
    induction gs as [|gi gs IH]; intros ms Hg Hm.
    - exists 1. cbn. apply Z.mod_1_l. lia.
    - destruct ms as [|m ms]; [exists 1; cbn; apply Z.mod_1_l; lia|].
      inversion Hg; subst. inversion Hm; subst. cbn [gen_prod].
      destruct (IH ms H2 H4) as [x Hx]. destruct (powm_unit gi m H1 ltac:(lia)) as [y Hy].
      exists (y * x). replace (powm gi m p * gen_prod gs ms p * (y * x)) with ((powm gi m p * y) * (gen_prod gs ms p * x)) by ring.
      rewrite Zmult_mod, Hy, Hx. apply Z.mod_1_l. lia.
  Qed.

  Lemma commitment_pos r ms : 0 <= r -> msgs_ok q ms -> 0 < commitment C r ms < p.
  Proof.
    intros Hr Hm. unfold commitment. fold p.
    pose proof (Z.mod_pos_bound (powm (pc_h C) r p * gen_prod (pc_g C) ms p) p ltac:(lia)) as B.
    destruct (powm_unit (pc_h C) r (wp_h _ WF) Hr) as [x Hx].
    destruct (gen_prod_unit (pc_g C) ms (wp_g _ WF) Hm) as [y Hy].
    destruct (unit_mul _ _ (ex_intro _ x Hx) (ex_intro _ y Hy)) as [z Hz].
    assert ((powm (pc_h C) r p * gen_prod (pc_g C) ms p) mod p <> 0); [|lia].
    intros Z0. rewrite Z0 in Hz. rewrite Z.mul_0_l, Z.mod_0_l in Hz by lia. lia.
  Qed.

  (* completeness: Verify accepts what Commit / CommitBy produced *)
  Theorem verify_commit r ms : 0 <= r < q -> msgs_ok q ms -> (length ms <= length (pc_g C))%nat ->
    pverify C (commitment C r ms) r ms = Accept.
  Proof.
    intros Hr Hm Hl. unfold pverify. fold p q. rewrite (len_ok ms Hl).
    destruct (r <? 0) eqn:E0; [lia|]. destruct (q <=? r) eqn:E; [lia|]. cbn [orb]. rewrite (h_pow_spec false r Hr).
    rewrite commit_loop_reduced; try assumption; [|apply powm_range; lia|exact (wp_g _ WF)].
    fold (commitment C r ms). pose proof (commitment_pos r ms ltac:(lia) Hm) as B. fold p in B.
    destruct (commitment C r ms <=? 0) eqn:E1; [lia|]. destruct (p <=? commitment C r ms) eqn:E2; [lia|].
    cbn [orb]. now rewrite Z.eqb_refl.
  Qed.
End P.
