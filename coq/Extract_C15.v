From Coq Require Import Extraction ExtrOcamlBasic NArith.
From LT Require Import VssModel DkgModel DkgRoundModel.
Extraction "model.ml" poly_eval commits fcommits rhs_prod share_ok recv_complaint complains complaints_from disqualified
  resolve vss_receive deal_share deal_resolution lagrange0 recon_parties interpolate dkg_x dkg_y dkg_v refresh_share dkg_view dkg_own_stream qual_glob dkg_answers
  N.add. (* N.add: drvcore.ml needs the type n although this model does not use it *)
