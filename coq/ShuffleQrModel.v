(* ShuffleQrModel: the card secrets and card masking of the QR (Schindelhauer) encoding (C02, "both encodings").
   Anchors (src/SchindelhauerTMCG.cc):
     TMCG_CreateCardSecret (TMCG_CardSecret)  :743-793   per entry: r in Z_m^* by rejection (srandomm + gcd), one random bit
                                                         (srandomb(.,1)) except in row `index` (0); then row `index` is
                                                         XOR-ed with every other row -- branch structure modelled literally
     TMCG_MaskCard (TMCG_Card)                :833-851   entry-wise TMCG_MaskValue (ShuffleModel.qmask)
   A card secret is a k x w matrix of pairs (r, b); k = players (one modulus each), w = type bits.
   Definitions only -- proofs live in ShuffleQrLemmas.v. *)
From Coq Require Import ZArith NArith List Bool.
From LT Require Import SamplerModel ShuffleModel.
Import ListNotations.
Local Open Scope N_scope.

(* do srandomm(r, m); gcd(r, m) while gcd != 1 *)
Fixpoint unit_loop (fuel : nat) (m : Z) (s : list N) : res (Z * list N) :=
  match fuel with
  | O => NeedCoins
  | S f => bind (grandomm m s) (fun vr => if (Z.gcd (fst vr) m =? 1)%Z then Ret vr else unit_loop f m (snd vr))
  end.
Definition random_unit (m : Z) (s : list N) : res (Z * list N) := unit_loop (S (length s)) m s.

Definition qr_entry (is_index : bool) (m : Z) (s : list N) : res ((Z * bool) * list N) :=
  bind (random_unit m s) (fun rs =>
    if is_index then Ret ((fst rs, false), snd rs)
    else bind (grandomb 1 (snd rs)) (fun bs => Ret ((fst rs, N.odd (fst bs)), snd bs))).

Fixpoint qr_row (w : nat) (is_index : bool) (m : Z) (s : list N) : res (list (Z * bool) * list N) :=
  match w with
  | O => Ret ([], s)
  | S w' => bind (qr_entry is_index m s) (fun es =>
            bind (qr_row w' is_index m (snd es)) (fun rs => Ret (fst es :: fst rs, snd rs)))
  end.

(* rows k, k+1, ... for the moduli ms *)
Fixpoint qr_rows (k : nat) (ms : list Z) (w index : nat) (s : list N) : res (list (list (Z * bool)) * list N) :=
  match ms with
  | [] => Ret ([], s)
  | m :: ms' => bind (qr_row w (k =? index)%nat m s) (fun rs =>
                bind (qr_rows (S k) ms' w index (snd rs)) (fun rr => Ret (fst rs :: fst rr, snd rr)))
  end.

(* the if/else cascade of the compensation loop: new value of b[index][w] from its old value a and b[k][w] *)
Definition xor_branch (a b : bool) : bool :=
  if a then (if b then false else true) else (if b then true else false).
Definition vxb (a b : list bool) : list bool := map (fun p => xor_branch (fst p) (snd p)) (combine a b).

Definition fix_index_row (rows : list (list (Z * bool))) (index : nat) : res (list (list (Z * bool))) :=
  match nth_error rows index with
  | None => Oob
  | Some irow =>
    let pre := firstn index rows in
    let post := skipn (S index) rows in
    let acc := fold_left (fun a row => vxb a (map snd row)) (pre ++ post) (map snd irow) in
    Ret (pre ++ combine (map fst irow) acc :: post)
  end.

(* TMCG_CreateCardSecret(cs, ring, index) for a k x w secret; ms = the moduli of the ring *)
Definition create_card_secret (ms : list Z) (w index : nat) (s : list N) : res (list (list (Z * bool)) * list N) :=
  if negb (index <? length ms)%nat then AssertFail
  else bind (qr_rows 0 ms w index s) (fun rs => bind (fix_index_row (fst rs) index) (fun cs => Ret (cs, snd rs))).

(* XOR of all rows of bits, column by column: what TMCG_TypeOfCard computes from a card secret *)
Definition vxor (a b : list bool) : list bool := map (fun p => xorb (fst p) (snd p)) (combine a b).
Definition col_xor (w : nat) (bits : list (list bool)) : list bool := fold_right vxor (repeat false w) bits.

(* TMCG_MaskCard for TMCG_Card: keys = (m, y) per player *)
Fixpoint qmask_row (m y : Z) (zs : list Z) (ss : list (Z * bool)) : res (list Z) :=
  match zs, ss with
  | [], _ => Ret []
  | z :: zs', sb :: ss' => bind (qmask_row m y zs' ss') (fun t => Ret (qmask m y z sb :: t))
  | _ :: _, [] => Oob
  end.
Fixpoint qmask_rows (keys : list (Z * Z)) (c : list (list Z)) (cs : list (list (Z * bool))) : res (list (list Z)) :=
  match c, keys, cs with
  | [], _, _ => Ret []
  | zs :: c', (m, y) :: keys', ss :: cs' =>
    bind (qmask_row m y zs ss) (fun r => bind (qmask_rows keys' c' cs') (fun t => Ret (r :: t)))
  | _, _, _ => Oob
  end.
Definition qmask_card (keys : list (Z * Z)) (c : list (list Z)) (cs : list (list (Z * bool))) : res (list (list Z)) :=
  if negb ((length c =? length keys)%nat && (length c =? length cs)%nat &&
           (length (hd [] c) =? length (hd [] cs))%nat) then AssertFail
  else qmask_rows keys c cs.
