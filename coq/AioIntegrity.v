(* AioIntegrity: proofs about AioModel, part 3 -- with authentication, what is delivered from ANY byte stream is a
   prefix of what the honest sender sent, unless the stream contains a MAC forgery. *)
From Coq Require Import ZArith NArith List Bool Lia.
From LT Require Import gen_Consts CodecModel CodecLemmas AioModel AioLemmas AioRoundtrip.
Import ListNotations.
Local Open Scope Z_scope.

(* line || newline || x determines line and x when the line has no newline *)
Lemma app_nl_inj a : forall b x y, Forall (fun c => c <> c_nl) a -> Forall (fun c => c <> c_nl) b ->
  a ++ c_nl :: x = b ++ c_nl :: y -> a = b /\ x = y.
Proof.
  induction a as [|p a IH]; intros b x y Fa Fb H.
  - destruct b as [|q b]; cbn in H.
    + injection H as ->. auto.
    + injection H as <- _. inversion Fb; subst. contradiction.
  - destruct b as [|q b]; cbn in H.
    + injection H as -> _. inversion Fa; subst. contradiction.
    + injection H as <- H. inversion Fa; inversion Fb; subst.
      destruct (IH b x y ltac:(assumption) ltac:(assumption) H) as [-> ->]. auto.
Qed.

(* accept_needs_tag: a delivery under authentication means the tag on the wire is the MAC of line, newline, sequence number *)
Lemma accept_needs_tag P c nonce k line tag m k' : auth c = true ->
  process_record P c nonce k line tag = (Deliver m, k') ->
  tag = mac P (line ++ c_nl :: encode62 (k_sqn k)).
Proof.
  intros A H. unfold process_record in H. rewrite A in H.
  destruct (bytes_eqb _ tag) eqn:M.
  - symmetry. now apply bytes_eqb_eq.
  - destruct (k_sqn k =? 1); discriminate.
Qed.

Section Integrity.
Variable P : prims.
Variable c : cfg.
Variable nonce : bytes.
Variable iv : bytes.

Hypothesis mac_len : forall x, length (mac P x) = maclen P.
Hypothesis dec_enc : forall h p, isbytes p -> c_dec P h (c_enc P h p) = p.
Hypothesis enc_len : forall h p, length (c_enc P h p) = length p.
Hypothesis enc_byte : forall h p, isbytes p -> isbytes (c_enc P h p).
Hypothesis same_nonce : ctr_mode c = true -> nonce = iv.
Hypothesis authenticated : auth c = true.

Definition nonl (s : bytes) : Prop := Forall (fun x => x <> c_nl) s.

(* the (line, tag) records of an honest session *)
Fixpoint trace (st : sstate) (ms : list Z) (recs : list (bytes * bytes)) : Prop :=
  match ms, recs with
  | [], [] => True
  | m :: r, (line, tag) :: rr =>
    exists w st', send P c iv st m = Some (w, st') /\
      w = (if encr c && negb (s_iv_sent st) then iv else []) ++ line ++ c_nl :: tag /\ nonl line /\ trace st' r rr
  | _, _ => False
  end.

(* the MAC inputs of these records: line, newline, sequence number *)
Fixpoint inputs (q : Z) (recs : list (bytes * bytes)) : list bytes :=
  match recs with [] => [] | (l, _) :: r => (l ++ c_nl :: encode62 q) :: inputs (q + 1) r end.

(* no forgery in the byte string s: every (line, tag) occurring in it whose tag is the MAC of line || newline || q
   for a sequence number q >= q0 was computed by the honest sender *)
Definition no_forgery (q0 : Z) (recs : list (bytes * bytes)) (s : bytes) : Prop :=
  forall a line tag b q, s = a ++ line ++ c_nl :: tag ++ b -> nonl line -> q0 <= q ->
    mac P (line ++ c_nl :: encode62 q) = tag -> In (line ++ c_nl :: encode62 q) (inputs q0 recs).

Lemma no_forgery_suffix q0 recs pre s : no_forgery q0 recs (pre ++ s) -> no_forgery q0 recs s.
Proof.
  intros H a line tag b q E. apply (H (pre ++ a) line tag b q). rewrite E. now rewrite <- app_assoc.
Qed.

Lemma trace_nonl st ms recs : trace st ms recs -> Forall (fun r => nonl (fst r)) recs.
Proof.
  revert st recs. induction ms as [|m r IH]; intros st [|[l t] rr] H; cbn in H; try contradiction; [constructor|].
  destruct H as (w & st' & _ & _ & N & T). constructor; [exact N|]. eapply IH. exact T.
Qed.

Theorem integrity_records fuel : forall s k st ms recs,
  0 <= s_chunk st -> trace st ms recs ->
  sync st k -> no_forgery (s_sqn st) recs s ->
  exists n, stream_records P c nonce fuel k s = firstn n ms.
Proof.
  induction fuel as [|f IH]; intros s k st ms recs Hch T Sy NF; [exists O; reflexivity|].
  cbn [stream_records].
  destruct (first_record (eff_maclen P c) s) as [[[line tag] rest]|] eqn:FR; [|exists O; reflexivity].
  destruct (first_record_decomp _ _ _ _ _ FR) as (Es & Fl & Lt).
  assert (NFr : no_forgery (s_sqn st) recs rest).
  { apply (no_forgery_suffix _ _ (line ++ c_nl :: tag)). rewrite <- app_assoc. cbn [app]. rewrite <- Es. exact NF. }
  destruct Sy as [Ks Kh].
  unfold process_record. rewrite authenticated.
  destruct (bytes_eqb (mac P (line ++ c_nl :: encode62 (k_sqn k))) tag) eqn:M.
  - apply bytes_eqb_eq in M.
    assert (I : In (line ++ c_nl :: encode62 (k_sqn k)) (inputs (s_sqn st) recs)).
    { apply (NF [] line tag rest (k_sqn k)); [exact Es|exact Fl|lia|exact M]. }
    destruct ms as [|m r]; destruct recs as [|[l0 t0] rr]; cbn in T; try contradiction.
    destruct T as (w & st1 & S1 & Hw & Nl0 & T1).
    destruct (send_record P c nonce iv mac_len dec_enc enc_len enc_byte same_nonce st m w st1 Hch S1)
      as (line' & tag' & Hw' & Fl' & Lt' & Htag & Hsq & _ & Hc1 & Hp).
    rewrite Hw in Hw'. apply app_inv_head in Hw'.
    destruct (app_nl_inj _ _ _ _ Nl0 Fl' Hw') as [<- <-].
    rewrite authenticated in Hsq.
    cbn [inputs In] in I. destruct I as [I|I].
    + destruct (app_nl_inj _ _ _ _ Nl0 Fl I) as [-> _].
      assert (Et : tag = t0). { rewrite <- M, (Htag authenticated), Ks. reflexivity. }
      subst t0.
      destruct (Hp k (conj Ks Kh)) as (k' & PR & Sy').
      unfold process_record in PR. rewrite authenticated, <- M, bytes_eqb_refl in PR.
      rewrite PR.
      destruct (IH rest k' st1 r rr Hc1 T1) as [n Hn].
      * exact Sy'.
      * rewrite Hsq. intros a line2 tag2 b q E2 N2 Hq Hm.
        specialize (NFr a line2 tag2 b q E2 N2 ltac:(lia) Hm). cbn [inputs In] in NFr.
        destruct NFr as [X|X]; [|exact X].
        destruct (app_nl_inj _ _ _ _ Fl N2 X) as [_ X2]. apply encode62_inj in X2. lia.
      * exists (S n). cbn [firstn]. now rewrite Hn.
    + (* the input with the current sequence number cannot be a later one *)
      exfalso. clear - I Fl T1 Ks. pose proof (trace_nonl _ _ _ T1) as NLs.
      assert (G : forall q0 rs, s_sqn st < q0 -> Forall (fun r => nonl (fst r)) rs ->
                  ~ In (line ++ c_nl :: encode62 (k_sqn k)) (inputs q0 rs)).
      { intros q0 rs. revert q0. induction rs as [|[l t] rs IHr]; intros q0 Hq F X; [destruct X|].
        inversion F; subst. cbn [inputs In] in X. destruct X as [X|X].
        - destruct (app_nl_inj _ _ _ _ H1 Fl X) as [_ X2]. apply encode62_inj in X2. lia.
        - apply (IHr (q0 + 1)); [lia|assumption|exact X]. }
      apply (G (s_sqn st + 1) rr); [lia|exact NLs|exact I].
  - destruct (Z.eqb_spec (k_sqn k) 1); [|exists O; reflexivity].
    apply (IH rest _ st ms recs Hch T); [split; cbn; assumption|exact NFr].
Qed.

End Integrity.
