(* AioRoundtrip: proofs about AioModel, part 2 -- an honestly produced record is opened to the value that was sent. *)
From Coq Require Import ZArith NArith List Bool Lia.
From LT Require Import gen_Consts CodecModel CodecLemmas AioModel AioLemmas.
Import ListNotations.

(* ---- digits: to_digits inverts from_digits on normalised digit strings ---------------------- *)
Local Open Scope N_scope.

Lemma fold_dstep_ge b ds : forall a, 1 <= b -> a * b ^ N.of_nat (length ds) <= fold_left (dstep b) ds a.
Proof.
  induction ds as [|d r IH]; intros a Hb.
  - cbn. lia.
  - cbn [fold_left length]. rewrite Nnat.Nat2N.inj_succ, N.pow_succ_r'.
    specialize (IH (dstep b a d) Hb). unfold dstep in IH at 1. unfold dstep at 2.
    etransitivity; [|exact IH]. nia.
Qed.

Lemma fold_dstep_snoc b ds d a : fold_left (dstep b) (ds ++ [d]) a = fold_left (dstep b) ds a * b + d.
Proof. rewrite fold_left_app. reflexivity. Qed.

Lemma peel_digits b : 2 <= b -> forall ds a acc fuel, Forall (fun d => d < b) ds -> a <> 0 ->
  to_digits_fuel b (length ds + fuel) (fold_left (dstep b) ds a) acc = to_digits_fuel b fuel a (ds ++ acc).
Proof.
  intros Hb ds. induction ds as [|d r IH] using rev_ind; intros a acc fuel F Ha.
  - reflexivity.
  - apply Forall_app in F. destruct F as [Fr Fd]. inversion Fd; subst.
    rewrite app_length. cbn [length]. replace (length r + 1 + fuel)%nat with (S (length r + fuel)) by lia.
    rewrite fold_dstep_snoc. cbn [to_digits_fuel].
    pose proof (fold_dstep_ge b r a ltac:(lia)) as G.
    assert (0 < b ^ N.of_nat (length r)) by (apply N.neq_0_lt_0, N.pow_nonzero; lia).
    destruct (N.eqb_spec (fold_left (dstep b) r a * b + d) 0) as [Z|_]; [nia|].
    replace ((fold_left (dstep b) r a * b + d) / b) with (fold_left (dstep b) r a)
      by (apply N.div_unique with d; lia).
    replace ((fold_left (dstep b) r a * b + d) mod b) with d
      by (apply N.mod_unique with (fold_left (dstep b) r a); lia).
    rewrite IH by assumption. now rewrite <- app_assoc.
Qed.

Lemma to_from_digits b d0 r : 2 <= b -> d0 <> 0 -> Forall (fun d => d < b) (d0 :: r) ->
  to_digits b (from_digits b (d0 :: r)) = d0 :: r.
Proof.
  intros Hb H0 F. inversion F as [|? ? Hd Fr]; subst.
  rewrite from_digits_unfold. cbn [fold_left]. unfold dstep at 2. rewrite N.mul_0_l, N.add_0_l.
  set (n := fold_left (dstep b) r d0).
  pose proof (fold_dstep_ge b r d0 ltac:(lia)) as G. fold n in G.
  assert (Pw : 2 ^ N.of_nat (length r) <= b ^ N.of_nat (length r)) by (apply N.pow_le_mono_l; lia).
  assert (Pp : 0 < 2 ^ N.of_nat (length r)) by (apply N.neq_0_lt_0, N.pow_nonzero; lia).
  assert (Hn : n <> 0) by nia.
  unfold to_digits. destruct (N.eqb_spec n 0); [contradiction|].
  assert (S : (length r < N.to_nat (N.size n))%nat).
  { pose proof (N.size_gt n) as SG.
    assert (2 ^ N.of_nat (length r) < 2 ^ N.size n) by nia.
    apply N.pow_lt_mono_r_iff in H; lia. }
  replace (Datatypes.S (N.to_nat (N.size n))) with (length r + (Datatypes.S (N.to_nat (N.size n)) - length r))%nat by lia.
  unfold n. rewrite peel_digits by assumption.
  replace (Datatypes.S (N.to_nat (N.size (fold_left (dstep b) r d0))) - length r)%nat
    with (Datatypes.S (N.to_nat (N.size n) - length r)) by (fold n; lia).
  cbn [to_digits_fuel]. destruct (N.eqb_spec d0 0); [contradiction|].
  rewrite N.div_small, N.mod_small by assumption.
  rewrite app_nil_r. destruct (N.to_nat (N.size n) - length r)%nat; reflexivity.
Qed.

Lemma export_import c0 ct : c0 <> 0 -> c0 < 256 -> Forall (fun d => d < 256) ct ->
  export_be (import_be (c0 :: ct)) = c0 :: ct.
Proof.
  intros H0 Hc F. unfold export_be, import_be.
  assert (E : to_digits 256 (from_digits 256 (c0 :: ct)) = c0 :: ct) by (apply to_from_digits; [lia|assumption|now constructor]).
  destruct (N.eqb_spec (from_digits 256 (c0 :: ct)) 0) as [Z|_]; [|exact E].
  rewrite Z in E. cbn in E. injection E as E0 _. congruence.
Qed.

(* ---- C strings ---------------------------------------------------------------------------- *)
Lemma cstr_app_zeros s n : Forall (fun x => x <> 0) s -> cstr (s ++ zeros n) = s.
Proof.
  induction 1 as [|x l Hx _ IH]; cbn [app cstr].
  - destruct n; reflexivity.
  - destruct (N.eqb_spec x 0); [contradiction|]. now rewrite IH.
Qed.

Lemma decode62_app_zeros s n : Forall (fun x => x <> 0) s -> decode62 (s ++ zeros n) = decode62 s.
Proof.
  intros F. unfold decode62. rewrite cstr_app_zeros by assumption. now rewrite cstr_id by assumption.
Qed.

Lemma encode62_nozero z : Forall (fun x => x <> 0) (encode62 z).
Proof. eapply Forall_impl; [|apply encode62_plain]. intros a [H _]. exact H. Qed.
Lemma encode62_nonl z : Forall (fun x => x <> c_nl) (encode62 z).
Proof. eapply Forall_impl; [|apply encode62_plain]. intros a (_ & _ & _ & H). exact H. Qed.
Lemma encode62_nobar z : Forall (fun x => x <> bar) (encode62 z).
Proof. apply plain_not_bar, encode62_plain. Qed.

Lemma encode62_inj a b : encode62 a = encode62 b -> a = b.
Proof. intros H. pose proof (base62_roundtrip a) as Ra. rewrite H, base62_roundtrip in Ra. congruence. Qed.

Lemma bytes_eqb_eq a : forall b, bytes_eqb a b = true -> a = b.
Proof.
  unfold bytes_eqb. induction a as [|x r IH]; intros [|y s] H; cbn in H; try reflexivity; try discriminate.
  apply andb_prop in H. destruct H as [L H]. apply andb_prop in H. destruct H as [E H].
  apply N.eqb_eq in E. subst. f_equal. apply IH. cbn. now rewrite L, H.
Qed.

Definition isbytes (s : bytes) : Prop := Forall (fun b => b < 256) s.

Lemma encode62_isbytes z : isbytes (encode62 z).
Proof.
  assert (D : forall n, isbytes (map digit_char (to_digits 62 n))).
  { intros n. apply Forall_forall. intros x Hx. apply in_map_iff in Hx. destruct Hx as [d [<- Hd]].
    pose proof (to_digits_lt 62 n ltac:(lia)) as F. rewrite Forall_forall in F.
    pose proof (digit_char_range d (F d Hd)). lia. }
  destruct z; cbn [encode62].
  - constructor; [lia|constructor].
  - apply D.
  - constructor; [lia|apply D].
Qed.

Lemma zeros_isbytes n : isbytes (zeros n).
Proof. induction n; constructor; [lia|assumption]. Qed.

Local Close Scope N_scope.
Local Open Scope Z_scope.

Section Honest.
Variable P : prims.
Variable c : cfg.
Variable nonce : bytes.      (* receiver's CTR nonce *)
Variable iv : bytes.         (* sender's IV (in CTR mode: its nonce) *)

Hypothesis mac_len : forall x, length (mac P x) = maclen P.
Hypothesis dec_enc : forall h p, isbytes p -> c_dec P h (c_enc P h p) = p.
Hypothesis enc_len : forall h p, length (c_enc P h p) = length p.
Hypothesis enc_byte : forall h p, isbytes p -> isbytes (c_enc P h p).
Hypothesis same_nonce : ctr_mode c = true -> nonce = iv.


Local Opaque hide_length buf_in_size sizeinbase62 ctr_block.

Lemma hide_cmp m : (m + hide_length <? hide_length) = (m <? 0).
Proof. destruct (Z.ltb_spec (m + hide_length) hide_length), (Z.ltb_spec m 0); try reflexivity; lia. Qed.

(* opening an honest encrypted line *)
Lemma open_enc_honest k h1 str n ct tmp line :
  encr c = true -> str = encode62 tmp -> str <> [] ->
  ct = c_enc P h1 (str ++ zeros n) ->
  (ctr_mode c = false -> line = encode62 (Z.of_N (import_be (c_plus :: ct))) /\ k_hist k = h1) ->
  (ctr_mode c = true -> exists cv, 0 < cv /\ (Z.of_nat (blklen P) <? sizeinbase62 cv) = false /\
       line = encode62 (Z.of_N (import_be (c_plus :: ct))) ++ bar :: encode62 cv /\
       h1 = OpCtr (ctr_block nonce cv) :: k_hist k) ->
  exists k', open_line P c nonce k line = ((if tmp <? hide_length then Reject else Deliver (tmp - hide_length)), k')
             /\ k_sqn k' = k_sqn k /\ k_hist k' = OpData ct :: h1.
Proof.
  intros E Hs Hne Hct Hcfb Hctr.
  assert (Lct : ct <> []).
  { intros Z. apply (f_equal (@length _)) in Z. rewrite Hct, enc_len, app_length in Z. destruct str; [congruence|cbn in Z; lia]. }
  assert (IB : isbytes (str ++ zeros n)).
  { apply Forall_app. split; [rewrite Hs; apply encode62_isbytes|apply zeros_isbytes]. }
  assert (EX : export_be (Z.abs_N (Z.of_N (import_be (c_plus :: ct)))) = c_plus :: ct).
  { rewrite Zabs2N.id. apply export_import; [discriminate|reflexivity|]. rewrite Hct. now apply enc_byte. }
  assert (DP : decode62 (c_dec P h1 ct) = Some tmp).
  { rewrite Hct, dec_enc by assumption. rewrite Hs, decode62_app_zeros by apply encode62_nozero. apply base62_roundtrip. }
  unfold open_line. rewrite E.
  destruct (ctr_mode c) eqn:CM.
  - destruct (Hctr eq_refl) as (cv & Hcv & Hsz & -> & Hh).
    rewrite split_at_app by apply encode62_nobar.
    rewrite base62_roundtrip, Hsz.
    destruct (Z.eqb_spec cv 0); [lia|].
    cbn [k_sqn k_chunk k_bad k_hist].
    rewrite base62_roundtrip, EX.
    destruct ct as [|c1 cr]; [congruence|].
    change (c_plus =? c_plus)%N with true. cbn [negb].
    rewrite <- Hh, DP. destruct (tmp <? hide_length); eexists; (split; [reflexivity|]); cbn; auto.
  - destruct (Hcfb eq_refl) as [-> Hh].
    rewrite base62_roundtrip, EX.
    destruct ct as [|c1 cr]; [congruence|].
    change (c_plus =? c_plus)%N with true. cbn [negb].
    rewrite Hh, DP. destruct (tmp <? hide_length); eexists; (split; [reflexivity|]); cbn; auto.
Qed.

(* sender and receiver agree on sequence number and cipher history *)
Definition sync (st : sstate) (k : rcore) : Prop := k_sqn k = s_sqn st /\ k_hist k = s_hist st.

(* the honest record: every accepted Send writes (IV once,) line, newline, tag; the receiver in sync opens it to the value *)
Lemma send_record st m w st' : 0 <= s_chunk st -> send P c iv st m = Some (w, st') ->
  exists line tag,
    w = (if encr c && negb (s_iv_sent st) then iv else []) ++ line ++ c_nl :: tag /\
    Forall (fun x => x <> c_nl) line /\ length tag = eff_maclen P c /\
    (auth c = true -> tag = mac P (line ++ c_nl :: encode62 (s_sqn st))) /\
    s_sqn st' = (if auth c then s_sqn st + 1 else s_sqn st) /\
    s_iv_sent st' = (s_iv_sent st || encr c) /\ 0 <= s_chunk st' /\
    forall k, sync st k -> exists k', process_record P c nonce k line tag = (Deliver m, k') /\ sync st' k'.
Proof.
  intros Hch H. unfold send in H.
  destruct (encr c && (m <? 0)) eqn:NG; [discriminate|].
  destruct (buf_in_size <=? _); [discriminate|].
  set (tmp := if encr c then m + hide_length else m) in *.
  set (str := encode62 tmp) in *.
  destruct ((0 <? blen str) && _) eqn:C1; cbn [negb] in H; [|discriminate].
  assert (Hstr : str <> []).
  { intros Z. rewrite Z in C1. cbn in C1. discriminate. }
  assert (TagLen : forall x, length (if auth c then mac P x else []) = eff_maclen P c).
  { intros x. unfold eff_maclen. destruct (auth c); [apply mac_len|reflexivity]. }
  destruct (encr c) eqn:E.
  - (* encrypted *)
    set (chunk' := if ctr_mode c then s_chunk st + 1 else s_chunk st) in *.
    destruct (ctr_mode c && _) eqn:C2; [discriminate|].
    set (h1 := if ctr_mode c then OpCtr (ctr_block iv chunk') :: s_hist st else s_hist st) in *.
    set (n := Z.to_nat (plain_bufsize P c (sizeinbase62 tmp) - 1 - blen str)) in *.
    set (plain := if ctr_mode c then str ++ zeros n else str) in *.
    set (ct := c_enc P h1 plain) in *.
    set (estr := encode62 (Z.of_N (import_be (c_plus :: ct)))) in *.
    destruct ((0 <? blen estr) && _) eqn:C3; cbn [negb] in H; [|discriminate].
    set (line := if ctr_mode c then estr ++ bar :: encode62 chunk' else estr) in *.
    assert (HL : (if ctr_mode c then estr ++ bar :: encode62 chunk' ++ [c_nl] else estr ++ [c_nl]) = line ++ [c_nl]).
    { unfold line. destruct (ctr_mode c); [now rewrite <- app_assoc|reflexivity]. }
    rewrite HL in H. injection H as <- <-.
    exists line, (if auth c then mac P ((line ++ [c_nl]) ++ encode62 (s_sqn st)) else []).
    assert (AA : forall t, (line ++ [c_nl]) ++ t = line ++ c_nl :: t) by (intros; now rewrite <- app_assoc).
    split; [|split; [|split; [|split; [|split; [|split; [|split]]]]]].
    + cbn [andb]. destruct (s_iv_sent st); cbn [negb]; now rewrite <- app_assoc.
    + unfold line. destruct (ctr_mode c).
      * apply Forall_app. split; [apply encode62_nonl|]. constructor; [discriminate|apply encode62_nonl].
      * apply encode62_nonl.
    + apply TagLen.
    + intros A. rewrite A, AA. reflexivity.
    + reflexivity.
    + cbn [s_iv_sent]. now rewrite orb_true_r.
    + cbn [s_chunk]. unfold chunk'. destruct (ctr_mode c); lia.
    + intros k [Ks Kh].
      assert (OL : forall k0, k_sqn k0 = (if auth c then s_sqn st + 1 else s_sqn st) -> k_hist k0 = s_hist st ->
                exists k', open_line P c nonce k0 line = (Deliver m, k') /\
                  k_sqn k' = (if auth c then s_sqn st + 1 else s_sqn st) /\ k_hist k' = OpData ct :: h1).
      { intros k0 K0s K0h.
        destruct (open_enc_honest k0 h1 str (if ctr_mode c then n else O) ct tmp line E eq_refl Hstr) as (k' & O1 & O2 & O3).
        - unfold ct, plain. destruct (ctr_mode c); [reflexivity|]. cbn [zeros]. now rewrite app_nil_r.
        - intros CM. unfold line, h1. rewrite CM. auto.
        - intros CM. exists chunk'. unfold line, h1. rewrite CM in *. cbn [andb] in C2.
          rewrite (same_nonce eq_refl). split; [unfold chunk'; rewrite CM; lia|]. split; [exact C2|]. split; [reflexivity|]. now rewrite K0h.
        - exists k'. split; [|split; [congruence|assumption]].
          rewrite O1. unfold tmp. rewrite hide_cmp. cbn [andb] in NG. rewrite NG.
          f_equal. f_equal. lia. }
      unfold process_record. destruct (auth c) eqn:A.
      * rewrite <- Ks, AA, bytes_eqb_refl.
        destruct (OL {| k_sqn := k_sqn k + 1; k_chunk := k_chunk k; k_bad := false; k_hist := k_hist k |}) as (k' & O1 & O2 & O3);
          [cbn; lia|exact Kh|].
        exists k'. split; [exact O1|]. split; cbn [s_sqn s_hist]; [lia|assumption].
      * destruct (OL k Ks Kh) as (k' & O1 & O2 & O3). exists k'. split; [exact O1|]. split; cbn [s_sqn s_hist]; assumption.
  - (* plain *)
    injection H as <- <-.
    exists str, (if auth c then mac P ((str ++ [c_nl]) ++ encode62 (s_sqn st)) else []).
    assert (AA : forall t, (str ++ [c_nl]) ++ t = str ++ c_nl :: t) by (intros; now rewrite <- app_assoc).
    split; [|split; [|split; [|split; [|split; [|split; [|split]]]]]].
    + cbn [andb app]. now rewrite <- app_assoc.
    + apply encode62_nonl.
    + apply TagLen.
    + intros A. rewrite A, AA. reflexivity.
    + reflexivity.
    + cbn [s_iv_sent]. now rewrite orb_false_r.
    + exact Hch.
    + intros k [Ks Kh]. unfold process_record.
      assert (OL : forall k0, open_line P c nonce k0 str = (Deliver m, k0)).
      { intros k0. unfold open_line. rewrite E. unfold str, tmp. now rewrite base62_roundtrip. }
      destruct (auth c) eqn:A.
      * rewrite <- Ks, AA, bytes_eqb_refl, OL. eexists. split; [reflexivity|]. split; cbn; [lia|assumption].
      * rewrite OL. eexists. split; [reflexivity|]. split; cbn; assumption.
Qed.

(* ---- a whole honest stream -------------------------------------------------------------------- *)
Lemma records_honest ms : forall st w st' k fuel,
  0 <= s_chunk st -> (encr c = false \/ s_iv_sent st = true) ->
  send_all P c iv st ms = Some (w, st') -> sync st k -> (length w < fuel)%nat ->
  stream_records P c nonce fuel k w = ms.
Proof.
  induction ms as [|m r IH]; intros st w st' k fuel Hch Hiv H Sy Hf.
  - cbn in H. injection H as <- <-. destruct fuel; reflexivity.
  - cbn [send_all] in H. destruct (send P c iv st m) as [[w1 st1]|] eqn:S1; [|discriminate].
    destruct (send_all P c iv st1 r) as [[w2 st2]|] eqn:S2; [|discriminate]. injection H as <- <-.
    destruct (send_record st m w1 st1 Hch S1) as (line & tag & Hw & Fl & Lt & _ & _ & Hi & Hc1 & Hp).
    destruct (Hp k Sy) as (k' & PR & Sy').
    assert (Hw' : w1 = line ++ c_nl :: tag).
    { rewrite Hw. destruct Hiv as [-> | ->]; [reflexivity|]. cbn [negb andb]. now rewrite andb_false_r. }
    clear Hw. subst w1. destruct fuel as [|fuel]; [lia|]. cbn [stream_records].
    replace ((line ++ c_nl :: tag) ++ w2) with (line ++ c_nl :: tag ++ w2) by (now rewrite <- app_assoc).
    rewrite first_record_build by assumption. rewrite PR.
    f_equal. eapply IH; try eassumption.
    + destruct Hiv as [E|E]; [now left|]. right. rewrite Hi, E. reflexivity.
    + rewrite !app_length in Hf. cbn [length] in Hf. lia.
Qed.

Hypothesis iv_len : length iv = blklen P.

(* the meaning of the honest wire of a fresh link is the list of values accepted for sending *)
Theorem deliveries_honest ms w st' : send_all P c iv (sstate0 c iv) ms = Some (w, st') ->
  stream_deliveries P c nonce rstate0 w = ms.
Proof.
  intros H. destruct ms as [|m r].
  - cbn in H. injection H as <- <-. unfold stream_deliveries. cbn [r_buf rstate0 app r_iv negb].
    destruct (encr c); cbn [andb]; [|reflexivity]. destruct (blklen P <=? length (@nil N))%nat; [rewrite skipn_nil|]; reflexivity.
  - cbn [send_all] in H. destruct (send P c iv (sstate0 c iv) m) as [[w1 st1]|] eqn:S1; [|discriminate].
    destruct (send_all P c iv st1 r) as [[w2 st2]|] eqn:S2; [|discriminate]. injection H as <- <-.
    assert (Hch : 0 <= s_chunk (sstate0 c iv)) by (cbn; lia).
    destruct (send_record _ m w1 st1 Hch S1) as (line & tag & Hw & Fl & Lt & _ & _ & Hi & Hc1 & Hp).
    cbn [sstate0 s_iv_sent negb] in Hw, Hi. rewrite andb_true_r in Hw. cbn [orb] in Hi.
    unfold stream_deliveries. cbn [rstate0 r_buf r_iv negb app]. rewrite andb_true_r.
    set (k0 := {| k_sqn := 1; k_chunk := 0; k_bad := false;
                  k_hist := if encr c && negb (ctr_mode c) then [OpIV iv] else [] |}).
    assert (Sy : sync (sstate0 c iv) k0) by (split; reflexivity).
    destruct (Hp k0 Sy) as (k' & PR & Sy').
    assert (Tail : forall fuel, (length w2 < fuel)%nat -> stream_records P c nonce fuel k' w2 = r).
    { intros fuel Hf. eapply records_honest; try eassumption.
      destruct (encr c); [right; exact Hi|now left]. }
    destruct (encr c) eqn:E.
    + subst w1. rewrite <- !app_assoc.
      destruct (Nat.leb_spec (blklen P) (length (iv ++ line ++ (c_nl :: tag) ++ w2))) as [L|L];
        [|rewrite app_length in L; lia].
      rewrite firstn_app, <- iv_len, Nat.sub_diag, firstn_all, firstn_O, app_nil_r.
      rewrite skipn_app, Nat.sub_diag, skipn_all, skipn_O. cbn [app].
      cbn [stream_records core_of rstate0 r_sqn r_chunk r_bad r_hist k_sqn k_chunk k_bad k_hist].
      rewrite first_record_build by assumption.
      assert (K : {| k_sqn := 1; k_chunk := 0; k_bad := false;
                     k_hist := if ctr_mode c then [] else [OpIV iv] |} = k0).
      { unfold k0. cbn [andb]. destruct (ctr_mode c); reflexivity. }
      rewrite K, PR. rewrite Tail by (rewrite !app_length; cbn [length]; rewrite app_length; lia).
      reflexivity.
    + subst w1. cbn [app]. rewrite <- app_assoc. cbn [app].
      cbn [stream_records core_of rstate0 r_sqn r_chunk r_bad r_hist].
      rewrite first_record_build by assumption.
      assert (K : core_of rstate0 = k0) by (unfold k0; rewrite ?E; reflexivity).
      rewrite K, PR. rewrite Tail by (rewrite !app_length; cbn [length]; rewrite app_length; lia).
      reflexivity.
Qed.

(* a negative integer is refused on an encrypted link: nothing is written, the state is not touched *)
Lemma send_negative_refused st m : encr c = true -> m < 0 -> send P c iv st m = None.
Proof. intros E Hm. unfold send. rewrite E. destruct (Z.ltb_spec m 0); [reflexivity|lia]. Qed.

Lemma send_accepted_sign st m w st' : send P c iv st m = Some (w, st') -> encr c = true -> 0 <= m.
Proof.
  intros H E. destruct (Z.ltb_spec m 0) as [L|L]; [|exact L]. now rewrite (send_negative_refused st m E L) in H.
Qed.

End Honest.
