(* RbcStep4: local facts for the delivery clause (C14 validity / totality at quiescence): what setting each first-time filter
   entails (echo after r-send, answer after r-request, delivery attempt after r-answer), requests, well-formed output. *)
From Coq Require Import ZArith List Bool Lia.
From LT Require Import RbcModel RbcLemmas RbcStep.
Import ListNotations.
Local Open Scope Z_scope.

Lemma in_req_list : forall t i (x : msg), 0 <= i <= 2 * t ->
  In (i, x) (map (fun i => (i, x)) (map Z.of_nat (seq 0 (Z.to_nat (2 * t + 1))))).
Proof.
  intros t i x R. apply in_map_iff. exists i. split; [reflexivity|]. apply in_map_iff. exists (Z.to_nat i).
  split; [lia|]. apply in_seq. lia.
Qed.

Section Step4.
Variables (n t : Z) (H : Z -> Z) (toolong : tagT -> Z -> bool).
Notation handle := (handle n t H toolong).

Ltac open_handle :=
  unfold RbcModel.handle, stop; cbv zeta; break; intros E; inversion E; subst; clear E;
  try match goal with Htd : try_deliver _ _ = (_, _) |- _ =>
        apply try_deliver_cases in Htd;
        destruct Htd as [(-> & -> & ?)|[(? & ? & -> & ? & ->)|(-> & ->)]] end;
  proj; b2p.

Ltac in_out I :=
  first [ apply in_to_all in I
        | apply in_map_iff in I; destruct I as (? & I & ?); inversion I
        | destruct I as [I|[]]; inversion I
        | destruct I ].

(* everything a party sends while handling a message carries the (checked) tag of that message *)
Lemma handle_wf : forall me st l m st' out r, handle me st l m = (st', out, r) ->
  forall dst x, In (dst, x) out -> mtag x = mtag m /\ 0 <= m_j m < n /\ 1 <= m_s m.
Proof.
  intros me st l m st' out r. open_handle; intros dst xm I; in_out I; subst; cbn [mtag m_id m_j m_s]; repeat split; lia.
Qed.

(* the first r-send from k for a tag: faked sender, conflicting payload, or echo to everybody *)
Lemma handle_fsend : forall me st l m st' out r, handle me st l m = (st', out, r) ->
  forall k tg, filt st FSend k tg = false -> filt st' FSend k tg = true ->
  k = l /\ tg = mtag m /\ m_act m = 1 /\
  (m_j m <> l \/ (exists x, mbar st tg = Some x /\ x <> m_pay m) \/
   ((forall i, In i (range n) -> In (i, Msg (m_id m) (m_j m) (m_s m) 2 (H (m_pay m))) out) /\ mbar st' tg = Some (m_pay m))).
Proof.
  intros me st l m st' out r. open_handle; intros k tg F0 F1; try congruence;
  apply fset_inv in F1; destruct F1 as [F1|(K & -> & ->)]; try congruence; try discriminate;
  repeat split; auto.
  all: try (left; assumption).
  all: try (right; left; eexists; split; [eassumption|lia]).
  all: right; right; split; [intros i Ii; unfold to_all; apply in_map_iff; exists i; auto|rewrite ?updT_same; congruence].
Qed.

(* r-echo goes to everybody and the echoing party holds the payload *)
Lemma handle_echo_all : forall me st l m st' out r, handle me st l m = (st', out, r) ->
  forall dst x, In (dst, x) out -> m_act x = 2 ->
  (forall i, In i (range n) -> In (i, x) out) /\ exists v, mbar st' (mtag x) = Some v /\ m_pay x = H v.
Proof.
  intros me st l m st' out r. open_handle; intros dst xm I A2; in_out I; subst; cbn [m_act] in A2; try discriminate;
  cbn [mtag m_id m_j m_s m_pay]; (split; [intros i Ii; unfold to_all; apply in_map_iff; exists i; auto|]);
  eexists; (split; [first [rewrite updT_same; reflexivity|eassumption]|]); b2p; congruence.
Qed.

(* the first r-request from k: answered iff a payload is stored *)
Lemma handle_frequest : forall me st l m st' out r, handle me st l m = (st', out, r) ->
  forall k tg, filt st FRequest k tg = false -> filt st' FRequest k tg = true ->
  k = l /\ tg = mtag m /\ m_act m = 4 /\
  (mbar st tg = None \/ exists v, mbar st tg = Some v /\ In (l, Msg (m_id m) (m_j m) (m_s m) 5 v) out).
Proof.
  intros me st l m st' out r. open_handle; intros k tg F0 F1; try congruence;
  apply fset_inv in F1; destruct F1 as [F1|(K & -> & ->)]; try congruence; try discriminate;
  repeat split; auto.
  all: first [ left; assumption | right; eexists; split; [eassumption|left; reflexivity] ].
Qed.

(* r-answer is only sent to a requester, with the stored payload *)
Lemma handle_answer_out : forall me st l m st' out r, handle me st l m = (st', out, r) ->
  forall dst x, In (dst, x) out -> m_act x = 5 ->
  dst = l /\ m_act m = 4 /\ mtag x = mtag m /\ mbar st (mtag x) = Some (m_pay x).
Proof.
  intros me st l m st' out r. open_handle; intros dst xm I A5; in_out I; subst; cbn [m_act] in A5; try discriminate;
  cbn [mtag m_id m_j m_s m_pay]; repeat split; auto.
Qed.

(* the first r-answer from k: not ready, bad digest, or a delivery attempt *)
Definition tried (st' : pst) (r : dres) (tg : tagT) : Prop :=
  (exists who v, r = RDeliver who tg v) \/ In tg (dbuf st').

Lemma handle_fanswer : forall me st l m st' out r, handle me st l m = (st', out, r) ->
  forall k tg, filt st FAnswer k tg = false -> filt st' FAnswer k tg = true ->
  k = l /\ tg = mtag m /\ m_act m = 5 /\
  (dbar st tg = None \/ (exists db, dbar st tg = Some db /\ H (m_pay m) <> db) \/ tried st' r tg).
Proof.
  intros me st l m st' out r. unfold tried. open_handle; intros k tg F0 F1; try congruence;
  apply fset_inv in F1; destruct F1 as [F1|(K & -> & ->)]; try congruence; try discriminate;
  repeat split; auto.
  all: try (left; assumption).
  all: try (right; left; eexists; split; [eassumption|assumption]).
  all: try (right; right; left; eauto; fail).
  all: try (right; right; right; apply in_or_app; right; left; reflexivity).
  all: exfalso; match goal with Hx : updT _ _ _ _ = None |- _ => rewrite updT_same in Hx; discriminate end.
Qed.

(* r-request: sent to the parties 0..2t, when the digest has just been fixed by the (2t+1)-th ready *)
Lemma handle_request_out : forall me st l m st' out r, handle me st l m = (st', out, r) ->
  forall dst x, In (dst, x) out -> m_act x = 4 ->
  mtag x = mtag m /\ dbar st' (mtag x) = Some (m_pay x) /\
  (dbar st (mtag x) = None \/ dbar st (mtag x) = Some (m_pay x)) /\
  rd st (mtag x) (m_pay x) + 1 = 2 * t + 1 /\
  (forall i, 0 <= i <= 2 * t -> In (i, x) out).
Proof.
  intros me st l m st' out r. open_handle; intros dst xm I A4; in_out I; subst; cbn [m_act] in A4; try discriminate;
  unfold mtag in *; cbn [m_id m_j m_s m_pay m_act] in *; (split; [reflexivity|]); (split; [rewrite ?updT_same; congruence|]);
  (split; [first [left; assumption|right; congruence]|]); (split; [assumption|]);
  intros i Ri; apply in_req_list; exact Ri.
Qed.

(* when the digest gets fixed, the payload is requested or a delivery is attempted *)
Lemma handle_dbar_new : forall me st l m st' out r, handle me st l m = (st', out, r) ->
  forall tg, dbar st tg = None -> dbar st' tg <> None ->
  tg = mtag m /\
  ((forall i, 0 <= i <= 2 * t -> In (i, Msg (m_id m) (m_j m) (m_s m) 4 (m_pay m)) out) \/ tried st' r tg \/
   (r = RThrow /\ dbar st' tg = Some 0)).
Proof.
  intros me st l m st' out r. unfold tried. open_handle; intros tg D0 D1; try congruence;
  unfold updT in D1; destruct (tag_eqb tg (mtag m)) eqn:X; try congruence; b2p; subst; (split; [reflexivity|]).
  all: try (left; intros i Ri; apply in_req_list; exact Ri).
  all: try (right; left; left; eauto; fail).
  all: try (right; left; right; apply in_or_app; right; left; reflexivity).
  all: right; right; split; [reflexivity|]; rewrite updT_same; f_equal;
       match goal with Hm : mbar _ _ = None |- _ => proj; rewrite Hm in *; congruence end.
Qed.

(* the first r-echo of a peer for a tag is counted (unless its digest is over-long) *)
Lemma handle_fecho : forall me st l m st' out r, handle me st l m = (st', out, r) ->
  forall k tg, filt st FEcho k tg = false -> filt st' FEcho k tg = true ->
  k = l /\ tg = mtag m /\ m_act m = 2 /\
  (toolong tg (m_pay m) = true \/ ed st' tg (m_pay m) = ed st tg (m_pay m) + 1).
Proof.
  intros me st l m st' out r. open_handle; intros k tg F0 F1; try congruence;
  apply fset_inv in F1; destruct F1 as [F1|(K & -> & ->)]; try congruence; try discriminate;
  repeat split; auto; try (left; assumption); right; rewrite upd2_same; reflexivity.
Qed.

(* an l-deliver answer on a FIFO channel is only given for a slot below the own delivery counter *)
Lemma handle_ldeliver_out : forall me st l m st' out r, handle me st l m = (st', out, r) ->
  forall dst x, In (dst, x) out -> m_act x = 7 -> fifo st = true -> m_s x < dls st (m_j x).
Proof.
  intros me st l m st' out r. open_handle; intros dst xm I A7 Ff; in_out I; subst; cbn [m_act] in A7; try discriminate;
  cbn [m_s m_j]; rewrite Ff in *; cbn in *; b2p; try lia; try discriminate.
Qed.

(* ---- one call of Deliver / DeliverFrom ---------------------------------------------------------------- *)
Variable skip : Z.
Notation deliver := (deliver n t skip H toolong).
Notation deliver_from := (deliver_from n t skip H toolong).

Lemma buffer_phase_dbuf : forall me st st' sent, buffer_phase n skip me st = (st', sent) ->
  dbuf st' = filter (fun tg => negb (obsolete st tg)) (dbuf st).
Proof.
  intros me st st' sent. unfold RbcModel.buffer_phase.
  destruct (minmax st) as [[mx mn] ri].
  pose proof (skip_fold_spec skip mx mn (range n) st) as S. cbv zeta in S. destruct S as (_ & _ & B1 & _).
  set (st1 := fold_left (skip_step skip mx mn) (range n) st) in *.
  destruct (fifo st && (skip =? 0)).
  - destruct (fold_left (retr_who n me mn ri) (range n) (st1, [], 0)) as [[st2 sent2] c2] eqn:R.
    apply retr_fold_spec in R. destruct R as (_ & _ & B2 & _).
    intros E; inversion E; subst; clear E. cbn. rewrite B2, B1. reflexivity.
  - intros E; inversion E; subst; clear E. cbn. rewrite B1. reflexivity.
Qed.

Definition pstep4 (st st' : pst) (out : list (Z * msg)) (r : dres) (offer : option (Z * msg)) : Prop :=
  (forall dst x, In (dst, x) out -> m_act x <> 6 -> m_act x <> 1 -> 0 <= m_j x < n /\ 1 <= m_s x) /\
  (forall k tg, filt st FSend k tg = false -> filt st' FSend k tg = true ->
     exists m, offer = Some (k, m) /\ tg = mtag m /\ m_act m = 1 /\
       (m_j m <> k \/ (exists x, mbar st tg = Some x /\ x <> m_pay m) \/
        ((forall i, In i (range n) -> In (i, Msg (m_id m) (m_j m) (m_s m) 2 (H (m_pay m))) out) /\ mbar st' tg = Some (m_pay m)))) /\
  (forall dst x, In (dst, x) out -> m_act x = 2 ->
     (forall i, In i (range n) -> In (i, x) out) /\ exists v, mbar st' (mtag x) = Some v /\ m_pay x = H v) /\
  (forall k tg, filt st FRequest k tg = false -> filt st' FRequest k tg = true ->
     exists m, offer = Some (k, m) /\ tg = mtag m /\ m_act m = 4 /\
       (mbar st tg = None \/ exists v, mbar st tg = Some v /\ In (k, Msg (m_id m) (m_j m) (m_s m) 5 v) out)) /\
  (forall dst x, In (dst, x) out -> m_act x = 5 ->
     exists m, offer = Some (dst, m) /\ m_act m = 4 /\ mtag x = mtag m /\ mbar st (mtag x) = Some (m_pay x)) /\
  (forall k tg, filt st FAnswer k tg = false -> filt st' FAnswer k tg = true ->
     exists m, offer = Some (k, m) /\ tg = mtag m /\ m_act m = 5 /\
       (dbar st tg = None \/ (exists db, dbar st tg = Some db /\ H (m_pay m) <> db) \/ tried st' r tg)) /\
  (forall dst x, In (dst, x) out -> m_act x = 4 ->
     dbar st' (mtag x) = Some (m_pay x) /\ (dbar st (mtag x) = None \/ dbar st (mtag x) = Some (m_pay x)) /\
     rd st (mtag x) (m_pay x) + 1 = 2 * t + 1 /\ (forall i, 0 <= i <= 2 * t -> In (i, x) out)) /\
  (forall tg, dbar st tg = None -> dbar st' tg <> None ->
     (exists x, m_act x = 4 /\ mtag x = tg /\ forall i, 0 <= i <= 2 * t -> In (i, x) out) \/ tried st' r tg \/
     (r = RThrow /\ dbar st' tg = Some 0)) /\
  (forall k tg, filt st FEcho k tg = false -> filt st' FEcho k tg = true ->
     exists m, offer = Some (k, m) /\ tg = mtag m /\ m_act m = 2 /\
       (toolong tg (m_pay m) = true \/ ed st' tg (m_pay m) = ed st tg (m_pay m) + 1)) /\
  (forall tg, In tg (dbuf st) -> In tg (dbuf st') \/ (exists who v, r = RDeliver who tg v) \/ obsolete st tg = true) /\
  (forall dst x, In (dst, x) out -> m_act x = 7 -> skip = 0 -> fifo st = true -> m_s x < dls st (m_j x)).

Ltac split10 := refine (conj _ (conj _ (conj _ (conj _ (conj _ (conj _ (conj _ (conj _ (conj _ (conj _ _)))))))))).

Lemma pstep4_same : forall st st' out off,
  filt st' = filt st -> dbar st' = dbar st -> dbuf st' = dbuf st ->
  (forall dst x, In (dst, x) out -> m_act x = 1 \/ m_act x = 6) -> pstep4 st st' out RNone off.
Proof.
  intros st st' out off E1 E2 E3 A. unfold pstep4. rewrite E1, E2, E3. split10; try (intros; congruence); auto.
  - intros dst x I N6 N1. apply A in I. lia.
  - intros dst x I A2. apply A in I. lia.
  - intros dst x I A5. apply A in I. lia.
  - intros dst x I A4. apply A in I. lia.
  - intros dst x I A7. apply A in I. lia.
Qed.

Lemma deliver_pstep4 : forall me st offer,
  let o := deliver me st offer in pstep4 st (o_st o) (o_sent o) (o_res o) offer.
Proof.
  intros me st offer. unfold RbcModel.deliver.
  destruct (split_first (deliverable st) [] (dbuf st)) as [[[pre [[id who] s]] post]|] eqn:SF.
  - apply split_first_spec in SF. destruct SF as [_ SF]. cbn [rev app] in SF.
    destruct (mbar st (id, who, s)) eqn:M; cbv zeta; cbn [o_st o_sent o_res].
    + unfold pstep4; proj. split10; try (intros; congruence); try (intros ? ? []).
      intros tg I. rewrite SF in I. apply in_app_or in I. destruct I as [I|[<-|I]].
      * left. apply in_or_app. auto.
      * right. left. eauto.
      * left. apply in_or_app. auto.
    + unfold pstep4. split10; try (intros; congruence); try (intros ? ? []). auto.
  - destruct (buffer_phase n skip me st) as [st1 sent1] eqn:BP.
    pose proof (buffer_phase_dbuf _ _ _ _ BP) as BD. apply buffer_phase_spec in BP.
    destruct BP as (F & DL0 & A6 & _). destruct F as ((_ & _ & Ff & _) & Mb & Db & Ed & Rd & _ & Fm & Fi).
    unfold all_act6 in A6. rewrite Forall_forall in A6.
    assert (Fk : forall k0 k tg, k0 <> FRetrieve -> filt st k0 k tg = false -> filt st1 k0 k tg = false).
    { intros k0 k tg NK E. destruct (filt st1 k0 k tg) eqn:Y; auto. destruct (Fi _ _ _ Y); congruence. }
    assert (BK : forall tg, In tg (dbuf st) -> In tg (dbuf st1) \/ obsolete st tg = true).
    { intros tg I. rewrite BD. destruct (obsolete st tg) eqn:O; auto. left. apply filter_In. rewrite O. auto. }
    destruct offer as [[l m]|]; cbv zeta.
    + destruct (handle me st1 l m) as [[st2 sent2] r] eqn:HH. cbn [o_st o_sent o_res].
      pose proof (handle_wf _ _ _ _ _ _ _ HH) as X0.
      pose proof (handle_fsend _ _ _ _ _ _ _ HH) as X1.
      pose proof (handle_echo_all _ _ _ _ _ _ _ HH) as X2.
      pose proof (handle_frequest _ _ _ _ _ _ _ HH) as X3.
      pose proof (handle_answer_out _ _ _ _ _ _ _ HH) as X4.
      pose proof (handle_fanswer _ _ _ _ _ _ _ HH) as X5.
      pose proof (handle_request_out _ _ _ _ _ _ _ HH) as X6.
      pose proof (handle_dbar_new _ _ _ _ _ _ _ HH) as X7.
      pose proof (handle_fecho _ _ _ _ _ _ _ HH) as X8.
      pose proof (handle_valid n t H toolong _ _ _ _ _ _ _ HH) as [_ X9].
      assert (OUT : forall dst x, In (dst, x) (sent1 ++ sent2) -> m_act x <> 6 -> In (dst, x) sent2).
      { intros dst x I N6. apply in_app_or in I. destruct I as [I|I]; auto. apply A6 in I. cbn in I. contradiction. }
      unfold pstep4. rewrite Ed, Rd, Db, Mb in *. split10.
      * intros dst x I N6 N1. apply OUT in I; auto. destruct (X0 _ _ I) as (T & J & S).
        unfold mtag in T. inversion T. lia.
      * intros k tg F0 F1. apply Fk in F0; [|discriminate]. destruct (X1 k tg F0 F1) as (-> & -> & A1 & C).
        exists m. repeat split; auto. destruct C as [C|[C|[C1 C2]]]; auto. right. right. split; auto.
        intros i Ii. apply in_or_app. auto.
      * intros dst x I A2. apply OUT in I; [|lia]. destruct (X2 _ _ I A2) as (C1 & C2). split; auto.
        intros i Ii. apply in_or_app. auto.
      * intros k tg F0 F1. apply Fk in F0; [|discriminate]. destruct (X3 k tg F0 F1) as (-> & -> & A4 & C).
        exists m. repeat split; auto. destruct C as [C|(v & C1 & C2)]; auto. right. exists v. split; auto. apply in_or_app. auto.
      * intros dst x I A5. apply OUT in I; [|lia]. destruct (X4 _ _ I A5) as (-> & A4 & T & Mx). exists m. auto.
      * intros k tg F0 F1. apply Fk in F0; [|discriminate]. destruct (X5 k tg F0 F1) as (-> & -> & A5 & C). exists m. auto.
      * intros dst x I A4. apply OUT in I; [|lia]. destruct (X6 _ _ I A4) as (T & D1 & D0 & R & Al).
        repeat split; auto. intros i Ri. apply in_or_app. auto.
      * intros tg D0 D1. destruct (X7 tg D0 D1) as (-> & [C|[C|C]]); auto.
        left. exists (Msg (m_id m) (m_j m) (m_s m) 4 (m_pay m)). repeat split; auto. intros i Ri. apply in_or_app. auto.
      * intros k tg F0 F1. apply Fk in F0; [|discriminate]. destruct (X8 k tg F0 F1) as (-> & -> & A2 & C). exists m. auto.
      * intros tg I. destruct (BK tg I) as [J|J]; auto.
        (* handle never removes a deliver-buffer entry *)
        left. destruct (handle_spec n t H toolong _ _ _ _ _ _ _ HH) as [_ RO]. unfold res_ok in RO.
        destruct r; [destruct RO as (_ & [E|E])|destruct RO as (_ & _ & _ & _ & E)|destruct RO as (_ & E)];
        rewrite E; auto. apply in_or_app. auto.
      * intros dst x I A7 Z0 F1. apply OUT in I; [|lia]. rewrite <- (DL0 Z0).
        eapply handle_ldeliver_out; eauto; congruence.
    + cbn [o_st o_sent o_res]. unfold pstep4. rewrite Db, Mb. split10; try (intros ? ? F0 F1; apply Fk in F0; [congruence|discriminate]).
      * intros dst x I N6. apply A6 in I. cbn in I. contradiction.
      * intros dst x I A2. apply A6 in I. cbn in I. lia.
      * intros dst x I A5. apply A6 in I. cbn in I. lia.
      * intros dst x I A4. apply A6 in I. cbn in I. lia.
      * intros; congruence.
      * intros tg I. destruct (BK tg I); auto.
      * intros dst x I A7. apply A6 in I. cbn in I. lia.
Qed.

Lemma deliver_from_pstep4 : forall me st i off,
  let o := fst (deliver_from me st i off) in pstep4 st (o_st o) (o_sent o) (o_res o) off.
Proof.
  intros me st i off. unfold RbcModel.deliver_from.
  destruct ((i <? 0) || (i >=? n)).
  - cbn. apply pstep4_same; auto; intros ? ? [].
  - destruct (take_chan (cur st) [] (fbuf st i)) as [[v rest]|].
    + cbn. apply pstep4_same; auto; intros ? ? [].
    + pose proof (deliver_pstep4 me st off) as P. cbv zeta in P.
      destruct (o_res (deliver me st off)) eqn:R; cbn; rewrite ?R; auto.
Qed.

End Step4.
