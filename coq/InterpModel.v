(* InterpModel -- Gallina model of tmcg_interpolate_polynom (src/mpz_helper.cc:145-237), the incremental
   (Newton-style) interpolation adapted from NTL.  Definitions only.  The C arrays prod[] and res[] are
   modelled by the lists of their meaningful entries (indices < k at round k), low index first. *)
From Coq Require Import ZArith List Bool.
From LT Require Import Zbase.
Import ListNotations.
Local Open Scope Z_scope.

Inductive ip_outcome : Type :=
| IpOk (f : list Z)
| IpFalse            (* returns false: a value that is not invertible modulo q (colliding abscissae) *)
| IpThrow.           (* invalid_argument "bad m or q" *)

(* for (i = k-1; i >= 0; i--) t = ((t * a) mod q + c[i]) mod q     mpz_helper.cc:168-183 *)
Definition horner (init a q : Z) (cs : list Z) : Z :=
  fold_right (fun c t => ((t * a) mod q + c) mod q) init cs.

(* prod[k] = (t + prod[k-1]) mod q; prod[i] = (prod[i]*t mod q + prod[i-1]) mod q, i = k-1..1    :208-216 *)
Fixpoint pshift (t q prev : Z) (old : list Z) : list Z :=
  match old with
  | [] => [(t + prev) mod q]
  | c :: tl => (((c * t) mod q) + prev) mod q :: pshift t q c tl
  end.

Definition prod_next (a q : Z) (prod : list Z) : list Z :=
  match prod with
  | [] => [- a]                                              (* k = 0: prod[0] = -a[0], not reduced :204 *)
  | c0 :: tl => (c0 * (- a)) mod q :: pshift (- a) q c0 tl    (* prod[0] = prod[0]*t mod q  :217-218 *)
  end.

Fixpoint res_add (q c : Z) (res prod : list Z) : list Z :=
  match res, prod with
  | r :: rt, pr :: pt => (r + (pr * c) mod q) mod q :: res_add q c rt pt
  | _, _ => []
  end.

(* one round k of the main loop; None = throw false *)
Definition ip_step (q : Z) (st : list Z * list Z) (ab : Z * Z) : option (list Z * list Z) :=
  let '(prod, res) := st in
  let '(a, b) := ab in
  match invm (horner 1 a q prod) q with
  | None => None
  | Some i =>
    let t2 := (b - horner 0 a q res) mod q in
    let c := (i * t2) mod q in
    Some (prod_next a q prod, res_add q c res prod ++ [c])
  end.

Fixpoint ip_loop (q : Z) (st : list Z * list Z) (pts : list (Z * Z)) : option (list Z) :=
  match pts with
  | [] => Some (snd st)
  | ab :: tl => match ip_step q st ab with None => None | Some st' => ip_loop q st' tl end
  end.

Definition interpolate (pts : list (Z * Z)) (q : Z) : ip_outcome :=
  match pts with
  | [] => IpThrow
  | _ => if q =? 0 then IpThrow
         else match ip_loop q ([], []) pts with Some f => IpOk f | None => IpFalse end
  end.

(* evaluation of a coefficient list (low index first) *)
Definition peval (f : list Z) (x q : Z) : Z := fold_right (fun c t => (t * x + c) mod q) 0 f.
