(* CheckGroupModel: executable model of the group-parameter and element validation of libtmcg (C06).
   Anchors (current tree):
     src/BarnettSmartVTMF_dlog.cc:146-218        CheckGroup   (check_group_vtmf)
     src/BarnettSmartVTMF_dlog.cc:226-250        CheckElement (check_element; identical copies in PUBROTZK, VRHE,
                                                 PedersenVSS, both DKGs, RVSS/ZVSS/DSS, JL-RVSS, NaorPinkasEOTP)
     src/BarnettSmartVTMF_dlog_GroupQR.cc:78-97  stream constructor: generator recomputed (qr_generator)
     src/BarnettSmartVTMF_dlog_GroupQR.cc:107-168 CheckGroup  (check_group_qr), :170-181 CheckElement (check_element_qr)
     src/PedersenCOM.cc:283-351                  CheckGroup   (check_group_gens, k given, h :: g_1..g_n)
     src/HooghSchoenmakersSkoricVillegasVRHE.cc:966-1029, src/PedersenVSS.cc:147-229,
     src/GennaroJareckiKrawczykRabinDKG.cc:250-335,1375-1465, src/CanettiGennaroJareckiKrawczykRabinASTC.cc:240-325,
     1159-1244,1847-1936,2686-2775, src/JareckiLysyanskayaASTC.cc:130-187,335-398, src/NaorPinkasEOTP.cc:105-160
                                                 CheckGroup   (check_group_gens with k derived as (p-1) div q after the sign test of fix 7223137, and
                                                 the canonical-generator test where the class has one)
   GMP primitives are modelled on all integers: mpz_sizeinbase(.,2) (sizeinbase2), mpz_powm incl. negative
   exponents and the division-by-zero abort (mpz_powm : option Z), mpz_probab_prime_p(n) = is_prime |n|,
   mpz_gcd = Z.gcd, mpz_div = floor division, mpz_congruent_ui_p.  The primality test, the hash tmcg_mpz_shash and
   the Jacobi symbol are Section variables (idealised primitives).
   Definitions only -- proofs live in CheckGroupLemmas.v. *)
From Coq Require Import ZArith NArith List Bool.
From LT Require Import Zbase CodecModel.
Import ListNotations.
Local Open Scope Z_scope.

(* what a validation call can do: return true, return false, die with SIGFPE (GMP division by zero), or
   (canonical-generator loop only) not finish within the fuel given to the model *)
Inductive verdict := Accept | Reject | Crash | OutOfFuel.

(* mpz_sizeinbase(n, 2): bit length of |n|, 1 for n = 0 *)
Definition sizeinbase2 (n : Z) : Z := if n =? 0 then 1 else Z.log2 (Z.abs n) + 1.

(* mpz_powm(r, b, e, m): modulus by absolute value; e < 0 goes through mpz_invert; None = DIVIDE_BY_ZERO *)
Definition mpz_powm (b e m : Z) : option Z :=
  if m =? 0 then None
  else if 0 <=? e then Some (powm b e (Z.abs m))
  else match invm b (Z.abs m) with
       | Some i => Some (powm i (- e) (Z.abs m))
       | None => None
       end.

(* (mpz_cmp_ui(g, 1) <= 0) || (mpz_cmp(g, p-1) >= 0) is false *)
Definition in_range (g p : Z) : bool := (1 <? g) && (g <? p - 1).

(* "LibTMCG|" and "ggen|" *)
Definition s_LibTMCG : bytes := [76; 105; 98; 84; 77; 67; 71; 124]%N.
Definition s_ggen : bytes := [103; 103; 101; 110; 124]%N.
(* U << "LibTMCG|" << p << "|" << q << "|ggen|" *)
Definition ustr0 (p q : Z) : bytes := s_LibTMCG ++ encode62 p ++ [124%N] ++ encode62 q ++ [124%N] ++ s_ggen.

Inductive cres := Found (g : Z) | CCrash | CFuel.

Section Checks.
  Variable is_prime : Z -> bool.      (* mpz_probab_prime_p(n, TMCG_MR_ITERATIONS) <> 0 for n >= 0 *)
  Variable H : bytes -> Z.            (* tmcg_mpz_shash(., string) *)
  Variable jac : Z -> Z -> Z.         (* mpz_jacobi(a, p) *)

  Definition probab_prime (n : Z) : bool := is_prime (Z.abs n).

  (* sizes, form p = qk+1, primality of p and q, gcd(q,k) = 1 -- in the order of the code; all four steps are
     total, so only the conjunction matters *)
  Definition check_core (F G p q k : Z) : bool :=
    negb ((sizeinbase2 p <? F) || (sizeinbase2 q <? G))
    && (q * k + 1 =? p)
    && (probab_prime p && probab_prime q)
    && (Z.gcd q k =? 1).

  (* do { foo = H(U); g2 = foo^k mod p; U << g2 << "|"; foo = g2^q mod p }
     while (g2 == 0 || g2 == 1 || g2 == p-1 || foo != 1) *)
  Fixpoint canon_loop (fuel : nat) (U : bytes) (p q k : Z) : cres :=
    match fuel with
    | O => CFuel
    | S f =>
      match mpz_powm (H U) k p with
      | None => CCrash
      | Some g2 =>
        match mpz_powm g2 q p with
        | None => CCrash
        | Some t =>
          if (g2 =? 0) || (g2 =? 1) || (g2 =? p - 1) || negb (t =? 1)
          then canon_loop f (U ++ encode62 g2 ++ [124%N]) p q k
          else Found g2
        end
      end
    end.

  Definition canon_check (fuel : nat) (p q k g : Z) : verdict :=
    match canon_loop fuel (ustr0 p q) p q k with
    | Found g2 => if g =? g2 then Accept else Reject
    | CCrash => Crash
    | CFuel => OutOfFuel
    end.

  (* ---- BarnettSmartVTMF_dlog::CheckGroup ------------------------------------------------------------ *)
  Definition check_group_vtmf (fuel : nat) (F G : Z) (canonical : bool) (p q g k : Z) : verdict :=
    if negb (check_core F G p q k) then Reject
    else if negb (in_range g p) then Reject
    else match mpz_powm g q p with
         | None => Crash
         | Some t =>
           if negb (t =? 1) then Reject
           else if canonical then canon_check fuel p q k g else Accept
         end.

  (* ---- CheckElement (all discrete-log classes) -------------------------------------------------------- *)
  Definition check_element (p q a : Z) : verdict :=
    if (a <=? 0) || (p <=? a) then Reject
    else match mpz_powm a q p with
         | None => Crash
         | Some t => if t =? 1 then Accept else Reject
         end.

  (* ---- the classes with several generators ------------------------------------------------------------ *)
  (* mpz_powm(foo, x, q, p); if (foo != 1) throw false;   for x in xs, in order *)
  Fixpoint orders_ok (xs : list Z) (q p : Z) : verdict :=
    match xs with
    | [] => Accept
    | x :: r => match mpz_powm x q p with
                | None => Crash
                | Some t => if t =? 1 then orders_ok r q p else Reject
                end
    end.

  (* range of h, then for every g_i: range, g_i <> h, g_i <> g_j for j > i *)
  Fixpoint others_ok (h p : Z) (gs : list Z) : bool :=
    match gs with
    | [] => true
    | x :: r => in_range x p && negb (x =? h) && forallb (fun y => negb (x =? y)) r && others_ok h p r
    end.

  (* sign_test: the check starts with `if (mpz_sgn(q) <= 0) throw false` -- since fixes 7223137 and 07cfbe5 every class of
     this family does (the flag is kept so that the theorems also describe the code before those fixes).
     derive_k: k := (p-1) div q after that sign test (VRHE, PedersenVSS, DKGs, RVSS, ZVSS, DSS, NTS, JL-RVSS, EOTP);
     otherwise k is a stored parameter (PedersenCommitmentScheme and GrothSKC/GrothVSSHE through it,
     PedersenTrapdoorCommitmentScheme).
     canonical: the first element of gs must be the verifiably derived generator. *)
  Definition check_group_gens (fuel : nat) (F G : Z) (sign_test derive_k canonical : bool) (p q k0 h : Z) (gs : list Z) : verdict :=
    if (sign_test || derive_k) && (q <=? 0) then Reject
    else
      let k := if derive_k then (p - 1) / q else k0 in
      if negb (check_core F G p q k) then Reject
      else match orders_ok (h :: gs) q p with
           | Accept =>
             if negb (in_range h p && others_ok h p gs) then Reject
             else if canonical then canon_check fuel p q k (hd 0 gs) else Accept
           | v => v
           end.

  (* ---- quadratic-residue group ------------------------------------------------------------------------- *)
  (* stream constructor: g is not read from the stream but recomputed: 2^(2^(|p| - E)) mod p, or 0 ("error") *)
  Definition qr_generator (E p : Z) : option Z :=
    if sizeinbase2 p <? E then Some 0 else mpz_powm 2 (2 ^ (sizeinbase2 p - E)) p.

  Definition check_group_qr (F G E : Z) (canonical : bool) (p q g : Z) : verdict :=
    if (sizeinbase2 p <? F) || (sizeinbase2 q <? G) then Reject
    else if negb (2 * q + 1 =? p) then Reject
    else if negb (probab_prime p && probab_prime q) then Reject
    else if negb (p mod 8 =? 7) then Reject
    else if negb (in_range g p) then Reject
    else if negb (jac g p =? 1) then Reject
    else if canonical then
      if sizeinbase2 p <? E then Reject
      else match mpz_powm 2 (2 ^ (sizeinbase2 p - E)) p with
           | None => Crash
           | Some g2 => if g2 =? g then Accept else Reject
           end
    else Accept.

  Definition check_element_qr (p a : Z) : bool :=
    negb ((a <=? 0) || (p <=? a)) && (jac a p =? 1).

End Checks.

(* a concrete primality test by trial division: instantiates is_prime in the non-vacuity examples and serves the
   model driver as oracle for numbers below 2^20 (above that the driver asks GMP) *)
Fixpoint no_divisor_from (n d : Z) (fuel : nat) : bool :=
  match fuel with
  | O => true
  | S f => if n <? d * d then true else if n mod d =? 0 then false else no_divisor_from n (d + 1) f
  end.
Definition trial_prime (n : Z) : bool := (2 <=? n) && no_divisor_from n 2 (Z.to_nat (Z.sqrt n)).

(* all elements a in [lo, lo+n) accepted by CheckElement (for the exhaustive comparison) *)
Fixpoint accepted_from (p q lo : Z) (n : nat) : list Z :=
  match n with
  | O => []
  | S m => match check_element p q lo with
           | Accept => lo :: accepted_from p q (lo + 1) m
           | _ => accepted_from p q (lo + 1) m
           end
  end.
