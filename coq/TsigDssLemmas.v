(* TsigDssLemmas: the threshold DSS signing algebra yields a valid DSA signature (C16, full theorem). *)
From Coq Require Import ZArith Znumtheory List Bool Lia.
From LT Require Import gen_Consts Zbase VssModel VssLemmas VssLagrange CoinFlipArith CoinFlipModel CoinFlipLemmas TsigModel TsigLemmas TsigDssModel.
Import ListNotations.
Local Open Scope Z_scope.

(* ---- polynomial product on coefficient lists ---------------------------------------------------------- *)
Fixpoint pmul (f g : list Z) : list Z :=
  match f with
  | [] => []
  | a :: r => pladd (pscale a g) (0 :: pmul r g)
  end.

Lemma peval_pmul f g x : peval (pmul f g) x = peval f x * peval g x.
Proof.
  induction f as [|a r IH]; cbn [pmul peval]; [lia|].
  rewrite peval_pladd, peval_pscale. cbn [peval]. rewrite IH. ring.
Qed.

Lemma length_pmul f g : (length (pmul f g) <= length f + length g)%nat.
Proof.
  induction f as [|a r IH]; cbn [pmul length]; [lia|].
  rewrite length_pladd, length_pscale. cbn [length]. lia.
Qed.

Lemma length_pmul_tight f g : f <> [] -> g <> [] -> (S (length (pmul f g)) <= length f + length g)%nat.
Proof.
  intros Hf Hg. induction f as [|a r IH]; [congruence|].
  cbn [pmul length]. rewrite length_pladd, length_pscale. cbn [length].
  destruct r as [|b r'].
  - cbn [pmul length]. destruct g; [congruence|cbn [length]; lia].
  - assert (b :: r' <> []) by congruence. specialize (IH H). cbn [length] in *. lia.
Qed.

(* linear combination of polynomials *)
Fixpoint lincomb (lams : list Z) (fs : list (list Z)) : list Z :=
  match lams, fs with
  | l :: lr, f :: fr => pladd (pscale l f) (lincomb lr fr)
  | _, _ => []
  end.

Lemma length_lincomb lams fs d : Forall (fun f => (length f <= d)%nat) fs -> (length (lincomb lams fs) <= d)%nat.
Proof.
  revert fs. induction lams as [|l lr IH]; intros fs H; [cbn; lia|].
  destruct fs as [|f fr]; [cbn; lia|]. inversion H; subst. cbn [lincomb].
  rewrite length_pladd, length_pscale. specialize (IH fr H3). lia.
Qed.

Fixpoint lsum (lams ys : list Z) : Z :=
  match lams, ys with l :: lr, y :: yr => l * y + lsum lr yr | _, _ => 0 end.

Lemma peval_lincomb lams fs x : peval (lincomb lams fs) x = lsum lams (map (fun f => peval f x) fs).
Proof.
  revert fs. induction lams as [|l lr IH]; intros fs; [reflexivity|].
  destruct fs as [|f fr]; [reflexivity|]. cbn [lincomb map lsum]. rewrite peval_pladd, peval_pscale, IH. reflexivity.
Qed.

(* dss_comb is the linear sum modulo q *)
Lemma dss_comb_lsum q lams ys : 0 < q -> dss_comb q lams ys = lsum lams ys mod q.
Proof.
  intros Hq. unfold dss_comb.
  assert (H : forall acc, fold_left (fun acc ls => (acc + (fst ls * snd ls) mod q) mod q) (combine lams ys) (acc mod q)
                          = (acc + lsum lams ys) mod q).
  { revert ys. induction lams as [|l lr IH]; intros ys acc; [cbn; now rewrite Z.add_0_r|].
    destruct ys as [|y yr]; [cbn; now rewrite Z.add_0_r|].
    cbn [combine fold_left fst snd lsum]. rewrite Zplus_mod_idemp_l, Zplus_mod_idemp_r. rewrite IH, <- Z.add_assoc. reflexivity. }
  specialize (H 0). rewrite Zmod_0_l in H. exact H.
Qed.

Lemma lsum_congr q lams ys zs : 0 < q -> Forall2 (fun y z => y mod q = z mod q) ys zs -> lsum lams ys mod q = lsum lams zs mod q.
Proof.
  intros Hq H. revert lams. induction H as [|y z ys zs E _ IH]; intros [|l lr]; try reflexivity.
  cbn [lsum]. rewrite Zplus_mod, (Zplus_mod (l * z)). rewrite IH. rewrite (Zmult_mod l y), (Zmult_mod l z), E. reflexivity.
Qed.

(* ---- lagrange0 as a linear form with the coefficients dss_lambda ---------------------------------------- *)
Lemma lag_go_lin q xs : 0 < q -> forall pts acc,
  lag_go q xs pts (acc mod q) =
  match dss_lambdas_of q xs (map fst pts) with
  | Some lams => Some ((acc + lsum lams (map snd pts)) mod q)
  | None => None
  end.
Proof.
  intros Hq. induction pts as [|[xj yj] r IH]; intros acc; cbn [lag_go map dss_lambdas_of fst snd].
  - cbn [lsum]. now rewrite Z.add_0_r.
  - unfold dss_lambda. destruct (invm (lag_den xs xj) q) as [iv|]; [|reflexivity].
    rewrite Zplus_mod_idemp_l, Zplus_mod_idemp_r. rewrite IH.
    destruct (dss_lambdas_of q xs (map fst r)) as [ls|]; [|reflexivity].
    cbn [lsum]. f_equal. apply (f_equal (fun z => z mod q)). ring.
Qed.

Lemma lagrange0_lin q pts : 0 < q ->
  lagrange0 q pts = match dss_lambdas q (map fst pts) with
                    | Some lams => Some (lsum lams (map snd pts) mod q)
                    | None => None end.
Proof.
  intros Hq. unfold lagrange0, dss_lambdas. rewrite <- (Zmod_0_l q) at 1. rewrite lag_go_lin by lia.
  destruct (dss_lambdas_of q (map fst pts) (map fst pts)); reflexivity.
Qed.

(* ---- completeness: distinct abscissae in [0, q), q prime ------------------------------------------------ *)
Lemma pr_nonzero q ys x : prime q -> Forall (fun y => (y - x) mod q <> 0) ys -> pr ys x mod q <> 0.
Proof.
  intros Hq. assert (1 < q) by (destruct Hq; lia).
  induction 1 as [|y r Hy _ IH]; cbn [pr]; [rewrite Z.mod_1_l; lia|].
  intros E. apply Zmod_divide in E; [|lia]. apply prime_mult in E; [|assumption].
  destruct E as [E|E]; apply Zdivide_mod in E; contradiction.
Qed.

Lemma lag_den_invertible q S xj : prime q -> NoDup S -> Forall (fun x => 0 <= x < q) S -> In xj S ->
  exists iv, invm (lag_den S xj) q = Some iv.
Proof.
  intros Hq Hnd Hr Hin. assert (Hq1 : 1 < q) by (destruct Hq; lia).
  apply invm_complete; [lia|]. rewrite lag_den_pr.
  assert (NZ : pr (others S xj) xj mod q <> 0).
  { apply pr_nonzero; [assumption|]. apply Forall_forall. intros y Hy.
    unfold others in Hy. apply filter_In in Hy. destruct Hy as [Hy Hne].
    apply negb_true_iff, Z.eqb_neq in Hne.
    rewrite Forall_forall in Hr. pose proof (Hr y Hy). pose proof (Hr xj Hin).
    intros E. apply Zmod_divide in E; [|lia]. destruct E as [c Hc].
    assert (c = 0) by nia. subst c. lia. }
  apply Zgcd_1_rel_prime. apply rel_prime_sym. apply prime_rel_prime; [assumption|].
  intros D. apply Zdivide_mod in D. contradiction.
Qed.

Lemma dss_lambdas_of_complete q S js : prime q -> NoDup S -> Forall (fun x => 0 <= x < q) S -> incl js S ->
  exists lams, dss_lambdas_of q S js = Some lams /\ length lams = length js.
Proof.
  intros Hq Hnd Hr. induction js as [|xj r IH]; intros Hi; [exists []; split; reflexivity|].
  destruct IH as (ls & E & L); [intros z Hz; apply Hi; now right|].
  destruct (lag_den_invertible q S xj Hq Hnd Hr (Hi xj (or_introl eq_refl))) as [iv I].
  cbn [dss_lambdas_of]. unfold dss_lambda. rewrite I, E. eexists. split; [reflexivity|]. cbn [length]. now rewrite L.
Qed.

Lemma dss_lambdas_complete q S : prime q -> NoDup S -> Forall (fun x => 0 <= x < q) S ->
  exists lams, dss_lambdas q S = Some lams /\ length lams = length S.
Proof. intros. apply dss_lambdas_of_complete; try assumption. apply incl_refl. Qed.

Lemma lagrange0_complete q pts : prime q -> NoDup (map fst pts) -> Forall (fun x => 0 <= x < q) (map fst pts) ->
  exists r, lagrange0 q pts = Some r.
Proof.
  intros Hq Hnd Hr. assert (0 < q) by (destruct Hq; lia). rewrite lagrange0_lin by lia.
  destruct (dss_lambdas_complete q (map fst pts) Hq Hnd Hr) as (ls & -> & _). eauto.
Qed.

(* ---- the interpolated value ------------------------------------------------------------------------------ *)
Definition pts_ok (q : Z) (S : list Z) : Prop := NoDup S /\ Forall (fun x => 0 <= x < q) S.

Lemma map_fst_pts {A} (F : Z -> A) R : map fst (map (fun xi => (xi, F xi)) R) = R.
Proof. induction R as [|x r IH]; [reflexivity|]. cbn [map fst]. now rewrite IH. Qed.

Lemma lsum_peval_mod q lams fs x : 0 < q ->
  lsum lams (map (fun f => poly_eval q f x) fs) mod q = lsum lams (map (fun f => peval f x) fs) mod q.
Proof.
  intros Hq. apply lsum_congr; [lia|]. induction fs as [|f fr IH]; cbn [map]; constructor; [|exact IH].
  rewrite poly_eval_peval by lia. apply Z.mod_mod. lia.
Qed.

(* what a party obtains from the broadcast shares of ANY set R of at least d parties (d = bound on the number of
   coefficients of the sharing polynomials, i.e. t+1): the linear combination of the shared values *)
Lemma dss_interp_value q S fs R d mu : prime q -> pts_ok q R ->
  Forall (fun f => (length f <= d)%nat) fs -> (d <= length R)%nat ->
  dss_interp q S fs R = Some mu ->
  exists lams, dss_lambdas q S = Some lams /\ mu = lsum lams (map (fun f => peval f 0) fs) mod q.
Proof.
  intros Hq [Rnd Rr] Hfs Hd E. assert (Hq0 : 0 < q) by (destruct Hq; lia).
  unfold dss_interp in E. destruct (dss_lambdas q S) as [lams|]; [|discriminate].
  exists lams. split; [reflexivity|].
  rewrite (lagrange0_sound q (lincomb lams fs) (map (fun xi => (xi, dss_party_share q lams fs xi)) R) mu Hq); try exact E.
  - rewrite poly_eval_peval by lia. now rewrite peval_lincomb.
  - rewrite map_length. pose proof (length_lincomb lams fs d Hfs). lia.
  - now rewrite map_fst_pts.
  - intros x y Hin. apply in_map_iff in Hin. destruct Hin as (xi & [= <- <-] & Hxi).
    rewrite Forall_forall in Rr. split; [now apply Rr|].
    unfold dss_party_share. rewrite dss_comb_lsum by lia. rewrite Z.mod_mod by lia.
    rewrite lsum_peval_mod by lia. rewrite poly_eval_peval by lia. now rewrite peval_lincomb.
Qed.

Lemma F2_length {A B} (P : A -> B -> Prop) l m : Forall2 P l m -> length l = length m.
Proof. induction 1; cbn; congruence. Qed.
Lemma combine_fst {A B} (l : list A) (m : list B) : length l = length m -> map fst (combine l m) = l.
Proof. revert m. induction l as [|a l IH]; intros [|b m] L; try discriminate; [reflexivity|]. cbn. f_equal. apply IH. now injection L. Qed.
Lemma combine_snd {A B} (l : list A) (m : list B) : length l = length m -> map snd (combine l m) = m.
Proof. revert m. induction l as [|a l IH]; intros [|b m] L; try discriminate; [reflexivity|]. cbn. f_equal. apply IH. now injection L. Qed.

(* the coefficients lambda_j turn values of a polynomial with at most |S| coefficients at the signers' abscissae into its value at 0 *)
Lemma lincomb_value q S lams vs P : prime q -> pts_ok q S -> dss_lambdas q S = Some lams ->
  Forall2 (fun x v => v mod q = poly_eval q P x) S vs -> (length P <= length S)%nat ->
  lsum lams vs mod q = poly_eval q P 0.
Proof.
  intros Hq [Snd Sr] EL HV HP. assert (Hq0 : 0 < q) by (destruct Hq; lia).
  assert (L : length S = length vs) by (eapply F2_length; exact HV).
  assert (E : lagrange0 q (combine S vs) = Some (lsum lams vs mod q)).
  { rewrite lagrange0_lin by lia. rewrite combine_fst, combine_snd by assumption. now rewrite EL. }
  apply (lagrange0_sound q P (combine S vs) _ Hq); try exact E.
  - rewrite combine_length. lia.
  - now rewrite combine_fst.
  - intros x y Hin. rewrite Forall_forall in Sr. split; [apply Sr; eapply in_combine_l; exact Hin|].
    clear - HV Hin. induction HV as [|x0 v0 S' vs' H0 _ IH]; [contradiction|].
    destruct Hin as [[= <- <-]|Hin]; [exact H0|now apply IH].
Qed.

(* the interpolated value is the Lagrange value of the points (x_j, v_j) over the signers: the form compared with the code
   in the correspondence records (every signer's own v_j, the logged mu / s) *)
Lemma dss_interp_is_lincomb q S fs R d mu : prime q -> pts_ok q R ->
  Forall (fun f => (length f <= d)%nat) fs -> (d <= length R)%nat -> length fs = length S ->
  dss_interp q S fs R = Some mu -> dss_lincomb q S (map (fun f => peval f 0) fs) = Some mu.
Proof.
  intros Hq HR Hfs Hd L E. assert (Hq0 : 0 < q) by (destruct Hq; lia).
  destruct (dss_interp_value q S fs R d mu Hq HR Hfs Hd E) as (lams & EL & ->).
  unfold dss_lincomb. rewrite lagrange0_lin by lia.
  rewrite combine_fst, combine_snd by (rewrite map_length; lia). now rewrite EL.
Qed.

(* ---- the signing run ---------------------------------------------------------------------------------------- *)
Section Run.
  Variable G : group.
  Hypothesis SG : sgroup G.
  Hypothesis Pq : prime (gq G).
  Let p := gp G.
  Let q := gq G.
  Let g := gg G.

  Variables Fk Fa Fx : list Z.                 (* the joint polynomials of k, a and the key x *)
  Hypothesis Nk : Fk <> []. Hypothesis Na : Fa <> []. Hypothesis Nx : Fx <> [].
  Variable S : list Z.                         (* the signers' abscissae *)
  Hypothesis HS : pts_ok q S.
  Hypothesis HdegA : (length Fk + length Fa <= Datatypes.S (length S))%nat.    (* |S| >= 2t+1 *)
  Hypothesis HdegX : (length Fk + length Fx <= Datatypes.S (length S))%nat.
  Variable d : nat.                            (* t+1 *)
  Variable m : Z.

  Let kk := peval Fk 0.
  Let aa := peval Fa 0.
  Let xx := peval Fx 0.

  (* every signer shared its product correctly (or it was exposed and the constant polynomial is used) *)
  Definition shared_mu (fs : list (list Z)) : Prop :=
    Forall (fun f => (length f <= d)%nat) fs /\
    Forall2 (fun x f => poly_eval q f 0 = dss_v q (poly_eval q Fk x) (poly_eval q Fa x)) S fs.
  Definition shared_s (r : Z) (fs : list (list Z)) : Prop :=
    Forall (fun f => (length f <= d)%nat) fs /\
    Forall2 (fun x f => poly_eval q f 0 = dss_v q (poly_eval q Fk x) (dss_aprime q (poly_eval q Fx x) r m)) S fs.

  Lemma q_pos : 0 < q. Proof. destruct Pq. unfold q. lia. Qed.

  Lemma product_value fs R mu (Q : list Z) (val : Z -> Z) :
    (Q <> []) -> (length Fk + length Q <= Datatypes.S (length S))%nat ->
    Forall (fun f => (length f <= d)%nat) fs ->
    Forall2 (fun x f => poly_eval q f 0 = dss_v q (poly_eval q Fk x) (val x)) S fs ->
    (forall x, val x mod q = peval Q x mod q) ->
    pts_ok q R -> (d <= length R)%nat ->
    dss_interp q S fs R = Some mu -> mu = (kk * peval Q 0) mod q.
  Proof.
    intros NQ HL Hlen HV Hval HR Hd E. pose proof q_pos as Hq0.
    destruct (dss_interp_value q S fs R d mu Pq HR Hlen Hd E) as (lams & EL & ->).
    rewrite (lincomb_value q S lams _ (pmul Fk Q) Pq HS EL).
    - rewrite poly_eval_peval by lia. now rewrite peval_pmul.
    - clear - HV Hval Hq0. induction HV as [|x f S' fs' H0 _ IH]; cbn [map]; constructor; [|exact IH].
      rewrite <- (poly_eval_peval q f 0) by lia. rewrite H0. unfold dss_v.
      rewrite !poly_eval_peval by lia. rewrite peval_pmul.
      rewrite Zmult_mod_idemp_l. rewrite (Zmult_mod (peval Fk x) (val x)), Hval, <- Zmult_mod. reflexivity.
    - pose proof (length_pmul_tight Fk Q Nk NQ). lia.
  Qed.

  Lemma mu_value fs R mu : shared_mu fs -> pts_ok q R -> (d <= length R)%nat ->
    dss_interp q S fs R = Some mu -> mu = (kk * aa) mod q.
  Proof.
    intros [Hlen HV] HR Hd E. pose proof q_pos.
    apply (product_value fs R mu Fa (fun x => poly_eval q Fa x) Na HdegA Hlen HV); try assumption.
    intros x. rewrite poly_eval_peval by lia. apply Z.mod_mod. lia.
  Qed.

  Lemma s_value r fs R s : shared_s r fs -> pts_ok q R -> (d <= length R)%nat ->
    dss_interp q S fs R = Some s -> s = (kk * (m + r * xx)) mod q.
  Proof.
    intros [Hlen HV] HR Hd E. pose proof q_pos.
    set (Q := pladd [m] (pscale r Fx)).
    assert (EQ : forall x, peval Q x = m + r * peval Fx x).
    { intros x. unfold Q. rewrite peval_pladd, peval_pscale. cbn [peval]. ring. }
    unfold xx. rewrite <- (EQ 0).
    apply (product_value fs R s Q (fun x => dss_aprime q (poly_eval q Fx x) r m)); try assumption.
    - unfold Q. destruct Fx; [congruence|]. cbn. congruence.
    - unfold Q. rewrite length_pladd, length_pscale. cbn [length]. destruct Fx; [congruence|]. cbn [length] in *. lia.
    - intros x. rewrite EQ. unfold dss_aprime. rewrite Z.mod_mod by lia. rewrite poly_eval_peval by lia.
      rewrite Zmult_mod_idemp_l. rewrite Zplus_mod_idemp_l. apply (f_equal (fun z => z mod q)). ring.
  Qed.

  (* MAIN THEOREM: the (r, s) a party computes from ANY >= 2t+1 correct signers and ANY >= t+1 correct broadcast shares
     is a valid DSA signature on m under y = g^x *)
  Theorem tdss_valid fs fs' R1 R2 r s :
    shared_mu fs -> pts_ok q R1 -> (d <= length R1)%nat ->
    pts_ok q R2 -> (d <= length R2)%nat ->
    dss_sign G Fa S fs fs' R1 R2 = Some (r, s) -> shared_s r fs' ->
    0 < r -> 0 < s ->
    dsa_textbook G (powm g (poly_eval q Fx 0) p) m r s = true.
  Proof.
    intros Hmu HR1 Hd1 HR2 Hd2 E Hs Hr0 Hs0. pose proof q_pos as Hq0.
    assert (Hq1 : 1 < q) by (destruct Pq; unfold q; lia).
    destruct SG as (Hp & _ & _ & Hg). fold p q g in Hp, Hg.
    unfold dss_sign in E. fold p q g in E.
    destruct (dss_interp q S fs R1) as [mu|] eqn:E1; [|discriminate].
    destruct (invm mu q) as [mi|] eqn:EI; [|discriminate].
    destruct (dss_interp q S fs' R2) as [s'|] eqn:E2; [|discriminate].
    injection E as Er Es. subst s'.
    pose proof (mu_value fs R1 mu Hmu HR1 Hd1 E1) as Vmu.
    pose proof (s_value r fs' R2 s Hs HR2 Hd2 E2) as Vs.
    destruct (CoinFlipArith.invm_sound _ _ _ EI Hq1) as [Rmi Emi].
    set (kinv := (aa * mi) mod q).
    assert (Hk : (kk * kinv) mod q = 1).
    { unfold kinv. rewrite Zmult_mod_idemp_r. replace (kk * (aa * mi)) with ((kk * aa) * mi) by ring.
      rewrite <- Zmult_mod_idemp_l, <- Vmu. exact Emi. }
    assert (Rk : 0 <= kinv) by (apply Z.mod_pos_bound; lia).
    pose proof (tdss_valid_partial G SG xx kk kinv m Pq Hk Rk) as T. cbv zeta in T.
    assert (Er' : dss_r G kinv = r).
    { unfold dss_r. fold p q g. rewrite <- Er. f_equal.
      pose proof (poly_eval_range q Fa 0 Hq0) as Ra.
      rewrite <- powm_mul by lia.
      rewrite <- (sub_pow_mod p q Hp Hq1 g (poly_eval q Fa 0 * mi)) by (assumption || nia).
      f_equal. unfold kinv. rewrite poly_eval_peval by lia. fold aa. now rewrite Zmult_mod_idemp_l. }
    rewrite Er' in T.
    assert (Es' : dss_s q kk m xx r = s).
    { unfold dss_s. rewrite Vs. rewrite Zmult_mod_idemp_r. f_equal. f_equal. ring. }
    fold q in T. rewrite Es' in T.
    assert (Ey : sexp G g xx = powm g (poly_eval q Fx 0) p).
    { unfold sexp. fold p q. rewrite poly_eval_peval by lia. reflexivity. }
    fold g in T. rewrite Ey in T. now apply T.
  Qed.

  (* all honest parties obtain the same signature: the output depends on the broadcast shares only through values that
     are the same for every admissible choice of the parties whose shares are interpolated *)
  Theorem all_honest_same_signature fs fs' R1 R2 R1' R2' r s r' s' :
    shared_mu fs -> pts_ok q R1 -> (d <= length R1)%nat -> pts_ok q R2 -> (d <= length R2)%nat ->
    pts_ok q R1' -> (d <= length R1')%nat -> pts_ok q R2' -> (d <= length R2')%nat ->
    dss_sign G Fa S fs fs' R1 R2 = Some (r, s) -> dss_sign G Fa S fs fs' R1' R2' = Some (r', s') ->
    shared_s r fs' -> r = r' /\ s = s'.
  Proof.
    intros Hmu H1 D1 H2 D2 H1' D1' H2' D2' E E' Hs. pose proof q_pos as Hq0.
    assert (Hq1 : 1 < q) by (destruct Pq; unfold q; lia).
    unfold dss_sign in E, E'. fold p q g in E, E'.
    destruct (dss_interp q S fs R1) as [mu|] eqn:E1; [|discriminate E || discriminate E'].
    destruct (dss_interp q S fs R1') as [mu'|] eqn:E1'; [|discriminate E || discriminate E'].
    pose proof (mu_value fs R1 mu Hmu H1 D1 E1) as V. pose proof (mu_value fs R1' mu' Hmu H1' D1' E1') as V'.
    subst mu mu'.
    destruct (invm ((kk * aa) mod q) q) as [mi|]; [|discriminate E || discriminate E'].
    destruct (dss_interp q S fs' R2) as [s1|] eqn:E2; [|discriminate E || discriminate E'].
    destruct (dss_interp q S fs' R2') as [s2|] eqn:E2'; [|discriminate E || discriminate E'].
    injection E as Er Es. injection E' as Er' Es'. subst s1 s2.
    split; [congruence|].
    rewrite (s_value r fs' R2 s Hs H2 D2 E2). rewrite (s_value r fs' R2' s' Hs H2' D2' E2'). reflexivity.
  Qed.

  (* a run with correct shares does produce a result (no inverse is missing) unless mu = k a = 0 *)
  Theorem tdss_completes fs fs' R1 R2 : shared_mu fs -> pts_ok q R1 -> (d <= length R1)%nat -> pts_ok q R2 ->
    length fs = length S -> (kk * aa) mod q <> 0 ->
    exists r s, dss_sign G Fa S fs fs' R1 R2 = Some (r, s).
  Proof.
    intros Hmu [N1 B1] D1 [N2 B2] L NZ. pose proof q_pos as Hq0. assert (Hq1 : 1 < q) by (destruct Pq; unfold q; lia).
    destruct HS as [SN SB].
    destruct (dss_lambdas_complete q S Pq SN SB) as (lams & EL & _).
    assert (I1 : exists mu, dss_interp q S fs R1 = Some mu).
    { unfold dss_interp. rewrite EL. apply lagrange0_complete; [assumption| |]; now rewrite map_fst_pts. }
    destruct I1 as [mu E1]. pose proof (mu_value fs R1 mu Hmu (conj N1 B1) D1 E1) as V.
    assert (I2 : exists s, dss_interp q S fs' R2 = Some s).
    { unfold dss_interp. rewrite EL. apply lagrange0_complete; [assumption| |]; now rewrite map_fst_pts. }
    destruct I2 as [s E2].
    assert (GI : Z.gcd mu q = 1).
    { apply Zgcd_1_rel_prime. apply rel_prime_sym. apply prime_rel_prime; [assumption|].
      intros D. apply Zdivide_mod in D. rewrite V, Z.mod_mod in D by lia. contradiction. }
    destruct (invm_complete mu q Hq1 GI) as [mi EI].
    unfold dss_sign. fold p q g. rewrite E1, EI, E2. eauto.
  Qed.
End Run.
