(* ShuffleQrLemmas: proofs about ShuffleQrModel -- the compensation row makes every column of a created card
   secret XOR to zero (so masking with it keeps the card type), for every index and every coin list. *)
From Coq Require Import ZArith NArith List Bool Lia ZifyBool.
From LT Require Import SamplerModel SamplerLemmas ShuffleModel ShuffleQrModel.
Import ListNotations.
Local Open Scope N_scope.

Lemma xor_branch_xorb a b : xor_branch a b = xorb a b.
Proof. destruct a, b; reflexivity. Qed.

Lemma vxb_vxor a b : vxb a b = vxor a b.
Proof. unfold vxb, vxor. apply map_ext. intros [x y]. apply xor_branch_xorb. Qed.

Lemma vxor_comm : forall a b, vxor a b = vxor b a.
Proof. induction a as [|x a IH]; intros [|y b]; cbn; try reflexivity. unfold vxor in *. cbn. now rewrite xorb_comm, IH. Qed.

Lemma vxor_assoc : forall a b c, vxor a (vxor b c) = vxor (vxor a b) c.
Proof.
  induction a as [|x a IH]; intros [|y b] [|z c]; cbn; try reflexivity.
  unfold vxor in *. cbn. rewrite xorb_assoc. f_equal. apply IH.
Qed.

Lemma vxor_length : forall a b, length (vxor a b) = Nat.min (length a) (length b).
Proof. intros. unfold vxor. now rewrite map_length, combine_length. Qed.

Lemma vxor_self : forall a, vxor a a = repeat false (length a).
Proof. induction a as [|x a IH]; [reflexivity|]. unfold vxor in *. cbn. now rewrite xorb_nilpotent, IH. Qed.

Lemma col_xor_length w bits : Forall (fun r => length r = w) bits -> length (col_xor w bits) = w.
Proof.
  induction 1 as [|r bits Hr _ IH]; cbn; [apply repeat_length|].
  fold (col_xor w bits). rewrite vxor_length, IH, Hr. lia.
Qed.

Lemma col_xor_move w a x b : col_xor w (a ++ x :: b) = vxor x (col_xor w (a ++ b)).
Proof.
  unfold col_xor. induction a as [|h a IH]; [reflexivity|]. cbn. rewrite IH.
  rewrite !vxor_assoc. f_equal. apply vxor_comm.
Qed.

Lemma fold_left_vxb (l : list (list (Z * bool))) z :
  fold_left (fun a row => vxb a (map snd row)) l z = fold_left vxor (map (map snd) l) z.
Proof. revert z. induction l as [|r l IH]; intros z; [reflexivity|]. cbn. now rewrite vxb_vxor, IH. Qed.

Lemma map_snd_combine {A B} : forall (a : list A) (b : list B), length a = length b -> map snd (combine a b) = b.
Proof. induction a as [|x a IH]; intros [|y b] L; try discriminate; [reflexivity|]. cbn. f_equal. apply IH. cbn in L. lia. Qed.

(* ---- the generated matrix ---- *)
Lemma qr_row_spec : forall w is_index m s row s', qr_row w is_index m s = Ret (row, s') ->
  length row = w /\ (is_index = true -> map snd row = repeat false w).
Proof.
  induction w as [|w IH]; intros is_index m s row s'; cbn [qr_row].
  - intros E. injection E as <- <-. auto.
  - destruct (qr_entry is_index m s) as [[e s1]| | | | |] eqn:Q; cbn [bind fst snd]; try discriminate.
    destruct (qr_row w is_index m s1) as [[r s2]| | | | |] eqn:R; cbn [bind fst snd]; try discriminate.
    intros E. injection E as <- <-. apply IH in R. destruct R as (L & Hb). split; [cbn; now rewrite L|].
    intros ->. cbn. rewrite Hb by reflexivity. f_equal.
    unfold qr_entry in Q. destruct (random_unit m s) as [[r0 s0]| | | | |]; cbn [bind fst snd] in Q; try discriminate.
    injection Q as <- _. reflexivity.
Qed.

Lemma qr_rows_spec w index : forall ms k s rows s', qr_rows k ms w index s = Ret (rows, s') ->
  length rows = length ms /\ Forall (fun r => length r = w) rows /\
  (forall i row, nth_error rows i = Some row -> (k + i)%nat = index -> map snd row = repeat false w).
Proof.
  induction ms as [|m ms IH]; intros k s rows s'; cbn [qr_rows].
  - intros E. injection E as <- <-. repeat split; [constructor|]. intros [|i] row; discriminate.
  - destruct (qr_row w (k =? index)%nat m s) as [[r s1]| | | | |] eqn:R; cbn [bind fst snd]; try discriminate.
    destruct (qr_rows (S k) ms w index s1) as [[rr s2]| | | | |] eqn:RR; cbn [bind fst snd]; try discriminate.
    intros E. injection E as <- <-. apply IH in RR. destruct RR as (L & F & H). apply qr_row_spec in R. destruct R as (Lr & Hb).
    repeat split; [cbn; now rewrite L | now constructor|].
    intros [|i] row E Hi; cbn in E.
    + injection E as <-. apply Hb. apply Nat.eqb_eq. lia.
    + apply (H i row E). lia.
Qed.

(* every column of a created card secret XORs to zero: for every ring, width, index and coin list *)
Theorem create_card_secret_col_xor ms w index s cs s' : create_card_secret ms w index s = Ret (cs, s') ->
  (index < length ms)%nat /\ length cs = length ms /\ Forall (fun r => length r = w) cs /\
  col_xor w (map (map snd) cs) = repeat false w.
Proof.
  unfold create_card_secret. destruct (Nat.ltb_spec index (length ms)) as [Hi|]; cbn [negb]; [|discriminate].
  destruct (qr_rows 0 ms w index s) as [[rows s1]| | | | |] eqn:R; cbn [bind fst snd]; try discriminate.
  apply qr_rows_spec in R. destruct R as (L & F & H).
  unfold fix_index_row. destruct (nth_error rows index) as [irow|] eqn:E; cbv beta iota delta [bind]; [|discriminate].
  intros E'. injection E' as <- <-.
  pose proof (H index irow E eq_refl) as Hb.
  destruct (nth_error_split rows index E) as (l1 & l2 & -> & L1).
  assert (Epre : firstn index (l1 ++ irow :: l2) = l1) by (rewrite <- L1, firstn_app, Nat.sub_diag, firstn_all; cbn; apply app_nil_r).
  assert (Epost : skipn (S index) (l1 ++ irow :: l2) = l2).
  { rewrite <- L1. rewrite skipn_app. rewrite skipn_all2 by lia. replace (S (length l1) - length l1)%nat with 1%nat by lia. reflexivity. }
  rewrite Epre. cbn [skipn] in Epost |- *. rewrite Epost.
  apply Forall_app in F. destruct F as (F1 & F2). inversion F2 as [|? ? Li F2']; subst.
  assert (FB : Forall (fun r => length r = length irow) (map (map snd) (l1 ++ l2))).
  { rewrite Forall_map. apply Forall_app. split; eapply Forall_impl; try eassumption; cbn; intros r Hr; now rewrite map_length. }
  set (acc := fold_left _ (l1 ++ l2) (map snd irow)).
  assert (Eacc : acc = col_xor (length irow) (map (map snd) (l1 ++ l2))).
  { unfold acc. rewrite fold_left_vxb, Hb. unfold col_xor. apply fold_symmetric; [intros; apply vxor_assoc | intros; apply vxor_comm]. }
  assert (Lacc : length acc = length irow) by (rewrite Eacc; now apply col_xor_length).
  repeat split.
  - exact Hi.
  - rewrite <- L. rewrite !app_length. reflexivity.
  - apply Forall_app. split; [assumption|]. constructor; [|assumption].
    rewrite combine_length, map_length, Lacc. lia.
  - rewrite map_app. cbn [map]. rewrite map_snd_combine by (now rewrite map_length).
    rewrite col_xor_move. rewrite <- map_app. rewrite <- Eacc.
    rewrite vxor_self. now rewrite Lacc.
Qed.
