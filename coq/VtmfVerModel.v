(* VtmfVerModel: executable model of the verifiers of the VTMF layer (C05, reused by C04).
   Anchors (src/BarnettSmartVTMF_dlog.cc): CheckElement 232-256, KeyGenerationProtocol_VerifyNIZK 331-370,
   KeyGenerationProtocol_VerifyKey_interactive 538-586 (and _publiccoin 588-640; since 0abf554 the key is membership-tested,
   since de8b018 tmcg_mpz_fpowm reads the sign of x before writing res, so the aliased call fpowm(table, m_2, g, m_2, p) inverts), CP_Verify 690-752, OR_Verify 840-893 (since fae6d38 with the range check of c_1, c_2, since fdc4557 with the membership test of y_1, y_2),
   VerifiableMaskingProtocol_Verify (since 38c5983 m is membership-tested), VerifiableRemaskingProtocol_Verify (since e22f683 the
   original card is membership-tested as well),
   VerifiableDecryptionProtocol_Verify_Update 1083-1125; src/mpz_spowm.cc tmcg_mpz_fpowm 195-235.
   The hash (tmcg_mpz_shash of the '|'-terminated hex serialisation, FsModel.fs_ser) is a function argument H on the
   list of hashed integers.  Outcomes: Accept/Reject (the bool), Throw (a std::exception leaves the verifier),
   Crash (GMP divides by zero: mpz_powm with a negative exponent and a non-invertible base).
   Definitions only; proofs are in VtmfVerLemmas.v. *)
From Coq Require Import ZArith List Bool.
From LT Require Import Zbase gen_Consts.
Import ListNotations.
Local Open Scope Z_scope.

Inductive verdict := Accept | Reject | Throw | Crash.

(* p, q, g, h of the verifier's object, the bases its two power tables were built for, digest length in bits *)
Record grp := mk_grp { gp : Z; gq : Z; gg : Z; gh : Z; gtg : Z; gth : Z; ghb : Z }.

(* mpz_sizeinbase(z, 2) *)
Definition bits (z : Z) : Z := if z =? 0 then 1 else Z.log2 (Z.abs z) + 1.

(* number of precomputed table entries: tmcg_mpz_fpowm_precompute(table, base, p, mpz_sizeinbase(q, 2)) *)
Definition tlen (G : grp) : Z := Z.min (bits (gq G)) TMCG_MAX_FPOWM_T.

Definition check_element (G : grp) (a : Z) : bool :=
  (0 <? a) && (a <? gp G) && (powm a (gq G) (gp G) =? 1).

(* mpz_powm: negative exponents go through the inverse; None = division by zero inside GMP *)
Definition mpz_powm (b e p : Z) : option Z :=
  if e <? 0 then match invm b p with Some i => Some (powm i (- e) p) | None => None end
  else Some (powm b e p).

(* the product the table walk computes: entries at index >= tl were never written (they are zero) *)
Definition table_walk (tl b ax p : Z) : Z :=
  if ax =? 0 then 1 else if bits ax <=? tl then powm b ax p else 0.

(* tmcg_mpz_fpowm(table, res, m, x, p); res may alias x (the sign is read first); None = exception *)
Definition fpowm (tb tl b x p : Z) : option Z :=
  if negb (b =? tb) then None
  else if TMCG_MAX_FPOWM_T <? bits (Z.abs x) then None
  else let v := table_walk tl b (Z.abs x) p in
       if x <? 0 then invm v p else Some v.

(* ---- non-interactive key-share proof: KeyGenerationProtocol_VerifyNIZK(foo, c, r) ---- *)
Definition key_hash_input (G : grp) (foo t2 : Z) : list Z := [gp G; gq G; gg G; foo; t2].

Definition key_verify (H : list Z -> Z) (G : grp) (foo c r : Z) : verdict :=
  if negb (check_element G foo) then Reject
  else if ghb G <? bits c then Reject
  else if gq G <=? Z.abs r then Reject
  else match fpowm (gtg G) (tlen G) (gg G) r (gp G) with
       | None => Throw
       | Some t2 =>
         match mpz_powm foo c (gp G) with
         | None => Crash
         | Some c2 => if c =? H (key_hash_input G foo ((t2 * c2) mod gp G)) then Accept else Reject
         end
       end.

(* ---- interactive key-share proof, after the three moves (m_1, c, m_2); c is the verifier's own value ---- *)
Definition keyint_verify (G : grp) (key m1 c m2 : Z) : verdict :=
  if negb (check_element G m1 && check_element G key) then Reject
  else if gq G <=? Z.abs m2 then Reject
  else match fpowm (gtg G) (tlen G) (gg G) m2 (gp G) with
       | None => Throw
       | Some v =>
         match mpz_powm key c (gp G) with
         | None => Crash
         | Some kc => match invm kc (gp G) with
                      | None => Reject
                      | Some ki => if m1 =? (v * ki) mod gp G then Accept else Reject
                      end
         end
       end.

(* ---- Chaum-Pedersen: CP_Verify(x, y, gg, hh, (c, r), fpowm_usage) ---- *)
Definition cp_hash_input (G : grp) (a b x y g' h' : Z) : list Z := [gp G; gq G; gg G; gh G; a; b; x; y; g'; h'].

Definition cp_verify (H : list Z -> Z) (G : grp) (x y g' h' c r : Z) (fp : bool) : verdict :=
  if ghb G <? bits c then Reject
  else if gq G <=? Z.abs r then Reject
  else if fp && negb (gg G =? g') then Reject
  else match (if fp then fpowm (gtg G) (tlen G) g' r (gp G) else mpz_powm g' r (gp G)) with
       | None => if fp then Throw else Crash
       | Some a0 =>
         match mpz_powm x c (gp G) with
         | None => Crash
         | Some xc =>
           let a := (a0 * xc) mod gp G in
           if fp && negb (gh G =? h') then Reject
           else match (if fp then fpowm (gth G) (tlen G) h' r (gp G) else mpz_powm h' r (gp G)) with
                | None => if fp then Throw else Crash
                | Some b0 =>
                  match mpz_powm y c (gp G) with
                  | None => Crash
                  | Some yc =>
                    let b := (b0 * yc) mod gp G in
                    if H (cp_hash_input G a b x y g' h') =? c then Accept else Reject
                  end
                end
         end
       end.

(* ---- the three users of CP_Verify ---- *)
Definition mask_verify (H : list Z -> Z) (G : grp) (m c1 c2 c r : Z) : verdict :=
  if negb (check_element G m && check_element G c1 && check_element G c2) then Reject
  else match invm m (gp G) with
       | None => Reject
       | Some mi => cp_verify H G c1 ((mi * c2) mod gp G) (gg G) (gh G) c r true
       end.

Definition remask_verify (H : list Z -> Z) (G : grp) (c1 c2 d1 d2 c r : Z) : verdict :=
  if negb (check_element G c1 && check_element G c2 && check_element G d1 && check_element G d2) then Reject
  else match invm c1 (gp G) with
       | None => Reject
       | Some i1 =>
         match invm c2 (gp G) with
         | None => Reject
         | Some i2 => cp_verify H G ((i1 * d1) mod gp G) ((i2 * d2) mod gp G) (gg G) (gh G) c r true
         end
       end.

(* hj = the stored public key found under the received fingerprint (None: unknown fingerprint) *)
Definition decrypt_verify (H : list Z -> Z) (G : grp) (c1 : Z) (hj : option Z) (dj c r : Z) : verdict :=
  match hj with
  | None => Reject
  | Some k => if negb (check_element G dj) then Reject else cp_verify H G dj k c1 (gg G) c r false
  end.

(* ---- OR proof: OR_Verify(y_1, y_2, g_1, g_2, (c_1, c_2, r_1, r_2)) ---- *)
Definition or_hash_input (G : grp) (g1 y1 g2 y2 t1 t2 : Z) : list Z := [gp G; gq G; gg G; gh G; g1; y1; g2; y2; t1; t2].

Definition or_verify (H : list Z -> Z) (G : grp) (y1 y2 g1 g2 c1 c2 r1 r2 : Z) : verdict :=
  if (gq G <=? Z.abs r1) || (gq G <=? Z.abs r2) then Reject
  else if (gq G <=? Z.abs c1) || (gq G <=? Z.abs c2) then Reject
  else if negb (check_element G y1 && check_element G y2) then Reject
  else match mpz_powm y1 c1 (gp G), mpz_powm g1 r1 (gp G), mpz_powm y2 c2 (gp G), mpz_powm g2 r2 (gp G) with
       | Some a1, Some b1, Some a2, Some b2 =>
         let t1 := (a1 * b1) mod gp G in
         let t2 := (a2 * b2) mod gp G in
         if (c1 + c2) mod gq G =? (H (or_hash_input G g1 y1 g2 y2 t1 t2)) mod gq G then Accept else Reject
       | _, _, _, _ => Crash
       end.

(* hash oracle given as a finite table (what the harness logged); unknown inputs hash to -1 (never a real digest) *)
Fixpoint zlist_eqb (a b : list Z) : bool :=
  match a, b with
  | [], [] => true
  | x :: a', y :: b' => (x =? y) && zlist_eqb a' b'
  | _, _ => false
  end.

Fixpoint table_hash (tbl : list (list Z * Z)) (x : list Z) : Z :=
  match tbl with
  | [] => -1
  | (k, v) :: r => if zlist_eqb k x then v else table_hash r x
  end.

Definition verdict_code (v : verdict) : Z :=
  match v with Accept => 1 | Reject => 0 | Throw => 2 | Crash => 3 end.
