From Coq Require Import Extraction ExtrOcamlBasic NArith.
From LT Require Import RbcModel.
(* N.succ only so that the shared driver core finds the type n *)
Extraction "model.ml" pinit set_id recover_id unset_id broadcast deliver deliver_from N.succ.
