(* KeyRingLemmas: proofs about KeyRingModel (C08; the key-share NIZK completeness is reused by C03). *)
From Coq Require Import ZArith Znumtheory Lia List Bool ZifyBool Permutation.
From LT Require Import Zbase gen_Consts SigmaPrim SigmaArith KeyRingModel.
Import ListNotations.
Local Open Scope Z_scope.

(* what the group check (CheckGroup) and the hash (output length hbits) guarantee; q need not be prime for
   the statements proved here *)
Record wf_params (H : list Z -> Z) (hbits : Z) (G : group) : Prop := mkWf {
  wf_p : 1 < gp G;
  wf_podd : Z.odd (gp G) = true;
  wf_q : 0 < gq G;
  wf_g : powm (gg G) (gq G) (gp G) = 1;
  wf_t : sizeinbase2 (gq G) <= TMCG_MAX_FPOWM_T;
  wf_hbits : 1 <= hbits;
  wf_H : forall l, 0 <= H l < 2 ^ hbits
}.

Lemma sizeinbase2_bound c b : 1 <= b -> 0 <= c < 2 ^ b -> sizeinbase2 c <= b.
Proof.
  intros Hb Hc. unfold sizeinbase2. destruct (c =? 0) eqn:C0; [lia|].
  rewrite Z.abs_eq by lia. assert (Z.log2 c < b); [|lia]. apply Z.log2_lt_pow2; lia.
Qed.

(* ---- map facts ------------------------------------------------------------------------------ *)
Lemma map_get_erase_same fp m : map_get fp (map_erase fp m) = None.
Proof.
  induction m as [|[k v] m IH]; [reflexivity|]. cbn [map_erase filter fst].
  destruct (k =? fp) eqn:E; cbn [negb]; [exact IH|]. cbn [map_get]. rewrite E. exact IH.
Qed.

Lemma map_erase_none fp m : map_get fp m = None -> map_erase fp m = m.
Proof.
  induction m as [|[k v] m IH]; [reflexivity|]. cbn [map_get map_erase filter fst].
  destruct (k =? fp) eqn:E; [discriminate|]. cbn [negb]. intros N. f_equal. now apply IH.
Qed.

Lemma map_get_set_same fp v m : map_get fp (map_set fp v m) = Some v.
Proof. unfold map_set. cbn [map_get]. now rewrite Z.eqb_refl. Qed.

Lemma map_erase_set fp v m : map_erase fp (map_set fp v m) = map_erase fp m.
Proof.
  unfold map_set. cbn [map_erase filter fst]. rewrite Z.eqb_refl. cbn [negb].
  fold (map_erase fp m). fold (map_erase fp (map_erase fp m)).
  apply map_erase_none. apply map_get_erase_same.
Qed.

Lemma prodl_cons x l : prodl (x :: l) = x * prodl l.
Proof. reflexivity. Qed.

Lemma prodl_nil : prodl [] = 1.
Proof. reflexivity. Qed.

Lemma prodl_app a b : prodl (a ++ b) = prodl a * prodl b.
Proof.
  induction a as [|x a IH]; cbn [app].
  - rewrite prodl_nil. ring.
  - rewrite !prodl_cons, IH. ring.
Qed.

Lemma prodl_perm l l' : Permutation l l' -> prodl l = prodl l'.
Proof.
  induction 1; rewrite ?prodl_cons; try congruence.
  ring.
Qed.

Section Lemmas.
  Variable H : list Z -> Z.
  Variable hbits : Z.
  Variable G : group.
  Hypothesis WF : wf_params H hbits G.

  Let p := gp G.
  Let q := gq G.
  Let g := gg G.

  Let Hp : 1 < p. Proof. exact (wf_p _ _ _ WF). Qed.
  Let Hq : 0 < q. Proof. exact (wf_q _ _ _ WF). Qed.
  Let Hg : powm g q p = 1. Proof. exact (wf_g _ _ _ WF). Qed.
  Let Ht : sizeinbase2 q <= TMCG_MAX_FPOWM_T. Proof. exact (wf_t _ _ _ WF). Qed.

  (* ---- the honest side ------------------------------------------------------------------------- *)
  Lemma generate_key_spec raw old :
    generate_key H G raw old =
      Some (raw mod q, powm g (raw mod q) p, H [powm g (raw mod q) p], mkKstate (powm g (raw mod q) p) (ks_hj old)).
  Proof.
    unfold generate_key, table_g, srandomm. fold p q g.
    pose proof (Z.mod_pos_bound raw q Hq).
    now rewrite (fspowm_spec g q (raw mod q) p Hp Hq Hg) by assumption.
  Qed.

  Lemma compute_nizk_spec x hi raw :
    compute_nizk H G x hi raw =
      let t := powm g (raw mod q) p in
      let c := H [p; q; g; hi; t] in Some (c, (- (c * x) + raw mod q) mod q).
  Proof.
    unfold compute_nizk, table_g, srandomm. fold p q g.
    pose proof (Z.mod_pos_bound raw q Hq).
    now rewrite (fspowm_spec g q (raw mod q) p Hp Hq Hg) by assumption.
  Qed.

  Lemma power_is_element x : 0 <= x -> check_element G (powm g x p) = true.
  Proof.
    intros Hx. apply check_element_spec. fold p q. split.
    - apply (powm_nonzero p q g Hp Hq Hg x Hx).
    - rewrite <- powm_mul by lia. rewrite powm_spec by nia. apply (cyc_pow_mult p q g Hp Hq Hg). assumption.
  Qed.

  (* completeness of the key-share proof: whatever the coin and the oracle, the published proof verifies *)
  Theorem nizk_complete x raw c r : 0 <= x ->
    compute_nizk H G x (powm g x p) raw = Some (c, r) -> verify_nizk H hbits G (powm g x p) c r = Accept.
  Proof.
    intros Hx. rewrite compute_nizk_spec. cbv zeta. intros E. inversion E as [[Ec Er]]. clear E.
    set (v := raw mod q) in *. set (t := powm g v p) in *. set (hi := powm g x p) in *.
    set (c0 := H [p; q; g; hi; t]) in *.
    assert (Hv : 0 <= v < q) by (apply Z.mod_pos_bound; exact Hq).
    pose proof (wf_H _ _ _ WF [p; q; g; hi; t]) as Hc. fold c0 in Hc.
    pose proof (Z.mod_pos_bound (- (c0 * x) + v) q Hq) as Hr.
    unfold verify_nizk. fold p q g.
    unfold hi at 1. rewrite power_is_element by assumption. cbn [negb].
    pose proof (sizeinbase2_bound c0 hbits (wf_hbits _ _ _ WF) Hc) as Sc.
    destruct (hbits <? sizeinbase2 c0) eqn:S1; [lia|].
    rewrite Z.abs_eq by lia. destruct (q <=? (- (c0 * x) + v) mod q) eqn:S2; [lia|].
    unfold table_g. fold q g. rewrite (fpowm_spec g q _ p Hp Hq Hr Ht).
    unfold mpz_powm. destruct (c0 <? 0) eqn:S3; [lia|].
    change (powm hi c0 p) with (powm (powm g x p) c0 p). rewrite (schnorr_identity p q g Hp Hq Hg x c0 v) by lia.
    fold t. fold c0. now rewrite Z.eqb_refl.
  Qed.

  Corollary publish_key_accepted x raw : 0 <= x ->
    exists m, publish_key H G x (powm g x p) raw = Some m /\ msg_key m = powm g x p /\ accepted H hbits G m.
  Proof.
    intros Hx. unfold publish_key. pose proof (nizk_complete x raw) as C.
    rewrite compute_nizk_spec in *. cbv zeta in *.
    eexists. split; [reflexivity|]. split; [reflexivity|]. unfold accepted. apply C; [assumption|reflexivity].
  Qed.

  (* ---- UpdateKey ------------------------------------------------------------------------------- *)
  Lemma update_accepted s m : accepted H hbits G m ->
    update_key H hbits G s true m =
      (Accept, mkKstate ((ks_h s * msg_key m) mod p) (map_set (H [msg_key m]) (msg_key m) (ks_hj s))).
  Proof. destruct m as [[foo c] r]. unfold accepted, update_key, msg_key. cbn [negb fst]. intros A. now rewrite A. Qed.

  Theorem update_reject_unchanged s good m :
    fst (update_key H hbits G s good m) <> Accept -> snd (update_key H hbits G s good m) = s.
  Proof.
    destruct m as [[foo c] r]. unfold update_key. destruct good; cbn [negb]; [|reflexivity].
    destruct (verify_nizk H hbits G foo c r); cbn [fst snd]; congruence.
  Qed.

  Theorem update_accept_iff s good m :
    fst (update_key H hbits G s good m) = Accept <-> good = true /\ accepted H hbits G m.
  Proof.
    destruct m as [[foo c] r]. unfold update_key, accepted. destruct good; cbn [negb fst].
    - destruct (verify_nizk H hbits G foo c r); cbn [fst]; intuition congruence.
    - intuition congruence.
  Qed.

  (* the refusals the property names: key outside the group, response out of range, wrong challenge,
     and an incomplete message *)
  Theorem verify_refuses foo c r :
    (check_element G foo = false \/ q <= Z.abs r \/ hbits < sizeinbase2 c \/
     (forall t, c <> H [p; q; g; foo; t])) ->
    verify_nizk H hbits G foo c r <> Accept.
  Proof.
    unfold verify_nizk. fold p q g. intros [A|[A|[A|A]]].
    - rewrite A. cbn. discriminate.
    - destruct (negb _); [discriminate|]. destruct (hbits <? _); [discriminate|].
      destruct (q <=? Z.abs r) eqn:E; [discriminate|lia].
    - destruct (negb _); [discriminate|]. destruct (hbits <? _) eqn:E; [discriminate|lia].
    - destruct (negb _); [discriminate|]. destruct (hbits <? _); [discriminate|].
      destruct (q <=? _); [discriminate|]. destruct (fpowm _ _ _ _); [|discriminate].
      destruct (mpz_powm _ _ _); [|discriminate].
      destruct (c =? _) eqn:E; [|discriminate]. exfalso. eapply A. apply Z.eqb_eq. exact E.
  Qed.

  (* ---- order independence ---------------------------------------------------------------------- *)
  Lemma run_updates_h : forall l s, 0 <= ks_h s < p -> Forall (accepted H hbits G) l ->
    ks_h (run_updates H hbits G s l) = (ks_h s * prodl (map msg_key l)) mod p.
  Proof.
    induction l as [|m l IH]; intros s Hs Hl.
    - cbn. rewrite Z.mul_1_r. now rewrite Z.mod_small.
    - inversion Hl as [|? ? Hm Hl']; subst. unfold run_updates. cbn [fold_left].
      rewrite (update_accepted s m Hm). cbn [snd]. fold (run_updates H hbits G).
      change (fold_left (fun st m0 => snd (update_key H hbits G st true m0)) l ?s0) with (run_updates H hbits G s0 l).
      rewrite IH; [|cbn [ks_h]; apply Z.mod_pos_bound; lia|assumption].
      cbn [ks_h map prodl fold_right]. fold (prodl (map msg_key l)).
      rewrite Zmult_mod_idemp_l. f_equal. ring.
  Qed.

  Theorem update_order_indep s l l' : 0 <= ks_h s < p -> Permutation l l' -> Forall (accepted H hbits G) l ->
    ks_h (run_updates H hbits G s l) = ks_h (run_updates H hbits G s l') /\
    ks_h (run_updates H hbits G s l) = (ks_h s * prodl (map msg_key l)) mod p.
  Proof.
    intros Hs P A. assert (A' : Forall (accepted H hbits G) l') by (eapply Permutation_Forall; eassumption).
    rewrite !run_updates_h by assumption. split; [|reflexivity].
    f_equal. f_equal. apply prodl_perm. now apply Permutation_map.
  Qed.

  (* player c starts from its own key and processes the others' contributions in any order *)
  Theorem player_final_key pre c post l m0 : 0 <= msg_key c < p ->
    Forall (accepted H hbits G) (pre ++ post) -> Permutation l (pre ++ post) ->
    ks_h (run_updates H hbits G (mkKstate (msg_key c) m0) l) = prodl (map msg_key (pre ++ c :: post)) mod p.
  Proof.
    intros Hc A P. assert (A' : Forall (accepted H hbits G) l) by (eapply Permutation_Forall; [apply Permutation_sym|]; eassumption).
    rewrite run_updates_h by assumption. cbn [ks_h]. f_equal.
    rewrite (prodl_perm _ _ (Permutation_map msg_key P)).
    rewrite !map_app, !prodl_app. cbn [map prodl fold_right]. fold (prodl (map msg_key post)). ring.
  Qed.

  Theorem all_players_same_key cs pre1 c1 post1 l1 m1 pre2 c2 post2 l2 m2 :
    cs = pre1 ++ c1 :: post1 -> cs = pre2 ++ c2 :: post2 ->
    Forall (accepted H hbits G) cs -> Forall (fun c => 0 <= msg_key c < p) cs ->
    Permutation l1 (pre1 ++ post1) -> Permutation l2 (pre2 ++ post2) ->
    ks_h (run_updates H hbits G (mkKstate (msg_key c1) m1) l1) = prodl (map msg_key cs) mod p /\
    ks_h (run_updates H hbits G (mkKstate (msg_key c2) m2) l2) = prodl (map msg_key cs) mod p.
  Proof.
    intros E1 E2 A R P1 P2.
    assert (X : forall (P : Z * Z * Z -> Prop) pre c post, Forall P (pre ++ c :: post) -> Forall P (pre ++ post) /\ P c).
    { intros P pre c post F. apply Forall_app in F. destruct F as [F1 F2]. inversion F2; subst.
      split; [apply Forall_app; split|]; assumption. }
    pose proof A as A'. pose proof R as R'.
    rewrite E1 in A, R. rewrite E2 in A', R'.
    destruct (X _ _ _ _ A) as [A1 _]. destruct (X _ _ _ _ R) as [_ B1].
    destruct (X _ _ _ _ A') as [A2 _]. destruct (X _ _ _ _ R') as [_ B2]. split.
    - rewrite E1. now apply player_final_key.
    - rewrite E2. now apply player_final_key.
  Qed.

  (* honest players: secrets and coins arbitrary; every contribution is accepted by construction *)
  Theorem honest_contributions_accepted (xs : list (Z * Z)) :
    let contrib := fun xr : Z * Z => publish_key H G (fst xr mod q) (powm g (fst xr mod q) p) (snd xr) in
    forall xr, In xr xs -> exists m, contrib xr = Some m /\ accepted H hbits G m /\
                                   msg_key m = powm g (fst xr mod q) p /\ 0 <= msg_key m < p.
  Proof.
    intros contrib xr _. unfold contrib.
    destruct (publish_key_accepted (fst xr mod q) (snd xr)) as [m [E [K A]]].
    - apply Z.mod_pos_bound. exact Hq.
    - exists m. repeat split; try assumption; rewrite K; apply powm_range; try lia.
      apply Z.mod_pos_bound; exact Hq. apply Z.mod_pos_bound; exact Hq.
  Qed.

  (* ---- RemoveKey -------------------------------------------------------------------------------- *)
  Lemma accepted_element m : accepted H hbits G m -> check_element G (msg_key m) = true.
  Proof.
    destruct m as [[foo c] r]. unfold accepted, verify_nizk, msg_key. cbn [fst].
    destruct (check_element G foo); [reflexivity|]. cbn. discriminate.
  Qed.

  Lemma element_inverse a : check_element G a = true ->
    exists i, invm a p = Some i /\ 0 <= i < p /\ (a * i) mod p = 1.
  Proof.
    intros E. apply check_element_spec in E. fold p q in E. destruct E as [Ra Ea].
    destruct (element_invertible p q a Hp Hq Ea) as [i Hi]. exists i. split; [assumption|].
    destruct (invm_sound _ _ _ Hi) as [B M]. split; [assumption|]. rewrite M. apply Z.mod_1_l. lia.
  Qed.

  Theorem remove_restores s m : 0 <= ks_h s < p -> accepted H hbits G m ->
    map_get (H [msg_key m]) (ks_hj s) = None ->
    remove_key H G (snd (update_key H hbits G s true m)) true (msg_key m) = (true, s).
  Proof.
    intros Hs A N. rewrite (update_accepted s m A). cbn [snd]. unfold remove_key. cbn [negb ks_hj ks_h].
    rewrite map_get_set_same.
    destruct (element_inverse _ (accepted_element m A)) as [i [Hi [Bi Mi]]]. fold p. rewrite Hi.
    rewrite map_erase_set, (map_erase_none _ _ N). f_equal. destruct s as [h hj]. cbn [ks_h ks_hj] in *. f_equal.
    rewrite Zmult_mod_idemp_l. rewrite <- Z.mul_assoc. rewrite <- Zmult_mod_idemp_r, Mi, Z.mul_1_r.
    now apply Z.mod_small.
  Qed.

  Theorem remove_absent_unchanged s good k : (good = false \/ map_get (H [k]) (ks_hj s) = None) ->
    remove_key H G s good k = (false, s).
  Proof. unfold remove_key. intros [E|E]; [now rewrite E|]. destruct good; cbn [negb]; [now rewrite E|reflexivity]. Qed.

  (* ---- every interleaving of add / remove -------------------------------------------------------- *)
  (* h0 = the player's own key; the invariant: h is h0 times the product of the stored keys *)
  Definition ring_inv (h0 : Z) (s : kstate) : Prop :=
    ks_h s = (h0 * prodl (map snd (ks_hj s))) mod p /\
    Forall (fun kv => check_element G (snd kv) = true /\ fst kv = H [snd kv]) (ks_hj s) /\
    NoDup (map fst (ks_hj s)).

  (* "no key is added twice": an accepted contribution's fingerprint is not already stored *)
  Definition fresh_ok (s : kstate) (o : kop) : Prop :=
    match o with
    | OpAdd true m => accepted H hbits G m -> map_get (H [msg_key m]) (ks_hj s) = None
    | _ => True
    end.

  Fixpoint script_ok (s : kstate) (ops : list kop) : Prop :=
    match ops with
    | [] => True
    | o :: r => fresh_ok s o /\ script_ok (step H hbits G s o) r
    end.

  Lemma map_get_none_notin fp m : map_get fp m = None -> ~ In fp (map fst m).
  Proof.
    induction m as [|[k v] m IH]; cbn [map_get map fst In]; [tauto|].
    destruct (k =? fp) eqn:E; [discriminate|]. intros N [X|X]; [lia|]. now apply IH.
  Qed.

  Lemma erase_notin fp m : ~ In fp (map fst m) -> map_erase fp m = m.
  Proof.
    induction m as [|[k v] m IH]; [reflexivity|]. cbn [map fst In map_erase filter]. intros N.
    destruct (k =? fp) eqn:E; [exfalso; apply N; left; lia|]. cbn [negb]. f_equal. apply IH. tauto.
  Qed.

  Lemma erase_prod fp k : forall m, NoDup (map fst m) -> map_get fp m = Some k ->
    prodl (map snd m) = k * prodl (map snd (map_erase fp m)) /\
    In (fp, k) m.
  Proof.
    induction m as [|[k' v] m IH]; cbn [map_get]; [discriminate|]. intros ND E.
    cbn [map fst] in ND. inversion ND as [|? ? Nin ND']; subst.
    cbn [map_erase filter fst]. destruct (k' =? fp) eqn:K.
    - inversion E; subst v. assert (k' = fp) by lia. subst k'. cbn [negb]. fold (map_erase fp m).
      rewrite (erase_notin _ _ Nin). cbn [map snd prodl fold_right]. split; [reflexivity|now left].
    - cbn [negb]. fold (map_erase fp m). destruct (IH ND' E) as [P I]. cbn [map snd prodl fold_right].
      fold (prodl (map snd m)). fold (prodl (map snd (map_erase fp m))). rewrite P. split; [ring|now right].
  Qed.

  Lemma erase_subset fp m x : In x (map_erase fp m) -> In x m.
  Proof. unfold map_erase. intros I. apply filter_In in I. tauto. Qed.

  Lemma erase_nodup fp m : NoDup (map fst m) -> NoDup (map fst (map_erase fp m)).
  Proof.
    induction m as [|[k v] m IH]; [trivial|]. cbn [map fst map_erase filter]. intros ND. inversion ND; subst.
    destruct (k =? fp); cbn [negb]; [now apply IH|]. cbn [map fst]. constructor; [|now apply IH].
    intros I. apply in_map_iff in I. destruct I as [[k2 v2] [E I]]. cbn [fst] in E. subst k2.
    apply erase_subset in I. apply H2. apply in_map_iff. exists (k, v2). split; [reflexivity|assumption].
  Qed.

  Lemma step_inv h0 s o : ring_inv h0 s -> fresh_ok s o -> ring_inv h0 (step H hbits G s o).
  Proof.
    intros [Ih [If Ind]] F. destruct o as [good m|good k]; cbn [step].
    - destruct good.
      + cbn [fresh_ok] in F.
        destruct (fst (update_key H hbits G s true m)) eqn:V.
        * assert (A : accepted H hbits G m) by (apply (update_accept_iff s true m); rewrite V; auto).
          specialize (F A). rewrite (update_accepted s m A). cbn [snd]. unfold ring_inv. cbn [ks_h ks_hj].
          unfold map_set. rewrite (map_erase_none _ _ F). cbn [map snd fst prodl fold_right].
          fold (prodl (map snd (ks_hj s))). split; [|split].
          -- rewrite Ih. rewrite Zmult_mod_idemp_l. f_equal. ring.
          -- constructor; [|assumption]. cbn [fst snd]. split; [now apply accepted_element|reflexivity].
          -- constructor; [now apply map_get_none_notin|assumption].
        * rewrite update_reject_unchanged by (rewrite V; discriminate). now split.
        * rewrite update_reject_unchanged by (rewrite V; discriminate). now split.
      + rewrite update_reject_unchanged.
        * now split.
        * destruct m as [[a b] c]. cbn. discriminate.
    - unfold remove_key. destruct good; cbn [negb]; [|now split].
      destruct (map_get (H [k]) (ks_hj s)) as [k0|] eqn:E; [|now split].
      destruct (erase_prod _ _ _ Ind E) as [P I].
      assert (C0 : check_element G k0 = true).
      { rewrite Forall_forall in If. now destruct (If _ I). }
      destruct (element_inverse _ C0) as [i [Hi [Bi Mi]]]. fold p. rewrite Hi. cbn [snd]. unfold ring_inv. cbn [ks_h ks_hj].
      split; [|split].
      + rewrite Ih, P. rewrite Zmult_mod_idemp_l.
        replace (h0 * (k0 * prodl (map snd (map_erase (H [k]) (ks_hj s)))) * i)
          with (h0 * prodl (map snd (map_erase (H [k]) (ks_hj s))) * (k0 * i)) by ring.
        rewrite <- Zmult_mod_idemp_r, Mi, Z.mul_1_r. reflexivity.
      + rewrite Forall_forall in *. intros x Ix. apply If. eapply erase_subset. eassumption.
      + now apply erase_nodup.
  Qed.

  Theorem interleaving_invariant h0 : forall ops s, ring_inv h0 s -> script_ok s ops ->
    ring_inv h0 (fold_left (step H hbits G) ops s).
  Proof.
    induction ops as [|o ops IH]; intros s I S; [assumption|]. cbn [fold_left]. destruct S as [F S].
    apply IH; [now apply step_inv|assumption].
  Qed.

  Lemma ring_inv_init h0 : 0 <= h0 < p -> ring_inv h0 (mkKstate h0 []).
  Proof.
    intros B. unfold ring_inv. cbn. split; [|split; constructor].
    rewrite Z.mul_1_r. symmetry. now apply Z.mod_small.
  Qed.
End Lemmas.

(* ---- the boundary the property text leaves open: the same contribution added twice ------------------ *)
(* tiny group p = 23, q = 11, g = 2; an oracle that answers 0 everywhere makes (key, 0, r) a valid proof *)
Definition dup_G := mkGroup 23 11 2.
Definition dup_H (l : list Z) : Z := 0.
Definition dup_msg : Z * Z * Z := (8, 0, 5).
Definition dup_s0 := mkKstate 2 [].

Lemma dup_wf : wf_params dup_H 8 dup_G.
Proof.
  constructor.
  - reflexivity.
  - reflexivity.
  - reflexivity.
  - vm_compute. reflexivity.
  - vm_compute. discriminate.
  - lia.
  - intros l. unfold dup_H. change (2 ^ 8) with 256. lia.
Qed.

Theorem duplicate_add_not_restored :
  exists H hbits G s m, wf_params H hbits G /\ accepted H hbits G m /\ 0 <= ks_h s < gp G /\
    let s2 := run_updates H hbits G s [m; m] in
    let r1 := remove_key H G s2 true (msg_key m) in
    let r2 := remove_key H G (snd r1) true (msg_key m) in
    fst r1 = true /\ ks_hj (snd r1) = ks_hj s /\ ks_h (snd r1) <> ks_h s /\ fst r2 = false /\ snd r2 = snd r1.
Proof.
  exists dup_H, 8, dup_G, dup_s0, dup_msg. split; [exact dup_wf|]. split; [vm_compute; reflexivity|].
  split; [cbn; lia|]. vm_compute. repeat split; discriminate.
Qed.
