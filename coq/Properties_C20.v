(* C20 -- OpenPGP signatures and encryption are tamper-evident.
   Property theorems only: each is closed by `exact <lemma>` and followed by Print Assumptions.
   The model (PgpSigModel.v) fixes what is hashed, when a signature is valid and when decrypted data is
   released; hash, cipher, AEAD and public-key primitives are parameters (universally quantified). *)
From Coq Require Import ZArith NArith List Lia.
From LT Require Import PgpCodecModel PgpSigModel PgpSigLemmas.
Import ListNotations.
Local Open Scope N_scope.

(* the hashed octets determine the whole trailer and the signed octets: no two different signed objects or
   trailers share a hash input (v4; trailer shorter than 2^32, which the two-octet subpacket length enforces) *)
Theorem C20_sig_hash_input_inj : forall o1 o2 t1 t2, len t1 < 4294967296 -> len t2 < 4294967296 ->
  hash_input_v4 o1 t1 = hash_input_v4 o2 t2 -> t1 = t2 /\ signed_octets_v4 o1 = signed_octets_v4 o2.
Proof. exact hash_input_v4_inj. Qed.
Print Assumptions C20_sig_hash_input_inj.

Theorem C20_sig_hash_input_inj_v5 : forall o1 o2 t1 t2, len t1 < 18446744073709551616 -> len t2 < 18446744073709551616 ->
  hash_input_v5 o1 t1 = hash_input_v5 o2 t2 -> t1 = t2 /\ signed_octets_v5 o1 = signed_octets_v5 o2.
Proof. exact hash_input_v5_inj. Qed.
Print Assumptions C20_sig_hash_input_inj_v5.

(* type, public-key algorithm, hash algorithm and every hashed subpacket octet are bound *)
Theorem C20_sig_trailer_inj : forall ty1 pk1 h1 hs1 ty2 pk2 h2 hs2,
  sig_trailer_v4 ty1 pk1 h1 hs1 = sig_trailer_v4 ty2 pk2 h2 hs2 -> ty1 = ty2 /\ pk1 = pk2 /\ h1 = h2 /\ hs1 = hs2.
Proof. exact sig_trailer_v4_inj. Qed.
Print Assumptions C20_sig_trailer_inj.

Theorem C20_certification_binds_key_and_uid : forall k1 u1 k2 u2, len k1 < 65536 -> len k2 < 65536 ->
  signed_octets_v4 (SoCertUid k1 u1) = signed_octets_v4 (SoCertUid k2 u2) -> k1 = k2 /\ u1 = u2.
Proof. exact signed_octets_cert_inj. Qed.
Print Assumptions C20_certification_binds_key_and_uid.

Theorem C20_binding_binds_both_keys : forall p1 s1 p2 s2,
  len p1 < 65536 -> len p2 < 65536 -> len s1 < 65536 -> len s2 < 65536 ->
  signed_octets_v4 (SoSubkey p1 s1) = signed_octets_v4 (SoSubkey p2 s2) -> p1 = p2 /\ s1 = s2.
Proof. exact signed_octets_subkey_inj. Qed.
Print Assumptions C20_binding_binds_both_keys.

Theorem C20_uid_uat_separated : forall k1 u1 k2 u2, len k1 < 65536 -> len k2 < 65536 ->
  signed_octets_v4 (SoCertUid k1 u1) <> signed_octets_v4 (SoCertUat k2 u2).
Proof. exact signed_octets_uid_uat_distinct. Qed.
Print Assumptions C20_uid_uat_separated.

(* text signatures: all line-ending forms of a text canonicalise, canonical text is a fixed point *)
Theorem C20_text_canon_idempotent : forall d, text_canon (text_canon d) = text_canon d.
Proof. exact text_canon_idem. Qed.
Print Assumptions C20_text_canon_idempotent.

(* canonical text form: the canonicalised text has a carriage return before every line feed, and a text that already has
   it is hashed unchanged -- binary and text signatures over a CR LF document hash the same octets *)
Theorem C20_text_canon_canonical : forall d, canonical_text (text_canon d) = true.
Proof. exact text_canon_canonical. Qed.
Print Assumptions C20_text_canon_canonical.

Theorem C20_text_canon_fixed : forall d, canonical_text d = true -> text_canon d = d.
Proof. exact text_canon_fixed. Qed.
Print Assumptions C20_text_canon_fixed.

(* version 3 document signatures (read, never written by the library): data, type and creation time are bound *)
Theorem C20_sig_hash_input_inj_v3 : forall d1 d2 ty1 ty2 t1 t2, t1 < 4294967296 -> t2 < 4294967296 ->
  hash_input_v3 (SoBinary d1) (sig_trailer_v3 ty1 t1) = hash_input_v3 (SoBinary d2) (sig_trailer_v3 ty2 t2) ->
  d1 = d2 /\ ty1 = ty2 /\ t1 = t2.
Proof. exact hash_input_v3_doc_inj. Qed.
Print Assumptions C20_sig_hash_input_inj_v3.

(* MPI normalisation: leading zero octets of R and S are lost in the MPI encoding; the verifier hands the primitive
   octet strings with exactly the values of the MPIs, padded back to 32 octets when shorter *)
Theorem C20_eddsa_sigval_values : forall r s a b, eddsa_sigval r s = Some (a, b) -> be_value a = r /\ be_value b = s.
Proof. exact eddsa_sigval_values. Qed.
Print Assumptions C20_eddsa_sigval_values.

Theorem C20_eddsa_sigval_padded : forall r s a b, eddsa_sigval r s = Some (a, b) ->
  ((mpi_octets r < 32)%nat -> length a = 32%nat) /\ ((mpi_octets s < 32)%nat -> length b = 32%nat).
Proof. exact eddsa_sigval_padded. Qed.
Print Assumptions C20_eddsa_sigval_padded.

(* validity: exactly "not expired, not older than its key, not dated more than 25 h ahead, strong hash" *)
Theorem C20_validity_rules_iff : forall current creation expiration keycreation h,
  check_validity current creation expiration keycreation h = Valid <->
  ((expiration = 0 \/ current <= creation + expiration) /\ keycreation <= creation /\
   creation <= current + 90000 /\ strong_hash h = true)%Z.
Proof. exact validity_rules_iff. Qed.
Print Assumptions C20_validity_rules_iff.

Theorem C20_weak_hashes_refused : strong_hash 1 = false /\ strong_hash 2 = false /\ strong_hash 3 = false /\
  strong_hash 11 = false /\ strong_hash 0 = false.
Proof. exact weak_hashes_refused. Qed.
Print Assumptions C20_weak_hashes_refused.

(* for every verification primitive: acceptance implies the primitive accepted the recomputed hash *)
Theorem C20_check_integrity_sound : forall verify pk left hash,
  check_integrity verify pk left hash = true ->
  sig_algo_of pk <> SigUnsupported /\ verify (sig_algo_of pk) hash = true /\ (length left = 2%nat -> left = left16 hash).
Proof. exact check_integrity_sound. Qed.
Print Assumptions C20_check_integrity_sound.

(* for every hash, cipher and AEAD primitive: plaintext is only released under integrity protection *)
Theorem C20_decrypt_requires_integrity : forall sha1 cfb aead ok m out,
  decrypt sha1 cfb aead ok m = DecOk out ->
  ok = true /\ enc_data m <> [] /\
  ((have_aead m = true /\ aead (enc_data m) = Some out) \/
   (have_aead m = false /\ have_seipd m = true /\
    exists prefix body mdc, cfb (enc_data m) = Some (prefix, out) /\ out = body ++ [211; 20] ++ mdc /\
      length mdc = 20%nat /\ mdc = sha1 (mdc_input prefix body))).
Proof. exact decrypt_requires_integrity. Qed.
Print Assumptions C20_decrypt_requires_integrity.

Theorem C20_unprotected_refused : forall sha1 cfb aead ok m,
  have_aead m = false -> have_seipd m = false -> forall out, decrypt sha1 cfb aead ok m <> DecOk out.
Proof. exact decrypt_unprotected_refused. Qed.
Print Assumptions C20_unprotected_refused.

(* AEAD: chunk index and total length enter the associated data injectively; chunk and final data differ *)
Theorem C20_chunk_binding : forall pre i j, i < 18446744073709551616 -> j < 18446744073709551616 ->
  chunk_ad pre i = chunk_ad pre j -> i = j.
Proof. exact chunk_ad_inj. Qed.
Print Assumptions C20_chunk_binding.

Theorem C20_final_tag_binding : forall pre i j s t,
  i < 18446744073709551616 -> j < 18446744073709551616 -> s < 18446744073709551616 -> t < 18446744073709551616 ->
  final_ad pre i s = final_ad pre j t -> i = j /\ s = t.
Proof. exact final_ad_inj. Qed.
Print Assumptions C20_final_tag_binding.

Theorem C20_chunk_final_separated : forall pre i j t, chunk_ad pre i <> final_ad pre j t.
Proof. exact chunk_final_ad_distinct. Qed.
Print Assumptions C20_chunk_final_separated.

Theorem C20_aead_chunk_count : forall cs n, 1 <= n -> dec_full_chunks cs (enc_ct_len cs n) = enc_full_chunks cs n.
Proof. exact aead_chunk_count. Qed.
Print Assumptions C20_aead_chunk_count.

(* refuted: "every chunk gets its own nonce" -- the in-place update makes chunk 3 reuse the nonce of chunk 0 *)
Theorem C20_chunk_nonce_unique_refuted : forall iv, chunk_nonce_impl iv 3 = chunk_nonce_impl iv 0.
Proof. exact chunk_nonce_unique_refuted. Qed.
Print Assumptions C20_chunk_nonce_unique_refuted.

(* non-vacuity *)
Example C20_example_validity : check_validity 1000000 999000 0 998000 8 = Valid
  /\ check_validity 1000000 999000 500 998000 8 = Expired
  /\ check_validity 1000000 997000 0 998000 8 = OlderThanKey
  /\ check_validity 1000000 1090001 0 998000 8 = FarFuture
  /\ check_validity 1000000 999000 0 998000 2 = WeakHash.
Proof. vm_compute. repeat split. Qed.
Example C20_example_hash_input :
  hash_input_v4 (SoBinary [97]) (sig_trailer_v4 0 1 8 []) = [97; 4; 0; 1; 8; 0; 0; 4; 255; 0; 0; 0; 6].
Proof. vm_compute. reflexivity. Qed.
Example C20_example_text : text_canon [97; 10; 98; 13; 10; 10] = [97; 13; 10; 98; 13; 10; 13; 10].
Proof. vm_compute. reflexivity. Qed.
Example C20_example_nonce : chunk_nonce_impl (repeat 0 16) 2 <> chunk_nonce_rfc (repeat 0 16) 2.
Proof. vm_compute. discriminate. Qed.

(* decoding of the signature fields keeps signature expiration and key expiration apart (subpackets 3 and 9);
   outside a key block the key expiration is dropped *)
Example C20_example_sig_fields :
  let body := [4; 19; 19; 8; 0; 18; 5; 2; 0; 0; 1; 0; 5; 3; 0; 0; 0; 7; 5; 9; 0; 0; 0; 9; 170; 187] in
  option_map (fun f => (sf_created f, sf_sigexp f, sf_keyexp f)) (sig_body_fields true body) = Some (256, 7, 9) /\
  option_map (fun f => (sf_created f, sf_sigexp f, sf_keyexp f)) (sig_body_fields false body) = Some (256, 7, 0).
Proof. vm_compute. split; reflexivity. Qed.

Example C20_example_verify_input :
  verify_hash_input 5 0 17 8 [] 7 v5_meta_detached false [97] = Some [97; 5; 0; 17; 8; 0; 0; 0; 0; 0; 0; 0; 0; 5; 255; 0; 0; 0; 0; 0; 0; 0; 12]
  /\ verify_hash_input 3 1 17 8 [] 7 [] true [10] = Some [13; 10; 1; 0; 0; 0; 7].
Proof. vm_compute. split; reflexivity. Qed.
