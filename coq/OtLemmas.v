(* OtLemmas: proofs about OtModel (C18). *)
From Coq Require Import ZArith Znumtheory Lia List Bool ZifyBool.
From LT Require Import Zbase CodecModel CheckGroupModel CheckGroupLemmas OtModel.
Import ListNotations.
Local Open Scope Z_scope.

(* ---- facts that need no group ---------------------------------------------------------------------- *)
Lemma distinct_iff zs : distinct zs = true <-> NoDup zs.
Proof.
  induction zs as [|z r IH]; cbn [distinct].
  - split; [constructor|reflexivity].
  - rewrite andb_true_iff, negb_true_iff, IH. split.
    + intros [E N]. constructor; [|assumption]. intros I.
      assert (existsb (Z.eqb z) r = true) by (apply existsb_exists; exists z; split; [assumption|apply Z.eqb_refl]). congruence.
    + intros N. inversion N as [|? ? NI N']. subst. split; [|assumption].
      destruct (existsb (Z.eqb z) r) eqn:E; [|reflexivity]. apply existsb_exists in E. destruct E as [x [I E]].
      apply Z.eqb_eq in E. subst. contradiction.
Qed.

Lemma is_elem_iff p q a : 0 <= q -> (is_elem p q a = true <-> 0 < a < p /\ a ^ q mod p = 1).
Proof.
  intros Hq. rewrite <- check_element_iff by assumption. unfold is_elem.
  destruct (check_element p q a); split; try reflexivity; try discriminate.
Qed.

Theorem send_n_aborts_iff p q g Ms x y zs coins :
  send_n p q g Ms x y zs coins = None <->
  ~ (is_elem p q x = true /\ is_elem p q y = true /\ Forall (fun z => is_elem p q z = true) zs /\ NoDup zs).
Proof.
  unfold send_n. rewrite <- distinct_iff, Forall_forall, <- forallb_forall.
  destruct (is_elem p q x), (is_elem p q y), (forallb (is_elem p q) zs), (distinct zs); cbn [andb];
    split; intro HH; try reflexivity; try discriminate; intuition congruence.
Qed.

Theorem send_2_aborts_iff p q g M0 M1 x y z0 z1 r0 s0 r1 s1 :
  send_2 p q g M0 M1 x y z0 z1 r0 s0 r1 s1 = None <->
  ~ (is_elem p q x = true /\ is_elem p q y = true /\ is_elem p q z0 = true /\ is_elem p q z1 = true /\ z0 <> z1).
Proof.
  unfold send_2. destruct (Z.eqb_spec z0 z1);
  destruct (is_elem p q x), (is_elem p q y), (is_elem p q z0), (is_elem p q z1); cbn [andb negb];
    split; intro HH; try reflexivity; try discriminate; intuition congruence.
Qed.

Theorem send_opt_aborts_iff p q g Ms x y z0 coins :
  send_opt p q g Ms x y z0 coins = None <->
  ~ (is_elem p q x = true /\ is_elem p q y = true /\ is_elem p q z0 = true).
Proof.
  unfold send_opt. destruct (is_elem p q x), (is_elem p q y), (is_elem p q z0); cbn [andb];
    split; intro HH; try reflexivity; try discriminate; intuition congruence.
Qed.

(* the 1-of-2 functions are the 1-of-N functions at N = 2 *)
Lemma send_2_as_n p q g M0 M1 x y z0 z1 r0 s0 r1 s1 :
  send_2 p q g M0 M1 x y z0 z1 r0 s0 r1 s1 = send_n p q g [M0; M1] x y [z0; z1] [(s0, r0); (s1, r1)].
Proof.
  unfold send_2, send_n. cbn [forallb distinct existsb enc_all].
  destruct (is_elem p q x), (is_elem p q y), (is_elem p q z0), (is_elem p q z1), (z0 =? z1); reflexivity.
Qed.

Lemma choose_2_as_n p q g sigma a b c : (sigma < 2)%nat ->
  choose_2_first p q g sigma a b c = choose_n_first p q g sigma a b [c; c].
Proof. intros H. destruct sigma as [|[|s]]; [reflexivity|reflexivity|lia]. Qed.

Definition nonneg2 (sr : Z * Z) : Prop := 0 <= fst sr /\ 0 <= snd sr.

Section OT.
  Variables p q g : Z.
  Hypothesis Pp : prime p.
  Hypothesis Pq : prime q.
  Hypothesis Hg : 1 < g < p - 1.
  Hypothesis Hgq : g ^ q mod p = 1.

  Let p1 : 1 < p. Proof. lia. Qed.
  Let q1 : 1 < q. Proof. destruct Pq; lia. Qed.
  Let Hgq' : powm g q p = 1. Proof. rewrite powm_spec by lia. exact Hgq. Qed.
  Let g_ne1 : g mod p <> 1. Proof. rewrite Z.mod_small by lia. lia. Qed.

  Lemma pw_add e1 e2 : 0 <= e1 -> 0 <= e2 -> (powm g e1 p * powm g e2 p) mod p = powm g (e1 + e2) p.
  Proof. intros. symmetry. apply powm_add; lia. Qed.

  Lemma pw_pow e s : 0 <= e -> 0 <= s -> powm (powm g e p) s p = powm g (e * s) p.
  Proof. intros. symmetry. apply powm_mul; lia. Qed.

  Lemma pw_cong e1 e2 : 0 <= e1 -> 0 <= e2 -> e1 mod q = e2 mod q -> powm g e1 p = powm g e2 p.
  Proof. intros H1 H2 E. apply (powm_inj_mod_q p q g p1 Pq Hgq' g_ne1 e1 e2 H1 H2). exact E. Qed.

  Lemma pw_inj e1 e2 : 0 <= e1 -> 0 <= e2 -> powm g e1 p = powm g e2 p -> e1 mod q = e2 mod q.
  Proof. intros H1 H2 E. apply (powm_inj_mod_q p q g p1 Pq Hgq' g_ne1 e1 e2 H1 H2). exact E. Qed.

  Lemma pw_range e : 0 <= e -> 0 < powm g e p < p.
  Proof.
    intros He. pose proof (powm_range g e p ltac:(lia) He) as R.
    destruct (Z.eq_dec (powm g e p) 0) as [Z0|NZ]; [|lia]. exfalso.
    assert (E : powm (powm g e p) q p = 1).
    { rewrite pw_pow by lia. rewrite Z.mul_comm. rewrite <- pw_pow by lia. rewrite Hgq'.
      rewrite powm_1_l by lia. apply Z.mod_1_l. lia. }
    rewrite Z0 in E. rewrite powm_spec in E by lia. rewrite Z.pow_0_l, Z.mod_0_l in E by lia. discriminate.
  Qed.

  Lemma pw_elem e : 0 <= e -> is_elem p q (powm g e p) = true.
  Proof.
    intros He. apply is_elem_iff; [lia|]. split; [now apply pw_range|].
    rewrite <- powm_spec by lia. rewrite pw_pow by lia. rewrite Z.mul_comm. rewrite <- pw_pow by lia. rewrite Hgq'.
    rewrite powm_1_l by lia. apply Z.mod_1_l. lia.
  Qed.

  Lemma pw_inv e : 0 <= e -> exists i, invm (powm g e p) p = Some i /\ 0 <= i < p /\ (powm g e p * i) mod p = 1.
  Proof.
    intros He. pose proof (pw_range e He) as R.
    destruct (invm_prime (powm g e p) p Pp) as [i Ei].
    - rewrite Z.mod_small by lia. lia.
    - exists i. split; [assumption|]. destruct (invm_some (powm g e p) p i ltac:(lia) Ei) as [Ri Mi].
      split; [assumption|]. rewrite Mi. apply Z.mod_1_l. lia.
  Qed.

  Lemma mulg e : 0 <= e -> (powm g e p * g) mod p = powm g (e + 1) p.
  Proof.
    intros He. rewrite <- pw_add by lia. rewrite powm_1_r. now rewrite Zmult_mod_idemp_r.
  Qed.

  (* ---- the heart: what the chooser's second-move computation yields on one (w, ENC) pair ---------------- *)
  Lemma open_enc a b s r E M : 0 <= a -> 0 <= b -> 0 <= s -> 0 <= r -> 0 <= E ->
    open_with p b (enc_pair p g (powm g a p) (powm g b p) (powm g E p) M s r)
    = Some ((M * powm g (((E - a * b) mod q) * s) p) mod p).
  Proof.
    intros Ha Hb Hs Hr HE. unfold open_with, enc_pair. cbn [fst snd].
    rewrite !pw_pow by lia. rewrite !pw_add by nia. rewrite pw_pow by nia.
    set (K := powm g ((a * s + r) * b) p).
    destruct (pw_inv ((a * s + r) * b) ltac:(nia)) as [i [Ei [Ri Mi]]]. fold K in Ei, Mi. rewrite Ei. f_equal.
    pose proof (Z.mod_pos_bound (E - a * b) q ltac:(lia)) as Re.
    set (D := powm g ((E - a * b) mod q * s) p).
    assert (C0 : powm g (E * s + b * r) p = (D * K) mod p).
    { unfold D, K. rewrite pw_add by nia. apply pw_cong; [nia|nia|]. symmetry.
      rewrite <- Z.add_mod_idemp_l by lia. rewrite Z.mul_mod_idemp_l by lia. rewrite Z.add_mod_idemp_l by lia.
      f_equal. ring. }
    rewrite C0. rewrite Zmult_mod_idemp_l.
    replace ((D * K) mod p * M * i) with ((D * K) mod p * (M * i)) by ring. rewrite Zmult_mod_idemp_l.
    replace (D * K * (M * i)) with ((M * D) * (K * i)) by ring.
    rewrite Zmult_mod, Mi, Z.mul_1_r. apply Zmod_mod.
  Qed.

  Lemma open_enc_chosen a b s r E M : 0 <= a -> 0 <= b -> 0 <= s -> 0 <= r -> 0 <= E -> E mod q = (a * b) mod q ->
    open_with p b (enc_pair p g (powm g a p) (powm g b p) (powm g E p) M s r) = Some (M mod p).
  Proof.
    intros Ha Hb Hs Hr HE Ec. rewrite open_enc by assumption. f_equal.
    assert (Z0 : (E - a * b) mod q = 0).
    { rewrite Zminus_mod, Ec, Z.sub_diag. apply Z.mod_0_l. lia. }
    rewrite Z0, Z.mul_0_l, powm_0_r, (Z.mod_small 1 p), Z.mul_1_r by lia. reflexivity.
  Qed.

  (* ---- list plumbing --------------------------------------------------------------------------------------- *)
  Lemma zs_of_nth sigma ab : forall cs i n,
    nth_error (zs_of p g sigma ab i cs) n =
    match nth_error cs n with
    | Some c => Some (powm g (if Nat.eqb (i + n) sigma then ab else c) p)
    | None => None
    end.
  Proof.
    induction cs as [|c r IH]; intros i n; cbn [zs_of].
    - destruct n; reflexivity.
    - destruct n as [|n]; cbn [nth_error].
      + now rewrite Nat.add_0_r.
      + rewrite IH. now rewrite Nat.add_succ_r.
  Qed.

  Lemma zs_of_elems sigma ab : 0 <= ab -> forall cs i, Forall (fun c => 0 <= c) cs ->
    forallb (is_elem p q) (zs_of p g sigma ab i cs) = true.
  Proof.
    intros Hab. induction cs as [|c r IH]; intros i F; cbn [zs_of forallb]; [reflexivity|].
    inversion F as [|? ? Hc F']. subst. rewrite IH by assumption. rewrite pw_elem; [reflexivity|].
    destruct (Nat.eqb i sigma); assumption.
  Qed.

  Lemma enc_all_nth x y : forall zs Ms coins n z M s r,
    nth_error zs n = Some z -> nth_error Ms n = Some M -> nth_error coins n = Some (s, r) ->
    nth_error (enc_all p g x y zs Ms coins) n = Some (enc_pair p g x y z M s r).
  Proof.
    induction zs as [|z0 zs IH]; intros Ms coins n z M s r Ez EM Ec.
    - destruct n; discriminate.
    - destruct Ms as [|M0 Ms]; [destruct n; discriminate|]. destruct coins as [|[s0 r0] coins]; [destruct n; discriminate|].
      cbn [enc_all]. destruct n as [|n]; cbn [nth_error] in *.
      + congruence.
      + now apply IH.
  Qed.

  Lemma enc_all_ws a y : 0 <= a -> forall zs Ms coins, Forall nonneg2 coins ->
    forallb (fun wc => is_elem p q (fst wc)) (enc_all p g (powm g a p) y zs Ms coins) = true.
  Proof.
    intros Ha. induction zs as [|z0 zs IH]; intros Ms coins F; [reflexivity|].
    destruct Ms as [|M0 Ms]; [reflexivity|]. destruct coins as [|[s0 r0] coins]; [reflexivity|].
    inversion F as [|? ? [Hs Hr] F']. subst. cbn [fst snd] in Hs, Hr.
    cbn [enc_all forallb]. rewrite IH by assumption. unfold enc_pair at 1. cbn [fst].
    rewrite pw_pow, pw_add by nia. rewrite pw_elem by nia. reflexivity.
  Qed.

  Lemma enc_opt_nth x y : forall Ms coins E first n M s r, 0 <= E ->
    nth_error Ms n = Some M -> nth_error coins n = Some (s, r) ->
    nth_error (enc_opt p g x y (powm g E p) first Ms coins) n
    = Some (enc_pair p g x y (powm g (E + Z.of_nat n + (if first then 0 else 1)) p) M s r).
  Proof.
    induction Ms as [|M0 Ms IH]; intros coins E first n M s r HE EM Ec.
    - destruct n; discriminate.
    - destruct coins as [|[s0 r0] coins]; [destruct n; discriminate|]. cbn [enc_opt].
      assert (Z' : (if first then powm g E p else (powm g E p * g) mod p) = powm g (E + (if first then 0 else 1)) p).
      { destruct first; [now rewrite Z.add_0_r|now apply mulg]. }
      rewrite Z'. destruct n as [|n]; cbn [nth_error] in *.
      + inversion EM. inversion Ec. subst. do 2 f_equal. f_equal. lia.
      + rewrite (IH coins (E + (if first then 0 else 1)) false n M s r); [|destruct first; lia|assumption|assumption].
        do 2 f_equal. f_equal. destruct first; lia.
  Qed.

  Lemma enc_opt_ws a y : 0 <= a -> forall Ms coins z first, Forall nonneg2 coins ->
    forallb (fun wc => is_elem p q (fst wc)) (enc_opt p g (powm g a p) y z first Ms coins) = true.
  Proof.
    intros Ha. induction Ms as [|M0 Ms IH]; intros coins z first F; [reflexivity|].
    destruct coins as [|[s0 r0] coins]; [reflexivity|].
    inversion F as [|? ? [Hs Hr] F']. subst. cbn [fst snd] in Hs, Hr.
    cbn [enc_opt forallb]. rewrite IH by assumption. unfold enc_pair at 1. cbn [fst].
    rewrite pw_pow, pw_add by nia. rewrite pw_elem by nia. reflexivity.
  Qed.

  Lemma coin_at coins n : Forall nonneg2 coins -> (n < length coins)%nat ->
    exists s r, nth_error coins n = Some (s, r) /\ 0 <= s /\ 0 <= r.
  Proof.
    intros F L. destruct (nth_error coins n) as [[s r]|] eqn:E.
    - exists s, r. split; [reflexivity|]. apply nth_error_In in E. rewrite Forall_forall in F. apply (F _ E).
    - apply nth_error_None in E. lia.
  Qed.

  (* ---- 1-of-N ------------------------------------------------------------------------------------------------- *)
  Theorem ot_n_correct Ms sigma a b cs coins :
    0 <= a -> 0 <= b -> Forall (fun c => 0 <= c) cs -> Forall nonneg2 coins ->
    length cs = length Ms -> length coins = length Ms -> (sigma < length Ms)%nat ->
    let '(x, y, zs) := choose_n_first p q g sigma a b cs in
    match send_n p q g Ms x y zs coins with
    | Some resp => choose_second p q sigma b resp = Some (nth sigma Ms 0 mod p)
    | None => ~ NoDup zs
    end.
  Proof.
    intros Ha Hb Fc Fk Lc Lk Ls. unfold choose_n_first, send_n.
    pose proof (Z.mod_pos_bound (a * b) q ltac:(lia)) as Rab.
    rewrite !pw_elem by lia. rewrite zs_of_elems by (try lia; assumption). cbn [andb].
    destruct (distinct (zs_of p g sigma ((a * b) mod q) 0 cs)) eqn:Ed.
    2:{ intros N. apply distinct_iff in N. congruence. }
    unfold choose_second. rewrite enc_all_ws by assumption.
    destruct (coin_at coins sigma Fk ltac:(lia)) as (s & r & Ek & Hs & Hr).
    rewrite (enc_all_nth _ _ _ _ _ sigma (powm g ((a * b) mod q) p) (nth sigma Ms 0) s r).
    - apply open_enc_chosen; try lia. apply Zmod_mod.
    - rewrite zs_of_nth. destruct (nth_error cs sigma) eqn:E; [|apply nth_error_None in E; lia].
      cbn [Nat.add]. now rewrite Nat.eqb_refl.
    - now apply nth_error_nth'.
    - exact Ek.
  Qed.

  (* the chooser's own computation on a ciphertext it did not choose: exactly M_i * g^((c_i - ab) s_i) *)
  Theorem ot_n_other_exact Ms sigma a b cs coins i :
    0 <= a -> 0 <= b -> Forall (fun c => 0 <= c) cs -> Forall nonneg2 coins ->
    length cs = length Ms -> length coins = length Ms -> (i < length Ms)%nat -> i <> sigma ->
    let '(x, y, zs) := choose_n_first p q g sigma a b cs in
    forall resp, send_n p q g Ms x y zs coins = Some resp ->
    curious p b resp i = Some ((nth i Ms 0 * powm g (((nth i cs 0 - a * b) mod q) * fst (nth i coins (0, 0))) p) mod p).
  Proof.
    intros Ha Hb Fc Fk Lc Lk Li Ne. unfold choose_n_first, send_n. intros resp.
    destruct (_ && _ && _ && _); [|discriminate]. intros E. inversion E as [E']. clear E E'.
    unfold curious.
    destruct (coin_at coins i Fk ltac:(lia)) as (s & r & Ek & Hs & Hr).
    assert (Hc : 0 <= nth i cs 0).
    { rewrite Forall_forall in Fc. apply Fc. apply nth_In. lia. }
    rewrite (enc_all_nth _ _ _ _ _ i (powm g (nth i cs 0) p) (nth i Ms 0) s r).
    - rewrite open_enc by lia. rewrite (nth_error_nth _ _ _ Ek). reflexivity.
    - rewrite zs_of_nth. rewrite (nth_error_nth' cs 0) by lia. cbn [Nat.add].
      destruct (Nat.eqb_spec i sigma); [contradiction|reflexivity].
    - now apply nth_error_nth'.
    - exact Ek.
  Qed.

  (* ... which is the message only for the single coin value s_i = 0 (the sender's distinctness test guarantees
     z_i <> z_sigma, i.e. c_i <> ab mod q) *)
  Theorem other_opens_iff M c ab s : 0 <= c -> 0 <= ab -> 0 <= s < q -> M mod p <> 0 ->
    powm g c p <> powm g (ab mod q) p ->
    ((M * powm g (((c - ab) mod q) * s) p) mod p = M mod p <-> s = 0).
  Proof.
    intros Hc Hab Hs HM Nz.
    pose proof (Z.mod_pos_bound (c - ab) q ltac:(lia)) as Re.
    pose proof (Z.mod_pos_bound ab q ltac:(lia)) as Rab.
    assert (Ne : (c - ab) mod q <> 0).
    { intros E0. apply Nz. apply pw_cong; [lia|lia|]. rewrite Zmod_mod.
      rewrite <- (Z.sub_add ab c) at 1. rewrite <- Z.add_mod_idemp_l, E0 by lia. reflexivity. }
    set (e := (c - ab) mod q) in *. split.
    - intros E.
      pose proof (pw_range (e * s) ltac:(nia)) as RD. set (D := powm g (e * s) p) in *.
      assert (Dv : (p | M * (D - 1))).
      { apply Zmod_divide; [lia|]. replace (M * (D - 1)) with (M * D - M) by ring.
        rewrite Zminus_mod, E, Z.sub_diag. apply Z.mod_0_l. lia. }
      apply prime_mult in Dv; [|assumption]. destruct Dv as [Dv|Dv].
      { exfalso. apply HM. now apply Zdivide_mod. }
      assert (D1 : D = 1).
      { destruct Dv as [t Ht]. assert (t = 0) by nia. lia. }
      assert (Q : (e * s) mod q = 0 mod q).
      { apply pw_inj; [nia|lia|]. fold D. rewrite D1. rewrite powm_0_r. symmetry. apply Z.mod_1_l. lia. }
      rewrite Z.mod_0_l in Q by lia. apply Zmod_divide in Q; [|lia].
      apply prime_mult in Q; [|assumption]. destruct Q as [Q|Q].
      + exfalso. apply Z.divide_pos_le in Q; lia.
      + destruct (Z.eq_dec s 0) as [|Ns]; [assumption|]. exfalso. apply Z.divide_pos_le in Q; lia.
    - intros ->. rewrite Z.mul_0_r, powm_0_r, (Z.mod_small 1 p), Z.mul_1_r by lia. reflexivity.
  Qed.

  (* ---- 1-of-2 ------------------------------------------------------------------------------------------------- *)
  Theorem ot_2_correct M0 M1 sigma a b c r0 s0 r1 s1 :
    0 <= a -> 0 <= b -> 0 <= c -> 0 <= r0 -> 0 <= s0 -> 0 <= r1 -> 0 <= s1 -> (sigma < 2)%nat ->
    let '(x, y, zs) := choose_2_first p q g sigma a b c in
    match send_2 p q g M0 M1 x y (nth 0 zs 0) (nth 1 zs 0) r0 s0 r1 s1 with
    | Some resp => choose_second p q sigma b resp = Some (nth sigma [M0; M1] 0 mod p)
    | None => nth 0 zs 0 = nth 1 zs 0
    end.
  Proof.
    intros Ha Hb Hc Hr0 Hs0 Hr1 Hs1 Ls.
    pose proof (ot_n_correct [M0; M1] sigma a b [c; c] [(s0, r0); (s1, r1)] Ha Hb) as T.
    rewrite <- choose_2_as_n in T by assumption.
    destruct (choose_2_first p q g sigma a b c) as [[x y] zs] eqn:E0.
    assert (Lz : exists z0 z1, zs = [z0; z1]).
    { unfold choose_2_first in E0. destruct (Nat.eqb sigma 0); inversion E0; eauto. }
    destruct Lz as (z0 & z1 & ->). cbn [nth]. rewrite send_2_as_n.
    assert (Fc : Forall (fun c0 => 0 <= c0) [c; c]) by (repeat constructor; assumption).
    assert (Fk : Forall nonneg2 [(s0, r0); (s1, r1)]) by (repeat constructor; assumption).
    assert (T' := T Fc Fk eq_refl eq_refl Ls).
    destruct (send_n p q g [M0; M1] x y [z0; z1] [(s0, r0); (s1, r1)]); [exact T'|].
    destruct (Z.eq_dec z0 z1) as [|N]; [assumption|]. exfalso. apply T'.
    constructor; [intros [I|[]]; congruence|]. constructor; [intros []|constructor].
  Qed.

  (* ---- optimised 1-of-N -------------------------------------------------------------------------------------------- *)
  Lemma inv_unique K i j : 0 <= i < p -> 0 <= j < p -> (K * i) mod p = 1 -> (K * j) mod p = 1 -> i = j.
  Proof.
    intros Ri Rj Ei Ej.
    assert (A : (i * (K * j)) mod p = i) by (rewrite Zmult_mod, Ej, Z.mul_1_r, Zmod_mod; apply Z.mod_small; lia).
    assert (B : (j * (K * i)) mod p = j) by (rewrite Zmult_mod, Ei, Z.mul_1_r, Zmod_mod; apply Z.mod_small; lia).
    replace (j * (K * i)) with (i * (K * j)) in B by ring. congruence.
  Qed.

  Lemma choose_opt_first_value sigma a b : 0 <= a -> 0 <= b ->
    choose_opt_first p q g sigma a b =
    Some (powm g a p, powm g b p, powm g ((a * b) mod q + Z.of_nat sigma * (q - 1)) p).
  Proof.
    intros Ha Hb. unfold choose_opt_first.
    pose proof (Z.mod_pos_bound (a * b) q ltac:(lia)) as Rab.
    destruct (pw_inv (Z.of_nat sigma) ltac:(lia)) as [i [Ei [Ri Mi]]]. rewrite Ei. do 2 f_equal.
    assert (J : i = powm g (Z.of_nat sigma * (q - 1)) p).
    { apply (inv_unique (powm g (Z.of_nat sigma) p)); [assumption| |assumption|].
      - pose proof (pw_range (Z.of_nat sigma * (q - 1)) ltac:(nia)). lia.
      - rewrite pw_add by nia. replace (Z.of_nat sigma + Z.of_nat sigma * (q - 1)) with (q * Z.of_nat sigma) by ring.
        rewrite <- pw_pow by lia. rewrite Hgq'.
        rewrite powm_1_l by lia. apply Z.mod_1_l. lia. }
    rewrite J. apply pw_add; nia.
  Qed.

  Theorem ot_opt_correct Ms sigma a b coins :
    0 <= a -> 0 <= b -> Forall nonneg2 coins -> length coins = length Ms -> (sigma < length Ms)%nat ->
    exists x y z0, choose_opt_first p q g sigma a b = Some (x, y, z0) /\
    exists resp, send_opt p q g Ms x y z0 coins = Some resp /\
    choose_second p q sigma b resp = Some (nth sigma Ms 0 mod p).
  Proof.
    intros Ha Hb Fk Lk Ls.
    pose proof (Z.mod_pos_bound (a * b) q ltac:(lia)) as Rab.
    set (E0 := (a * b) mod q + Z.of_nat sigma * (q - 1)).
    assert (HE0 : 0 <= E0) by (unfold E0; nia).
    exists (powm g a p), (powm g b p), (powm g E0 p). split; [now apply choose_opt_first_value|].
    unfold send_opt. rewrite !pw_elem by lia. cbn [andb]. eexists. split; [reflexivity|].
    unfold choose_second. rewrite enc_opt_ws by assumption.
    destruct (coin_at coins sigma Fk ltac:(lia)) as (s & r & Ek & Hs & Hr).
    rewrite (enc_opt_nth _ _ Ms coins E0 true sigma (nth sigma Ms 0) s r HE0); [|now apply nth_error_nth'|exact Ek].
    apply open_enc_chosen; try lia.
    unfold E0. replace ((a * b) mod q + Z.of_nat sigma * (q - 1) + Z.of_nat sigma + 0) with ((a * b) mod q + Z.of_nat sigma * q) by ring.
    rewrite Z.mod_add by lia. apply Zmod_mod.
  Qed.

  (* curious chooser, optimised variant: z_i = g^(ab - sigma + i), so ciphertext i opens to M_i * g^((i - sigma) s_i) *)
  Theorem ot_opt_other_exact Ms sigma a b coins i :
    0 <= a -> 0 <= b -> Forall nonneg2 coins -> length coins = length Ms -> (i < length Ms)%nat ->
    forall x y z0 resp, choose_opt_first p q g sigma a b = Some (x, y, z0) -> send_opt p q g Ms x y z0 coins = Some resp ->
    curious p b resp i = Some ((nth i Ms 0 * powm g (((Z.of_nat i - Z.of_nat sigma) mod q) * fst (nth i coins (0, 0))) p) mod p).
  Proof.
    intros Ha Hb Fk Lk Li x y z0 resp Ec Es.
    rewrite choose_opt_first_value in Ec by assumption. inversion Ec. subst x y z0. clear Ec.
    pose proof (Z.mod_pos_bound (a * b) q ltac:(lia)) as Rab.
    set (E0 := (a * b) mod q + Z.of_nat sigma * (q - 1)) in *.
    assert (HE0 : 0 <= E0) by (unfold E0; nia).
    unfold send_opt in Es. destruct (_ && _ && _); [|discriminate]. inversion Es. subst resp. clear Es.
    unfold curious.
    destruct (coin_at coins i Fk ltac:(lia)) as (s & r & Ek & Hs & Hr).
    rewrite (enc_opt_nth _ _ Ms coins E0 true i (nth i Ms 0) s r HE0); [|now apply nth_error_nth'|exact Ek].
    rewrite open_enc by lia. rewrite (nth_error_nth _ _ _ Ek). cbn [fst]. do 3 f_equal. f_equal.
    unfold E0.
    replace ((a * b) mod q + Z.of_nat sigma * (q - 1) + Z.of_nat i + 0 - a * b)
      with ((a * b) mod q - a * b + (Z.of_nat i - Z.of_nat sigma) + Z.of_nat sigma * q) by ring.
    rewrite Z.mod_add by lia. rewrite <- Z.add_mod_idemp_l by lia.
    rewrite Zminus_mod_idemp_l, Z.sub_diag, Z.mod_0_l by lia. reflexivity.
  Qed.
End OT.
