(* C11 -- Export and import round-trip every object unchanged.
   Property theorems only: each is closed by `exact <lemma>` and followed by Print Assumptions. *)
From Coq Require Import ZArith NArith List Lia.
From LT Require Import gen_Consts CodecModel CodecLemmas.
Import ListNotations.

(* integers in the textual transport encoding survive unchanged: zero, negative, any length *)
Theorem C11_base62_roundtrip : forall z : Z, decode62 (encode62 z) = Some z.
Proof. exact base62_roundtrip. Qed.
Print Assumptions C11_base62_roundtrip.

(* the encoding never produces a delimiter, NUL or newline (needed by every framed format) *)
Theorem C11_base62_no_delimiter : forall z : Z, Forall plain (encode62 z).
Proof. exact encode62_plain. Qed.
Print Assumptions C11_base62_no_delimiter.

Theorem C11_vtmf_card_roundtrip : forall c : Z * Z, import_vcard (export_vcard c) = Some c.
Proof. exact vcard_roundtrip. Qed.
Print Assumptions C11_vtmf_card_roundtrip.

Theorem C11_vtmf_cardsecret_roundtrip : forall r : Z, import_vsecret (export_vsecret r) = Some r.
Proof. exact vsecret_roundtrip. Qed.
Print Assumptions C11_vtmf_cardsecret_roundtrip.

(* k x w matrix, 1 <= k <= TMCG_MAX_PLAYERS, 1 <= w <= TMCG_MAX_TYPEBITS (limits regenerated from libTMCG.hh) *)
Theorem C11_tmcg_card_roundtrip : forall c, wf_tcard c -> import_tcard (export_tcard c) = Some c.
Proof. exact tcard_roundtrip. Qed.
Print Assumptions C11_tmcg_card_roundtrip.

Theorem C11_tmcg_cardsecret_roundtrip : forall c, wf_tsecret c -> import_tsecret (export_tsecret c) = Some c.
Proof. exact tsecret_roundtrip. Qed.
Print Assumptions C11_tmcg_cardsecret_roundtrip.

Theorem C11_stack_roundtrip : forall st, (1 <= length st <= Z.to_nat TMCG_MAX_CARDS)%nat ->
  import_vstack [] (export_vstack st) = Some st.
Proof. exact vstack_roundtrip. Qed.
Print Assumptions C11_stack_roundtrip.

(* QR-encoded stacks: TMCG_Stack<TMCG_Card> (the same template code as for VTMF_Card), every card within the dimension limits *)
Theorem C11_tmcg_stack_roundtrip : forall st, (1 <= length st <= Z.to_nat TMCG_MAX_CARDS)%nat -> Forall wf_tcard st ->
  import_tstack [] (export_tstack st) = Some st.
Proof. exact tstack_roundtrip. Qed.
Print Assumptions C11_tmcg_stack_roundtrip.

Theorem C11_stacksecret_roundtrip : forall ss, wf_vstacksecret ss ->
  import_vstacksecret [] (export_vstacksecret ss) = Some ss.
Proof. exact vstacksecret_roundtrip. Qed.
Print Assumptions C11_stacksecret_roundtrip.

(* stacks do not reset on import: the statement of C11 is about fresh objects for them *)
(* QR-encoded stack secrets: TMCG_StackSecret<TMCG_CardSecret>, index component a permutation, every secret within the limits *)
Theorem C11_tmcg_stacksecret_roundtrip : forall ss, wf_tstacksecret ss ->
  import_tstacksecret [] (export_tstacksecret ss) = Some ss.
Proof. exact tstacksecret_roundtrip. Qed.
Print Assumptions C11_tmcg_stacksecret_roundtrip.

Theorem C11_stack_import_appends : forall old st, (1 <= length st <= Z.to_nat TMCG_MAX_CARDS)%nat ->
  import_vstack old (export_vstack st) = Some (old ++ st).
Proof. exact vstack_import_appends. Qed.
Print Assumptions C11_stack_import_appends.

(* non-vacuity: concrete objects meeting the hypotheses *)
Example C11_nonvacuous_tcard : wf_tcard [[5; -7; 0]; [1; 2; 3]]%Z.
Proof. unfold wf_tcard. cbn. repeat split; try lia; repeat constructor. Qed.
Example C11_nonvacuous_stacksecret : wf_vstacksecret [(2%N, 11%Z); (0%N, (-4)%Z); (1%N, 0%Z)].
Proof. unfold wf_vstacksecret. cbn. repeat split; try lia; repeat constructor. Qed.

(* import of a QR-encoded stack into a used stack appends (same template behaviour as C11_stack_import_appends) *)
Theorem C11_tmcg_stack_import_appends : forall old st, (1 <= length st <= Z.to_nat TMCG_MAX_CARDS)%nat -> Forall wf_tcard st ->
  import_tstack old (export_tstack st) = Some (old ++ st).
Proof. exact tstack_import_appends. Qed.
Print Assumptions C11_tmcg_stack_import_appends.

Example C11_nonvacuous_tsecret : wf_tsecret [[(5, 1); (-7, 0)]; [(0, 0); (62, 1)]]%Z.
Proof. exact wf_tsecret_example. Qed.
Example C11_nonvacuous_tstacksecret : wf_tstacksecret [(1%N, [[(5, 1)]; [(9, 0)]]%Z); (0%N, [[(-3, 0)]; [(4, 1)]]%Z)].
Proof.
  unfold wf_tstacksecret, wf_tsecret. cbn [length hd fst snd].
  repeat split; try (vm_compute; lia); try reflexivity; repeat constructor; cbn; try lia; repeat constructor; try (vm_compute; lia).
Qed.

(* TMCG_PublicKey text pub|name|email|type|m|y|nizk|sig: round trip for every key whose four string fields contain no '|'
   (sig is the unparsed remainder and may contain anything); the guard is necessary (pubkey_bar_in_name_refuted) *)
Theorem C11_public_key_roundtrip : forall k, wf_pubkey k -> import_pubkey (export_pubkey k) = Some k.
Proof. exact pubkey_roundtrip. Qed.
Print Assumptions C11_public_key_roundtrip.
Example C11_nonvacuous_pubkey : wf_pubkey {| pk_name := [65; 108]%N; pk_email := [97; 64; 98]%N; pk_type := [84]%N; pk_m := 35%Z; pk_y := 6%Z; pk_nizk := [110; 94]%N; pk_sig := [115; 124; 94]%N |}.
Proof. unfold wf_pubkey, nobar. cbn. repeat split; repeat constructor; discriminate. Qed.

(* distinct objects within the limits never share a text: export is injective for every modelled type *)
Theorem C11_export_injective :
  (forall a b : Z, encode62 a = encode62 b -> a = b) /\
  (forall a b, wf_tcard a -> wf_tcard b -> export_tcard a = export_tcard b -> a = b) /\
  (forall a b, wf_tsecret a -> wf_tsecret b -> export_tsecret a = export_tsecret b -> a = b) /\
  (forall a b, wf_vstacksecret a -> wf_vstacksecret b -> export_vstacksecret a = export_vstacksecret b -> a = b) /\
  (forall a b, wf_tstacksecret a -> wf_tstacksecret b -> export_tstacksecret a = export_tstacksecret b -> a = b) /\
  (forall a b, wf_pubkey a -> wf_pubkey b -> export_pubkey a = export_pubkey b -> a = b).
Proof.
  repeat split.
  - intros a b E. apply (roundtrip_injective (fun _ => True) encode62 decode62 (fun x _ => base62_roundtrip x) a b I I E).
  - exact (roundtrip_injective _ _ _ tcard_roundtrip).
  - exact (roundtrip_injective _ _ _ tsecret_roundtrip).
  - exact (roundtrip_injective _ _ _ vstacksecret_roundtrip).
  - exact (roundtrip_injective _ _ _ tstacksecret_roundtrip).
  - exact (roundtrip_injective _ _ _ pubkey_roundtrip).
Qed.
Print Assumptions C11_export_injective.

Theorem C11_stack_export_injective :
  (forall a b, (1 <= length a <= Z.to_nat TMCG_MAX_CARDS)%nat -> (1 <= length b <= Z.to_nat TMCG_MAX_CARDS)%nat ->
               export_vstack a = export_vstack b -> a = b) /\
  (forall a b, ((1 <= length a <= Z.to_nat TMCG_MAX_CARDS)%nat /\ Forall wf_tcard a) ->
               ((1 <= length b <= Z.to_nat TMCG_MAX_CARDS)%nat /\ Forall wf_tcard b) ->
               export_tstack a = export_tstack b -> a = b).
Proof.
  split.
  - exact (roundtrip_injective _ export_vstack (import_vstack []) vstack_roundtrip).
  - apply (roundtrip_injective _ export_tstack (import_tstack [])). intros x [H1 H2]. exact (tstack_roundtrip x H1 H2).
Qed.
Print Assumptions C11_stack_export_injective.
