(* DkgLemmas: the key-combination step of GJKR/CGJKR key generation and the share refresh.
   - the share x_i = sum_{j in QUAL} s_ji is the value of the joint polynomial F = sum_{j in QUAL} f_j   (dkg_share_joint)
   - hence any set of >= deg+1 honest shares reconstructs F(0) = sum z_j                                   (dkg_subsets_same_secret)
   - y = prod_{j in QUAL} g^z_j = g^F(0)                                                                    (dkg_pubkey)
   - g^x_i = v_i for Feldman commitments of the f_j                                                         (via VssLemmas.feldman_honest on F)
   - adding a sharing of zero changes the shares but not the reconstructed secret                           (refresh_preserves) *)
From Coq Require Import ZArith Znumtheory Lia List Bool ZifyBool.
From LT Require Import Zbase VssModel VssLemmas VssLagrange DkgModel.
Import ListNotations.
Local Open Scope Z_scope.

Lemma peval_padd f g x : peval (padd f g) x = peval f x + peval g x.
Proof.
  revert g. induction f as [|a f IH]; intros g; [cbn; lia|]. destruct g as [|b g]; [cbn; lia|].
  cbn [padd peval]. rewrite IH. ring.
Qed.
Lemma length_padd f g : length (padd f g) = Nat.max (length f) (length g).
Proof.
  revert g. induction f as [|a f IH]; intros g; [reflexivity|]. destruct g as [|b g]; [reflexivity|].
  cbn [padd length]. rewrite IH. reflexivity.
Qed.

(* the joint polynomial of the qualified dealers; P j = coefficient list of dealer j *)
Definition joint (P : Z -> list Z) (qual : list Z) : list Z := fold_right (fun j acc => padd (P j) acc) [] qual.

Lemma sum_qual_gen q qual s acc : 0 < q ->
  fold_left (fun a j => (a + nthz s j) mod q) qual acc mod q = (acc + fold_right (fun j a => nthz s j + a) 0 qual) mod q.
Proof.
  intros Hq. revert acc. induction qual as [|j r IH]; intros acc; cbn [fold_left fold_right].
  - f_equal. lia.
  - rewrite IH. rewrite Zplus_mod_idemp_l. f_equal. rewrite Z.add_assoc. reflexivity.
Qed.

Lemma sum_qual_range q qual s : 0 < q -> 0 <= sum_qual q qual s < q.
Proof.
  intros Hq. unfold sum_qual.
  assert (G : forall l a, 0 <= a < q -> 0 <= fold_left (fun a j => (a + nthz s j) mod q) l a < q).
  { induction l as [|j' l IH]; intros a Ha; cbn [fold_left]; [lia|]. apply IH. apply Z.mod_pos_bound. lia. }
  apply G. lia.
Qed.

(* every share of the key is the value of the joint polynomial at the party's point *)
Theorem dkg_share_joint q P qual s x : 0 < q ->
  (forall j, In j qual -> nthz s j mod q = poly_eval q (P j) x) ->
  sum_qual q qual s = poly_eval q (joint P qual) x.
Proof.
  intros Hq Hs. pose proof (sum_qual_range q qual s Hq) as R.
  rewrite <- (Z.mod_small (sum_qual q qual s) q) by lia.
  unfold sum_qual. rewrite sum_qual_gen by lia. rewrite Z.add_0_l. rewrite poly_eval_peval by lia.
  clear R. induction qual as [|j r IH]; [reflexivity|].
  cbn [fold_right joint]. fold (joint P r). rewrite peval_padd.
  rewrite Zplus_mod. rewrite IH by (intros; apply Hs; now right).
  rewrite (Hs j (or_introl eq_refl)). rewrite poly_eval_peval by lia. rewrite <- Zplus_mod. reflexivity.
Qed.

Lemma joint_length P qual t : (forall j, In j qual -> (length (P j) <= t)%nat) -> (length (joint P qual) <= t)%nat.
Proof.
  induction qual as [|j r IH]; intros H; cbn [joint fold_right]; [cbn; lia|]. fold (joint P r).
  rewrite length_padd. specialize (IH (fun j' Hj => H j' (or_intror Hj))). specialize (H j (or_introl eq_refl)). lia.
Qed.

(* any two sets of at least t+1 honest key shares reconstruct one and the same secret F(0) *)
Theorem dkg_subsets_same_secret q P qual tdeg pts r : prime q ->
  (forall j, In j qual -> (length (P j) <= tdeg)%nat) -> (tdeg <= length pts)%nat ->
  NoDup (map fst pts) ->
  (forall x y, In (x, y) pts -> 0 <= x < q /\ exists s, y = sum_qual q qual s /\ forall j, In j qual -> nthz s j mod q = poly_eval q (P j) x) ->
  lagrange0 q pts = Some r -> r = poly_eval q (joint P qual) 0.
Proof.
  intros Hq HP Hlen Hnd Hpts E. assert (Hq0 : 0 < q) by (destruct Hq; lia).
  apply (lagrange0_sound q (joint P qual) pts r Hq); try assumption.
  - pose proof (joint_length P qual tdeg HP). lia.
  - intros x y Hin. destruct (Hpts x y Hin) as (Rx & s & -> & Hs). split; [assumption|].
    rewrite (dkg_share_joint q P qual s x Hq0 Hs). pose proof (poly_eval_range q (joint P qual) x Hq0).
    apply Z.mod_small. lia.
Qed.

Lemma peval_0 f : peval f 0 = hd 0 f.
Proof. destruct f; cbn [peval hd]; lia. Qed.

Section Group.
  Variables p q g : Z.
  Hypothesis Hp : 1 < p.
  Hypothesis Hq : prime q.
  Hypothesis Hg : powm g q p = 1.
  Let q_pos : 1 < q. Proof. destruct Hq. lia. Qed.

  Lemma dkg_y_gen qual ys acc :
    fold_left (fun a j => (a * nthz ys j) mod p) qual acc mod p = (acc * fold_right (fun j a => nthz ys j * a) 1 qual) mod p.
  Proof.
    revert acc. induction qual as [|j r IH]; intros acc; cbn [fold_left fold_right].
    - f_equal. lia.
    - rewrite IH. rewrite Zmult_mod_idemp_l. f_equal. rewrite Z.mul_assoc. reflexivity.
  Qed.

  Lemma dkg_y_range qual ys : qual <> [] -> 0 <= dkg_y p qual ys < p.
  Proof.
    assert (G : forall l a, 0 <= a < p -> 0 <= fold_left (fun a j => (a * nthz ys j) mod p) l a < p).
    { induction l as [|j' l IH]; intros a Ha; cbn [fold_left]; [lia|]. apply IH. apply Z.mod_pos_bound. lia. }
    intros Hne. unfold dkg_y. destruct qual as [|j r]; [congruence|]. cbn [fold_left]. apply G. apply Z.mod_pos_bound. lia.
  Qed.

  Lemma hd_nonneg f : Forall (fun c => 0 <= c) f -> 0 <= hd 0 f.
  Proof. destruct 1; cbn [hd]; lia. Qed.

  Lemma prod_keys P qual ys :
    (forall j, In j qual -> Forall (fun c => 0 <= c) (P j) /\ nthz ys j = powm g (hd 0 (P j)) p) ->
    0 <= fold_right (fun j a => hd 0 (P j) + a) 0 qual /\
    fold_right (fun j a => nthz ys j * a) 1 qual mod p = g ^ (fold_right (fun j a => hd 0 (P j) + a) 0 qual) mod p.
  Proof.
    induction qual as [|j r IH]; intros H; cbn [fold_right].
    - split; [lia|reflexivity].
    - destruct (IH (fun j' Hj => H j' (or_intror Hj))) as [N E]. destruct (H j (or_introl eq_refl)) as [Pn Ey].
      pose proof (hd_nonneg _ Pn). split; [lia|].
      rewrite Zmult_mod, E, Ey. rewrite powm_spec by lia. rewrite Z.mod_mod by lia. rewrite <- Zmult_mod.
      rewrite Z.pow_add_r by lia. reflexivity.
  Qed.

  Lemma peval_joint_0 P qual : peval (joint P qual) 0 = fold_right (fun j a => hd 0 (P j) + a) 0 qual.
  Proof.
    induction qual as [|j r IH]; [reflexivity|]. cbn [joint fold_right]. fold (joint P r).
    rewrite peval_padd, IH, peval_0. reflexivity.
  Qed.

  (* the public key is g to the secret that the shares reconstruct *)
  Theorem dkg_pubkey P qual ys : qual <> [] ->
    (forall j, In j qual -> Forall (fun c => 0 <= c) (P j) /\ nthz ys j = powm g (hd 0 (P j)) p) ->
    dkg_y p qual ys = powm g (poly_eval q (joint P qual) 0) p.
  Proof.
    intros Hne H. pose proof (dkg_y_range qual ys Hne) as R.
    rewrite <- (Z.mod_small (dkg_y p qual ys) p) by lia.
    unfold dkg_y. rewrite dkg_y_gen. rewrite Z.mul_1_l.
    destruct (prod_keys P qual ys H) as [N E]. rewrite E.
    pose proof (poly_eval_range q (joint P qual) 0 ltac:(lia)).
    rewrite powm_spec by lia. rewrite poly_eval_peval by lia. rewrite peval_joint_0.
    symmetry. apply (pow_red_g p q g Hp Hq Hg). exact N.
  Qed.
End Group.

(* ---- share refresh: adding the shares of a sharing of zero keeps the secret ------------------------------- *)
Theorem refresh_preserves q F Zp x : 0 < q -> hd 0 Zp = 0 ->
  refresh_share q (poly_eval q F x) (poly_eval q Zp x) = poly_eval q (padd F Zp) x /\
  poly_eval q (padd F Zp) 0 = poly_eval q F 0.
Proof.
  intros Hq H0. unfold refresh_share. rewrite !poly_eval_peval by lia. rewrite !peval_padd. split.
  - rewrite <- Zplus_mod. reflexivity.
  - rewrite (peval_0 Zp), H0, Z.add_0_r. reflexivity.
Qed.

(* the refreshed shares differ from the old ones wherever the zero polynomial does not vanish *)
Theorem refresh_changes q x z : 0 < q -> 0 <= x < q -> z mod q <> 0 -> refresh_share q x z <> x.
Proof.
  intros Hq Hx Hz E. unfold refresh_share in E. apply Hz.
  rewrite <- (Z.mod_small x q) in E at 2 by lia.
  assert (D : (x + z - x) mod q = 0).
  { rewrite Zminus_mod, E, Z.sub_diag. reflexivity. }
  replace (x + z - x) with z in D by lia. exact D.
Qed.
