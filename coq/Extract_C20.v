From Coq Require Import Extraction ExtrOcamlBasic.
From LT Require Import PgpCodecModel PgpSigModel.
Extraction "model.ml" hash_input_v4 hash_input_v3 hash_input_v5 cert_object check_validity chunk_nonce_impl sig_body_fields chunk_ad final_ad verify_hash_input eddsa_sigval.
