(* C14 -- Reliable broadcast: agreement, integrity, order, delivery.
   Property theorems only: each is closed by `exact <lemma>` and followed by Print Assumptions.
   Model: RbcModel.v (per-call step functions of CachinKursawePetzoldShoupRBC and a network of n parties with
   Byzantine members); n, t, fifo_skip, the digest hash H and the digest length test are universally quantified. *)
From Coq Require Import ZArith List Bool Lia.
From LT Require Import RbcModel RbcLemmas RbcOrder RbcStep RbcAgreement RbcBracha.
Import ListNotations.
Local Open Scope Z_scope.

(* FIFO order, and no slot twice: whatever a party is handed (any messages, any senders, any interleaving of Deliver and
   DeliverFrom calls) while it stays on a FIFO channel (fifo_skip = 0), the slots it delivers from one sender w are exactly
   deliver_s[w], deliver_s[w]+1, ... in this order; every delivery carries the current channel and the reported sender *)
Theorem C14_fifo_order : forall n t H toolong me cs st st' ds,
  fifo st = true -> lrun n t 0 H toolong me st cs = (st', ds) ->
  cur st' = cur st /\ fifo st' = true /\
  Forall (fun d => id_of d = cur st /\ j_of d = who_of d) ds /\
  forall w, map s_of (from_sender w ds) = map (fun k => dls st w + Z.of_nat k) (seq 0 (length (from_sender w ds))) /\
            dls st' w = dls st w + Z.of_nat (length (from_sender w ds)).
Proof. intros n t H toolong. exact (fifo_consecutive n t 0 H toolong eq_refl). Qed.
Print Assumptions C14_fifo_order.

Theorem C14_no_dup_fifo : forall n t H toolong me cs st st' ds,
  fifo st = true -> lrun n t 0 H toolong me st cs = (st', ds) -> forall w, NoDup (map s_of (from_sender w ds)).
Proof. intros n t H toolong. exact (fifo_no_duplicate n t 0 H toolong eq_refl). Qed.
Print Assumptions C14_no_dup_fifo.

(* leaving a channel and coming back with recoverID continues the counters; a nested channel gives the parent back *)
Theorem C14_recover_continues : forall st f f',
  let st' := recover_id (unset_id st f) (cur st) f' in
  cur st' = cur st /\ sq st' = sq st /\ dls st' = dls st /\ fifo st' = f'.
Proof. exact unset_then_recover. Qed.
Print Assumptions C14_recover_continues.

(* counter recovery after k-fold unsetID / recoverID of one (nested) channel: the counters, the channel stack and the channel
   are unchanged, and the recovery table holds the CURRENT counters (the entry is refreshed by every unsetID, not only the
   first); with arbitrary traffic between the visits the next recoverID continues where the party left *)
Theorem C14_recover_k_fold : forall k st f i s d r, stack st = (i, s, d) :: r ->
  let st' := leave_enter_k k st f in
  cur st' = cur st /\ sq st' = sq st /\ dls st' = dls st /\ stack st' = stack st /\
  (k <> O -> recov st' (cur st) = Some (sq st, dls st)).
Proof. exact recover_k_fold. Qed.
Print Assumptions C14_recover_k_fold.

Theorem C14_recover_after_traffic : forall st f1 f2 f3 f4 (u : pst -> pst),
  let st1 := leave_enter st f1 f2 in let st2 := u st1 in let st3 := leave_enter st2 f3 f4 in
  cur st3 = cur st2 /\ sq st3 = sq st2 /\ dls st3 = dls st2.
Proof. exact recover_after_traffic. Qed.
Print Assumptions C14_recover_after_traffic.

Theorem C14_nested_channel_returns : forall st id f f',
  let st' := unset_id (set_id st id f) f' in
  cur st' = cur st /\ sq st' = sq st /\ dls st' = dls st /\ stack st' = stack st /\ fifo st' = f'.
Proof. exact set_then_unset. Qed.
Print Assumptions C14_nested_channel_returns.

(* channel isolation, every mode, every fifo_skip: Deliver only hands out a value whose tag carries the current channel
   identifier; DeliverFrom only hands out buffer entries stamped with the current channel, and an entry gets into a buffer
   only by a delivery of Deliver on the channel it is stamped with *)
Theorem C14_channel_isolation_deliver : forall n t skip H toolong me st off who tg v,
  o_res (deliver n t skip H toolong me st off) = RDeliver who tg v -> exists s, tg = (cur st, who, s).
Proof. exact deliver_isolation. Qed.
Print Assumptions C14_channel_isolation_deliver.

Theorem C14_channel_isolation_deliverfrom : forall n t skip H toolong me st i off v,
  snd (deliver_from n t skip H toolong me st i off) = Some v -> In (v, cur st) (fbuf st i).
Proof. exact deliver_from_isolation. Qed.
Print Assumptions C14_channel_isolation_deliverfrom.

Theorem C14_deliverfrom_buffers : forall n t skip H toolong me st i off w v c,
  In (v, c) (fbuf (o_st (fst (deliver_from n t skip H toolong me st i off))) w) ->
  In (v, c) (fbuf st w) \/
  (c = cur st /\ exists s, o_res (fst (deliver_from n t skip H toolong me st i off)) = RDeliver w (cur st, w, s) v).
Proof. exact deliver_from_buffers. Qed.
Print Assumptions C14_deliverfrom_buffers.

(* ... and over every schedule of the network model (all n, t, Byzantine sets, interleavings of Deliver and DeliverFrom with
   channel switches): a value returned by DeliverFrom(i) at party p on channel c was delivered by Deliver at p for sender i
   under a tag of channel c -- no delivery crosses into another channel *)
Theorem C14_channel_isolation_all_schedules : forall n t skip H toolong byz es p c i v,
  In (p, c, i, v) (gapi (grun n t skip H toolong byz es)) ->
  exists s, In (p, (c, i, s), v) (glog (grun n t skip H toolong byz es)).
Proof. exact deliverfrom_isolation_run. Qed.
Print Assumptions C14_channel_isolation_all_schedules.

(* "no honest party delivers a slot twice" is FALSE without FIFO sequence numbers (finding F8): n = 4, t = 1, no faulty
   party; the ready quorum reaches P3 before the payload, and each of the three r-answers delivers *)
Theorem C14_no_dup_nonfifo_refuted : ~ no_duplicate_statement.
Proof. exact no_dup_nonfifo_refuted. Qed.
Print Assumptions C14_no_dup_nonfifo_refuted.

(* ---- agreement and integrity over the network model ---------------------------------------------------------
   All n > 3t, every Byzantine set of at most t parties (byz, contained in the list B), every schedule (list of events folded
   with gstep: Broadcast / Deliver / DeliverFrom / channel switches at any honest party; the transport may delay, reorder and
   duplicate, and hands over anything on links from Byzantine parties), every fifo_skip, FIFO and non-FIFO channels.
   H is the digest hash; it is assumed never to be 0 (the code uses 0 for "no payload") and, for the value statements, injective. *)

(* the digest an honest party accepts for a slot (dbar: 2t+1 r-ready) is the same at all honest parties *)
Theorem C14_agreed_digest_unique : forall n t skip H toolong byz, 3 * t < n -> 0 <= t ->
  forall B, Z.of_nat (length B) <= t -> (forall l, byz l = true -> In l B) ->
  forall es p q tg d d',
    dbar (gp (grun n t skip H toolong byz es) p) tg = Some d ->
    dbar (gp (grun n t skip H toolong byz es) q) tg = Some d' -> d = d'.
Proof. exact dbar_agree_run. Qed.
Print Assumptions C14_agreed_digest_unique.

(* AGREEMENT: no two honest parties deliver different values for the same (ID, sender, s) -- every slot, including slots a
   party fetched through the out-of-order handler (l-retrieve / l-deliver) *)
Theorem C14_agreement : forall n t skip H toolong byz, 3 * t < n -> 0 <= t ->
  forall B, Z.of_nat (length B) <= t -> (forall l, byz l = true -> In l B) ->
  (forall m, H m <> 0) -> (forall a b, H a = H b -> a = b) ->
  forall es p q tg v v',
    In (p, tg, v) (glog (grun n t skip H toolong byz es)) -> In (q, tg, v') (glog (grun n t skip H toolong byz es)) ->
    v = v'.
Proof. exact agreement. Qed.
Print Assumptions C14_agreement.

(* INTEGRITY: a slot (id, j, s) of a non-faulty sender j is delivered only with a value v that j passed to Broadcast: the
   schedule contains that Broadcast call, and the r-send (id, j, s, v) is among the messages it sent *)
Theorem C14_integrity : forall n t skip H toolong byz, 3 * t < n -> 0 <= t ->
  forall B, Z.of_nat (length B) <= t -> (forall l, byz l = true -> In l B) ->
  (forall m, H m <> 0) -> (forall a b, H a = H b -> a = b) ->
  forall es p id j s v,
    In (p, (id, j, s), v) (glog (grun n t skip H toolong byz es)) -> byz j = false ->
    exists es1 coin es2 dst, es = es1 ++ EBcast j v coin :: es2 /\
      In (dst, Msg id j s 1 v) (snd (broadcast n j (gp (grun n t skip H toolong byz es1) j) v coin)).
Proof. exact integrity. Qed.
Print Assumptions C14_integrity.

(* the same without assuming an injective hash: equal digests *)
Theorem C14_agreement_digest : forall n t skip H toolong byz, 3 * t < n -> 0 <= t ->
  forall B, Z.of_nat (length B) <= t -> (forall l, byz l = true -> In l B) -> (forall m, H m <> 0) ->
  forall es p q tg v v',
    In (p, tg, v) (glog (grun n t skip H toolong byz es)) -> In (q, tg, v') (glog (grun n t skip H toolong byz es)) ->
    H v = H v'.
Proof. exact agreement_digest_full. Qed.
Print Assumptions C14_agreement_digest.

(* values handed out by DeliverFrom are Deliver deliveries of the same party on the same channel, hence agree too *)
Theorem C14_agreement_deliverfrom : forall n t skip H toolong byz, 3 * t < n -> 0 <= t ->
  forall B, Z.of_nat (length B) <= t -> (forall l, byz l = true -> In l B) ->
  (forall m, H m <> 0) -> (forall a b, H a = H b -> a = b) ->
  forall es p q c i v v' s,
    In (p, c, i, v) (gapi (grun n t skip H toolong byz es)) -> In (q, (c, i, s), v') (glog (grun n t skip H toolong byz es)) ->
    exists s', In (p, (c, i, s'), v) (glog (grun n t skip H toolong byz es)) /\ (s' = s -> v = v').
Proof. exact agreement_deliverfrom. Qed.
Print Assumptions C14_agreement_deliverfrom.

(* ---- the delivery clause: validity and totality at quiescence -------------------------------------------------
   Scope (exactly): all n > 3t (t >= 0), every Byzantine set of <= t parties, every schedule WITHOUT channel switches
   (forallb noswitch: every party stays on the FIFO root channel the constructor sets up; Broadcast / Deliver / DeliverFrom in
   any interleaving, Byzantine injection, reordering, duplication), fifo_skip = 0.
   quiescent = handed_over (every r-send/echo/ready/request/answer addressed to an honest party has been processed by it:
   its first-time filter is set) /\ buffers_drained (no honest party has a deliverable entry left in its deliver buffer).
   The proofs go r-send -> echo quorum -> ready quorum -> digest fixed -> delivery attempt (directly, or after fetching the
   payload by r-request / r-answer from one of the parties 0..2t that echoed) -> draining of the deliver buffer in sequence
   order (induction on s). *)
Theorem C14_validity_at_quiescence : forall n t skip H toolong byz, 3 * t < n -> 0 <= t ->
  forall B, Z.of_nat (length B) <= t -> (forall l, byz l = true -> In l B) ->
  (forall m, H m <> 0) -> (forall tg x, toolong tg (H x) = false) -> skip = 0 -> (forall a b, H a = H b -> a = b) ->
  forall es, forallb noswitch es = true ->
    handed_over n byz (grun n t skip H toolong byz es) -> buffers_drained n byz (grun n t skip H toolong byz es) ->
    forall j dst s v, honest n byz j = true -> In (j, dst, Msg 0 j s 1 v) (gsent (grun n t skip H toolong byz es)) ->
    forall q, honest n byz q = true -> In (q, (0, j, s), v) (glog (grun n t skip H toolong byz es)).
Proof. exact validity_at_quiescence. Qed.
Print Assumptions C14_validity_at_quiescence.

Theorem C14_totality_at_quiescence : forall n t skip H toolong byz, 3 * t < n -> 0 <= t ->
  forall B, Z.of_nat (length B) <= t -> (forall l, byz l = true -> In l B) ->
  (forall m, H m <> 0) -> (forall tg x, toolong tg (H x) = false) -> skip = 0 -> (forall a b, H a = H b -> a = b) ->
  forall es, forallb noswitch es = true ->
    handed_over n byz (grun n t skip H toolong byz es) -> buffers_drained n byz (grun n t skip H toolong byz es) ->
    forall p tg v, In (p, tg, v) (glog (grun n t skip H toolong byz es)) ->
    forall q, honest n byz q = true -> In (q, tg, v) (glog (grun n t skip H toolong byz es)).
Proof. exact totality_at_quiescence. Qed.
Print Assumptions C14_totality_at_quiescence.

(* ... and WITH channel switches the delivery clause is FALSE for the code as it is (finding F10): n = 4, t = 1, faulty P3;
   all protocol messages between honest parties handed over, deliver buffers drained, every honest party on the FIFO channel 7;
   P0 has delivered slot (7,3,1) -- fetched through the out-of-order handler, answered by P1 and P2 while they sat on channel 8
   (the l-retrieve handler compares s with deliver_s of the responder's current channel, not of the tag's channel) and by P3 --
   and P1 can never deliver it.  Witness RbcBracha.cross_events, checked by vm_compute. *)
Theorem C14_totality_channel_switch_refuted : ~ delivery_at_quiescence_statement 4 1 0 Hodd (fun _ _ => false) byz3.
Proof. exact totality_with_switches_refuted. Qed.
Print Assumptions C14_totality_channel_switch_refuted.

(* TOTALITY, the part that is proved (`_partial`): once every r-ready has been handed over to its honest receivers
   (ready_quiescent: the first-time filter ready[l][tag] is set for every r-ready (l -> q) in the network), a digest accepted
   for a slot by ONE honest party (dbar: 2t+1 r-ready -- the precondition of every delivery on the Bracha path) is accepted
   by EVERY honest party: t+1 honest readys reach everybody, everybody amplifies, everybody collects n-t >= 2t+1.
   This part holds with channel switches and every fifo_skip; the full delivery clause is proved above for switch-free runs
   and refuted above for runs with channel switches (finding F10). *)
Theorem C14_totality_digest_partial : forall n t skip H toolong byz, 3 * t < n -> 0 <= t ->
  forall B, Z.of_nat (length B) <= t -> (forall l, byz l = true -> In l B) ->
  (forall tg x, toolong tg (H x) = false) ->
  forall es p q tg d,
    ready_quiescent n byz (grun n t skip H toolong byz es) ->
    dbar (gp (grun n t skip H toolong byz es) p) tg = Some d -> honest n byz q = true ->
    dbar (gp (grun n t skip H toolong byz es) q) tg = Some d.
Proof. exact totality_digest. Qed.
Print Assumptions C14_totality_digest_partial.

(* r-send messages of an honest party exist only because of its own Broadcast calls (nobody can make it "send" a value) *)
Theorem C14_rsend_only_by_broadcast : forall n t skip H toolong byz es j dst m,
  In (j, dst, m) (gsent (grun n t skip H toolong byz es)) -> m_act m = 1 ->
  exists es1 v coin es2, es = es1 ++ EBcast j v coin :: es2 /\ honest n byz j = true /\
                         In (dst, m) (snd (broadcast n j (gp (grun n t skip H toolong byz es1) j) v coin)).
Proof. exact rsend_only_by_broadcast. Qed.
Print Assumptions C14_rsend_only_by_broadcast.

(* the counting core: two quorums of n - t distinct parties share a party outside any set of <= t faulty ones *)
Theorem C14_quorum_intersection : forall (n t : Z) (B L1 L2 : list Z),
  3 * t < n -> 0 <= t -> Z.of_nat (length B) <= t ->
  NoDup L1 -> NoDup L2 ->
  (forall l, In l L1 -> 0 <= l < n) -> (forall l, In l L2 -> 0 <= l < n) ->
  n - t <= Z.of_nat (length L1) -> n - t <= Z.of_nat (length L2) ->
  exists l, In l L1 /\ In l L2 /\ ~ In l B.
Proof. exact quorum_intersect_honest. Qed.
Print Assumptions C14_quorum_intersection.

(* non-vacuity *)
Example C14_nonvacuous_f8_log : glog f8_run = [(3, (5, 0, 9), 42); (3, (5, 0, 9), 42); (3, (5, 0, 9), 42)].
Proof. exact f8_log. Qed.
(* the FIFO variant of the same schedule delivers the slot once, at P3, via the first r-answer *)
Example C14_nonvacuous_fifo_once :
  glog (grun 4 1 0 f8_H (fun _ _ => false) (fun _ => false) f8_events_fifo) = [(3, (5, 0, 1), 42)].
Proof. vm_compute. reflexivity. Qed.
(* an lrun that really delivers: P3's three r-answers on the FIFO channel, from the state just before *)
Example C14_nonvacuous_quorum : exists l, In l [0; 1; 2] /\ In l [1; 2; 3] /\ ~ In l [1].
Proof. exists 2. cbn. intuition lia. Qed.

(* a real n = 4, t = 1 run meeting every premise of the agreement / integrity theorems: P0 broadcasts 42, all four deliver *)
Example C14_nonvacuous_full_run :
  glog full_run = [(0, (0, 0, 1), 42); (1, (0, 0, 1), 42); (2, (0, 0, 1), 42); (3, (0, 0, 1), 42)].
Proof. exact full_run_log. Qed.
Example C14_nonvacuous_agreement_premises :
  3 * 1 < 4 /\ (forall m, Hodd m <> 0) /\ (forall a b, Hodd a = Hodd b -> a = b) /\
  In (1, (0, 0, 1), 42) (glog full_run) /\ In (3, (0, 0, 1), 42) (glog full_run).
Proof.
  split; [lia|]. split; [exact Hodd_nonzero|]. split; [exact Hodd_inj|]. rewrite full_run_log.
  split; [cbn; auto|cbn; auto 6].
Qed.
Example C14_nonvacuous_integrity_instance :
  exists es1 coin es2 dst, full_events = es1 ++ EBcast 0 42 coin :: es2 /\
    In (dst, Msg 0 0 1 1 42) (snd (broadcast 4 0 (gp (grun 4 1 0 Hodd (fun _ _ => false) (fun _ => false) es1) 0) 42 coin)).
Proof.
  assert (N3 : 3 * 1 < 4) by lia. assert (T0 : 0 <= 1) by lia.
  assert (Bs : Z.of_nat (length (@nil Z)) <= 1) by (cbn; lia).
  assert (Bb : forall l : Z, (fun _ : Z => false) l = true -> In l []) by discriminate.
  assert (P1 : In (2, (0, 0, 1), 42) (glog full_run)) by (rewrite full_run_log; cbn; auto).
  exact (C14_integrity 4 1 0 Hodd (fun _ _ => false) (fun _ => false) N3 T0 [] Bs Bb Hodd_nonzero Hodd_inj
           full_events 2 0 0 1 42 P1 eq_refl).
Qed.

(* the run above with every r-ready handed over meets the premises of the totality theorem *)
Example C14_nonvacuous_totality_premises :
  ready_quiescent 4 (fun _ => false) quiet_run /\ dbar (gp quiet_run 0) (0, 0, 1) = Some 85 /\
  honest 4 (fun _ => false) 3 = true.
Proof. split; [exact quiet_run_quiescent|]. split; [exact quiet_run_dbar|reflexivity]. Qed.

(* a fully quiescent run meeting every premise of the validity / totality theorems; all four parties have delivered *)
Example C14_nonvacuous_quiescence :
  forallb noswitch done_events = true /\ handed_over 4 (fun _ => false) done_run /\ buffers_drained 4 (fun _ => false) done_run.
Proof. exact done_run_quiescent. Qed.
Example C14_nonvacuous_quiescence_log :
  glog done_run = [(0, (0, 0, 1), 42); (1, (0, 0, 1), 42); (2, (0, 0, 1), 42); (3, (0, 0, 1), 42)].
Proof. exact done_run_log. Qed.

Example C14_nonvacuous_cross_log :
  glog cross_run = [(1, (8, 3, 1), 50); (2, (8, 3, 1), 50); (0, (7, 3, 1), 51); (0, (7, 3, 2), 52)].
Proof. exact cross_run_log. Qed.
