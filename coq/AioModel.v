(* AioModel: executable model of one link of the point-to-point channel (C13).
   Anchors: src/aiounicast_select.cc   Send 333-736, array Send 738-760, Receive 762-1171, array Receive 1173-1291
            src/aiounicast_nonblock.cc Send 257-508, Receive 527-822 (same framing; no CTR/"chunked" cipher handling,
            no padding of the plaintext buffer, no array delimiter)
   One link = the sender half of one endpoint (iv_flag_out, mac_sqn_out, chunk_out, enc_out) and the receiver half of the
   other endpoint (buf_in/buf_ptr/buf_flag, iv_flag_in, mac_sqn_in, chunk_in, bad_auth, enc_in).
   The keyed MAC and the cipher handle are parameters (record `prims`): a cipher handle is a deterministic function of
   the history of operations performed on it (set IV, set counter, data processed -- recorded as the ciphertext on both
   sides, which is what a CFB/CTR handle depends on).
   Text is `list N` (bytes).  Definitions only -- proofs live in AioLemmas.v. *)
From Coq Require Import ZArith NArith List Bool.
From LT Require Import gen_Consts CodecModel.
Import ListNotations.

(* ---- primitives ---------------------------------------------------------------------------- *)
Inductive cop := OpIV (iv : bytes) | OpCtr (ctr : bytes) | OpData (ciphertext : bytes).
Definition chist := list cop.          (* most recent operation first *)

Record prims := {
  maclen : nat;                         (* gcry_mac_get_algo_maclen *)
  mac    : bytes -> bytes;              (* reset; write input; read  (keyed, per link) *)
  blklen : nat;                         (* gcry_cipher_get_algo_blklen *)
  c_enc  : chist -> bytes -> bytes;     (* gcry_cipher_encrypt on a handle with this history *)
  c_dec  : chist -> bytes -> bytes      (* gcry_cipher_decrypt on a handle with this history *)
}.

(* channel mode: the three constructor flags and the implementation variant *)
Record cfg := { auth : bool; encr : bool; chunked : bool; nonblock : bool }.
(* CTR handling, padding and the array delimiter exist only in aiounicast_select *)
Definition ctr_mode (c : cfg) : bool := chunked c && negb (nonblock c).

Definition c_nl : N := 10.
Definition c_plus : N := 43.

(* buf_in_size = TMCG_MAX_VALUE_CHARS = TMCG_MAX_KEYBITS / 4 *)
Definition buf_in_size : Z := (TMCG_MAX_KEYBITS / 4)%Z.
(* aio_hide_length = 2^TMCG_AIO_HIDE_SIZE *)
Definition hide_length : Z := (2 ^ TMCG_AIO_HIDE_SIZE)%Z.
Definition array_delimiter : Z := 4242424242%Z.

(* ---- GMP helpers ---------------------------------------------------------------------------- *)
(* mpz_sizeinbase(x, 62) of GMP 6: ((mp_bases[62].logb2 + 1) * bits) >> 64, plus 1;  1 for zero.
   (exact or one too big; the code uses it for buffer sizes and for the "too large" test) *)
Definition logb2_62 : Z := 3098108142912568897%Z.
Definition sizeinbase62 (x : Z) : Z :=
  if (x =? 0)%Z then 1%Z
  else (((logb2_62 + 1) * (Z.log2 (Z.abs x) + 1)) / 2 ^ 64 + 1)%Z.

(* mpz_import / mpz_export with order = 1, size = 1: big-endian bytes; export writes nothing for 0 *)
Definition import_be (bs : bytes) : N := from_digits 256 bs.
Definition export_be (n : N) : bytes := if (n =? 0)%N then [] else to_digits 256 n.

Definition blen (s : bytes) : Z := Z.of_nat (length s).

(* ctr[c] = iv[c] xor chunk[c], chunk = counter exported at the front of a zeroed block *)
Fixpoint xor_pad (a b : bytes) : bytes :=
  match a with
  | [] => []
  | x :: a' => match b with [] => a | y :: b' => N.lxor x y :: xor_pad a' b' end
  end.
Definition ctr_block (nonce : bytes) (k : Z) : bytes := xor_pad nonce (export_be (Z.abs_N k)).

Fixpoint zeros (n : nat) : bytes := match n with O => [] | S m => 0%N :: zeros m end.

(* position of the first newline *)
Fixpoint find_nl (s : bytes) : option nat :=
  match s with
  | [] => None
  | c :: r => if (c =? c_nl)%N then Some O else match find_nl r with Some p => Some (S p) | None => None end
  end.

(* ---- sender ---------------------------------------------------------------------------------- *)
Record sstate := {
  s_iv_sent : bool;      (* iv_flag_out *)
  s_sqn     : Z;         (* mac_sqn_out, starts at 1 *)
  s_chunk   : Z;         (* chunk_out, starts at 0 *)
  s_hist    : chist      (* history of enc_out *)
}.

Definition eff_maclen (P : prims) (c : cfg) : nat := if auth c then maclen P else O.
Definition eff_blklen (P : prims) (c : cfg) : nat := if encr c then blklen P else O.

(* bufsize of the plaintext buffer: size + 2, rounded so that bufsize - 1 is a multiple of blklen (select only) *)
Definition plain_bufsize (P : prims) (c : cfg) (size : Z) : Z :=
  let b := (size + 2)%Z in
  let bl := Z.of_nat (eff_blklen P c) in
  if nonblock c then b
  else if (0 <? bl)%Z then
    let md := ((b - 1) mod bl)%Z in if (0 <? md)%Z then (b + (bl - md))%Z else b
  else b.

(* iv = iv_out of the link (random nonce of the constructor; in CTR mode the derived nonce).
   Result: bytes written to the descriptor (IV once, line, tag) and the new state; None = Send returns false
   before anything is written (nothing on the wire, sender state unchanged): a negative integer on an encrypted link
   (it cannot be represented with the length-hiding offset), an integer that is too large. *)
Definition send (P : prims) (c : cfg) (iv : bytes) (st : sstate) (m : Z) : option (bytes * sstate) :=
  if encr c && (m <? 0)%Z then None else
  let tmp := if encr c then (m + hide_length)%Z else m in
  let size := sizeinbase62 tmp in
  if (buf_in_size <=? size * 2)%Z then None else
  let bufsize := plain_bufsize P c size in
  let str := encode62 tmp in
  if negb ((0 <? blen str)%Z && (blen str <? bufsize)%Z) then None else
  if encr c then
    let chunk' := if ctr_mode c then (s_chunk st + 1)%Z else s_chunk st in
    if ctr_mode c && (Z.of_nat (blklen P) <? sizeinbase62 chunk')%Z then None else
    let h1 := if ctr_mode c then OpCtr (ctr_block iv chunk') :: s_hist st else s_hist st in
    let plain := if ctr_mode c then str ++ zeros (Z.to_nat (bufsize - 1 - blen str)) else str in
    let ct := c_enc P h1 plain in
    let h2 := OpData ct :: h1 in
    let encval := Z.of_N (import_be (c_plus :: ct)) in
    let estr := encode62 encval in
    let bufsize2 := (sizeinbase62 encval + 2 + (if ctr_mode c then sizeinbase62 chunk' + 2 else 0))%Z in
    if negb ((0 <? blen estr)%Z && (blen estr <? bufsize2)%Z) then None else
    let line := if ctr_mode c then estr ++ bar :: encode62 chunk' ++ [c_nl] else estr ++ [c_nl] in
    let ivpart := if s_iv_sent st then [] else iv in
    let tag := if auth c then mac P (line ++ encode62 (s_sqn st)) else [] in
    Some (ivpart ++ line ++ tag,
          {| s_iv_sent := true; s_sqn := if auth c then (s_sqn st + 1)%Z else s_sqn st;
             s_chunk := chunk'; s_hist := h2 |})
  else
    let line := str ++ [c_nl] in
    let tag := if auth c then mac P (line ++ encode62 (s_sqn st)) else [] in
    Some (line ++ tag,
          {| s_iv_sent := s_iv_sent st; s_sqn := if auth c then (s_sqn st + 1)%Z else s_sqn st;
             s_chunk := s_chunk st; s_hist := s_hist st |}).

(* several Send calls in a row: concatenated wire bytes; None as soon as one Send refuses *)
Fixpoint send_all (P : prims) (c : cfg) (iv : bytes) (st : sstate) (ms : list Z) : option (bytes * sstate) :=
  match ms with
  | [] => Some ([], st)
  | m :: r =>
    match send P c iv st m with
    | Some (w, st1) => match send_all P c iv st1 r with Some (w', st2) => Some (w ++ w', st2) | None => None end
    | None => None
    end
  end.

(* array Send: the elements, then (select, chunked) the array delimiter *)
Definition send_array (P : prims) (c : cfg) (iv : bytes) (st : sstate) (ms : list Z) : option (bytes * sstate) :=
  send_all P c iv st (if ctr_mode c then ms ++ [array_delimiter] else ms).

(* initial sender state: the constructor has set the IV on enc_out in CFB mode *)
Definition sstate0 (c : cfg) (iv : bytes) : sstate :=
  {| s_iv_sent := false; s_sqn := 1; s_chunk := 0;
     s_hist := if encr c && negb (ctr_mode c) then [OpIV iv] else [] |}.

(* ---- receiver --------------------------------------------------------------------------------- *)
Record rstate := {
  r_buf   : bytes;      (* buf_in[0 .. buf_ptr) *)
  r_flag  : bool;       (* buf_flag *)
  r_iv    : bool;       (* iv_flag_in *)
  r_sqn   : Z;          (* mac_sqn_in, starts at 1 *)
  r_chunk : Z;          (* chunk_in *)
  r_bad   : bool;       (* bad_auth *)
  r_hist  : chist       (* history of enc_in *)
}.

Definition rstate0 : rstate :=
  {| r_buf := []; r_flag := false; r_iv := false; r_sqn := 1; r_chunk := 0; r_bad := false; r_hist := [] |}.

(* what one parse attempt of Receive does with a complete record *)
Inductive outcome :=
| Deliver (m : Z)    (* Receive returns true with this value *)
| Reject             (* record consumed, Receive returns false *)
| Stall.             (* MAC failure with sequence number <> 1: nothing consumed, Receive returns false *)

(* the part of the receiver state a record changes, apart from the buffer *)
Record rcore := { k_sqn : Z; k_chunk : Z; k_bad : bool; k_hist : chist }.

(* body of the record after the MAC check: decrypt (if enabled) and convert *)
Definition open_line (P : prims) (c : cfg) (nonce : bytes) (k : rcore) (line : bytes) : outcome * rcore :=
  if encr c then
    (* chunked: look for '|' , read the counter behind it, set the counter block, cut the line there *)
    let pre :=
      if ctr_mode c then
        match split_at bar line with
        | Some (body, cnt) =>
          match decode62 cnt with
          | None => inl k
          | Some cv =>
            if (Z.of_nat (blklen P) <? sizeinbase62 cv)%Z then inl k
            else
              let k1 := {| k_sqn := k_sqn k; k_chunk := k_chunk k; k_bad := k_bad k;
                           k_hist := OpCtr (ctr_block nonce cv) :: k_hist k |} in
              if (cv =? 0)%Z then inl k1
              else inr (body, {| k_sqn := k_sqn k1; k_chunk := cv; k_bad := k_bad k1; k_hist := k_hist k1 |})
          end
        | None => inl k                       (* chunkval stays 0: "no chunkval found" *)
        end
      else inr (line, k) in
    match pre with
    | inl k' => (Reject, k')
    | inr (body, k1) =>
      match decode62 body with
      | None => (Reject, k1)
      | Some encval =>
        match export_be (Z.abs_N encval) with
        | b0 :: ((_ :: _) as ct) =>
          if negb (b0 =? c_plus)%N then (Reject, k1)
          else
            let pt := c_dec P (k_hist k1) ct in
            let k2 := {| k_sqn := k_sqn k1; k_chunk := k_chunk k1; k_bad := k_bad k1;
                         k_hist := OpData ct :: k_hist k1 |} in
            match decode62 pt with
            | None => (Reject, k2)
            | Some v => if (v <? hide_length)%Z then (Reject, k2) else (Deliver (v - hide_length), k2)
            end
        | _ => (Reject, k1)                   (* realsize < 2 *)
        end
      end
    end
  else
    match decode62 line with
    | None => (Reject, k)
    | Some v => (Deliver v, k)
    end.

(* MAC check, then open_line.  `line` excludes the newline. *)
Definition process_record (P : prims) (c : cfg) (nonce : bytes) (k : rcore) (line tag : bytes) : outcome * rcore :=
  if auth c then
    if bytes_eqb (mac P (line ++ c_nl :: encode62 (k_sqn k))) tag then
      open_line P c nonce
        {| k_sqn := (k_sqn k + 1)%Z; k_chunk := k_chunk k; k_bad := false; k_hist := k_hist k |} line
    else
      let k' := {| k_sqn := k_sqn k; k_chunk := k_chunk k; k_bad := true; k_hist := k_hist k |} in
      if (k_sqn k =? 1)%Z then (Reject, k') else (Stall, k')
  else open_line P c nonce k line.

Definition core_of (st : rstate) : rcore :=
  {| k_sqn := r_sqn st; k_chunk := r_chunk st; k_bad := r_bad st; k_hist := r_hist st |}.

(* first complete record of a byte string: (line, tag, rest) *)
Definition first_record (ml : nat) (s : bytes) : option (bytes * bytes * bytes) :=
  match find_nl s with
  | Some p =>
    if (p + 1 + ml <=? length s)%nat
    then Some (firstn p s, firstn ml (skipn (S p) s), skipn (S p + ml) s)
    else None
  | None => None
  end.

(* the parse attempt at the top of a Receive round (buf_flag is set).
   None: no complete record buffered (the code clears buf_flag and goes on to read). *)
Definition recv_parse (P : prims) (c : cfg) (nonce : bytes) (st : rstate) : option (outcome * rstate) :=
  match first_record (eff_maclen P c) (r_buf st) with
  | Some (line, tag, rest) =>
    let (o, k) := process_record P c nonce (core_of st) line tag in
    match o with
    | Stall => Some (Stall, {| r_buf := r_buf st; r_flag := r_flag st; r_iv := r_iv st; r_sqn := k_sqn k;
                               r_chunk := k_chunk k; r_bad := k_bad k; r_hist := k_hist k |})
    | _ => Some (o, {| r_buf := rest; r_flag := match rest with [] => false | _ => r_flag st end; r_iv := r_iv st;
                       r_sqn := k_sqn k; r_chunk := k_chunk k; r_bad := k_bad k; r_hist := k_hist k |})
    end
  | None => None
  end.

(* the read(2) part of a round: `pipe` = bytes the descriptor can deliver now; at most buf_in_size - buf_ptr are taken;
   the first blklen bytes of an encrypted link are the IV *)
Definition recv_read (P : prims) (c : cfg) (st : rstate) (pipe : bytes) : rstate * bytes :=
  let room := Z.to_nat (buf_in_size - blen (r_buf st)) in
  let got := firstn room pipe in
  let rest := skipn room pipe in
  match got with
  | [] => (st, rest)                         (* nothing readable / buffer full: no change *)
  | _ =>
    let buf1 := r_buf st ++ got in
    if encr c then
      if negb (r_iv st) && (blklen P <=? length buf1)%nat then
        let buf2 := skipn (blklen P) buf1 in
        ({| r_buf := buf2; r_flag := match buf2 with [] => r_flag st | _ => true end; r_iv := true;
            r_sqn := r_sqn st; r_chunk := r_chunk st; r_bad := r_bad st;
            r_hist := if ctr_mode c then r_hist st else OpIV (firstn (blklen P) buf1) :: r_hist st |}, rest)
      else
        ({| r_buf := buf1; r_flag := if r_iv st then true else r_flag st; r_iv := r_iv st;
            r_sqn := r_sqn st; r_chunk := r_chunk st; r_bad := r_bad st; r_hist := r_hist st |}, rest)
    else
      ({| r_buf := buf1; r_flag := true; r_iv := r_iv st;
          r_sqn := r_sqn st; r_chunk := r_chunk st; r_bad := r_bad st; r_hist := r_hist st |}, rest)
  end.

Definition clear_flag (st : rstate) : rstate :=
  {| r_buf := r_buf st; r_flag := false; r_iv := r_iv st; r_sqn := r_sqn st; r_chunk := r_chunk st;
     r_bad := r_bad st; r_hist := r_hist st |}.

(* one Receive call on a one-link endpoint with timeout 0 (one round): returns the outcome of a parse
   (None = the call came back with "nothing", i.e. false after the read), the new state and what is left in the pipe *)
Definition recv_call (P : prims) (c : cfg) (nonce : bytes) (st : rstate) (pipe : bytes)
  : option outcome * rstate * bytes :=
  if r_flag st then
    match recv_parse P c nonce st with
    | Some (o, st') => (Some o, st', pipe)
    | None => let (st', pipe') := recv_read P c (clear_flag st) pipe in (None, st', pipe')
    end
  else let (st', pipe') := recv_read P c st pipe in (None, st', pipe').

(* a schedule of the transport and the caller: bytes arriving at the descriptor, Receive calls *)
Inductive event := Feed (chunk : bytes) | Call.

Fixpoint run (P : prims) (c : cfg) (nonce : bytes) (st : rstate) (pipe : bytes) (evs : list event)
  : list (option outcome) * rstate * bytes :=
  match evs with
  | [] => ([], st, pipe)
  | Feed ch :: r => run P c nonce st (pipe ++ ch) r
  | Call :: r =>
    let '(o, st1, pipe1) := recv_call P c nonce st pipe in
    let '(os, st2, pipe2) := run P c nonce st1 pipe1 r in
    (o :: os, st2, pipe2)
  end.

Fixpoint delivered (os : list (option outcome)) : list Z :=
  match os with
  | [] => []
  | Some (Deliver m) :: r => m :: delivered r
  | _ :: r => delivered r
  end.

Fixpoint fed (evs : list event) : bytes :=
  match evs with [] => [] | Feed ch :: r => ch ++ fed r | Call :: r => fed r end.

(* ---- what a byte stream means, independent of any schedule ------------------------------------- *)
(* messages delivered from a stream of records (IV already taken): parse record after record, stop at a Stall *)
Fixpoint stream_records (P : prims) (c : cfg) (nonce : bytes) (fuel : nat) (k : rcore) (s : bytes) : list Z :=
  match fuel with
  | O => []
  | S f =>
    match first_record (eff_maclen P c) s with
    | Some (line, tag, rest) =>
      let (o, k') := process_record P c nonce k line tag in
      match o with
      | Deliver m => m :: stream_records P c nonce f k' rest
      | Reject => stream_records P c nonce f k' rest
      | Stall => []
      end
    | None => []
    end
  end.

(* the whole stream as seen by a receiver in state st with r_buf st = [] : IV first on an encrypted link *)
Definition stream_deliveries (P : prims) (c : cfg) (nonce : bytes) (st : rstate) (s : bytes) : list Z :=
  let s' := r_buf st ++ s in
  if encr c && negb (r_iv st) then
    if (blklen P <=? length s')%nat then
      let k := core_of st in
      let k1 := {| k_sqn := k_sqn k; k_chunk := k_chunk k; k_bad := k_bad k;
                   k_hist := if ctr_mode c then k_hist k else OpIV (firstn (blklen P) s') :: k_hist k |} in
      stream_records P c nonce (S (length s')) k1 (skipn (blklen P) s')
    else []
  else stream_records P c nonce (S (length s')) (core_of st) s'.

(* ---- array Receive: per-sender queue buf_mpz ----------------------------------------------------- *)
(* the delivery test at the top of the array Receive loop (select variant), k = m.size().
   Some (Some vs, q') : returns true with vs;  Some (None, q') : nothing returned in this iteration, queue now q'
   (out-of-order handling);  None : not enough elements queued. *)
Fixpoint reinsert (vs_rev : list Z) (found : bool) (q : list Z) : bool * list Z :=
  match vs_rev with
  | [] => (found, q)
  | v :: r =>
    if found then reinsert r true q
    else if (v =? array_delimiter)%Z then reinsert r true q
    else reinsert r false (v :: q)
  end.

Definition array_take (c : cfg) (k : nat) (q : list Z) : option (option (list Z) * list Z) :=
  if ctr_mode c then
    if (k + 1 <=? length q)%nat then
      let vs := firstn k q in
      let q1 := skipn k q in
      match q1 with
      | d :: q2 =>
        if (d =? array_delimiter)%Z then Some (Some vs, q2)
        else
          let (found, q3) := reinsert (rev vs) false q1 in
          if found then Some (None, q3) else Some (None, skipn k q3)
      | [] => None
      end
    else None
  else
    if (k <=? length q)%nat then Some (Some (firstn k q), skipn k q) else None.
