(* AioLemmas: proofs about AioModel, part 1 -- fragmentation: what a receiver delivers depends only on the byte stream. *)
From Coq Require Import ZArith NArith List Bool Lia.
From LT Require Import gen_Consts CodecModel CodecLemmas AioModel.
Import ListNotations.

(* ---- small list facts ----------------------------------------------------------------------- *)
Lemma skipn_skipn {A} x y (l : list A) : skipn x (skipn y l) = skipn (x + y) l.
Proof.
  revert l. induction y as [|y IH]; intros l.
  - now rewrite Nat.add_0_r.
  - destruct l; [now rewrite !skipn_nil|]. rewrite Nat.add_succ_r. cbn [skipn]. apply IH.
Qed.

Lemma find_nl_app b x p : find_nl b = Some p -> find_nl (b ++ x) = Some p.
Proof.
  revert p. induction b as [|c r IH]; intros p H; [discriminate|].
  cbn [find_nl app] in *. destruct (c =? c_nl)%N; [assumption|].
  destruct (find_nl r) as [q|]; [|discriminate]. injection H as <-. now rewrite (IH q eq_refl).
Qed.

Lemma find_nl_lt b p : find_nl b = Some p -> (p < length b)%nat.
Proof.
  revert p. induction b as [|c r IH]; intros p H; [discriminate|].
  cbn [find_nl] in H. destruct (c =? c_nl)%N.
  - injection H as <-. cbn. lia.
  - destruct (find_nl r) as [q|]; [|discriminate]. injection H as <-. specialize (IH q eq_refl). cbn. lia.
Qed.

(* the bytes before the first newline contain none, and the byte there is the newline *)
Lemma find_nl_split b p : find_nl b = Some p ->
  b = firstn p b ++ c_nl :: skipn (S p) b /\ Forall (fun x => x <> c_nl) (firstn p b).
Proof.
  revert p. induction b as [|c r IH]; intros p H; [discriminate|].
  cbn [find_nl] in H. destruct (N.eqb_spec c c_nl) as [->|Hc].
  - injection H as <-. cbn. split; [reflexivity|constructor].
  - destruct (find_nl r) as [q|]; [|discriminate]. injection H as <-.
    destruct (IH q eq_refl) as [E F]. cbn [firstn skipn app]. split.
    + f_equal. exact E.
    + constructor; assumption.
Qed.

Lemma find_nl_none_app line r : Forall (fun x => x <> c_nl) line -> find_nl (line ++ c_nl :: r) = Some (length line).
Proof.
  induction 1 as [|c l Hc _ IH]; cbn [app find_nl length].
  - now rewrite N.eqb_refl.
  - destruct (N.eqb_spec c c_nl); [contradiction|]. now rewrite IH.
Qed.

Lemma first_record_app ml b x l t r :
  first_record ml b = Some (l, t, r) -> first_record ml (b ++ x) = Some (l, t, r ++ x).
Proof.
  unfold first_record. destruct (find_nl b) as [p|] eqn:E; [|discriminate].
  rewrite (find_nl_app _ x _ E).
  destruct (Nat.leb_spec (p + 1 + ml) (length b)) as [L|L]; [|discriminate].
  intros H. assert (El : l = firstn p b) by congruence. assert (Et : t = firstn ml (skipn (S p) b)) by congruence.
  assert (Er : r = skipn (S p + ml) b) by congruence. clear H. subst l t r.
  rewrite app_length. destruct (Nat.leb_spec (p + 1 + ml) (length b + length x)); [|lia].
  f_equal. f_equal; [f_equal|].
  - rewrite firstn_app. replace (p - length b)%nat with O by lia. rewrite firstn_O. now rewrite app_nil_r.
  - rewrite skipn_app. replace (S p - length b)%nat with O by lia. rewrite skipn_O.
    rewrite firstn_app. rewrite skipn_length. replace (ml - (length b - S p))%nat with O by lia.
    rewrite firstn_O. now rewrite app_nil_r.
  - rewrite skipn_app. replace (S p + ml - length b)%nat with O by lia. reflexivity.
Qed.

Lemma first_record_shorter ml b l t r : first_record ml b = Some (l, t, r) -> (length r < length b)%nat.
Proof.
  unfold first_record. destruct (find_nl b) as [p|] eqn:E; [|discriminate].
  destruct (Nat.leb_spec (p + 1 + ml) (length b)) as [L|L]; [|discriminate].
  intros H. assert (Er : r = skipn (S p + ml) b) by congruence. subst r. rewrite skipn_length. lia.
Qed.

(* a complete record is the front of the string: line, newline, tag, rest *)
Lemma first_record_decomp ml b l t r : first_record ml b = Some (l, t, r) ->
  b = l ++ c_nl :: t ++ r /\ Forall (fun x => x <> c_nl) l /\ length t = ml.
Proof.
  unfold first_record. destruct (find_nl b) as [p|] eqn:E; [|discriminate].
  destruct (Nat.leb_spec (p + 1 + ml) (length b)) as [L|L]; [|discriminate].
  intros H. assert (El : l = firstn p b) by congruence. assert (Et : t = firstn ml (skipn (S p) b)) by congruence.
  assert (Er : r = skipn (S p + ml) b) by congruence. clear H. subst l t r.
  destruct (find_nl_split _ _ E) as [SP F]. split; [|split].
  - rewrite SP at 1. f_equal. f_equal.
    replace (S p + ml)%nat with (ml + S p)%nat by lia. rewrite <- skipn_skipn.
    now rewrite firstn_skipn.
  - exact F.
  - rewrite firstn_length, skipn_length. lia.
Qed.

Lemma first_record_build ml l t r : Forall (fun x => x <> c_nl) l -> length t = ml ->
  first_record ml (l ++ c_nl :: t ++ r) = Some (l, t, r).
Proof.
  intros F <-. unfold first_record. rewrite find_nl_none_app by assumption.
  rewrite !app_length. cbn [length]. rewrite app_length.
  destruct (Nat.leb_spec (length l + 1 + length t) (length l + S (length t + length r))); [|lia].
  f_equal. f_equal; [f_equal|].
  - rewrite firstn_app, Nat.sub_diag, firstn_all. cbn. now rewrite app_nil_r.
  - replace (S (length l)) with (1 + length l)%nat by lia. rewrite <- skipn_skipn.
    rewrite skipn_app, Nat.sub_diag, skipn_all. cbn [app skipn].
    rewrite firstn_app, Nat.sub_diag, firstn_all. cbn. now rewrite app_nil_r.
  - replace (S (length l) + length t)%nat with (length t + (1 + length l))%nat by lia.
    rewrite <- skipn_skipn. rewrite <- (skipn_skipn 1 (length l)).
    rewrite skipn_app, Nat.sub_diag, skipn_all. cbn [app skipn].
    rewrite skipn_app, Nat.sub_diag, skipn_all. reflexivity.
Qed.

Section Frag.
Variable P : prims.
Variable c : cfg.
Variable nonce : bytes.

Notation records := (stream_records P c nonce).
Notation deliveries := (stream_deliveries P c nonce).

(* fuel beyond the length of the string changes nothing *)
Lemma records_fuel f1 : forall f2 k s, (length s < f1)%nat -> (length s < f2)%nat -> records f1 k s = records f2 k s.
Proof.
  induction f1 as [|f1 IH]; intros f2 k s H1 H2; [lia|].
  destruct f2 as [|f2]; [lia|]. cbn [stream_records].
  destruct (first_record (eff_maclen P c) s) as [[[l t] r]|] eqn:E; [|reflexivity].
  pose proof (first_record_shorter _ _ _ _ _ E).
  destruct (process_record P c nonce k l t) as [o k'].
  destruct o; [f_equal| |reflexivity]; apply IH; lia.
Qed.

(* a Stall repeats: the MAC check depends on the sequence number only *)
Lemma process_stall k l t k' : process_record P c nonce k l t = (Stall, k') -> process_record P c nonce k' l t = (Stall, k').
Proof.
  unfold process_record. destruct (auth c) eqn:A.
  - destruct (bytes_eqb _ t) eqn:M.
    + unfold open_line. intros H. exfalso.
      repeat match type of H with
             | (if ?b then _ else _) = _ => destruct b
             | match ?x with _ => _ end = _ => destruct x
             | (let (_, _) := ?x in _) = _ => destruct x
             end; try discriminate.
    + destruct (Z.eqb_spec (k_sqn k) 1); [discriminate|]. intros H. injection H as <-. cbn [k_sqn].
      rewrite M. destruct (Z.eqb_spec (k_sqn k) 1); [contradiction|]. reflexivity.
  - unfold open_line. intros H. exfalso.
    repeat match type of H with
           | (if ?b then _ else _) = _ => destruct b
           | match ?x with _ => _ end = _ => destruct x
           | (let (_, _) := ?x in _) = _ => destruct x
           end; try discriminate.
Qed.

(* receiver states that can occur: before the IV has been taken nothing is parsed and the buffer is short *)
Definition wf (st : rstate) : Prop :=
  encr c = true -> r_iv st = false -> (length (r_buf st) < blklen P)%nat /\ r_flag st = false.

Definition dlist (o : option outcome) : list Z := match o with Some (Deliver m) => [m] | _ => [] end.

Lemma deliveries_iv_done st s : (encr c = false \/ r_iv st = true) ->
  deliveries st s = records (S (length (r_buf st ++ s))) (core_of st) (r_buf st ++ s).
Proof.
  intros H. unfold stream_deliveries. destruct H as [-> | ->]; [reflexivity|]. now rewrite andb_false_r.
Qed.

Lemma parse_step st o st' s : wf st -> r_flag st = true -> recv_parse P c nonce st = Some (o, st') ->
  deliveries st s = dlist (Some o) ++ deliveries st' s /\ wf st'.
Proof.
  intros W F H.
  assert (IVd : encr c = false \/ r_iv st = true).
  { destruct (encr c) eqn:E; [|now left]. right. destruct (r_iv st) eqn:I; [reflexivity|].
    destruct (W E I) as [_ F']. congruence. }
  unfold recv_parse in H.
  destruct (first_record (eff_maclen P c) (r_buf st)) as [[[l t] r]|] eqn:E; [|discriminate].
  destruct (process_record P c nonce (core_of st) l t) as [o1 k] eqn:PR.
  pose proof (first_record_app _ _ s _ _ _ E) as E2.
  rewrite (deliveries_iv_done st s IVd). cbn [stream_records]. rewrite E2, PR.
  assert (Wn : forall b fl, wf {| r_buf := b; r_flag := fl; r_iv := r_iv st; r_sqn := k_sqn k; r_chunk := k_chunk k;
                               r_bad := k_bad k; r_hist := k_hist k |}).
  { intros b fl He Hi. cbn in Hi. destruct IVd; congruence. }
  destruct k as [ks kc kb kh]. cbn [k_sqn k_chunk k_bad k_hist] in *.
  destruct o1; injection H as <- <-.
  - split; [|apply Wn]. cbn [dlist app]. f_equal.
    rewrite deliveries_iv_done by (cbn; assumption). unfold core_of. cbn [r_buf r_sqn r_chunk r_bad r_hist].
    pose proof (first_record_shorter _ _ _ _ _ E2).
    apply records_fuel; lia.
  - split; [|apply Wn]. cbn [dlist app].
    rewrite deliveries_iv_done by (cbn; assumption). unfold core_of. cbn [r_buf r_sqn r_chunk r_bad r_hist].
    pose proof (first_record_shorter _ _ _ _ _ E2).
    apply records_fuel; lia.
  - split; [|apply Wn]. cbn [dlist app].
    rewrite deliveries_iv_done by (cbn; assumption). unfold core_of at 1. cbn [r_buf r_sqn r_chunk r_bad r_hist stream_records].
    rewrite E2.
    now rewrite (process_stall _ _ _ _ PR).
Qed.

Lemma firstn_nil_skipn {A} n (l : list A) : firstn n l = [] -> skipn n l = l.
Proof. destruct n, l; cbn; try reflexivity; discriminate. Qed.

Lemma read_step st pipe st' pipe' fut : wf st -> recv_read P c st pipe = (st', pipe') ->
  deliveries st (pipe ++ fut) = deliveries st' (pipe' ++ fut) /\ wf st'.
Proof.
  intros W H. unfold recv_read in H.
  set (room := Z.to_nat (buf_in_size - blen (r_buf st))) in *.
  pose proof (firstn_skipn room pipe) as FS.
  destruct (firstn room pipe) as [|g0 gr] eqn:G.
  - injection H as <- <-. rewrite (firstn_nil_skipn _ _ G). split; [reflexivity|assumption].
  - set (got := g0 :: gr) in *.
    assert (R : r_buf st ++ pipe ++ fut = (r_buf st ++ got) ++ skipn room pipe ++ fut).
    { rewrite <- FS at 1. now rewrite <- !app_assoc. }
    destruct (encr c) eqn:E.
    + destruct (r_iv st) eqn:I; cbn [negb andb] in H.
      * injection H as <- <-. split.
        -- rewrite !deliveries_iv_done by (cbn; auto). cbn [r_buf core_of r_sqn r_chunk r_bad r_hist].
           rewrite <- R. reflexivity.
        -- intros _ Hi. discriminate.
      * destruct (Nat.leb_spec (blklen P) (length (r_buf st ++ got))) as [L|L].
        -- injection H as <- <-. split.
           ++ unfold stream_deliveries at 1. rewrite E, I. cbn [negb andb].
              rewrite R.
              destruct (Nat.leb_spec (blklen P) (length ((r_buf st ++ got) ++ skipn room pipe ++ fut))) as [L2|L2];
                [|rewrite app_length in L2; lia].
              rewrite deliveries_iv_done by (cbn; auto).
              cbn [r_buf core_of r_sqn r_chunk r_bad r_hist k_sqn k_chunk k_bad k_hist].
              rewrite firstn_app. replace (blklen P - length (r_buf st ++ got))%nat with O by lia.
              cbn [firstn]. rewrite app_nil_r.
              rewrite skipn_app. replace (blklen P - length (r_buf st ++ got))%nat with O by lia.
              cbn [skipn].
              apply records_fuel; [|lia].
              rewrite !app_length, skipn_length. rewrite !app_length. lia.
           ++ intros _ Hi. discriminate.
        -- injection H as <- <-. split.
           ++ unfold stream_deliveries. rewrite E. cbn [r_iv r_buf]. rewrite I. cbn [negb andb].
              rewrite <- R. reflexivity.
           ++ intros _ _. cbn [r_buf r_flag]. split; [assumption|].
              destruct (W E I) as [_ F]. exact F.
    + injection H as <- <-. split.
      * rewrite !deliveries_iv_done by (left; assumption). cbn [r_buf core_of r_sqn r_chunk r_bad r_hist].
        rewrite <- R. reflexivity.
      * intros He. congruence.
Qed.

Lemma wf_clear st : wf st -> wf (clear_flag st).
Proof. intros W E I. destruct (W E I) as [L _]. split; [exact L|reflexivity]. Qed.

Lemma deliveries_clear st s : deliveries (clear_flag st) s = deliveries st s.
Proof. reflexivity. Qed.

(* one Receive call: what the remaining stream means = what this call delivered ++ what it means afterwards *)
Lemma call_step st pipe o st' pipe' fut : wf st -> recv_call P c nonce st pipe = (o, st', pipe') ->
  deliveries st (pipe ++ fut) = dlist o ++ deliveries st' (pipe' ++ fut) /\ wf st'.
Proof.
  intros W H. unfold recv_call in H. destruct (r_flag st) eqn:F.
  - destruct (recv_parse P c nonce st) as [[o1 st1]|] eqn:PA.
    + injection H as <- <- <-. eapply parse_step; eassumption.
    + destruct (recv_read P c (clear_flag st) pipe) as [st1 p1] eqn:RD. injection H as <- <- <-.
      destruct (read_step _ _ _ _ fut (wf_clear _ W) RD) as [D W1]. split; [|exact W1].
      cbn [dlist app]. rewrite <- D. reflexivity.
  - destruct (recv_read P c st pipe) as [st1 p1] eqn:RD. injection H as <- <- <-.
    destruct (read_step _ _ _ _ fut W RD) as [D W1]. split; [|exact W1]. exact D.
Qed.

Lemma delivered_cons o os : delivered (o :: os) = dlist o ++ delivered os.
Proof. destruct o as [[m| |]|]; reflexivity. Qed.

(* fragmentation invariance: for EVERY schedule of arrivals and Receive calls, the values delivered so far followed
   by what the leftover state and pipe still mean are exactly what the concatenated byte stream means *)
Theorem frag_invariant evs : forall st pipe os st' pipe', wf st ->
  run P c nonce st pipe evs = (os, st', pipe') ->
  deliveries st (pipe ++ fed evs) = delivered os ++ deliveries st' pipe' /\ wf st'.
Proof.
  induction evs as [|e r IH]; intros st pipe os st' pipe' W H.
  - cbn in H. injection H as <- <- <-. cbn [fed delivered app]. rewrite app_nil_r. auto.
  - destruct e as [ch|].
    + cbn [run fed] in *. rewrite app_assoc. eapply IH; eassumption.
    + cbn [run fed] in *.
      destruct (recv_call P c nonce st pipe) as [[o st1] p1] eqn:CS.
      destruct (run P c nonce st1 p1 r) as [[os2 st2] p2] eqn:RN.
      injection H as <- <- <-.
      destruct (call_step _ _ _ _ _ (fed r) W CS) as [D W1].
      destruct (IH _ _ _ _ _ W1 RN) as [D2 W2]. split; [|exact W2].
      rewrite D, D2, delivered_cons. now rewrite app_assoc.
Qed.

(* a receiver that has read everything and holds no complete record has nothing more to deliver *)
Lemma settled st : wf st -> first_record (eff_maclen P c) (r_buf st) = None -> deliveries st [] = [].
Proof.
  intros W H. unfold stream_deliveries. rewrite app_nil_r.
  destruct (encr c) eqn:E; cbn [andb].
  - destruct (r_iv st) eqn:I; cbn [negb].
    + cbn [stream_records]. now rewrite H.
    + destruct (W E I) as [L _]. destruct (Nat.leb_spec (blklen P) (length (r_buf st))); [lia|reflexivity].
  - cbn [stream_records]. now rewrite H.
Qed.

Lemma wf0 : (0 < blklen P)%nat -> wf rstate0.
Proof. intros B _ _. cbn. auto. Qed.

End Frag.
