From Coq Require Import Extraction ExtrOcamlBasic.
From LT Require Import CoinFlipModel CoinFlipNModel.
Extraction "model.ml" flip2 script_peer commit check_element fspowm extract_log flipN_complaint flipN_share flipN_sum flipN_party dealer_qualified final_share my_complaint matches complaint_set.
