From Coq Require Import Extraction ExtrOcamlBasic.
From LT Require Import CoinFlipModel.
Extraction "model.ml" flip2 script_peer commit check_element fspowm extract_log flipN_complaint flipN_share flipN_sum.
