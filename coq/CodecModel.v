(* CodecModel: executable model of the textual transport encoding (C11, shared with C02/C12).
   Anchors: src/mpz_helper.cc (operator<< / >> for mpz: base-62 via mpz_get_str / mpz_set_str),
            src/parse_helper.cc (cm, nx, gs), src/VTMF_Card.cc, src/VTMF_CardSecret.cc, src/TMCG_Card.cc,
            src/TMCG_CardSecret.cc, src/TMCG_Stack.hh, src/TMCG_StackSecret.hh.
   Text is `list N` (bytes).  Definitions only -- proofs live in CodecLemmas.v. *)
From Coq Require Import ZArith NArith List Bool.
From LT Require Import gen_Consts.
Import ListNotations.
Local Open Scope N_scope.

Definition bytes := list N.

(* ---- digits --------------------------------------------------------------------------- *)
(* GMP digit alphabet for bases 37..62: 0-9, A-Z, a-z *)
Definition digit_char (d : N) : N :=
  if d <? 10 then 48 + d else if d <? 36 then 55 + d else 61 + d.

(* GMP's digit_value table for bases > 36; 255 = not a digit *)
Definition char_digit (c : N) : N :=
  if (48 <=? c) && (c <=? 57) then c - 48
  else if (65 <=? c) && (c <=? 90) then c - 55
  else if (97 <=? c) && (c <=? 122) then c - 61
  else 255.

(* decimal digits as strtoul sees them *)
Definition char_digit10 (c : N) : N := if (48 <=? c) && (c <=? 57) then c - 48 else 255.

Definition is_space (c : N) : bool :=   (* C isspace in the "C" locale *)
  (c =? 32) || ((9 <=? c) && (c <=? 13)).

Fixpoint to_digits_fuel (b : N) (fuel : nat) (n : N) (acc : list N) : list N :=
  match fuel with
  | O => acc
  | S f => if n =? 0 then acc else to_digits_fuel b f (n / b) (n mod b :: acc)
  end.

(* most significant digit first; "0" for zero *)
Definition to_digits (b : N) (n : N) : list N :=
  if n =? 0 then [0] else to_digits_fuel b (S (N.to_nat (N.size n))) n [].

Definition from_digits (b : N) (ds : list N) : N := fold_left (fun a d => a * b + d) ds 0.

(* ---- mpz_get_str(base 62) / operator<< ------------------------------------------------- *)
Definition encode62 (z : Z) : bytes :=
  match z with
  | Z0 => [48]
  | Zpos p => map digit_char (to_digits 62 (Npos p))
  | Zneg p => 45 :: map digit_char (to_digits 62 (Npos p))
  end.

(* ---- mpz_set_str(base 62): C string semantics (stops at NUL), leading white space skipped,
        optional '-', first character after that must be a digit, white space inside ignored,
        any other character is an error (-1) -------------------------------------------------- *)
Fixpoint cstr (s : bytes) : bytes :=
  match s with [] => [] | c :: r => if c =? 0 then [] else c :: cstr r end.

Fixpoint drop_space (s : bytes) : bytes :=
  match s with [] => [] | c :: r => if is_space c then drop_space r else s end.

Definition all_digits (b : N) (s : bytes) : bool := forallb (fun c => char_digit c <? b) s.

Definition decode_mag (b : N) (s : bytes) : option N :=
  match s with
  | [] => None
  | c :: _ =>
    if char_digit c <? b then
      let t := filter (fun c => negb (is_space c)) s in
      if all_digits b t then Some (from_digits b (map char_digit t)) else None
    else None
  end.

Definition decode62 (s0 : bytes) : option Z :=
  let s := drop_space (cstr s0) in
  match s with
  | c :: r =>
    if c =? 45 then match decode_mag 62 r with Some n => Some (- Z.of_N n)%Z | None => None end
    else match decode_mag 62 s with Some n => Some (Z.of_N n) | None => None end
  | [] => None
  end.

(* ---- size_t printing and strtoul(…, &ec, 10) followed by the `*ec != '\0'` test ---------- *)
Definition encode_dec (n : N) : bytes := map digit_char (to_digits 10 n).

Definition ulong_max : N := 18446744073709551615.

(* Some v  = whole C string consumed and value v;  None = the callers' `*ec != 0` refusal.
   Empty string: no conversion, ec = start, *ec = 0  ->  value 0 is used. *)
Definition strip_sign (t : bytes) : bool * bytes :=
  match t with
  | c :: r => if c =? 45 then (true, r) else if c =? 43 then (false, r) else (false, t)
  | [] => (false, t)
  end.

Definition strtoul_full (s0 : bytes) : option N :=
  let s := cstr s0 in
  match s with
  | [] => Some 0
  | _ =>
    let nu := strip_sign (drop_space s) in
    match snd nu with
    | [] => None
    | u =>
      if forallb (fun c => char_digit10 c <? 10) u then
        let v := from_digits 10 (map char_digit10 u) in
        if ulong_max <? v then Some ulong_max
        else if fst nu then Some ((ulong_max + 1 - v) mod (ulong_max + 1)) else Some v
      else None
    end
  end.

(* ---- TMCG_ParseHelper -------------------------------------------------------------------- *)
Fixpoint split_at (p : N) (s : bytes) : option (bytes * bytes) :=   (* (before first p, after it) *)
  match s with
  | [] => None
  | c :: r => if c =? p then Some ([], r)
              else match split_at p r with Some (a, b) => Some (c :: a, b) | None => None end
  end.

Definition bytes_eqb (a b : bytes) : bool :=
  (Nat.eqb (length a) (length b)) && forallb (fun xy => fst xy =? snd xy) (combine a b).

(* cm: magic check, returns the rest *)
Definition cm (s c : bytes) (p : N) : option bytes :=
  match split_at p s with
  | Some (a, r) => if bytes_eqb a c then Some r else None
  | None => None
  end.
(* gs followed by nx with the same delimiter: field and rest *)
Definition field (s : bytes) (p : N) : option (bytes * bytes) := split_at p s.

Definition bar : N := 124.    (* '|' *)
Definition hat : N := 94.     (* '^' *)
Definition magic_crd : bytes := [99; 114; 100].
Definition magic_crs : bytes := [99; 114; 115].
Definition magic_stk : bytes := [115; 116; 107].
Definition magic_sts : bytes := [115; 116; 115].

(* read n base-62 fields delimited by '|' *)
Fixpoint read_fields (n : nat) (s : bytes) : option (list Z * bytes) :=
  match n with
  | O => Some ([], s)
  | S m =>
    match field s bar with
    | Some (f, r) =>
      match decode62 f with
      | Some z => match read_fields m r with Some (zs, r') => Some (z :: zs, r') | None => None end
      | None => None
      end
    | None => None
    end
  end.

Definition write_fields (zs : list Z) : bytes := concat (map (fun z => encode62 z ++ [bar]) zs).

(* ---- VTMF_Card:  crd|c_1|c_2| ---------------------------------------------------------------- *)
Definition export_vcard (c : Z * Z) : bytes := magic_crd ++ [bar] ++ write_fields [fst c; snd c].
Definition import_vcard (s : bytes) : option (Z * Z) :=
  match cm s magic_crd bar with
  | Some r => match read_fields 2 r with Some ([a; b], _) => Some (a, b) | _ => None end
  | None => None
  end.

(* ---- VTMF_CardSecret:  crs|r| ---------------------------------------------------------------- *)
Definition export_vsecret (r : Z) : bytes := magic_crs ++ [bar] ++ write_fields [r].
Definition import_vsecret (s : bytes) : option Z :=
  match cm s magic_crs bar with
  | Some r => match read_fields 1 r with Some ([a], _) => Some a | _ => None end
  | None => None
  end.

(* ---- TMCG_Card:  crd|k|w|z_00|z_01|...| (k rows = players, w columns = type bits) ------------ *)
Fixpoint chunk (k : nat) (w : nat) (l : list Z) : list (list Z) :=
  match k with O => [] | S k' => firstn w l :: chunk k' w (skipn w l) end.

Definition export_tcard (c : list (list Z)) : bytes :=
  magic_crd ++ [bar] ++ encode_dec (N.of_nat (length c)) ++ [bar]
  ++ encode_dec (N.of_nat (length (hd [] c))) ++ [bar] ++ write_fields (concat c).

Definition import_dim (s : bytes) (lo hi : N) : option (N * bytes) :=
  match field s bar with
  | Some (f, r) => match strtoul_full f with
                   | Some v => if (lo <=? v) && (v <=? hi) then Some (v, r) else None
                   | None => None
                   end
  | None => None
  end.

Definition import_tcard (s : bytes) : option (list (list Z)) :=
  match cm s magic_crd bar with
  | Some r0 =>
    match import_dim r0 1 (Z.to_N TMCG_MAX_PLAYERS) with
    | Some (k, r1) =>
      match import_dim r1 1 (Z.to_N TMCG_MAX_TYPEBITS) with
      | Some (w, r2) =>
        match read_fields (N.to_nat k * N.to_nat w) r2 with
        | Some (zs, _) => Some (chunk (N.to_nat k) (N.to_nat w) zs)
        | None => None
        end
      | None => None
      end
    | None => None
    end
  | None => None
  end.

(* ---- TMCG_Stack<VTMF_Card>:  stk^n^card^card^...^  ------------------------------------------- *)
Fixpoint read_cards (n : nat) (s : bytes) : option (list (Z * Z) * bytes) :=
  match n with
  | O => Some ([], s)
  | S m =>
    match field s hat with
    | Some (f, r) =>
      match import_vcard f with
      | Some c => match read_cards m r with Some (cs, r') => Some (c :: cs, r') | None => None end
      | None => None
      end
    | None => None
    end
  end.

Definition export_vstack (st : list (Z * Z)) : bytes :=
  magic_stk ++ [hat] ++ encode_dec (N.of_nat (length st)) ++ [hat]
  ++ concat (map (fun c => export_vcard c ++ [hat]) st).

Definition import_size (s : bytes) : option (N * bytes) :=
  match field s hat with
  | Some (f, r) => match strtoul_full f with
                   | Some v => if (1 <=? v) && (v <=? Z.to_N TMCG_MAX_CARDS) then Some (v, r) else None
                   | None => None
                   end
  | None => None
  end.

(* import appends to the existing object (fresh object = []) *)
Definition import_vstack (old : list (Z * Z)) (s : bytes) : option (list (Z * Z)) :=
  match cm s magic_stk hat with
  | Some r0 =>
    match import_size r0 with
    | Some (n, r1) => match read_cards (N.to_nat n) r1 with Some (cs, _) => Some (old ++ cs) | None => None end
    | None => None
    end
  | None => None
  end.

(* ---- TMCG_StackSecret<VTMF_CardSecret>:  sts^n^idx^crs|r|^idx^crs|r|^... ---------------------- *)
Fixpoint read_pairs (size : N) (n : nat) (s : bytes) : option (list (N * Z) * bytes) :=
  match n with
  | O => Some ([], s)
  | S m =>
    match field s hat with
    | Some (f, r) =>
      match strtoul_full f with
      | Some idx =>
        if idx <? size then
          match field r hat with
          | Some (g, r') =>
            match import_vsecret g with
            | Some sec => match read_pairs size m r' with
                          | Some (ps, r'') => Some ((idx, sec) :: ps, r'')
                          | None => None
                          end
            | None => None
            end
          | None => None
          end
        else None
      | None => None
      end
    | None => None
    end
  end.

(* find_position: first position whose index component equals i, else the size of the stack *)
Fixpoint find_position_from {A} (pos : nat) (l : list (N * A)) (i : N) : nat :=
  match l with
  | [] => pos
  | (j, _) :: r => if j =? i then pos else find_position_from (S pos) r i
  end.
Definition find_position {A} (l : list (N * A)) (i : N) : nat := find_position_from 0 l i.

(* the permutation check of TMCG_StackSecret::import over the WHOLE stack (old ++ new) *)
Definition perm_check {A} (l : list (N * A)) (size : N) : bool :=
  forallb (fun i => N.of_nat (find_position l (N.of_nat i)) <? size) (seq 0 (N.to_nat size)).

Definition export_vstacksecret (ss : list (N * Z)) : bytes :=
  magic_sts ++ [hat] ++ encode_dec (N.of_nat (length ss)) ++ [hat]
  ++ concat (map (fun p => encode_dec (fst p) ++ hat :: export_vsecret (snd p) ++ [hat]) ss).

Definition import_vstacksecret (old : list (N * Z)) (s : bytes) : option (list (N * Z)) :=
  match cm s magic_sts hat with
  | Some r0 =>
    match import_size r0 with
    | Some (n, r1) =>
      match read_pairs n (N.to_nat n) r1 with
      | Some (ps, _) => if perm_check (old ++ ps) n then Some (old ++ ps) else None
      | None => None
      end
    | None => None
    end
  | None => None
  end.

(* ---- TMCG_CardSecret:  crs|k|w|r_00|b_00|r_01|b_01|...|  (two k x w matrices, entries interleaved) ---- *)
Fixpoint pair_up (l : list Z) : list (Z * Z) :=
  match l with a :: b :: r => (a, b) :: pair_up r | _ => [] end.
Definition unpair (l : list (Z * Z)) : list Z := flat_map (fun p => [fst p; snd p]) l.

Definition export_tsecret (c : list (list (Z * Z))) : bytes :=
  magic_crs ++ [bar] ++ encode_dec (N.of_nat (length c)) ++ [bar]
  ++ encode_dec (N.of_nat (length (hd [] c))) ++ [bar] ++ write_fields (concat (map unpair c)).

Definition import_tsecret (s : bytes) : option (list (list (Z * Z))) :=
  match cm s magic_crs bar with
  | Some r0 =>
    match import_dim r0 1 (Z.to_N TMCG_MAX_PLAYERS) with
    | Some (k, r1) =>
      match import_dim r1 1 (Z.to_N TMCG_MAX_TYPEBITS) with
      | Some (w, r2) =>
        match read_fields (N.to_nat k * (2 * N.to_nat w)) r2 with
        | Some (zs, _) => Some (map pair_up (chunk (N.to_nat k) (2 * N.to_nat w) zs))
        | None => None
        end
      | None => None
      end
    | None => None
    end
  | None => None
  end.

(* ---- TMCG_Stack<TMCG_Card>:  stk^n^card^card^...^  (same template code as for VTMF_Card) ------- *)
Fixpoint read_tcards (n : nat) (s : bytes) : option (list (list (list Z)) * bytes) :=
  match n with
  | O => Some ([], s)
  | S m =>
    match field s hat with
    | Some (f, r) =>
      match import_tcard f with
      | Some c => match read_tcards m r with Some (cs, r') => Some (c :: cs, r') | None => None end
      | None => None
      end
    | None => None
    end
  end.

Definition export_tstack (st : list (list (list Z))) : bytes :=
  magic_stk ++ [hat] ++ encode_dec (N.of_nat (length st)) ++ [hat]
  ++ concat (map (fun c => export_tcard c ++ [hat]) st).

Definition import_tstack (old : list (list (list Z))) (s : bytes) : option (list (list (list Z))) :=
  match cm s magic_stk hat with
  | Some r0 =>
    match import_size r0 with
    | Some (n, r1) => match read_tcards (N.to_nat n) r1 with Some (cs, _) => Some (old ++ cs) | None => None end
    | None => None
    end
  | None => None
  end.

(* ---- TMCG_StackSecret<TMCG_CardSecret>:  sts^n^idx^crs|k|w|...|^idx^crs|...|^... ---------------- *)
Definition tsec := list (list (Z * Z)).
Fixpoint read_tpairs (size : N) (n : nat) (s : bytes) : option (list (N * tsec) * bytes) :=
  match n with
  | O => Some ([], s)
  | S m =>
    match field s hat with
    | Some (f, r) =>
      match strtoul_full f with
      | Some idx =>
        if idx <? size then
          match field r hat with
          | Some (g, r') =>
            match import_tsecret g with
            | Some sec => match read_tpairs size m r' with
                          | Some (ps, r'') => Some ((idx, sec) :: ps, r'')
                          | None => None
                          end
            | None => None
            end
          | None => None
          end
        else None
      | None => None
      end
    | None => None
    end
  end.

Definition export_tstacksecret (ss : list (N * tsec)) : bytes :=
  magic_sts ++ [hat] ++ encode_dec (N.of_nat (length ss)) ++ [hat]
  ++ concat (map (fun p => encode_dec (fst p) ++ hat :: export_tsecret (snd p) ++ [hat]) ss).

Definition import_tstacksecret (old : list (N * tsec)) (s : bytes) : option (list (N * tsec)) :=
  match cm s magic_sts hat with
  | Some r0 =>
    match import_size r0 with
    | Some (n, r1) =>
      match read_tpairs n (N.to_nat n) r1 with
      | Some (ps, _) => if perm_check (old ++ ps) n then Some (old ++ ps) else None
      | None => None
      end
    | None => None
    end
  | None => None
  end.

(* ---- TMCG_PublicKey:  pub|name|email|type|m|y|nizk|sig   (sig = everything after the seventh '|') ---- *)
Record pubkey := { pk_name : bytes; pk_email : bytes; pk_type : bytes; pk_m : Z; pk_y : Z; pk_nizk : bytes; pk_sig : bytes }.
Definition magic_pub : bytes := [112; 117; 98].

Definition export_pubkey (k : pubkey) : bytes :=
  magic_pub ++ [bar] ++ pk_name k ++ [bar] ++ pk_email k ++ [bar] ++ pk_type k ++ [bar]
  ++ encode62 (pk_m k) ++ [bar] ++ encode62 (pk_y k) ++ [bar] ++ pk_nizk k ++ [bar] ++ pk_sig k.

Definition import_pubkey (s : bytes) : option pubkey :=
  match cm s magic_pub bar with
  | Some r0 =>
    match field r0 bar with
    | Some (name, r1) =>
      match field r1 bar with
      | Some (email, r2) =>
        match field r2 bar with
        | Some (type, r3) =>
          match read_fields 2 r3 with
          | Some ([m; y], r4) =>
            match field r4 bar with
            | Some (nizk, sig) =>
              Some {| pk_name := name; pk_email := email; pk_type := type; pk_m := m; pk_y := y; pk_nizk := nizk; pk_sig := sig |}
            | None => None
            end
          | _ => None
          end
        | None => None
        end
      | None => None
      end
    | None => None
    end
  | None => None
  end.
