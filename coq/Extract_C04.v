From Coq Require Import Extraction ExtrOcamlBasic.
From LT Require Import SoundModel.
Extraction "model.ml" ext_exp ext_exp_int guess_verdict accepting_count all_coins.
