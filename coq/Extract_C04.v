From Coq Require Import Extraction ExtrOcamlBasic.
From LT Require Import SoundModel.
From Coq Require Import ZArith.
Extraction "model.ml" ext_exp ext_exp_int guess_verdict accepting_count all_coins Z.to_N Z.of_N.
