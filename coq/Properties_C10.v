(* C10 -- Rabin key operations are consistent and tamper-evident.
   Property theorems only: each is closed by `exact <lemma>` and followed by Print Assumptions.
   H1, H2 are the raw digests (SHA-256, SHA3-256) as oracles; the premises on them (32 byte-valued output bytes, digest never
   all-zero) and on the square-root oracle (`roots_sound`: property C09) are stated in every theorem that needs them. *)
From Coq Require Import ZArith NArith List Lia.
From LT Require Import gen_Consts CodecModel RabinModel RabinLemmas.
Import ListNotations.

(* verify looks at the signature value only through its square modulo |m| *)
Theorem C10_verify_depends_on_square : forall (H1 H2 : bytes -> bytes) m heap data v v',
  ((v * v) mod Z.abs m = (v' * v') mod Z.abs m)%Z ->
  verify_core H1 H2 m heap data v = verify_core H1 H2 m heap data v'.
Proof. exact verify_core_square. Qed.
Print Assumptions C10_verify_depends_on_square.

(* equivalent representations: the negated root and every representative modulo m *)
Theorem C10_verify_negated_root : forall (H1 H2 : bytes -> bytes) m heap data v,
  verify_core H1 H2 m heap data (- v) = verify_core H1 H2 m heap data v.
Proof. exact verify_core_neg. Qed.
Print Assumptions C10_verify_negated_root.

Theorem C10_verify_shifted_root : forall (H1 H2 : bytes -> bytes) m heap data v k,
  verify_core H1 H2 m heap data (v + k * m) = verify_core H1 H2 m heap data v.
Proof. exact verify_core_shift. Qed.
Print Assumptions C10_verify_shifted_root.

(* acceptance as an explicit predicate: size conditions, nonzero square, and the buffer parses as w || r* || gamma with
   w = h(data || r* xor g1(w)) and gamma = g2(w) *)
Theorem C10_verify_accept_iff : forall (H1 H2 : bytes -> bytes) m heap data v,
  verify_core H1 H2 m heap data v = Accept <-> verify_accepts H1 H2 m heap data v.
Proof. exact verify_core_accept_iff. Qed.
Print Assumptions C10_verify_accept_iff.

(* text level: an accepted signature text has the frame sig|kid|value|, the key id matches the key, the value verifies *)
Theorem C10_verify_text_accept_implies : forall (H1 H2 : bytes -> bytes) m ksig heap data t,
  verify_text H1 H2 m ksig heap data t = Accept ->
  exists s1 kid s2 vs rest v,
    cm t str_sig bar = Some s1 /\ split_at bar s1 = Some (kid, s2) /\ kid_matches ksig kid = true /\
    split_at bar s2 = Some (vs, rest) /\ decode62 vs = Some v /\ verify_core H1 H2 m heap data v = Accept.
Proof. exact verify_text_accept_implies. Qed.
Print Assumptions C10_verify_text_accept_implies.

(* export_fits (fixes b19627f, 5f58cf8): the bytes mpz_export writes in verify never exceed the mnsize+1024 byte buffer,
   and the verdict never depends on what the uninitialised buffer held *)
Theorem C10_verify_export_fits : forall (H1 H2 : bytes -> bytes) m heap data v,
  verify_core H1 H2 m heap data v <> Overflow.
Proof. exact verify_core_no_overflow. Qed.
Print Assumptions C10_verify_export_fits.

Theorem C10_verify_heap_irrelevant : forall (H1 H2 : bytes -> bytes) m heap heap' data v, verify_core H1 H2 m heap data v = verify_core H1 H2 m heap' data v.
Proof. exact verify_core_heap_irrelevant. Qed.
Print Assumptions C10_verify_heap_irrelevant.

(* a signature value whose square is zero (0, the modulus, ...) is refused (fix 5f58cf8) *)
Theorem C10_zero_square_refused : forall (H1 H2 : bytes -> bytes) m heap data v,
  ((v * v) mod Z.abs m = 0)%Z -> verify_core H1 H2 m heap data v = Reject.
Proof. exact verify_core_zero_square. Qed.
Print Assumptions C10_zero_square_refused.

(* tamper evidence of the padded value: two nonzero word-sized squares leaving the same bytes in the buffer are equal, so
   a different square needs different (w, r*, gamma) -- i.e. new oracle answers (named limit: no collision bound is proved) *)
Theorem C10_same_fields_same_square : forall s a b, (0 < s)%nat -> (0 < a)%Z -> (0 < b)%Z ->
  (sizeinbase2 a <= 8 * Z.of_nat s)%Z -> (sizeinbase2 b <= 8 * Z.of_nat s)%Z ->
  export_bytes s a = export_bytes s b -> a = b.
Proof. exact export_injective. Qed.
Print Assumptions C10_same_fields_same_square.

(* sign then verify, for every modulus that passes sign's assertions, every message, every coin stream *)
Theorem C10_sign_verify_ok : forall H1 H2 : bytes -> bytes,
  (forall x, length (H1 x) = md) -> (forall x, length (H2 x) = md) ->
  (forall x, Forall byte (H1 x)) -> (forall x, Forall byte (H2 x)) ->
  forall (qr : Z -> bool) (roots : Z -> list Z) m ksig data stream idx t,
  roots_sound roots m -> digest_nonzero H1 -> kid_ok ksig -> Forall byte stream ->
  sign_text H1 H2 qr roots m ksig data stream idx = Some t ->
  forall heap, verify_text H1 H2 m ksig heap data t = Accept.
Proof. exact sign_verify_ok. Qed.
Print Assumptions C10_sign_verify_ok.

(* all four square roots of a padded value verify (the one-in-four choice is immaterial), also negated and shifted by m *)
Theorem C10_all_roots_verify : forall H1 H2 : bytes -> bytes,
  (forall x, length (H1 x) = md) -> (forall x, length (H2 x) = md) ->
  (forall x, Forall byte (H1 x)) -> (forall x, Forall byte (H2 x)) ->
  forall (roots : Z -> list Z) m heap data r s,
  roots_sound roots m -> digest_nonzero H1 ->
  (Z.of_nat (mnsize_of m) * 8 < sizeinbase2 m)%Z -> (md + K0 < mnsize_of m)%nat -> length r = K0 -> Forall byte r ->
  In s (roots (sign_pad H1 H2 m data r)) ->
  verify_core H1 H2 m heap data s = Accept /\ verify_core H1 H2 m heap data (- s) = Accept /\
  (forall k, verify_core H1 H2 m heap data (s + k * m) = Accept).
Proof. exact roots_all_verify. Qed.
Print Assumptions C10_all_roots_verify.

(* encrypt then decrypt, for every modulus size passing the padding-size tests, every 20-byte plaintext, every coin string for
   which the padded value x is a nonzero unit square with x among the roots and no earlier root passing the redundancy test *)
Theorem C10_encrypt_decrypt_ok : forall H1 H2 : bytes -> bytes,
  (forall x, length (H1 x) = md) -> (forall x, length (H2 x) = md) ->
  (forall x, Forall byte (H1 x)) -> (forall x, Forall byte (H2 x)) ->
  forall (qr : Z -> bool) (roots : Z -> list Z) m ksig value coins t,
  kid_ok ksig ->
  length value = S0 -> Forall byte value -> (mnsize_of m - 2 * S0 <= length coins)%nat -> Forall byte coins ->
  encrypt_text H1 H2 m ksig value coins = Some t ->
  let x := saep_pad H1 H2 m value coins in
  let c := ((x * x) mod Z.abs m)%Z in
  x <> 0%Z -> qr c = true ->
  (exists pre post, roots c = pre ++ x :: post /\ Forall (spurious_free H1 H2 (mnsize_of m)) pre) ->
  forall heap, decrypt_text H1 H2 qr roots m ksig heap t = DecValue value.
Proof. exact encrypt_decrypt_ok. Qed.
Print Assumptions C10_encrypt_decrypt_ok.

(* export_fits for decrypt (fix 288af9c), every modulus size, every ciphertext text, every root oracle *)
Theorem C10_decrypt_export_fits : forall (H1 H2 : bytes -> bytes) (qr : Z -> bool) (roots : Z -> list Z) m ksig heap t,
  decrypt_text H1 H2 qr roots m ksig heap t <> DecOverflow.
Proof. exact decrypt_text_no_overflow. Qed.
Print Assumptions C10_decrypt_export_fits.

(* key validation: what an accepting check() establishes (Jacobi symbol and primality test are the oracles of the code) *)
Theorem C10_check_accept_implies : forall (H1 H2 : bytes -> bytes) (jacobi : Z -> Z -> Z) (is_prime : Z -> bool) fuel heap k,
  check H1 H2 jacobi is_prime fuel heap k = Ok bool true ->
  jacobi (k_y k) (k_m k) = 1%Z /\ Z.odd (k_m k) = true /\ is_prime (k_m k) = false /\
  verify_text H1 H2 (k_m k) (k_sig k) heap (selfsig_data k) (k_sig k) = Accept /\
  (contains str_NIZK (k_type k) = true -> nizk_valid jacobi k).
Proof. exact check_accept_implies. Qed.
Print Assumptions C10_check_accept_implies.

(* key texts: export then import gives the key back (fields without the delimiter; secret key passing precompute) *)
Theorem C10_pubkey_text_roundtrip : forall k, nobar (k_name k) -> nobar (k_email k) -> nobar (k_type k) -> nobar (k_nizk k) ->
  import_pub (export_pub k) = Some k.
Proof. exact import_export_pub. Qed.
Print Assumptions C10_pubkey_text_roundtrip.

Theorem C10_seckey_text_roundtrip : forall k p q, nobar (k_name k) -> nobar (k_email k) -> nobar (k_type k) -> nobar (k_nizk k) ->
  precompute_ok (k_m k) (k_y k) p q = true ->
  import_sec (export_sec k p q) = Some (k, p, q).
Proof. exact import_export_sec. Qed.
Print Assumptions C10_seckey_text_roundtrip.

(* ---- non-vacuity ---------------------------------------------------------------------------------------------- *)
Definition Hc : bytes -> bytes := fun _ => repeat 1%N 32.
Example C10_nonvacuous_hash : (forall x, length (Hc x) = md) /\ (forall x, Forall byte (Hc x)) /\ digest_nonzero Hc.
Proof.
  repeat split; intros x.
  - unfold Hc. repeat constructor; unfold byte; lia.
  - unfold Hc. cbn. intros F. inversion F. discriminate.
Qed.
Example C10_nonvacuous_kid : kid_ok (selfsig_text (2 ^ 100 + 12345)).
Proof. unfold kid_ok. split; [vm_compute; repeat constructor; discriminate|vm_compute; reflexivity]. Qed.
(* an accepted signature: modulus of 604 bits, padded value computed with the constant oracle, root 2^302 *)
Definition Hd : bytes -> bytes := fun x => repeat (2 + N.of_nat (length x) mod 100)%N 32.
Definition ex_foo : Z := sign_pad Hc Hd (2 ^ 603)%Z [1; 2; 3]%N (repeat 7%N 20).
Definition ex_m : Z := (2 ^ 604 - ex_foo)%Z.
Example C10_nonvacuous_accept : verify_core Hc Hd ex_m [] [1; 2; 3]%N (2 ^ 302)%Z = Accept.
Proof. vm_compute. reflexivity. Qed.
(* a changed value is refused; with a constant digest oracle changed data is NOT refused: refusing different data is exactly
   the oracle step that the theorems leave as a named limit *)
Example C10_nonvacuous_zero : verify_core Hc Hd ex_m (repeat 1%N 2000) [1; 2; 3]%N ex_m = Reject.
Proof. vm_compute. reflexivity. Qed.
Example C10_nonvacuous_tamper : verify_core Hc Hd ex_m [] [1; 2; 4]%N (2 ^ 302)%Z = Accept /\
                                verify_core Hc Hd ex_m [] [1; 2; 3]%N (2 ^ 302 + 1)%Z = Reject.
Proof. split; vm_compute; reflexivity. Qed.
