(* C10 -- Rabin key operations are consistent and tamper-evident. *)
From Coq Require Import ZArith NArith List Lia.
From LT Require Import gen_Consts CodecModel RabinModel RabinLemmas.
Import ListNotations.

Theorem C10_verify_depends_on_square : forall H1 H2 m heap data v v',
  ((v * v) mod Z.abs m = (v' * v') mod Z.abs m)%Z ->
  verify_core H1 H2 m heap data v = verify_core H1 H2 m heap data v'.
Proof. exact verify_core_square. Qed.
Print Assumptions C10_verify_depends_on_square.
