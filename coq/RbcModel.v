(* RbcModel: executable model of CachinKursawePetzoldShoupRBC (C14).
   Anchors: src/CachinKursawePetzoldShoupSEABP.cc
     constructor :46-119, setID :122-163, recoverID :165-218, unsetID :220-294,
     Broadcast :374-445 (simulate_faulty_behaviour = false), Deliver :447-1211 (one pass of the do-loop =
     one call with timeout 0), DeliverFrom :1213-1266 (one pass).
   Idealisations (they appear as Section variables of the model and as premises of the theorems):
     * the tag  H(ID, j, s)  is the triple (ID, j, s)                       (TagMessage :336-362)
     * the digest hash  tmcg_mpz_shash(d, 1, m)  is the function  H : Z -> Z
     * "decimal length of d exceeds twice the length of the tag string" is  toolong tag d  (:732-737, :803-808)
     * setID / recoverID receive the *new* channel identifier (hash of name and old ID) as an argument
     * non-FIFO Broadcast receives the random 256-bit sequence value as an argument
   buf_msg (:112, :631-641) is never filled by any member function and is not modelled; the l-fail
   handler (:1183-1192) is unreachable (action 8 is discarded by the range check :663) and modelled so.
   Definitions only -- proofs live in RbcLemmas.v / RbcAgreement.v. *)
From Coq Require Import ZArith List Bool.
Import ListNotations.
Local Open Scope Z_scope.

Definition tagT := (Z * Z * Z)%type.        (* ID, j, s *)
Definition tag_eqb (a b : tagT) : bool :=
  match a, b with (a1, a2, a3), (b1, b2, b3) => (a1 =? b1) && (a2 =? b2) && (a3 =? b3) end.

Record msg := Msg { m_id : Z; m_j : Z; m_s : Z; m_act : Z; m_pay : Z }.
Definition mtag (m : msg) : tagT := (m_id m, m_j m, m_s m).
Definition msg_eqb (a b : msg) : bool :=
  (m_id a =? m_id b) && (m_j a =? m_j b) && (m_s a =? m_s b) && (m_act a =? m_act b) && (m_pay a =? m_pay b).

(* the seven first-time filters  send/echo/ready/request/answer/retrieve/deliver [l][tag] *)
Inductive fkind := FSend | FEcho | FReady | FRequest | FAnswer | FRetrieve | FDeliver.
Definition fkind_eqb (a b : fkind) : bool :=
  match a, b with
  | FSend, FSend | FEcho, FEcho | FReady, FReady | FRequest, FRequest | FAnswer, FAnswer
  | FRetrieve, FRetrieve | FDeliver, FDeliver => true
  | _, _ => false
  end.

Definition updZ {A} (f : Z -> A) (k : Z) (v : A) : Z -> A := fun x => if x =? k then v else f x.
Definition updT {A} (f : tagT -> A) (k : tagT) (v : A) : tagT -> A := fun x => if tag_eqb x k then v else f x.
Definition upd2 (f : tagT -> Z -> Z) (k : tagT) (d : Z) (v : Z) : tagT -> Z -> Z :=
  fun x y => if tag_eqb x k && (y =? d) then v else f x y.
Definition fset (f : fkind -> Z -> tagT -> bool) (k : fkind) (l : Z) (tg : tagT) : fkind -> Z -> tagT -> bool :=
  fun k' l' tg' => if fkind_eqb k' k && (l' =? l) && tag_eqb tg' tg then true else f k' l' tg'.

Record pst := Pst {
  cur : Z;                               (* ID *)
  sq : Z;                                (* s *)
  fifo : bool;
  stack : list (Z * Z * (Z -> Z));       (* last_IDs, last_s, last_deliver_s (back = head) *)
  recov : Z -> option (Z * (Z -> Z));    (* recover_s, recover_deliver_s *)
  filt : fkind -> Z -> tagT -> bool;
  mbar : tagT -> option Z;
  dbar : tagT -> option Z;
  ed : tagT -> Z -> Z;                   (* e_d[tag][d]; absent = 0 *)
  rd : tagT -> Z -> Z;                   (* r_d[tag][d] *)
  dls : Z -> Z;                          (* deliver_s *)
  dbuf : list tagT;                      (* deliver_buf (only fields 0..2 of an entry are ever read) *)
  derr : Z -> bool;                      (* deliver_error *)
  rbuf : tagT -> Z -> Z;                 (* retrieve_buf[tag][l] *)
  fbuf : Z -> list (Z * Z)               (* buf_mpz[i], buf_id[i] : (value, channel) *)
}.

Definition set_chan (st : pst) c s f k r d : pst :=
  Pst c s f k r (filt st) (mbar st) (dbar st) (ed st) (rd st) d (dbuf st) (derr st) (rbuf st) (fbuf st).
Definition set_sq (st : pst) s : pst :=
  Pst (cur st) s (fifo st) (stack st) (recov st) (filt st) (mbar st) (dbar st) (ed st) (rd st) (dls st) (dbuf st) (derr st) (rbuf st) (fbuf st).
Definition set_filt (st : pst) x : pst :=
  Pst (cur st) (sq st) (fifo st) (stack st) (recov st) x (mbar st) (dbar st) (ed st) (rd st) (dls st) (dbuf st) (derr st) (rbuf st) (fbuf st).
Definition set_mbar (st : pst) x : pst :=
  Pst (cur st) (sq st) (fifo st) (stack st) (recov st) (filt st) x (dbar st) (ed st) (rd st) (dls st) (dbuf st) (derr st) (rbuf st) (fbuf st).
Definition set_dbar (st : pst) x : pst :=
  Pst (cur st) (sq st) (fifo st) (stack st) (recov st) (filt st) (mbar st) x (ed st) (rd st) (dls st) (dbuf st) (derr st) (rbuf st) (fbuf st).
Definition set_ed (st : pst) x : pst :=
  Pst (cur st) (sq st) (fifo st) (stack st) (recov st) (filt st) (mbar st) (dbar st) x (rd st) (dls st) (dbuf st) (derr st) (rbuf st) (fbuf st).
Definition set_rd (st : pst) x : pst :=
  Pst (cur st) (sq st) (fifo st) (stack st) (recov st) (filt st) (mbar st) (dbar st) (ed st) x (dls st) (dbuf st) (derr st) (rbuf st) (fbuf st).
Definition set_dls (st : pst) x : pst :=
  Pst (cur st) (sq st) (fifo st) (stack st) (recov st) (filt st) (mbar st) (dbar st) (ed st) (rd st) x (dbuf st) (derr st) (rbuf st) (fbuf st).
Definition set_dbuf (st : pst) x : pst :=
  Pst (cur st) (sq st) (fifo st) (stack st) (recov st) (filt st) (mbar st) (dbar st) (ed st) (rd st) (dls st) x (derr st) (rbuf st) (fbuf st).
Definition set_derr (st : pst) x : pst :=
  Pst (cur st) (sq st) (fifo st) (stack st) (recov st) (filt st) (mbar st) (dbar st) (ed st) (rd st) (dls st) (dbuf st) x (rbuf st) (fbuf st).
Definition set_rbuf (st : pst) x : pst :=
  Pst (cur st) (sq st) (fifo st) (stack st) (recov st) (filt st) (mbar st) (dbar st) (ed st) (rd st) (dls st) (dbuf st) (derr st) x (fbuf st).
Definition set_fbuf (st : pst) x : pst :=
  Pst (cur st) (sq st) (fifo st) (stack st) (recov st) (filt st) (mbar st) (dbar st) (ed st) (rd st) (dls st) (dbuf st) (derr st) (rbuf st) x.

(* constructor :46-119 *)
Definition pinit : pst :=
  Pst 0 0 true [] (fun _ => None) (fun _ _ _ => false) (fun _ => None) (fun _ => None)
      (fun _ _ => 0) (fun _ _ => 0) (fun _ => 1) [] (fun _ => false) (fun _ _ => 0) (fun _ => []).

(* setID :122-163 ; newid = hash of (name, old ID) *)
Definition set_id (st : pst) (newid : Z) (f : bool) : pst :=
  set_chan st newid 0 f ((cur st, sq st, dls st) :: stack st) (recov st) (fun _ => 1).

(* recoverID :165-218 *)
Definition recover_id (st : pst) (newid : Z) (f : bool) : pst :=
  match recov st newid with
  | Some (s', d') => set_chan st newid s' f ((cur st, sq st, dls st) :: stack st) (recov st) d'
  | None => set_chan st newid 0 f ((cur st, sq st, dls st) :: stack st) (recov st) (fun _ => 1)
  end.

(* unsetID :220-294 *)
Definition unset_id (st : pst) (f : bool) : pst :=
  let rc := updZ (recov st) (cur st) (Some (sq st, dls st)) in
  match stack st with
  | (i, s, d) :: k => set_chan st i s f k rc d
  | [] => set_chan st 0 0 f [] rc (fun _ => 1)
  end.

Inductive dres := RNone | RDeliver (who : Z) (tg : tagT) (v : Z) | RThrow.
Record outc := Outc { o_st : pst; o_sent : list (Z * msg); o_res : dres; o_used : bool }.

Section Model.
Variables (n t skip : Z).                (* parties, resilience, fifo_skip *)
Variable H : Z -> Z.                     (* digest hash *)
Variable toolong : tagT -> Z -> bool.    (* d_string.length() > 2 * tag.length() *)

Definition range : list Z := map Z.of_nat (seq 0 (Z.to_nat n)).
Definition to_all (m : msg) : list (Z * msg) := map (fun i => (i, m)) range.

(* Broadcast :374-445 ; coin = the random sequence value drawn in non-FIFO mode *)
Definition broadcast (me : Z) (st : pst) (m : Z) (coin : Z) : pst * list (Z * msg) :=
  let s' := if fifo st then sq st + 1 else coin in
  (set_sq st s', to_all (Msg (cur st) me s' 1 m)).

(* the common tail of the r-ready / r-answer / l-deliver branches (:895-936, :1005-1038, :1137-1166) *)
Definition try_deliver (st : pst) (tg : tagT) : pst * dres :=
  match tg with (id, who, s) =>
    let matching := id =? cur st in
    let eq_s := s =? dls st who in
    if matching && ((fifo st && eq_s) || negb (fifo st)) then
      match mbar st tg with
      | None => (st, RThrow)
      | Some v => (set_dls st (updZ (dls st) who (dls st who + 1)), RDeliver who tg v)
      end
    else (set_dbuf st (dbuf st ++ [tg]), RNone)
  end.

(* --- first part of a pass: the deliver buffer :468-615 ------------------------------------ *)
Definition deliverable (st : pst) (tg : tagT) : bool :=
  match tg with (id, who, s) => (id =? cur st) && ((fifo st && (s =? dls st who)) || negb (fifo st)) end.

Fixpoint split_first (p : tagT -> bool) (pre l : list tagT) : option (list tagT * tagT * list tagT) :=
  match l with
  | [] => None
  | x :: r => if p x then Some (rev pre, x, r) else split_first p (x :: pre) r
  end.

(* max_s, min_s, retrieve_it.count :509-533 *)
Definition mm_step (st : pst) (acc : (Z -> Z) * (Z -> Z) * (Z -> bool)) (tg : tagT) :=
  match tg, acc with (id, who, s), (mx, mn, ri) =>
    if (id =? cur st) && fifo st && (s >? dls st who) then
      ( (if (mx who =? 0) || (mx who <? s) then updZ mx who s else mx),
        (if (mn who =? 0) || (mn who >? s) then updZ mn who s else mn),
        (if (mn who =? 0) || (mn who >? s) then updZ ri who true else ri) )
    else acc
  end.
Definition minmax (st : pst) := fold_left (mm_step st) (dbuf st) (fun _ => 0, fun _ => 0, fun _ => false).

Definition obsolete (st : pst) (tg : tagT) : bool :=
  match tg with (id, who, s) => (id =? cur st) && fifo st && (s <? dls st who) end.

(* :546-558 *)
Definition skip_step (mx mn : Z -> Z) (st : pst) (i : Z) : pst :=
  if fifo st && (skip >? 0) && (mx i - mn i >? skip)
  then set_dls (set_derr st (updZ (derr st) i true)) (updZ (dls st) i (mn i)) else st.

(* :578-598 *)
Fixpoint retr_inner (me : Z) (tg : tagT) (m : msg) (is : list Z) (st : pst) (sent : list (Z * msg)) (cnt : Z) :=
  match is with
  | [] => (st, sent, cnt)
  | i :: r =>
    if (i =? me) || filt st FDeliver i tg || filt st FRetrieve i tg then retr_inner me tg m r st sent cnt
    else retr_inner me tg m r (set_filt st (fset (filt st) FRetrieve i tg)) (sent ++ [(i, m)]) (cnt + 1)
  end.
(* :567-601 *)
Fixpoint retr_loop (fuel : nat) (me who foo mn : Z) (st : pst) (sent : list (Z * msg)) (cnt : Z) :=
  match fuel with
  | O => (st, sent, cnt)
  | S f =>
    if (foo <? mn) && (cnt <? 40) then
      match retr_inner me (cur st, who, foo) (Msg (cur st) who foo 6 6) range st sent cnt with
      | (st', sent', cnt') => retr_loop f me who (foo + 1) mn st' sent' cnt'
      end
    else (st, sent, cnt)
  end.
Definition retr_who (me : Z) (mn : Z -> Z) (ri : Z -> bool) (acc : pst * list (Z * msg) * Z) (who : Z) :=
  match acc with (st, sent, cnt) =>
    if ri who then retr_loop (Z.to_nat (mn who - dls st who)) me who (dls st who) (mn who) st sent cnt else acc
  end.

Definition buffer_phase (me : Z) (st : pst) : pst * list (Z * msg) :=
  match minmax st with (mx, mn, ri) =>
    let st1 := fold_left (skip_step mx mn) range st in
    let '(st2, sent, _) :=
      if fifo st && (skip =? 0) then fold_left (retr_who me mn ri) range (st1, [], 0) else (st1, [], 0) in
    (* cleanup list was computed against the deliver_s of the scan, i.e. of st *)
    (set_dbuf st2 (filter (fun tg => negb (obsolete st tg)) (dbuf st2)), sent)
  end.

(* --- the l-deliver agreement :1108-1170 ---------------------------------------------------- *)
Definition deliver_num (st : pst) (tg : tagT) : Z :=
  Z.of_nat (length (filter (fun i => filt st FDeliver i tg) range)).
Definition agree_num (me : Z) (st : pst) (tg : tagT) (i : Z) : Z :=
  1 + Z.of_nat (length (filter (fun k => (i <? k) && filt st FDeliver k tg && negb (k =? me)
                                         && (rbuf st tg k =? rbuf st tg i)) range)).
Definition agree_find (me : Z) (st : pst) (tg : tagT) : option Z :=
  find (fun i => filt st FDeliver i tg && negb (i =? me) && (agree_num me st tg i >=? n - t)) range.

(* --- processing of one received message :643-1198 ------------------------------------------ *)
Definition stop (st : pst) : pst * list (Z * msg) * dres := (st, [], RNone).

Definition handle (me : Z) (st : pst) (l : Z) (m : msg) : pst * list (Z * msg) * dres :=
  let tg := mtag m in
  let a := m_act m in
  let d := m_pay m in
  if (m_j m >? n - 1) || (m_j m <? 0) then stop st
  else if m_s m <? 1 then stop st
  else if (a <? 1) || (a >? 7) then stop st
  else if a =? 1 then
    if filt st FSend l tg then stop st
    else
      let st := set_filt st (fset (filt st) FSend l tg) in
      if negb (m_j m =? l) then stop st
      else
        match mbar st tg with
        | None => (set_mbar st (updT (mbar st) tg (Some d)), to_all (Msg (m_id m) (m_j m) (m_s m) 2 (H d)), RNone)
        | Some v => if v =? d then (st, to_all (Msg (m_id m) (m_j m) (m_s m) 2 (H d)), RNone) else stop st
        end
  else if a =? 2 then
    if filt st FEcho l tg then stop st
    else
      let st := set_filt st (fset (filt st) FEcho l tg) in
      if toolong tg d then stop st
      else
        let e := ed st tg d + 1 in
        let st := set_ed st (upd2 (ed st) tg d e) in
        if (e =? n - t) && (rd st tg d <=? t)
        then (st, to_all (Msg (m_id m) (m_j m) (m_s m) 3 d), RNone) else stop st
  else if a =? 3 then
    if filt st FReady l tg then stop st
    else
      let st := set_filt st (fset (filt st) FReady l tg) in
      if toolong tg d then stop st
      else
        let r := rd st tg d + 1 in
        let st := set_rd st (upd2 (rd st) tg d r) in
        if (t >? 0) && (r =? t + 1) && (ed st tg d <? n - t)
        then (st, to_all (Msg (m_id m) (m_j m) (m_s m) 3 d), RNone)
        else if r =? 2 * t + 1 then
          let cont (st : pst) (db : Z) :=
            let foo := match mbar st tg with None => 0 | Some v => H v end in
            if negb (foo =? db)
            then (st, map (fun i => (i, Msg (m_id m) (m_j m) (m_s m) 4 d)) (map Z.of_nat (seq 0 (Z.to_nat (2 * t + 1)))), RNone)
            else match try_deliver st tg with (st', r) => (st', [], r) end in
          match dbar st tg with
          | None => cont (set_dbar st (updT (dbar st) tg (Some d))) d
          | Some db => if db =? d then cont st db else stop st
          end
        else stop st
  else if a =? 4 then
    if filt st FRequest l tg then stop st
    else
      let st := set_filt st (fset (filt st) FRequest l tg) in
      match mbar st tg with
      | Some v => (st, [(l, Msg (m_id m) (m_j m) (m_s m) 5 v)], RNone)
      | None => stop st
      end
  else if a =? 5 then
    if filt st FAnswer l tg then stop st
    else
      let st := set_filt st (fset (filt st) FAnswer l tg) in
      match dbar st tg with
      | None => stop st
      | Some db =>
        if H d =? db then
          match try_deliver (set_mbar st (updT (mbar st) tg (Some d))) tg with (st', r) => (st', [], r) end
        else stop st
      end
  else if a =? 6 then
    match mbar st tg with
    | Some v =>
      if (fifo st && (m_s m <? dls st (m_j m))) || negb (fifo st)
      then (st, [(l, Msg (m_id m) (m_j m) (m_s m) 7 v)], RNone)
      else (st, [(l, Msg (m_id m) (m_j m) (m_s m) 8 8)], RNone)
    | None => (st, [(l, Msg (m_id m) (m_j m) (m_s m) 8 8)], RNone)
    end
  else (* a = 7 *)
    if filt st FDeliver l tg then stop st
    else if negb (filt st FRetrieve l tg) then stop st
    else
      let st := set_filt st (fset (filt st) FDeliver l tg) in
      let st := set_rbuf st (upd2 (rbuf st) tg l d) in
      if deliver_num st tg <? n - t then stop st
      else
        match agree_find me st tg with
        | None => stop st
        | Some i =>
          match try_deliver (set_mbar st (updT (mbar st) tg (Some (rbuf st tg i)))) tg with (st', r) => (st', [], r) end
        end.

(* one call Deliver(m, i_out, scheduler, 0): offer = the message aiou->Receive would hand over, if any *)
Definition deliver (me : Z) (st : pst) (offer : option (Z * msg)) : outc :=
  match split_first (deliverable st) [] (dbuf st) with
  | Some (pre, (id, who, s), post) =>
    match mbar st (id, who, s) with
    | None => Outc st [] RThrow false
    | Some v => Outc (set_dbuf (set_dls st (updZ (dls st) who (dls st who + 1))) (pre ++ post)) []
                     (RDeliver who (id, who, s) v) false
    end
  | None =>
    match buffer_phase me st with (st1, sent1) =>
      match offer with
      | None => Outc st1 sent1 RNone false
      | Some (l, m) =>
        match handle me st1 l m with (st2, sent2, r) => Outc st2 (sent1 ++ sent2) r true end
      end
    end
  end.

(* one call DeliverFrom(m, i, scheduler, 0) :1213-1266 ; result Some v = returned true with m = v *)
Fixpoint take_chan (c : Z) (pre l : list (Z * Z)) : option (Z * list (Z * Z)) :=
  match l with
  | [] => None
  | (v, id) :: r => if id =? c then Some (v, rev pre ++ r) else take_chan c ((v, id) :: pre) r
  end.

Definition deliver_from (me : Z) (st : pst) (i : Z) (offer : option (Z * msg)) : outc * option Z :=
  if (i <? 0) || (i >=? n) then (Outc st [] RNone false, None)
  else
    match take_chan (cur st) [] (fbuf st i) with
    | Some (v, rest) => (Outc (set_fbuf st (updZ (fbuf st) i rest)) [] RNone false, Some v)
    | None =>
      let o := deliver me st offer in
      match o_res o with
      | RDeliver who tg v =>
        let st' := o_st o in
        (Outc (set_fbuf st' (updZ (fbuf st') who (fbuf st' who ++ [(v, cur st)]))) (o_sent o) (o_res o) (o_used o), None)
      | _ => (o, None)
      end
    end.

(* --- a sequence of calls at one party without channel switches (for the order theorems) ------- *)
Inductive lcall := LDeliver (offer : option (Z * msg)) | LFrom (i : Z) (offer : option (Z * msg)).
Definition dlv_of (r : dres) : list (Z * tagT * Z) := match r with RDeliver who tg v => [(who, tg, v)] | _ => [] end.
Definition lstep (me : Z) (st : pst) (c : lcall) : pst * list (Z * tagT * Z) :=
  match c with
  | LDeliver off => let o := deliver me st off in (o_st o, dlv_of (o_res o))
  | LFrom i off => let o := fst (deliver_from me st i off) in (o_st o, dlv_of (o_res o))
  end.
Fixpoint lrun (me : Z) (st : pst) (cs : list lcall) : pst * list (Z * tagT * Z) :=
  match cs with
  | [] => (st, [])
  | c :: r => match lstep me st c with (st1, d1) => match lrun me st1 r with (st2, d2) => (st2, d1 ++ d2) end end
  end.
Definition who_of (d : Z * tagT * Z) : Z := fst (fst d).
Definition id_of (d : Z * tagT * Z) : Z := fst (fst (snd (fst d))).
Definition j_of (d : Z * tagT * Z) : Z := snd (fst (snd (fst d))).
Definition s_of (d : Z * tagT * Z) : Z := snd (snd (fst d)).
Definition from_sender (w : Z) (ds : list (Z * tagT * Z)) := filter (fun d => who_of d =? w) ds.

(* --- network model: n parties, the set of Byzantine parties is  byz ------------------------ *)
Variable byz : Z -> bool.

Record gst := Gst {
  gp : Z -> pst;
  gsent : list (Z * Z * msg);            (* every message an honest party has sent: (src, dst, msg) *)
  glog : list (Z * tagT * Z);            (* every delivery of Deliver at an honest party: (party, tag, value) *)
  gapi : list (Z * Z * Z * Z)            (* every value returned by DeliverFrom: (party, channel at return, sender, value) *)
}.

Inductive event :=
| EBcast (p m coin : Z)
| ERecv (p l : Z) (m : msg)              (* Deliver at p, the transport hands over m from l *)
| EIdle (p : Z)                          (* Deliver at p, nothing to receive *)
| EFromRecv (p i l : Z) (m : msg)        (* DeliverFrom(i) at p *)
| EFromIdle (p i : Z)
| ESetID (p id : Z) (f : bool)
| ERecoverID (p id : Z) (f : bool)
| EUnsetID (p : Z) (f : bool).

Definition ginit : gst := Gst (fun _ => pinit) [] [] [].

Definition is_party (p : Z) : bool := (0 <=? p) && (p <? n).
Definition honest (p : Z) : bool := is_party p && negb (byz p).

Definition sent_eqb (a b : Z * Z * msg) : bool :=
  match a, b with (s1, d1, m1), (s2, d2, m2) => (s1 =? s2) && (d1 =? d2) && msg_eqb m1 m2 end.

(* the transport is authenticated: a message handed over as coming from an honest l was sent by l to p;
   it may be delayed, reordered and duplicated at will; Byzantine l may have sent anything *)
Definition can_recv (g : gst) (p l : Z) (m : msg) : bool :=
  is_party l && (byz l || existsb (sent_eqb (l, p, m)) (gsent g)).

Definition log_of (p : Z) (r : dres) : list (Z * tagT * Z) :=
  match r with RDeliver _ tg v => [(p, tg, v)] | _ => [] end.

Definition apply_out (g : gst) (p : Z) (o : outc) : gst :=
  Gst (updZ (gp g) p (o_st o)) (gsent g ++ map (fun dm => (p, fst dm, snd dm)) (o_sent o))
      (glog g ++ log_of p (o_res o)) (gapi g).

Definition apply_from (g : gst) (p i : Z) (ov : outc * option Z) : gst :=
  let g' := apply_out g p (fst ov) in
  match snd ov with
  | Some v => Gst (gp g') (gsent g') (glog g') (gapi g' ++ [(p, cur (gp g p), i, v)])
  | None => g'
  end.

Definition set_party (g : gst) (p : Z) (st : pst) : gst := Gst (updZ (gp g) p st) (gsent g) (glog g) (gapi g).

(* events that are not enabled (Byzantine or unknown party, message never sent) leave the state unchanged *)
Definition gstep (g : gst) (e : event) : gst :=
  match e with
  | EBcast p m coin =>
    if honest p then
      match broadcast p (gp g p) m coin with
      | (st, out) => Gst (updZ (gp g) p st) (gsent g ++ map (fun dm => (p, fst dm, snd dm)) out) (glog g) (gapi g)
      end
    else g
  | ERecv p l m => if honest p && can_recv g p l m then apply_out g p (deliver p (gp g p) (Some (l, m))) else g
  | EIdle p => if honest p then apply_out g p (deliver p (gp g p) None) else g
  | EFromRecv p i l m =>
    if honest p && can_recv g p l m then apply_from g p i (deliver_from p (gp g p) i (Some (l, m))) else g
  | EFromIdle p i => if honest p then apply_from g p i (deliver_from p (gp g p) i None) else g
  | ESetID p id f => if honest p then set_party g p (set_id (gp g p) id f) else g
  | ERecoverID p id f => if honest p then set_party g p (recover_id (gp g p) id f) else g
  | EUnsetID p f => if honest p then set_party g p (unset_id (gp g p) f) else g
  end.

Definition grun (es : list event) : gst := fold_left gstep es ginit.

End Model.
