(* RbcAgreement: network-level results about RbcModel (C14): the non-FIFO duplicate delivery (refutation witness),
   the quorum counting lemmas behind agreement, and invariants of every schedule (fold_left gstep). *)
From Coq Require Import ZArith List Bool Lia.
From LT Require Import RbcModel RbcLemmas RbcOrder.
Import ListNotations.
Local Open Scope Z_scope.

(* ---- finding F8: without FIFO sequence numbers one slot is delivered once per r-answer ---------------- *)
Definition f8_H (x : Z) : Z := x + 7.
Definition f8_gen (f : bool) (s : Z) : list event :=
  let snd_ := Msg 5 0 s 1 42 in let ech := Msg 5 0 s 2 49 in let rdy := Msg 5 0 s 3 49 in
  let req := Msg 5 0 s 4 49 in let ans := Msg 5 0 s 5 42 in
  [ESetID 0 5 f; ESetID 1 5 f; ESetID 2 5 f; ESetID 3 5 f;
   EBcast 0 42 s;
   ERecv 0 0 snd_; ERecv 1 0 snd_; ERecv 2 0 snd_;
   ERecv 0 0 ech; ERecv 0 1 ech; ERecv 0 2 ech;
   ERecv 1 0 ech; ERecv 1 1 ech; ERecv 1 2 ech;
   ERecv 2 0 ech; ERecv 2 1 ech; ERecv 2 2 ech;
   (* P3 has heard nothing from the sender; readys of P1, P2, then its own (amplification): quorum without payload *)
   ERecv 3 1 rdy; ERecv 3 2 rdy; ERecv 3 3 rdy;
   ERecv 0 3 req; ERecv 1 3 req; ERecv 2 3 req;
   ERecv 3 0 ans; ERecv 3 1 ans; ERecv 3 2 ans].
Definition f8_events : list event := f8_gen false 9.
Definition f8_run := grun 4 1 0 f8_H (fun _ _ => false) (fun _ => false) f8_events.

Lemma f8_log : glog f8_run = [(3, (5, 0, 9), 42); (3, (5, 0, 9), 42); (3, (5, 0, 9), 42)].
Proof. vm_compute. reflexivity. Qed.

(* the statement "no honest party delivers a slot twice", for all modes *)
Definition no_duplicate_statement : Prop :=
  forall n t skip H toolong byz es, 3 * t < n ->
    NoDup (map (fun e : Z * tagT * Z => fst e) (glog (grun n t skip H toolong byz es))).

Lemma no_dup_nonfifo_refuted : ~ no_duplicate_statement.
Proof.
  intros N. specialize (N 4 1 0 f8_H (fun _ _ => false) (fun _ => false) f8_events).
  assert (L : 3 * 1 < 4) by lia. specialize (N L). clear L.
  vm_compute in N. inversion N as [|? ? NI _]. apply NI. left. reflexivity.
Qed.

(* the same schedule on a FIFO channel delivers once *)
Definition f8_events_fifo : list event := f8_gen true 1.

(* ---- counting ---------------------------------------------------------------------------------------- *)
Lemma nodup_exceeds_honest : forall (B L : list Z), NoDup L -> (length B < length L)%nat ->
  exists l, In l L /\ ~ In l B.
Proof.
  intros B L ND Len.
  destruct (existsb (fun l => negb (existsb (Z.eqb l) B)) L) eqn:E.
  - apply existsb_exists in E. destruct E as (l & I & N). exists l. split; auto.
    intros IB. apply negb_true_iff in N. assert (existsb (Z.eqb l) B = true).
    { apply existsb_exists. exists l. split; auto. apply Z.eqb_refl. } congruence.
  - exfalso. assert (incl L B).
    { intros l I. destruct (existsb (Z.eqb l) B) eqn:X.
      - apply existsb_exists in X. destruct X as (y & Iy & Ey). apply Z.eqb_eq in Ey. subst; auto.
      - assert (existsb (fun l => negb (existsb (Z.eqb l) B)) L = true).
        { apply existsb_exists. exists l. split; auto. rewrite X. reflexivity. } congruence. }
    apply NoDup_incl_length in H; auto. lia.
Qed.

Lemma NoDup_app_disjoint : forall (a b : list Z), NoDup a -> NoDup b -> (forall x, In x a -> ~ In x b) -> NoDup (a ++ b).
Proof.
  induction a as [|x r IH]; intros b Na Nb Dj; cbn; auto.
  inversion Na; subst. constructor.
  - intros I. apply in_app_or in I. destruct I as [I|I]; [auto|]. apply (Dj x); cbn; auto.
  - apply IH; auto. intros y Iy. apply Dj. cbn; auto.
Qed.

Lemma in_existsb_eqb : forall l (L : list Z), existsb (Z.eqb l) L = true <-> In l L.
Proof.
  intros l L. rewrite existsb_exists. split.
  - intros (y & I & E). apply Z.eqb_eq in E. subst; auto.
  - intros I. exists l. split; auto. apply Z.eqb_refl.
Qed.

Lemma bounded_nodup_length : forall (n : Z) (L : list Z), 0 <= n -> NoDup L -> (forall l, In l L -> 0 <= l < n) ->
  Z.of_nat (length L) <= n.
Proof.
  intros n L N0 ND R.
  assert (I : incl L (map Z.of_nat (seq 0 (Z.to_nat n)))).
  { intros l Il. apply R in Il. apply in_map_iff. exists (Z.to_nat l). split; [lia|]. apply in_seq. lia. }
  apply NoDup_incl_length in I; auto. rewrite map_length, seq_length in I. lia.
Qed.

Lemma quorum_intersect_honest : forall (n t : Z) (B L1 L2 : list Z),
  3 * t < n -> 0 <= t -> Z.of_nat (length B) <= t ->
  NoDup L1 -> NoDup L2 ->
  (forall l, In l L1 -> 0 <= l < n) -> (forall l, In l L2 -> 0 <= l < n) ->
  n - t <= Z.of_nat (length L1) -> n - t <= Z.of_nat (length L2) ->
  exists l, In l L1 /\ In l L2 /\ ~ In l B.
Proof.
  intros n t B L1 L2 N3 T0 BL ND1 ND2 R1 R2 Q1 Q2.
  set (C := filter (fun l => existsb (Z.eqb l) L2) L1).
  set (D := filter (fun l => negb (existsb (Z.eqb l) L2)) L1).
  assert (LC : (length C + length D = length L1)%nat).
  { unfold C, D. clear. induction L1 as [|a r IH]; cbn; auto. destruct (existsb (Z.eqb a) L2); cbn; lia. }
  assert (NDD : NoDup (D ++ L2)).
  { apply NoDup_app_disjoint; auto.
    - apply NoDup_filter; auto.
    - intros x Ix I2. apply filter_In in Ix. destruct Ix as [_ Ix]. apply negb_true_iff in Ix.
      apply in_existsb_eqb in I2. congruence. }
  assert (LD : Z.of_nat (length (D ++ L2)) <= n).
  { apply bounded_nodup_length; auto; [lia|]. intros l I. apply in_app_or in I. destruct I as [I|I]; auto.
    apply filter_In in I. destruct I as [I _]. auto. }
  rewrite app_length in LD.
  assert (NC : NoDup C) by (apply NoDup_filter; auto).
  destruct (nodup_exceeds_honest B C NC) as (l & Il & Nl); [lia|].
  apply filter_In in Il. destruct Il as [I1 I2]. apply in_existsb_eqb in I2. eauto.
Qed.

(* ---- invariants of every schedule ------------------------------------------------------------------- *)
Section Net.
Variables (n t skip : Z) (H : Z -> Z) (toolong : tagT -> Z -> bool) (byz : Z -> bool).
Notation gstep := (gstep n t skip H toolong byz).
Notation run := (grun n t skip H toolong byz).

Lemma grun_ind : forall (P : gst -> Prop), P ginit -> (forall g e, P g -> P (gstep g e)) -> forall es, P (run es).
Proof.
  intros P P0 PS es. unfold grun.
  assert (G : forall l g, P g -> P (fold_left gstep l g)).
  { induction l as [|e r IH]; cbn; auto. }
  apply G. exact P0.
Qed.

(* channel isolation of the sender-specific call over whole runs: every value DeliverFrom(i) ever returned at party p while
   p was on channel c was delivered by Deliver at p for sender i under a tag of channel c *)
Definition iso_inv (g : gst) : Prop :=
  (forall p c i v, In (p, c, i, v) (gapi g) -> exists s, In (p, (c, i, s), v) (glog g)) /\
  (forall p w v c, In (v, c) (fbuf (gp g p) w) -> exists s, In (p, (c, w, s), v) (glog g)).

Lemma iso_update : forall g p st' sent' log',
  iso_inv g -> (forall x, In x (glog g) -> In x log') ->
  (forall w v c, In (v, c) (fbuf st' w) -> In (v, c) (fbuf (gp g p) w) \/ exists s, In (p, (c, w, s), v) log') ->
  iso_inv (Gst (updZ (gp g) p st') sent' log' (gapi g)).
Proof.
  intros g p st' sent' log' [I1 I2] Mono F. split; cbn.
  - intros p0 c i v I. destruct (I1 _ _ _ _ I) as [s Is]. eauto.
  - intros p0 w v c. unfold updZ. destruct (Z.eqb_spec p0 p).
    + subst p0. intros I. destruct (F _ _ _ I) as [J|J]; auto. destruct (I2 _ _ _ _ J) as [s Is]. eauto.
    + intros I. destruct (I2 _ _ _ _ I) as [s Is]. eauto.
Qed.

Lemma iso_api : forall g p c i v, iso_inv g -> (exists s, In (p, (c, i, s), v) (glog g)) ->
  iso_inv (Gst (gp g) (gsent g) (glog g) (gapi g ++ [(p, c, i, v)])).
Proof.
  intros g p c i v [I1 I2] E. split; cbn; auto.
  intros p0 c0 i0 v0 I. apply in_app_or in I. destruct I as [I|[I|[]]]; auto. inversion I; subst. exact E.
Qed.

Lemma iso_step : forall g e, iso_inv g -> iso_inv (gstep g e).
Proof.
  intros g e Inv. destruct e; cbn [RbcModel.gstep].
  - (* EBcast *) destruct (honest n byz p); auto. unfold broadcast.
    apply iso_update; auto; cbn; auto.
  - (* ERecv *) destruct (honest n byz p && can_recv n byz g p l m); auto. unfold apply_out.
    apply iso_update; auto; [intros x I; apply in_or_app; auto|].
    intros w v c I. left. pose proof (deliver_spec n t skip H toolong p (gp g p) (Some (l, m))) as [(_&_&_&_&_&F) _].
    rewrite F. exact I.
  - (* EIdle *) destruct (honest n byz p); auto. unfold apply_out.
    apply iso_update; auto; [intros x I; apply in_or_app; auto|].
    intros w v c I. left. pose proof (deliver_spec n t skip H toolong p (gp g p) None) as [(_&_&_&_&_&F) _].
    rewrite F. exact I.
  - (* EFromRecv *) destruct (honest n byz p && can_recv n byz g p l m); auto. unfold apply_from.
    set (ov := deliver_from n t skip H toolong p (gp g p) i (Some (l, m))).
    assert (A : iso_inv (apply_out g p (fst ov))).
    { unfold apply_out. apply iso_update; auto; [intros x I; apply in_or_app; auto|].
      intros w v c I. apply deliver_from_buffers in I. destruct I as [I|(-> & s & E)]; auto.
      right. exists s. apply in_or_app. right. fold ov in E. rewrite E. cbn. auto. }
    destruct (snd ov) as [v|] eqn:R; auto.
    apply (iso_api (apply_out g p (fst ov))); auto.
    apply deliver_from_isolation in R. destruct Inv as [_ I2]. destruct (I2 _ _ _ _ R) as [s Is].
    exists s. cbn. apply in_or_app. auto.
  - (* EFromIdle *) destruct (honest n byz p); auto. unfold apply_from.
    set (ov := deliver_from n t skip H toolong p (gp g p) i None).
    assert (A : iso_inv (apply_out g p (fst ov))).
    { unfold apply_out. apply iso_update; auto; [intros x I; apply in_or_app; auto|].
      intros w v c I. apply deliver_from_buffers in I. destruct I as [I|(-> & s & E)]; auto.
      right. exists s. apply in_or_app. right. fold ov in E. rewrite E. cbn. auto. }
    destruct (snd ov) as [v|] eqn:R; auto.
    apply (iso_api (apply_out g p (fst ov))); auto.
    apply deliver_from_isolation in R. destruct Inv as [_ I2]. destruct (I2 _ _ _ _ R) as [s Is].
    exists s. cbn. apply in_or_app. auto.
  - (* ESetID *) destruct (honest n byz p); auto. unfold set_party. apply iso_update; auto;
    intros w v c I; left; destruct (switch_frame (gp g p) id f) as [(_&_&_&F&_) _]; cbv zeta in F; rewrite F in I; exact I.
  - (* ERecoverID *) destruct (honest n byz p); auto. unfold set_party. apply iso_update; auto;
    intros w v c I; left; destruct (switch_frame (gp g p) id f) as [_ [(_&_&_&F&_) _]]; cbv zeta in F; rewrite F in I; exact I.
  - (* EUnsetID *) destruct (honest n byz p); auto. unfold set_party. apply iso_update; auto;
    intros w v c I; left; destruct (switch_frame (gp g p) 0 f) as [_ [_ (_&_&_&F&_)]]; cbv zeta in F; rewrite F in I; exact I.
Qed.

Theorem deliverfrom_isolation_run : forall es p c i v,
  In (p, c, i, v) (gapi (run es)) -> exists s, In (p, (c, i, s), v) (glog (run es)).
Proof.
  intros es. assert (I : iso_inv (run es)); [|exact (proj1 I)].
  apply grun_ind.
  - split; cbn; intros ? ? ? ? [].
  - apply iso_step.
Qed.

End Net.

(* Plan of the unfinished agreement proof (statements intended, not proved):
   I-echo-count / I-ready-count: ed/rd of an honest party = length of a duplicate-free list of parties whose filter is set and
     that are Byzantine or have the message in gsent;  I-echo-once: an honest party echoes one digest per tag (FSend filter);
   I-ready-src: an honest ready(tag,d) implies an echo quorum for d at an honest party;  I-ready-same: by
     quorum_intersect_honest + I-echo-once all honest readys of a tag carry one digest;  I-dbar: dbar tag = Some d implies
     rd tag d >= 2t+1, hence (nodup_exceeds_honest) an honest ready for d, hence dbar agrees between honest parties;
   I-local: a logged delivery (p,tag,v) without use of the l-retrieve path has dbar tag = Some (H v).  *)
