(* RbcAgreement: network-level results about RbcModel (C14): the non-FIFO duplicate delivery (refutation witness),
   the quorum counting lemmas behind agreement, and invariants of every schedule (fold_left gstep). *)
From Coq Require Import ZArith List Bool Lia.
From LT Require Import RbcModel RbcLemmas RbcOrder.
Import ListNotations.
Local Open Scope Z_scope.

(* ---- finding F8: without FIFO sequence numbers one slot is delivered once per r-answer ---------------- *)
Definition f8_H (x : Z) : Z := x + 7.
Definition f8_gen (f : bool) (s : Z) : list event :=
  let snd_ := Msg 5 0 s 1 42 in let ech := Msg 5 0 s 2 49 in let rdy := Msg 5 0 s 3 49 in
  let req := Msg 5 0 s 4 49 in let ans := Msg 5 0 s 5 42 in
  [ESetID 0 5 f; ESetID 1 5 f; ESetID 2 5 f; ESetID 3 5 f;
   EBcast 0 42 s;
   ERecv 0 0 snd_; ERecv 1 0 snd_; ERecv 2 0 snd_;
   ERecv 0 0 ech; ERecv 0 1 ech; ERecv 0 2 ech;
   ERecv 1 0 ech; ERecv 1 1 ech; ERecv 1 2 ech;
   ERecv 2 0 ech; ERecv 2 1 ech; ERecv 2 2 ech;
   (* P3 has heard nothing from the sender; readys of P1, P2, then its own (amplification): quorum without payload *)
   ERecv 3 1 rdy; ERecv 3 2 rdy; ERecv 3 3 rdy;
   ERecv 0 3 req; ERecv 1 3 req; ERecv 2 3 req;
   ERecv 3 0 ans; ERecv 3 1 ans; ERecv 3 2 ans].
Definition f8_events : list event := f8_gen false 9.
Definition f8_run := grun 4 1 0 f8_H (fun _ _ => false) (fun _ => false) f8_events.

Lemma f8_log : glog f8_run = [(3, (5, 0, 9), 42); (3, (5, 0, 9), 42); (3, (5, 0, 9), 42)].
Proof. vm_compute. reflexivity. Qed.

(* the statement "no honest party delivers a slot twice", for all modes *)
Definition no_duplicate_statement : Prop :=
  forall n t skip H toolong byz es, 3 * t < n ->
    NoDup (map (fun e : Z * tagT * Z => fst e) (glog (grun n t skip H toolong byz es))).

Lemma no_dup_nonfifo_refuted : ~ no_duplicate_statement.
Proof.
  intros N. specialize (N 4 1 0 f8_H (fun _ _ => false) (fun _ => false) f8_events).
  assert (L : 3 * 1 < 4) by lia. specialize (N L). clear L.
  vm_compute in N. inversion N as [|? ? NI _]. apply NI. left. reflexivity.
Qed.

(* the same schedule on a FIFO channel delivers once *)
Definition f8_events_fifo : list event := f8_gen true 1.

(* ---- counting ---------------------------------------------------------------------------------------- *)
Lemma nodup_exceeds_honest : forall (B L : list Z), NoDup L -> (length B < length L)%nat ->
  exists l, In l L /\ ~ In l B.
Proof.
  intros B L ND Len.
  destruct (existsb (fun l => negb (existsb (Z.eqb l) B)) L) eqn:E.
  - apply existsb_exists in E. destruct E as (l & I & N). exists l. split; auto.
    intros IB. apply negb_true_iff in N. assert (existsb (Z.eqb l) B = true).
    { apply existsb_exists. exists l. split; auto. apply Z.eqb_refl. } congruence.
  - exfalso. assert (incl L B).
    { intros l I. destruct (existsb (Z.eqb l) B) eqn:X.
      - apply existsb_exists in X. destruct X as (y & Iy & Ey). apply Z.eqb_eq in Ey. subst; auto.
      - assert (existsb (fun l => negb (existsb (Z.eqb l) B)) L = true).
        { apply existsb_exists. exists l. split; auto. rewrite X. reflexivity. } congruence. }
    apply NoDup_incl_length in H; auto. lia.
Qed.

Lemma NoDup_app_disjoint : forall (a b : list Z), NoDup a -> NoDup b -> (forall x, In x a -> ~ In x b) -> NoDup (a ++ b).
Proof.
  induction a as [|x r IH]; intros b Na Nb Dj; cbn; auto.
  inversion Na; subst. constructor.
  - intros I. apply in_app_or in I. destruct I as [I|I]; [auto|]. apply (Dj x); cbn; auto.
  - apply IH; auto. intros y Iy. apply Dj. cbn; auto.
Qed.

Lemma in_existsb_eqb : forall l (L : list Z), existsb (Z.eqb l) L = true <-> In l L.
Proof.
  intros l L. rewrite existsb_exists. split.
  - intros (y & I & E). apply Z.eqb_eq in E. subst; auto.
  - intros I. exists l. split; auto. apply Z.eqb_refl.
Qed.

Lemma bounded_nodup_length : forall (n : Z) (L : list Z), 0 <= n -> NoDup L -> (forall l, In l L -> 0 <= l < n) ->
  Z.of_nat (length L) <= n.
Proof.
  intros n L N0 ND R.
  assert (I : incl L (map Z.of_nat (seq 0 (Z.to_nat n)))).
  { intros l Il. apply R in Il. apply in_map_iff. exists (Z.to_nat l). split; [lia|]. apply in_seq. lia. }
  apply NoDup_incl_length in I; auto. rewrite map_length, seq_length in I. lia.
Qed.

Lemma quorum_intersect_honest : forall (n t : Z) (B L1 L2 : list Z),
  3 * t < n -> 0 <= t -> Z.of_nat (length B) <= t ->
  NoDup L1 -> NoDup L2 ->
  (forall l, In l L1 -> 0 <= l < n) -> (forall l, In l L2 -> 0 <= l < n) ->
  n - t <= Z.of_nat (length L1) -> n - t <= Z.of_nat (length L2) ->
  exists l, In l L1 /\ In l L2 /\ ~ In l B.
Proof.
  intros n t B L1 L2 N3 T0 BL ND1 ND2 R1 R2 Q1 Q2.
  set (C := filter (fun l => existsb (Z.eqb l) L2) L1).
  set (D := filter (fun l => negb (existsb (Z.eqb l) L2)) L1).
  assert (LC : (length C + length D = length L1)%nat).
  { unfold C, D. clear. induction L1 as [|a r IH]; cbn; auto. destruct (existsb (Z.eqb a) L2); cbn; lia. }
  assert (NDD : NoDup (D ++ L2)).
  { apply NoDup_app_disjoint; auto.
    - apply NoDup_filter; auto.
    - intros x Ix I2. apply filter_In in Ix. destruct Ix as [_ Ix]. apply negb_true_iff in Ix.
      apply in_existsb_eqb in I2. congruence. }
  assert (LD : Z.of_nat (length (D ++ L2)) <= n).
  { apply bounded_nodup_length; auto; [lia|]. intros l I. apply in_app_or in I. destruct I as [I|I]; auto.
    apply filter_In in I. destruct I as [I _]. auto. }
  rewrite app_length in LD.
  assert (NC : NoDup C) by (apply NoDup_filter; auto).
  destruct (nodup_exceeds_honest B C NC) as (l & Il & Nl); [lia|].
  apply filter_In in Il. destruct Il as [I1 I2]. apply in_existsb_eqb in I2. eauto.
Qed.
