(* PowmModel -- Gallina model of the modular-exponentiation variants of src/mpz_spowm.cc (C09, used by C01).
   Definitions only.  Moduli are positive (GMP's own precondition for mpz_powm_sec / mpz_invert / mpz_mod
   semantics used here); everything else (sign of base and exponent, zero, non-invertible values, table
   limits) is modelled as the code behaves, thrown exceptions are explicit outcomes.

   mpz_powm_sec(r,b,e,p), e > 0      = Zbase.powm b e p
   mpz_invert(r,a,p)                 = Zbase.invm a p   (None = return value 0)
   mpz_sizeinbase(x,2)               = bitlen x         (1 for x = 0)
   fpowm_table[TMCG_MAX_FPOWM_T]     = list Z of that length; tmcg_mpz_fpowm_init leaves zeros *)
From Coq Require Import ZArith List Bool.
From LT Require Import Zbase gen_Consts.
Import ListNotations.
Local Open Scope Z_scope.

Inductive outcome : Type :=
| Ok (r : Z)
| ThrowEven          (* invalid_argument "p is even"            mpz_spowm.cc:117 *)
| ThrowZeroMod       (* invalid_argument "p is zero"            mpz_spowm.cc:189 *)
| ThrowWrongBase     (* invalid_argument "wrong base"           mpz_spowm.cc:205,245,271 *)
| ThrowTooLarge      (* invalid_argument "exponent too large"   mpz_spowm.cc:234,262,322 *)
| ThrowInvert        (* runtime_error "mpz_invert failed"       mpz_spowm.cc:131,147,164,226,292 *)
| TableOverrun.      (* access beyond the table: excluded by the size check of the code; never observed *)

Definition bitlen (x : Z) : Z := if x =? 0 then 1 else Z.log2 (Z.abs x) + 1.

(* the "dummy" rounds  res := res * d * d^{-1}; a non-invertible dummy is replaced by 1 (mpz_spowm.cc:151-156,307-318) *)
Definition dummy_pair (d p : Z) : Z * Z :=
  match invm d p with Some i => (d, i) | None => (1, 1) end.

(* tmcg_mpz_spowm, HAVE_POWMSEC branch, mpz_spowm.cc:110-175 *)
Definition spowm (m x p : Z) : outcome :=
  if Z.even p then ThrowEven else
  let sign := Z.sgn x in
  let xx := if sign =? 0 then 1 else Z.abs x in          (* sign 0: xx := -bar = 1 *)
  let bar := if sign =? 1 then - x else -1 in
  let baz := powm m xx p in
  match invm baz p with
  | None => ThrowInvert
  | Some foo =>
    let res := if sign =? -1 then foo else if sign =? 1 then baz else xx in
    let res := (res * foo) mod p in
    match invm foo p with
    | None => ThrowInvert
    | Some xx2 =>
      let res := (res * xx2) mod p in
      let '(bar', xx3) := dummy_pair bar p in
      let res := (res * bar') mod p in
      let res := (res * xx3) mod p in
      let res := (res * baz) mod p in
      match invm baz p with
      | None => ThrowInvert
      | Some xx4 => Ok ((res * xx4) mod p)
      end
    end
  end.

(* ---- square tables ---------------------------------------------------------------------------- *)
Fixpoint sqtab (n : nat) (cur p : Z) : list Z :=
  match n with
  | O => []
  | S n' => cur :: sqtab n' ((cur * cur) mod p) p
  end.

(* number of entries written by tmcg_mpz_fpowm_precompute: entry 0 always, then i < t and i < TMCG_MAX_FPOWM_T *)
Definition filled (t : Z) : nat := Z.to_nat (Z.max 1 (Z.min t TMCG_MAX_FPOWM_T)).

(* tmcg_mpz_fpowm_init + tmcg_mpz_fpowm_precompute, mpz_spowm.cc:179-198; None = throws "p is zero" *)
Definition fpowm_precompute (m p t : Z) : option (list Z) :=
  if p =? 0 then None
  else Some (sqtab (filled t) m p ++ repeat 0 (Z.to_nat TMCG_MAX_FPOWM_T - filled t)).

(* the bit loop of tmcg_mpz_fpowm / _ui: bits of e from the least significant, table consumed in step *)
Fixpoint fp_loop (tab : list Z) (e : positive) (res p : Z) : option Z :=
  match tab with
  | [] => None
  | t0 :: tl =>
    match e with
    | xH => Some ((res * t0) mod p)
    | xO e' => fp_loop tl e' res p
    | xI e' => fp_loop tl e' ((res * t0) mod p) p
    end
  end.

(* tmcg_mpz_fpowm, mpz_spowm.cc:200-238 *)
Definition fpowm (tab : list Z) (m x p : Z) : outcome :=
  match tab with
  | [] => TableOverrun
  | t0 :: _ =>
    if negb (m =? t0) then ThrowWrongBase
    else if bitlen x <=? TMCG_MAX_FPOWM_T then
      match Z.abs x with
      | Zpos e =>
        match fp_loop tab e 1 p with
        | None => TableOverrun
        | Some r =>
          if x <? 0 then match invm r p with Some i => Ok i | None => ThrowInvert end
          else Ok r
        end
      | _ => Ok 1
      end
    else ThrowTooLarge
  end.

(* tmcg_mpz_fpowm_ui, mpz_spowm.cc:240-266; x is an unsigned long (0 <= x) *)
Definition fpowm_ui (tab : list Z) (m x p : Z) : outcome :=
  match tab with
  | [] => TableOverrun
  | t0 :: _ =>
    if negb (m =? t0) then ThrowWrongBase
    else if bitlen x <=? TMCG_MAX_FPOWM_T then
      match x with
      | Zpos e => match fp_loop tab e 1 p with None => TableOverrun | Some r => Ok r end
      | _ => Ok 1
      end
    else ThrowTooLarge
  end.

(* the bit loop of tmcg_mpz_fspowm: state (res, bar), every step multiplies; mpz_spowm.cc:284-293 *)
Fixpoint fsp_loop (tab : list Z) (e : positive) (res bar p : Z) : option (Z * Z) :=
  match tab with
  | [] => None
  | t0 :: tl =>
    let foo := (res * t0) mod p in
    let bar1 := bar + foo in
    match e with
    | xH => Some (foo, bar1)
    | xO e' => fsp_loop tl e' res foo p
    | xI e' => fsp_loop tl e' foo bar1 p
    end
  end.

(* tmcg_mpz_fspowm, mpz_spowm.cc:268-326 *)
Definition fspowm (tab : list Z) (m x p : Z) : outcome :=
  match tab with
  | [] => TableOverrun
  | t0 :: _ =>
    if negb (m =? t0) then ThrowWrongBase
    else
      let bar0 := if x <? 0 then 0 else - x in
      if bitlen x <=? TMCG_MAX_FPOWM_T then
        let st := match Z.abs x with
                  | Zpos e => fsp_loop tab e 1 bar0 p
                  | _ => Some (1, (1 * t0) mod p)       (* x = 0: one round, bit clear: bar := foo *)
                  end in
        match st with
        | None => TableOverrun
        | Some (res, bar) =>
          match invm res p with
          | None => ThrowInvert
          | Some foo =>
            let baz := if x <? 0 then res else foo in
            let res := if x <? 0 then foo else res in
            let '(bar', foo1) := dummy_pair bar p in
            let res := (bar' * res) mod p in
            let res := (res * foo1) mod p in
            let '(baz', foo2) := dummy_pair baz p in
            let res := (baz' * res) mod p in
            Ok ((res * foo2) mod p)
          end
        end
      else ThrowTooLarge
  end.

(* reference: what plain mpz_powm returns (negative exponents through the inverse); None = no inverse *)
Definition powm_ref (m x p : Z) : option Z :=
  if x <? 0 then invm (powm m (- x) p) p else Some (powm m x p).
