(* VtmfCount -- the counting form of "up to negligible probability" in C01: with the key part x_J of the missing
   players not divisible by q, the map R |-> (T + R * x_J) mod q permutes Z_q; hence of the q possible accumulated masking
   exponents exactly one opens to T, exactly 2^w - 1 open to a wrong valid type and q - 2^w to the sentinel. *)
From Coq Require Import ZArith Znumtheory Lia List Bool ZifyBool.
From LT Require Import Zbase gen_Consts PowmModel PowmLemmas VtmfModel VtmfLemmas.
Import ListNotations.
Local Open Scope Z_scope.

Definition zseq (n : nat) : list Z := map Z.of_nat (seq 0 n).

Lemma zseq_In (n : nat) (x : Z) : In x (zseq n) <-> 0 <= x < Z.of_nat n.
Proof.
  unfold zseq. rewrite in_map_iff. split.
  - intros (k & <- & Hk). apply in_seq in Hk. lia.
  - intros H. exists (Z.to_nat x). split; [lia|]. apply in_seq. lia.
Qed.

Lemma zseq_length (n : nat) : length (zseq n) = n.
Proof. unfold zseq. now rewrite map_length, seq_length. Qed.

Lemma zseq_S (n : nat) : zseq (S n) = zseq n ++ [Z.of_nat n].
Proof. unfold zseq. rewrite seq_S, map_app. reflexivity. Qed.

Lemma NoDup_map_inj {A B} (f : A -> B) (l : list A) :
  (forall x y, In x l -> In y l -> f x = f y -> x = y) -> NoDup l -> NoDup (map f l).
Proof.
  intros Hinj H. induction H as [|a l Hn _ IH]; cbn [map]; constructor.
  - intros Hin. apply in_map_iff in Hin. destruct Hin as (y & E & Hy).
    apply Hinj in E; [|now right|now left]. now subst y.
  - apply IH. intros x y Hx Hy. apply Hinj; now right.
Qed.

Lemma zseq_NoDup (n : nat) : NoDup (zseq n).
Proof. apply NoDup_map_inj; [intros x y _ _ H; lia|apply seq_NoDup]. Qed.

(* a bijection of a duplicate-free list onto itself preserves counts *)
Lemma count_le (l : list Z) (phi psi : Z -> Z) (P Q : Z -> bool) : NoDup l ->
  (forall x, In x l -> In (phi x) l /\ psi (phi x) = x) ->
  (forall x, In x l -> Q x = P (phi x)) ->
  (length (filter Q l) <= length (filter P l))%nat.
Proof.
  intros ND Hphi HQ.
  rewrite <- (map_length phi (filter Q l)). apply NoDup_incl_length.
  - apply NoDup_map_inj; [|now apply NoDup_filter].
    intros x y Hx Hy E. apply filter_In in Hx. apply filter_In in Hy.
    rewrite <- (proj2 (Hphi x (proj1 Hx))), <- (proj2 (Hphi y (proj1 Hy))). now rewrite E.
  - intros y Hy. apply in_map_iff in Hy. destruct Hy as (x & <- & Hx). apply filter_In in Hx. destruct Hx as [Hx HQx].
    apply filter_In. split; [apply Hphi; assumption|]. now rewrite <- HQ.
Qed.

Lemma bijection_count (l : list Z) (phi psi : Z -> Z) (P : Z -> bool) : NoDup l ->
  (forall x, In x l -> In (phi x) l /\ psi (phi x) = x) ->
  (forall y, In y l -> In (psi y) l /\ phi (psi y) = y) ->
  length (filter (fun x => P (phi x)) l) = length (filter P l).
Proof.
  intros ND H1 H2. apply Nat.le_antisymm.
  - apply (count_le l phi psi P (fun x => P (phi x))); auto.
  - apply (count_le l psi phi (fun x => P (phi x)) P); auto.
    intros y Hy. now rewrite (proj2 (H2 y Hy)).
Qed.

(* elementary counts over 0 .. n-1 *)
Lemma count_lt (n a : nat) : (a <= n)%nat -> length (filter (fun t => t <? Z.of_nat a) (zseq n)) = a.
Proof.
  induction n as [|n IH]; intros H; [cbn; lia|].
  rewrite zseq_S, filter_app, app_length. cbn [filter].
  destruct (Z.ltb_spec (Z.of_nat n) (Z.of_nat a)) as [L|L]; cbn [length].
  - assert (a = S n) by lia. subst a.
    rewrite (filter_ext_in _ (fun _ => true)).
    + assert (forall l : list Z, filter (fun _ => true) l = l) as F by (induction l; cbn; congruence).
      rewrite F. unfold zseq. rewrite map_length, seq_length. lia.
    + intros t Ht. apply zseq_In in Ht. lia.
  - rewrite IH by lia. lia.
Qed.

Lemma count_eq (n : nat) (T : Z) : 0 <= T < Z.of_nat n -> length (filter (fun t => t =? T) (zseq n)) = 1%nat.
Proof.
  induction n as [|n IH]; intros H; [lia|].
  rewrite zseq_S, filter_app, app_length. cbn [filter].
  destruct (Z.eqb_spec (Z.of_nat n) T) as [E|E]; cbn [length].
  - rewrite (filter_ext_in _ (fun _ => false)).
    + assert (forall l : list Z, filter (fun _ => false) l = []) as F by (induction l; cbn; congruence).
      rewrite F. reflexivity.
    + intros t Ht. apply zseq_In in Ht. lia.
  - rewrite IH by lia. lia.
Qed.

Lemma filter_split_length (l : list Z) (p r : Z -> bool) :
  (length (filter (fun x => p x && negb (r x)) l) + length (filter (fun x => p x && r x) l) = length (filter p l))%nat.
Proof.
  induction l as [|x l IH]; [reflexivity|]. cbn [filter].
  destruct (p x), (r x); cbn [andb negb length]; lia.
Qed.

Section Counting.
  Variable G : group.
  Variable w : nat.
  Variables T xJ : Z.
  Hypothesis Hq : prime (gq G).
  Hypothesis Hw : 2 ^ Z.of_nat w <= gq G.
  Hypothesis HT : 0 <= T < 2 ^ Z.of_nat w.
  Hypothesis HxJ : xJ mod gq G <> 0.
  Let q := gq G.
  Let n := Z.to_nat q.
  Let q2 : 2 <= q. Proof. now apply prime_ge_2. Qed.

  (* what the opening returns when the accumulated masking exponent is R and the key part xJ is missing *)
  Definition outcome_for (R : Z) : Z := expected_type G w (T + R * xJ).

  Definition phi (R : Z) : Z := (T + R * xJ) mod q.

  Lemma xJ_inverse : exists i, (xJ * i) mod q = 1.
  Proof.
    assert (Gc : Z.gcd xJ q = 1).
    { apply Zgcd_1_rel_prime. apply rel_prime_sym. apply prime_rel_prime; [assumption|].
      intros D. apply HxJ. apply Z.mod_divide; [lia|assumption]. }
    destruct (invm_coprime xJ q ltac:(lia) Gc) as [i E]. exists i.
    apply invm_some in E. destruct E as (_ & _ & H). rewrite H. apply Z.mod_1_l. lia.
  Qed.

  Lemma phi_bijection : exists psi,
    (forall x, In x (zseq n) -> In (phi x) (zseq n) /\ psi (phi x) = x) /\
    (forall y, In y (zseq n) -> In (psi y) (zseq n) /\ phi (psi y) = y).
  Proof.
    destruct xJ_inverse as [i Hi].
    assert (Nq : Z.of_nat n = q) by (unfold n; lia).
    exists (fun t => ((t - T) * i) mod q). split.
    - intros x Hx. apply zseq_In in Hx. rewrite Nq in Hx. split.
      + apply zseq_In. rewrite Nq. apply Z.mod_pos_bound. lia.
      + unfold phi. rewrite <- Zmult_mod_idemp_l, Zminus_mod_idemp_l, Zmult_mod_idemp_l.
        replace ((T + x * xJ - T) * i) with (x * (xJ * i)) by ring.
        rewrite <- Zmult_mod_idemp_r, Hi, Z.mul_1_r. apply Z.mod_small. lia.
    - intros y Hy. apply zseq_In in Hy. rewrite Nq in Hy. split.
      + apply zseq_In. rewrite Nq. apply Z.mod_pos_bound. lia.
      + unfold phi. rewrite <- Zplus_mod_idemp_r, Zmult_mod_idemp_l, Zplus_mod_idemp_r.
        replace (T + (y - T) * i * xJ) with (T + (y - T) * (xJ * i)) by ring.
        rewrite <- Zplus_mod_idemp_r, <- Zmult_mod_idemp_r, Hi, Z.mul_1_r, Zplus_mod_idemp_r.
        replace (T + (y - T)) with y by ring. apply Z.mod_small. lia.
  Qed.

  Definition et (t : Z) : Z := if t <? 2 ^ Z.of_nat w then t else 2 ^ Z.of_nat w.

  Lemma outcome_phi (R : Z) : outcome_for R = et (phi R).
  Proof. reflexivity. Qed.

  Lemma count_via (P : Z -> bool) :
    length (filter (fun R => P (outcome_for R)) (zseq n)) = length (filter (fun t => P (et t)) (zseq n)).
  Proof.
    destruct phi_bijection as (psi & H1 & H2).
    rewrite <- (bijection_count (zseq n) phi psi (fun t => P (et t)) (zseq_NoDup n) H1 H2).
    apply f_equal. apply filter_ext. intros R. now rewrite outcome_phi.
  Qed.

  Let Nq : Z.of_nat n = q. Proof. unfold n. lia. Qed.
  Let W := Z.to_nat (2 ^ Z.of_nat w).
  Let HW : Z.of_nat W = 2 ^ Z.of_nat w. Proof. unfold W. lia. Qed.

  (* exactly one of the q exponents opens to T *)
  Theorem count_correct : length (filter (fun R => outcome_for R =? T) (zseq n)) = 1%nat.
  Proof.
    rewrite (count_via (fun t => t =? T)).
    rewrite (filter_ext_in _ (fun t => t =? T)); [apply count_eq; lia|].
    intros t Ht. unfold et. destruct (Z.ltb_spec t (2 ^ Z.of_nat w)); [reflexivity|].
    destruct (Z.eqb_spec (2 ^ Z.of_nat w) T), (Z.eqb_spec t T); lia.
  Qed.

  (* exactly q - 2^w open to the sentinel *)
  Theorem count_sentinel :
    Z.of_nat (length (filter (fun R => outcome_for R =? 2 ^ Z.of_nat w) (zseq n))) = q - 2 ^ Z.of_nat w.
  Proof.
    rewrite (count_via (fun t => t =? 2 ^ Z.of_nat w)).
    rewrite (filter_ext_in _ (fun t => negb (t <? Z.of_nat W))).
    - pose proof (filter_split_length (zseq n) (fun _ => true) (fun t => t <? Z.of_nat W)) as S.
      cbn [andb] in S. rewrite (count_lt n W) in S by lia.
      assert (forall l : list Z, filter (fun _ => true) l = l) as F by (induction l; cbn; congruence).
      rewrite F in S. rewrite zseq_length in S. lia.
    - intros t Ht. rewrite HW. unfold et. destruct (Z.ltb_spec t (2 ^ Z.of_nat w)); cbn [negb]; [|apply Z.eqb_refl].
      destruct (Z.eqb_spec t (2 ^ Z.of_nat w)); [lia|reflexivity].
  Qed.

  (* exactly 2^w - 1 open to a valid type different from T *)
  Theorem count_wrong_valid :
    Z.of_nat (length (filter (fun R => (outcome_for R <? 2 ^ Z.of_nat w) && negb (outcome_for R =? T)) (zseq n)))
    = 2 ^ Z.of_nat w - 1.
  Proof.
    rewrite (count_via (fun t => (t <? 2 ^ Z.of_nat w) && negb (t =? T))).
    rewrite (filter_ext_in _ (fun t => (t <? Z.of_nat W) && negb (t =? T))).
    - pose proof (filter_split_length (zseq n) (fun t => t <? Z.of_nat W) (fun t => t =? T)) as S.
      rewrite (count_lt n W) in S by lia.
      rewrite (filter_ext_in (fun x => (x <? Z.of_nat W) && (x =? T)) (fun t => t =? T)) in S.
      + rewrite (count_eq n T) in S by lia. lia.
      + intros t _. destruct (Z.eqb_spec t T); [|apply andb_false_r]. subst t. rewrite andb_true_r. lia.
    - intros t Ht. rewrite HW. unfold et. destruct (Z.ltb_spec t (2 ^ Z.of_nat w)) as [L|L].
      + destruct (Z.ltb_spec t (2 ^ Z.of_nat w)); [reflexivity|lia].
      + rewrite Z.ltb_irrefl. reflexivity.
  Qed.
End Counting.
