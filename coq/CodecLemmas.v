(* CodecLemmas: proofs about CodecModel (round trips of the textual transport encoding). *)
From Coq Require Import ZArith NArith List Bool Lia.
From LT Require Import gen_Consts CodecModel.
Import ListNotations.
Local Open Scope N_scope.

(* ---- digits ---------------------------------------------------------------------------- *)
Definition dstep (b : N) := fun a d : N => a * b + d.

Lemma from_digits_unfold b ds : from_digits b ds = fold_left (dstep b) ds 0.
Proof. reflexivity. Qed.

Lemma to_digits_fuel_fold b fuel : 2 <= b -> forall n acc,
  n < 2 ^ N.of_nat fuel ->
  fold_left (dstep b) (to_digits_fuel b fuel n acc) 0 = fold_left (dstep b) acc n.
Proof.
  intros Hb. induction fuel as [|f IH]; intros n acc Hn.
  - simpl in *. assert (n = 0) by lia. subst. reflexivity.
  - cbn [to_digits_fuel]. destruct (n =? 0) eqn:E.
    + apply N.eqb_eq in E. subst. reflexivity.
    + apply N.eqb_neq in E. rewrite IH.
      * cbn [fold_left]. unfold dstep at 2. f_equal.
        rewrite N.mul_comm. symmetry. apply N.div_mod. lia.
      * rewrite Nnat.Nat2N.inj_succ, N.pow_succ_r' in Hn.
        assert (n / b <= n / 2) by (apply N.div_le_compat_l; lia).
        assert (n / 2 < 2 ^ N.of_nat f) by (apply N.div_lt_upper_bound; lia).
        lia.
Qed.

Lemma size_bound n : n < 2 ^ N.of_nat (S (N.to_nat (N.size n))).
Proof.
  rewrite Nnat.Nat2N.inj_succ, Nnat.N2Nat.id, N.pow_succ_r'.
  destruct n as [|p]; [cbn; lia|].
  pose proof (N.size_gt (Npos p)). lia.
Qed.

Lemma from_to_digits b n : 2 <= b -> from_digits b (to_digits b n) = n.
Proof.
  intros Hb. unfold to_digits. destruct (n =? 0) eqn:E.
  - apply N.eqb_eq in E. subst. reflexivity.
  - rewrite from_digits_unfold, to_digits_fuel_fold; [reflexivity|assumption|apply size_bound].
Qed.

Lemma to_digits_fuel_lt b fuel : 0 < b -> forall n acc,
  Forall (fun d => d < b) acc -> Forall (fun d => d < b) (to_digits_fuel b fuel n acc).
Proof.
  intros Hb. induction fuel as [|f IH]; intros n acc Ha; cbn [to_digits_fuel]; [assumption|].
  destruct (n =? 0); [assumption|]. apply IH. constructor; [|assumption].
  apply N.mod_lt. lia.
Qed.

Lemma to_digits_lt b n : 0 < b -> Forall (fun d => d < b) (to_digits b n).
Proof.
  intros Hb. unfold to_digits. destruct (n =? 0).
  - constructor; [lia|constructor].
  - apply to_digits_fuel_lt; [assumption|constructor].
Qed.

Lemma to_digits_fuel_len b fuel : forall n acc, (length acc <= length (to_digits_fuel b fuel n acc))%nat.
Proof.
  induction fuel as [|f IH]; intros n acc; cbn [to_digits_fuel]; [lia|].
  destruct (n =? 0); [lia|]. specialize (IH (n / b) (n mod b :: acc)). simpl in IH. lia.
Qed.

Lemma to_digits_nonempty b n : to_digits b n <> [].
Proof.
  unfold to_digits. destruct (n =? 0) eqn:E; [discriminate|].
  cbn [to_digits_fuel]. rewrite E. intros H.
  pose proof (to_digits_fuel_len b (N.to_nat (N.size n)) (n / b) [n mod b]) as L.
  rewrite H in L. simpl in L. lia.
Qed.

(* ---- the alphabet ------------------------------------------------------------------------- *)
Ltac alpha :=
  unfold digit_char, char_digit, char_digit10, is_space;
  repeat match goal with
         | |- context [?a <? ?b] => destruct (N.ltb_spec a b)
         | |- context [?a <=? ?b] => destruct (N.leb_spec a b)
         | |- context [?a =? ?b] => destruct (N.eqb_spec a b)
         end; cbn [andb orb negb]; try lia; try reflexivity; try discriminate.

Lemma char_digit_char d : d < 62 -> char_digit (digit_char d) = d.
Proof. intros H. alpha. Qed.

Lemma char_digit10_char d : d < 10 -> char_digit10 (digit_char d) = d.
Proof. intros H. alpha. Qed.

Lemma digit_char_not_space d : d < 62 -> is_space (digit_char d) = false.
Proof. intros H. alpha. Qed.

Lemma digit_char_range d : d < 62 -> 48 <= digit_char d <= 122 /\ digit_char d <> 94.
Proof. intros H. unfold digit_char. destruct (N.ltb_spec d 10); [lia|]. destruct (N.ltb_spec d 36); lia. Qed.

Definition plain (c : N) : Prop := c <> 0 /\ c <> bar /\ c <> hat /\ c <> 10.

Lemma digit_char_plain d : d < 62 -> plain (digit_char d).
Proof. intros H. pose proof (digit_char_range d H). unfold plain, bar, hat. lia. Qed.

(* ---- base 62 ------------------------------------------------------------------------------- *)
Lemma cstr_id s : Forall (fun c => c <> 0) s -> cstr s = s.
Proof.
  induction 1 as [|c r Hc _ IH]; [reflexivity|]. cbn [cstr].
  destruct (N.eqb_spec c 0); [contradiction|]. now rewrite IH.
Qed.

Lemma filter_nospace s : Forall (fun c => is_space c = false) s -> filter (fun c => negb (is_space c)) s = s.
Proof.
  induction 1 as [|c r Hc _ IH]; [reflexivity|]. cbn [filter]. rewrite Hc. cbn. now rewrite IH.
Qed.

Lemma map_char_digit ds : Forall (fun d => d < 62) ds -> map char_digit (map digit_char ds) = ds.
Proof.
  induction 1 as [|d r Hd _ IH]; [reflexivity|]. cbn [map]. now rewrite char_digit_char, IH.
Qed.

Lemma decode_mag_digits ds : ds <> [] -> Forall (fun d => d < 62) ds ->
  decode_mag 62 (map digit_char ds) = Some (from_digits 62 ds).
Proof.
  intros Hne Hd. destruct ds as [|d r]; [contradiction|]. unfold decode_mag. cbn [map].
  inversion Hd as [|? ? Hd1 Hd2]; subst.
  rewrite char_digit_char by assumption.
  destruct (N.ltb_spec d 62); [|lia].
  change (digit_char d :: map digit_char r) with (map digit_char (d :: r)).
  rewrite filter_nospace.
  - unfold all_digits. rewrite map_char_digit by assumption.
    replace (forallb _ _) with true; [reflexivity|].
    symmetry. apply forallb_forall. intros c Hc. apply in_map_iff in Hc. destruct Hc as [x [<- Hx]].
    rewrite Forall_forall in Hd. rewrite char_digit_char by auto. apply N.ltb_lt. auto.
  - apply Forall_forall. intros c Hc. apply in_map_iff in Hc. destruct Hc as [x [<- Hx]].
    rewrite Forall_forall in Hd. apply digit_char_not_space. auto.
Qed.

Lemma digits62_nozero n : Forall (fun c => c <> 0) (map digit_char (to_digits 62 n)).
Proof.
  apply Forall_forall. intros c Hc. apply in_map_iff in Hc. destruct Hc as [x [<- Hx]].
  pose proof (to_digits_lt 62 n ltac:(lia)) as F. rewrite Forall_forall in F.
  pose proof (digit_char_range x (F x Hx)). lia.
Qed.

Lemma drop_space_digits ds : Forall (fun d => d < 62) ds -> drop_space (map digit_char ds) = map digit_char ds.
Proof.
  intros H. destruct ds as [|d r]; [reflexivity|]. cbn [map drop_space].
  inversion H; subst. now rewrite digit_char_not_space.
Qed.

Lemma decode62_pos n : n <> 0 ->
  decode62 (map digit_char (to_digits 62 n)) = Some (Z.of_N n).
Proof.
  intros Hn. unfold decode62.
  pose proof (to_digits_lt 62 n ltac:(lia)) as F.
  rewrite cstr_id by apply digits62_nozero.
  rewrite drop_space_digits by assumption.
  rewrite decode_mag_digits; [|apply to_digits_nonempty|assumption].
  rewrite from_to_digits by lia.
  destruct (to_digits 62 n) as [|d r] eqn:E; [now apply to_digits_nonempty in E|].
  cbn [map]. inversion F; subst.
  pose proof (digit_char_range d ltac:(assumption)) as R.
  destruct (N.eqb_spec (digit_char d) 45); [lia|reflexivity].
Qed.

Theorem base62_roundtrip z : decode62 (encode62 z) = Some z.
Proof.
  destruct z as [|p|p]; cbn [encode62].
  - reflexivity.
  - rewrite decode62_pos by discriminate. reflexivity.
  - unfold decode62.
    pose proof (to_digits_lt 62 (Npos p) ltac:(lia)) as F.
    cbn [cstr]. destruct (N.eqb_spec 45 0); [discriminate|].
    rewrite cstr_id by apply digits62_nozero.
    cbn [drop_space]. change (is_space 45) with false. cbv iota.
    rewrite N.eqb_refl.
    rewrite decode_mag_digits; [|apply to_digits_nonempty|assumption].
    rewrite from_to_digits by lia. reflexivity.
Qed.

Lemma encode62_plain z : Forall plain (encode62 z).
Proof.
  assert (P45 : plain 45) by (unfold plain, bar, hat; lia).
  assert (D : forall n, Forall plain (map digit_char (to_digits 62 n))).
  { intros n. apply Forall_forall. intros c Hc. apply in_map_iff in Hc. destruct Hc as [x [<- Hx]].
    pose proof (to_digits_lt 62 n ltac:(lia)) as F. rewrite Forall_forall in F.
    apply digit_char_plain. auto. }
  destruct z; cbn [encode62].
  - constructor; [unfold plain, bar, hat; lia|constructor].
  - apply D.
  - constructor; [assumption|apply D].
Qed.

(* ---- decimal / strtoul ----------------------------------------------------------------------- *)
Lemma encode_dec_plain n : Forall plain (encode_dec n).
Proof.
  apply Forall_forall. intros c Hc. apply in_map_iff in Hc. destruct Hc as [x [<- Hx]].
  pose proof (to_digits_lt 10 n ltac:(lia)) as F. rewrite Forall_forall in F.
  apply digit_char_plain. specialize (F x Hx). lia.
Qed.

Lemma map_char_digit10 ds : Forall (fun d => d < 10) ds -> map char_digit10 (map digit_char ds) = ds.
Proof.
  induction 1 as [|d r Hd _ IH]; [reflexivity|]. cbn [map]. now rewrite char_digit10_char, IH.
Qed.

Lemma strtoul_encode_dec n : n <= ulong_max -> strtoul_full (encode_dec n) = Some n.
Proof.
  intros Hn. unfold strtoul_full, encode_dec.
  pose proof (to_digits_lt 10 n ltac:(lia)) as F.
  assert (F62 : Forall (fun d => d < 62) (to_digits 10 n)).
  { eapply Forall_impl; [|exact F]. cbv beta. intros. lia. }
  rewrite cstr_id.
  2:{ apply Forall_forall. intros c Hc. apply in_map_iff in Hc. destruct Hc as [x [<- Hx]].
      rewrite Forall_forall in F62. pose proof (digit_char_range x (F62 x Hx)). lia. }
  rewrite drop_space_digits by assumption.
  destruct (to_digits 10 n) as [|d r] eqn:E; [now apply to_digits_nonempty in E|].
  inversion F as [|? ? Fd Fr]; subst.
  assert (R : 48 <= digit_char d <= 57) by (unfold digit_char; destruct (N.ltb_spec d 10); lia).
  cbn [map strip_sign].
  destruct (N.eqb_spec (digit_char d) 45); [lia|]. destruct (N.eqb_spec (digit_char d) 43); [lia|].
  cbn [fst snd].
  change (digit_char d :: map digit_char r) with (map digit_char (d :: r)).
  rewrite map_char_digit10 by assumption.
  replace (forallb _ _) with true.
  2:{ symmetry. apply forallb_forall. intros c Hc. apply in_map_iff in Hc. destruct Hc as [x [<- Hx]].
      rewrite Forall_forall in F. rewrite char_digit10_char by auto. apply N.ltb_lt. auto. }
  rewrite char_digit10_char by assumption.
  rewrite <- E, from_to_digits by lia.
  destruct (N.ltb_spec ulong_max n); [lia|reflexivity].
Qed.

(* ---- splitting -------------------------------------------------------------------------------- *)
Lemma split_at_app p a r : Forall (fun c => c <> p) a -> split_at p (a ++ p :: r) = Some (a, r).
Proof.
  induction 1 as [|c a Hc _ IH]; cbn [app split_at].
  - now rewrite N.eqb_refl.
  - destruct (N.eqb_spec c p); [contradiction|]. now rewrite IH.
Qed.

Lemma bytes_eqb_refl a : bytes_eqb a a = true.
Proof.
  unfold bytes_eqb. rewrite Nat.eqb_refl. cbn. induction a as [|c a IH]; [reflexivity|].
  cbn. now rewrite N.eqb_refl, IH.
Qed.

Lemma plain_not_bar s : Forall plain s -> Forall (fun c => c <> bar) s.
Proof. apply Forall_impl. unfold plain. tauto. Qed.
Lemma plain_not_hat s : Forall plain s -> Forall (fun c => c <> hat) s.
Proof. apply Forall_impl. unfold plain. tauto. Qed.

Lemma cm_magic m p r : Forall (fun c => c <> p) m -> cm (m ++ p :: r) m p = Some r.
Proof. intros H. unfold cm. rewrite split_at_app by assumption. now rewrite bytes_eqb_refl. Qed.

Lemma magic_nobar_crd : Forall (fun c => c <> bar) magic_crd.
Proof. repeat constructor; discriminate. Qed.
Lemma magic_nobar_crs : Forall (fun c => c <> bar) magic_crs.
Proof. repeat constructor; discriminate. Qed.
Lemma magic_nohat_stk : Forall (fun c => c <> hat) magic_stk.
Proof. repeat constructor; discriminate. Qed.
Lemma magic_nohat_sts : Forall (fun c => c <> hat) magic_sts.
Proof. repeat constructor; discriminate. Qed.

(* ---- fields ----------------------------------------------------------------------------------- *)
Lemma read_write_fields zs rest : read_fields (length zs) (write_fields zs ++ rest) = Some (zs, rest).
Proof.
  induction zs as [|z zs IH]; [reflexivity|].
  unfold write_fields in *. cbn [length read_fields map concat].
  unfold field. rewrite <- ?app_assoc. cbn [app].
  rewrite split_at_app by (apply plain_not_bar, encode62_plain).
  rewrite base62_roundtrip, IH. reflexivity.
Qed.

Lemma write_fields_nohat zs : Forall (fun c => c <> hat) (write_fields zs).
Proof.
  induction zs as [|z zs IH]; [constructor|]. unfold write_fields in *. cbn [map concat].
  rewrite <- app_assoc. apply Forall_app. split; [apply plain_not_hat, encode62_plain|].
  constructor; [discriminate|assumption].
Qed.

(* ---- VTMF_Card / VTMF_CardSecret ---------------------------------------------------------------- *)
Theorem vcard_roundtrip c : import_vcard (export_vcard c) = Some c.
Proof.
  destruct c as [a b]. unfold import_vcard, export_vcard. cbn [fst snd].
  cbn [app]. rewrite cm_magic by apply magic_nobar_crd.
  rewrite <- (app_nil_r (write_fields [a; b])).
  change 2%nat with (length [a; b]). rewrite read_write_fields. reflexivity.
Qed.

Theorem vsecret_roundtrip r : import_vsecret (export_vsecret r) = Some r.
Proof.
  unfold import_vsecret, export_vsecret.
  cbn [app]. rewrite cm_magic by apply magic_nobar_crs.
  rewrite <- (app_nil_r (write_fields [r])).
  change 1%nat with (length [r]). rewrite read_write_fields. reflexivity.
Qed.

Lemma export_vcard_nohat c : Forall (fun x => x <> hat) (export_vcard c).
Proof.
  unfold export_vcard. apply Forall_app. split; [repeat constructor; discriminate|].
  apply Forall_app. split; [repeat constructor; discriminate|apply write_fields_nohat].
Qed.

Lemma export_vsecret_nohat r : Forall (fun x => x <> hat) (export_vsecret r).
Proof.
  unfold export_vsecret. apply Forall_app. split; [repeat constructor; discriminate|].
  apply Forall_app. split; [repeat constructor; discriminate|apply write_fields_nohat].
Qed.

(* ---- TMCG_Card ------------------------------------------------------------------------------------ *)
Definition wf_tcard (c : list (list Z)) : Prop :=
  (1 <= length c <= Z.to_nat TMCG_MAX_PLAYERS)%nat /\
  (1 <= length (hd [] c) <= Z.to_nat TMCG_MAX_TYPEBITS)%nat /\
  Forall (fun row => length row = length (hd [] c)) c.

Lemma chunk_concat w c : Forall (fun row => length row = w) c -> chunk (length c) w (concat c) = c.
Proof.
  induction 1 as [|row c Hr _ IH]; [reflexivity|].
  cbn [length chunk concat]. rewrite <- Hr, firstn_app, Nat.sub_diag, firstn_all, firstn_O, app_nil_r.
  rewrite skipn_app, Nat.sub_diag, skipn_all, skipn_O. cbn [app]. rewrite Hr. now rewrite IH.
Qed.

Lemma length_concat_uniform w (c : list (list Z)) :
  Forall (fun row => length row = w) c -> length (concat c) = (length c * w)%nat.
Proof.
  induction 1 as [|row c Hr _ IH]; [reflexivity|]. cbn [concat length]. rewrite app_length, IH, Hr. lia.
Qed.

Lemma import_dim_encode n lo hi rest : n <= ulong_max -> lo <= n <= hi ->
  import_dim (encode_dec n ++ bar :: rest) lo hi = Some (n, rest).
Proof.
  intros Hu [Hl Hh]. unfold import_dim, field.
  rewrite split_at_app by (apply plain_not_bar, encode_dec_plain).
  rewrite strtoul_encode_dec by assumption.
  destruct (N.leb_spec lo n); [|lia]. destruct (N.leb_spec n hi); [|lia]. reflexivity.
Qed.

Theorem tcard_roundtrip c : wf_tcard c -> import_tcard (export_tcard c) = Some c.
Proof.
  intros (Hk & Hw & Hrows). unfold import_tcard, export_tcard.
  cbn [app]. rewrite cm_magic by apply magic_nobar_crd.
  assert (TP : (Z.to_nat TMCG_MAX_PLAYERS < 1000)%nat) by (vm_compute; lia).
  assert (TB : (Z.to_nat TMCG_MAX_TYPEBITS < 1000)%nat) by (vm_compute; lia).
  rewrite <- ?app_assoc. cbn [app].
  rewrite import_dim_encode; [|unfold ulong_max; lia|lia].
  rewrite import_dim_encode; [|unfold ulong_max; lia|lia].
  rewrite !Nnat.Nat2N.id.
  rewrite <- (app_nil_r (write_fields (concat c))).
  rewrite <- (length_concat_uniform _ c Hrows).
  rewrite read_write_fields. now rewrite chunk_concat.
Qed.

(* ---- TMCG_Stack<VTMF_Card> ----------------------------------------------------------------------- *)
(* ---- TMCG_CardSecret ---------------------------------------------------------------------------- *)
Lemma pair_up_unpair l : pair_up (unpair l) = l.
Proof. induction l as [|[a b] l IH]; cbn; [reflexivity|]. f_equal. exact IH. Qed.

Lemma length_unpair l : length (unpair l) = (2 * length l)%nat.
Proof. induction l as [|[a b] l IH]; cbn [unpair flat_map app length fst snd]; [reflexivity|]. fold (unpair l). rewrite IH. lia. Qed.

Definition wf_tsecret (c : list (list (Z * Z))) : Prop :=
  (1 <= length c <= Z.to_nat TMCG_MAX_PLAYERS)%nat /\
  (1 <= length (hd [] c) <= Z.to_nat TMCG_MAX_TYPEBITS)%nat /\
  Forall (fun row => length row = length (hd [] c)) c.

Theorem tsecret_roundtrip c : wf_tsecret c -> import_tsecret (export_tsecret c) = Some c.
Proof.
  intros (Hk & Hw & Hrows). unfold import_tsecret, export_tsecret.
  cbn [app]. rewrite cm_magic by apply magic_nobar_crs.
  assert (TP : (Z.to_nat TMCG_MAX_PLAYERS < 1000)%nat) by (vm_compute; lia).
  assert (TB : (Z.to_nat TMCG_MAX_TYPEBITS < 1000)%nat) by (vm_compute; lia).
  rewrite <- ?app_assoc. cbn [app].
  rewrite import_dim_encode; [|unfold ulong_max; lia|lia].
  rewrite import_dim_encode; [|unfold ulong_max; lia|lia].
  rewrite !Nnat.Nat2N.id.
  set (w := length (hd [] c)) in *.
  assert (Hrows2 : Forall (fun row => length row = (2 * w)%nat) (map unpair c)).
  { apply Forall_map. eapply Forall_impl; [|exact Hrows]. intros row Hr. cbv beta in Hr. rewrite length_unpair, Hr. reflexivity. }
  rewrite <- (app_nil_r (write_fields (concat (map unpair c)))).
  replace (length c * (2 * w))%nat with (length (concat (map unpair c))).
  2:{ rewrite (length_concat_uniform (2 * w) (map unpair c) Hrows2), map_length. reflexivity. }
  rewrite read_write_fields.
  rewrite <- (map_length unpair c) at 1. rewrite chunk_concat by exact Hrows2.
  rewrite map_map. f_equal. rewrite <- (map_id c) at 2. apply map_ext. intro l. apply pair_up_unpair.
Qed.

(* non-vacuity *)
Example wf_tsecret_example : wf_tsecret [[(5, 1); (-7, 0)]; [(0, 0); (62, 1)]]%Z.
Proof. unfold wf_tsecret. cbn [length hd]. repeat split; try (vm_compute; lia). repeat constructor. Qed.

Lemma read_cards_export st rest :
  read_cards (length st) (concat (map (fun c => export_vcard c ++ [hat]) st) ++ rest) = Some (st, rest).
Proof.
  induction st as [|c st IH]; [reflexivity|].
  cbn [length read_cards map concat]. unfold field. rewrite <- ?app_assoc. cbn [app].
  rewrite split_at_app by apply export_vcard_nohat.
  rewrite vcard_roundtrip, IH. reflexivity.
Qed.

Lemma import_size_encode n rest : 1 <= n <= Z.to_N TMCG_MAX_CARDS ->
  import_size (encode_dec n ++ hat :: rest) = Some (n, rest).
Proof.
  intros [Hl Hh]. unfold import_size, field.
  rewrite split_at_app by (apply plain_not_hat, encode_dec_plain).
  assert (TMCG_MAX_CARDS < 100000)%Z by reflexivity.
  rewrite strtoul_encode_dec by (unfold ulong_max; lia).
  destruct (N.leb_spec 1 n); [|lia]. destruct (N.leb_spec n (Z.to_N TMCG_MAX_CARDS)); [|lia]. reflexivity.
Qed.

Theorem vstack_roundtrip st : (1 <= length st <= Z.to_nat TMCG_MAX_CARDS)%nat ->
  import_vstack [] (export_vstack st) = Some st.
Proof.
  intros H. unfold import_vstack, export_vstack.
  cbn [app]. rewrite cm_magic by apply magic_nohat_stk.
  rewrite <- ?app_assoc. cbn [app].
  rewrite import_size_encode by lia.
  rewrite Nnat.Nat2N.id.
  rewrite <- (app_nil_r (concat _)). rewrite read_cards_export. reflexivity.
Qed.

(* import appends: into a used object the result is old ++ new (the reason C11 speaks of fresh objects) *)
Theorem vstack_import_appends old st : (1 <= length st <= Z.to_nat TMCG_MAX_CARDS)%nat ->
  import_vstack old (export_vstack st) = Some (old ++ st).
Proof.
  intros H. unfold import_vstack, export_vstack.
  cbn [app]. rewrite cm_magic by apply magic_nohat_stk.
  rewrite <- ?app_assoc. cbn [app].
  rewrite import_size_encode by lia.
  rewrite Nnat.Nat2N.id.
  rewrite <- (app_nil_r (concat _)). rewrite read_cards_export. reflexivity.
Qed.

(* ---- TMCG_StackSecret<VTMF_CardSecret> ----------------------------------------------------------- *)
Lemma read_pairs_export size ss rest :
  Forall (fun p => fst p < size) ss -> size <= ulong_max ->
  read_pairs size (length ss)
    (concat (map (fun p => encode_dec (fst p) ++ hat :: export_vsecret (snd p) ++ [hat]) ss) ++ rest)
  = Some (ss, rest).
Proof.
  intros H Hs. induction H as [|[i r] ss Hi _ IH]; [reflexivity|].
  cbn [length read_pairs map concat fst snd] in *. unfold field. rewrite <- ?app_assoc. cbn [app].
  rewrite split_at_app by (apply plain_not_hat, encode_dec_plain).
  rewrite strtoul_encode_dec by lia.
  destruct (N.ltb_spec i size); [|lia].
  rewrite <- ?app_assoc. cbn [app].
  rewrite split_at_app by apply export_vsecret_nohat.
  rewrite vsecret_roundtrip, IH. reflexivity.
Qed.

Definition wf_vstacksecret (ss : list (N * Z)) : Prop :=
  (1 <= length ss <= Z.to_nat TMCG_MAX_CARDS)%nat /\
  Forall (fun p => fst p < N.of_nat (length ss)) ss /\
  perm_check ss (N.of_nat (length ss)) = true.

Theorem vstacksecret_roundtrip ss : wf_vstacksecret ss ->
  import_vstacksecret [] (export_vstacksecret ss) = Some ss.
Proof.
  intros (Hn & Hidx & Hperm). unfold import_vstacksecret, export_vstacksecret.
  cbn [app]. rewrite cm_magic by apply magic_nohat_sts.
  rewrite <- ?app_assoc. cbn [app].
  assert (TMCG_MAX_CARDS < 100000)%Z by reflexivity.
  rewrite import_size_encode by lia.
  rewrite Nnat.Nat2N.id.
  rewrite <- (app_nil_r (concat _)). rewrite read_pairs_export; [|assumption|unfold ulong_max; lia].
  cbn [app]. now rewrite Hperm.
Qed.

(* ---- TMCG_Stack<TMCG_Card> ---------------------------------------------------------------------- *)
Lemma export_tcard_nohat c : Forall (fun x => x <> hat) (export_tcard c).
Proof.
  unfold export_tcard.
  repeat (apply Forall_app; split); try (repeat constructor; discriminate);
    try (apply plain_not_hat, encode_dec_plain); apply write_fields_nohat.
Qed.

Lemma read_tcards_export st rest : Forall wf_tcard st ->
  read_tcards (length st) (concat (map (fun c => export_tcard c ++ [hat]) st) ++ rest) = Some (st, rest).
Proof.
  induction 1 as [|c st Hc _ IH]; [reflexivity|].
  cbn [length read_tcards map concat]. unfold field. rewrite <- ?app_assoc. cbn [app].
  rewrite split_at_app by apply export_tcard_nohat.
  rewrite (tcard_roundtrip c Hc), IH. reflexivity.
Qed.

Theorem tstack_roundtrip st : (1 <= length st <= Z.to_nat TMCG_MAX_CARDS)%nat -> Forall wf_tcard st ->
  import_tstack [] (export_tstack st) = Some st.
Proof.
  intros H Hwf. unfold import_tstack, export_tstack.
  cbn [app]. rewrite cm_magic by apply magic_nohat_stk.
  rewrite <- ?app_assoc. cbn [app].
  rewrite import_size_encode by lia.
  rewrite Nnat.Nat2N.id.
  rewrite <- (app_nil_r (concat _)). rewrite read_tcards_export by exact Hwf. reflexivity.
Qed.

Theorem tstack_import_appends old st : (1 <= length st <= Z.to_nat TMCG_MAX_CARDS)%nat -> Forall wf_tcard st ->
  import_tstack old (export_tstack st) = Some (old ++ st).
Proof.
  intros H Hwf. unfold import_tstack, export_tstack.
  cbn [app]. rewrite cm_magic by apply magic_nohat_stk.
  rewrite <- ?app_assoc. cbn [app].
  rewrite import_size_encode by lia.
  rewrite Nnat.Nat2N.id.
  rewrite <- (app_nil_r (concat _)). rewrite read_tcards_export by exact Hwf. reflexivity.
Qed.

(* ---- TMCG_StackSecret<TMCG_CardSecret> ---------------------------------------------------------- *)
Lemma export_tsecret_nohat c : Forall (fun x => x <> hat) (export_tsecret c).
Proof.
  unfold export_tsecret.
  repeat (apply Forall_app; split); try (repeat constructor; discriminate);
    try (apply plain_not_hat, encode_dec_plain); apply write_fields_nohat.
Qed.

Lemma read_tpairs_export size ss rest :
  Forall (fun p => fst p < size /\ wf_tsecret (snd p)) ss -> size <= ulong_max ->
  read_tpairs size (length ss)
    (concat (map (fun p => encode_dec (fst p) ++ hat :: export_tsecret (snd p) ++ [hat]) ss) ++ rest)
  = Some (ss, rest).
Proof.
  intros H Hs. induction H as [|[i r] ss [Hi Hwf] _ IH]; [reflexivity|].
  cbn [length read_tpairs map concat fst snd] in *. unfold field. rewrite <- ?app_assoc. cbn [app].
  rewrite split_at_app by (apply plain_not_hat, encode_dec_plain).
  rewrite strtoul_encode_dec by lia.
  destruct (N.ltb_spec i size); [|lia].
  rewrite <- ?app_assoc. cbn [app].
  rewrite split_at_app by apply export_tsecret_nohat.
  rewrite (tsecret_roundtrip r Hwf), IH. reflexivity.
Qed.

Definition wf_tstacksecret (ss : list (N * tsec)) : Prop :=
  (1 <= length ss <= Z.to_nat TMCG_MAX_CARDS)%nat /\
  Forall (fun p => fst p < N.of_nat (length ss) /\ wf_tsecret (snd p)) ss /\
  perm_check ss (N.of_nat (length ss)) = true.

Theorem tstacksecret_roundtrip ss : wf_tstacksecret ss ->
  import_tstacksecret [] (export_tstacksecret ss) = Some ss.
Proof.
  intros (Hn & Hidx & Hperm). unfold import_tstacksecret, export_tstacksecret.
  cbn [app]. rewrite cm_magic by apply magic_nohat_sts.
  rewrite <- ?app_assoc. cbn [app].
  assert (TMCG_MAX_CARDS < 100000)%Z by reflexivity.
  rewrite import_size_encode by lia.
  rewrite Nnat.Nat2N.id.
  rewrite <- (app_nil_r (concat _)). rewrite read_tpairs_export; [|assumption|unfold ulong_max; lia].
  cbn [app]. now rewrite Hperm.
Qed.

(* ---- TMCG_PublicKey ----------------------------------------------------------------------------- *)
Definition nobar (s : bytes) : Prop := Forall (fun c => c <> bar) s.
Definition wf_pubkey (k : pubkey) : Prop := nobar (pk_name k) /\ nobar (pk_email k) /\ nobar (pk_type k) /\ nobar (pk_nizk k).

Lemma magic_nobar_pub : Forall (fun c => c <> bar) magic_pub.
Proof. repeat constructor; discriminate. Qed.

Theorem pubkey_roundtrip k : wf_pubkey k -> import_pubkey (export_pubkey k) = Some k.
Proof.
  intros (Hn & He & Ht & Hz). destruct k as [name email type m y nizk sig]. cbn [pk_name pk_email pk_type pk_nizk] in *.
  unfold import_pubkey, export_pubkey. cbn [pk_name pk_email pk_type pk_m pk_y pk_nizk pk_sig].
  cbn [app]. rewrite cm_magic by apply magic_nobar_pub.
  unfold field. rewrite <- ?app_assoc. cbn [app].
  rewrite split_at_app by exact Hn. rewrite split_at_app by exact He. rewrite split_at_app by exact Ht.
  change (encode62 m ++ bar :: encode62 y ++ bar :: nizk ++ bar :: sig)
    with (encode62 m ++ [bar] ++ encode62 y ++ [bar] ++ (nizk ++ bar :: sig)).
  pose proof (read_write_fields [m; y] (nizk ++ bar :: sig)) as R.
  unfold write_fields in R. cbn [map concat length] in R. rewrite <- ?app_assoc in R. cbn [app] in R.
  cbn [app]. rewrite R.
  rewrite split_at_app by exact Hz. reflexivity.
Qed.

(* the guard is necessary: a '|' inside the name shifts every later field *)
Example pubkey_bar_in_name_refuted :
  let k := {| pk_name := [65; bar; 66]; pk_email := [101]; pk_type := [116]; pk_m := 5%Z; pk_y := 7%Z; pk_nizk := [110]; pk_sig := [115] |} in
  import_pubkey (export_pubkey k) <> Some k.
Proof. vm_compute. discriminate. Qed.

(* ---- no two objects within the limits share a text (corollary of the round trips) -------------- *)
Lemma roundtrip_injective {A} (wf : A -> Prop) (ex : A -> bytes) (im : bytes -> option A) :
  (forall x, wf x -> im (ex x) = Some x) -> forall x y, wf x -> wf y -> ex x = ex y -> x = y.
Proof.
  intros RT x y Hx Hy E. pose proof (RT x Hx) as Rx. rewrite E, (RT y Hy) in Rx. now inversion Rx.
Qed.
