(* SigmaLemmas: completeness of the VTMF-layer proofs of SigmaModel (C03): whatever the witness, the coins and
   the hash oracle, the verifier accepts what the honest prover wrote. *)
From Coq Require Import ZArith Znumtheory Lia List Bool ZifyBool.
From LT Require Import Zbase gen_Consts SigmaPrim SigmaArith KeyRingModel KeyRingLemmas SigmaModel.
Import ListNotations.
Local Open Scope Z_scope.

Section Complete.
  Variable H : list Z -> Z.
  Variable hbits : Z.
  Variable G : group.
  Hypothesis WF : wf_params H hbits G.

  Let p := gp G.
  Let q := gq G.
  Let g := gg G.

  Let Hp : 1 < p. Proof. exact (wf_p _ _ _ WF). Qed.
  Let Hodd : Z.odd p = true. Proof. exact (wf_podd _ _ _ WF). Qed.
  Let Hq : 0 < q. Proof. exact (wf_q _ _ _ WF). Qed.
  Let Hg : powm g q p = 1. Proof. exact (wf_g _ _ _ WF). Qed.
  Let Ht : sizeinbase2 q <= TMCG_MAX_FPOWM_T. Proof. exact (wf_t _ _ _ WF). Qed.

  (* ---- group elements -------------------------------------------------------------------------------------- *)
  Definition elem (a : Z) : Prop := check_element G a = true.

  Lemma elem_spec a : elem a <-> 0 < a < p /\ powm a q p = 1.
  Proof. unfold elem. apply check_element_spec. Qed.

  Lemma elem_pow b e : powm b q p = 1 -> 0 <= e -> elem (powm b e p).
  Proof.
    intros Hb He. apply elem_spec. split.
    - apply (powm_nonzero p q b Hp Hq Hb e He).
    - rewrite <- powm_mul by lia. rewrite powm_spec by nia. apply (cyc_pow_mult p q b Hp Hq Hb). assumption.
  Qed.

  Lemma elem_mul a b : elem a -> elem b -> elem ((a * b) mod p).
  Proof.
    intros Ha Hb. apply elem_spec in Ha. apply elem_spec in Hb. destruct Ha as [Ra Ea], Hb as [Rb Eb].
    assert (E : powm ((a * b) mod p) q p = 1).
    { rewrite powm_base_mod by lia. rewrite powm_mul_base by lia. rewrite Ea, Eb. apply Z.mod_1_l. lia. }
    apply elem_spec. split; [|assumption].
    pose proof (Z.mod_pos_bound (a * b) p ltac:(lia)) as B.
    assert ((a * b) mod p <> 0); [|lia]. intros Z0. rewrite Z0 in E.
    rewrite powm_spec in E by lia. rewrite Z.pow_0_l in E by lia. rewrite Z.mod_0_l in E; lia.
  Qed.

  Lemma elem_inv a : elem a -> exists i, invm a p = Some i /\ 0 <= i < p /\ (a * i) mod p = 1.
  Proof. intros E. exact (element_inverse H hbits G WF a E). Qed.

  Lemma challenge_ok l : (hbits <? sizeinbase2 (H l)) = false /\ 0 <= H l.
  Proof.
    pose proof (wf_H _ _ _ WF l) as Hc.
    pose proof (sizeinbase2_bound (H l) hbits (wf_hbits _ _ _ WF) Hc). lia.
  Qed.

  (* ---- interactive key-share proof ----------------------------------------------------------------------- *)
  Theorem keyi_complete x raw craw r m1 m2 : 0 <= x ->
    keyi_commit G raw = Some (r, m1) ->
    keyi_respond G x r true (keyi_challenge G craw) = Some m2 ->
    keyi_verify G (powm g x p) true m1 (keyi_challenge G craw) true m2 = Accept.
  Proof.
    intros Hx. unfold keyi_commit, keyi_respond, keyi_challenge, keyi_verify, table_g, srandomm. fold p q g.
    pose proof (Z.mod_pos_bound raw q Hq) as Br. pose proof (Z.mod_pos_bound craw q Hq) as Bc.
    set (c := craw mod q) in *.
    rewrite (fspowm_spec g q (raw mod q) p Hp Hq Hg Br Ht). intros E; inversion E; subst r m1; clear E.
    cbn [negb]. rewrite Z.abs_eq by lia. destruct (q <=? c) eqn:Q1; [lia|].
    intros E; inversion E; subst m2; clear E.
    set (r := raw mod q) in *. set (m2 := ((c * x) mod q + r) mod q).
    pose proof (Z.mod_pos_bound ((c * x) mod q + r) q Hq) as Bm. fold m2 in Bm.
    pose proof (elem_pow g r Hg ltac:(lia)) as El. unfold elem in El. rewrite El.
    pose proof (elem_pow g x Hg Hx) as Ek. unfold elem in Ek. rewrite Ek. cbn [negb orb].
    rewrite Z.abs_eq by lia. destruct (q <=? m2) eqn:Q2; [lia|].
    rewrite (fpowm_spec g q m2 p Hp Hq Bm Ht).
    unfold mpz_powm. destruct (c <? 0) eqn:C0; [lia|].
    rewrite <- powm_mul by lia.
    rewrite (powm_inverse p q g Hp Hq Hg (x * c)) by nia.
    rewrite <- powm_add by nia.
    rewrite (powm_cong p q g Hp Hq Hg (m2 + (q - 1) * (x * c)) r); [now rewrite Z.eqb_refl|nia|lia|].
    unfold m2. rewrite Zplus_mod_idemp_l.
    replace ((c * x) mod q + r + (q - 1) * (x * c)) with ((c * x) mod q + (r + (q - 1) * (x * c))) by ring.
    rewrite Zplus_mod_idemp_l. replace (c * x + (r + (q - 1) * (x * c))) with (r + (x * c) * q) by ring.
    now rewrite Z.mod_add by lia.
  Qed.

  (* ---- Chaum-Pedersen ------------------------------------------------------------------------------------- *)
  Section WithKey.
    Variable h : Z.
    Variable th : ftable.

    (* the verifier's recomputation from an honest response, for any base of order dividing q *)
    Lemma cp_core b alpha c omega : powm b q p = 1 -> 0 <= alpha -> 0 <= c -> 0 <= omega ->
      let r := (- (c * alpha) + omega) mod q in
      (powm b r p * powm (powm b alpha p) c p) mod p = powm b omega p /\ 0 <= r < q.
    Proof.
      intros Hb Ha Hc Ho r. split; [now apply (schnorr_identity p q b Hp Hq Hb)|apply Z.mod_pos_bound; exact Hq].
    Qed.

    Theorem cp_complete_plain g2 h2 alpha raw c r : powm g2 q p = 1 -> powm h2 q p = 1 -> 0 <= alpha ->
      cp_prove H G h th (powm g2 alpha p) (powm h2 alpha p) g2 h2 alpha raw false = Some (c, r) ->
      cp_verify H hbits G h th (powm g2 alpha p) (powm h2 alpha p) g2 h2 true c r false = Accept.
    Proof.
      intros Hg2 Hh2 Ha. unfold cp_prove, srandomm. fold p q g.
      pose proof (Z.mod_pos_bound raw q Hq) as Bo. set (omega := raw mod q) in *.
      rewrite (spowm_spec g2 q omega p Hp Hodd Hq Hg2) by lia.
      rewrite (spowm_spec h2 q omega p Hp Hodd Hq Hh2) by lia.
      set (x := powm g2 alpha p). set (y := powm h2 alpha p).
      set (c0 := H [p; q; g; h; powm g2 omega p; powm h2 omega p; x; y; g2; h2]).
      intros E; inversion E; subst c r; clear E.
      destruct (challenge_ok [p; q; g; h; powm g2 omega p; powm h2 omega p; x; y; g2; h2]) as [S1 C0]. fold c0 in S1, C0.
      destruct (cp_core g2 alpha c0 omega Hg2 Ha C0 ltac:(lia)) as [Ia Br].
      destruct (cp_core h2 alpha c0 omega Hh2 Ha C0 ltac:(lia)) as [Ib _].
      cbv zeta in Ia, Ib, Br. set (r := (- (c0 * alpha) + omega) mod q) in *.
      unfold cp_verify. fold p q g. cbn [negb]. rewrite S1.
      rewrite Z.abs_eq by lia. destruct (q <=? r) eqn:Q1; [lia|].
      unfold mpz_powm. destruct (r <? 0) eqn:R0; [lia|]. destruct (c0 <? 0) eqn:C1; [lia|].
      fold x y in Ia, Ib. rewrite Ia, Ib. fold c0. now rewrite Z.eqb_refl.
    Qed.

    Theorem cp_complete_table alpha raw c r : powm h q p = 1 -> th = precompute h q -> 0 <= alpha ->
      cp_prove H G h th (powm g alpha p) (powm h alpha p) g h alpha raw true = Some (c, r) ->
      cp_verify H hbits G h th (powm g alpha p) (powm h alpha p) g h true c r true = Accept.
    Proof.
      intros Hh Eth Ha. unfold cp_prove, srandomm, table_g. fold p q g. rewrite !Z.eqb_refl. cbn [andb].
      pose proof (Z.mod_pos_bound raw q Hq) as Bo. set (omega := raw mod q) in *. subst th.
      rewrite (fspowm_spec g q omega p Hp Hq Hg Bo Ht).
      rewrite (fspowm_spec h q omega p Hp Hq Hh Bo Ht).
      set (x := powm g alpha p). set (y := powm h alpha p).
      set (c0 := H [p; q; g; h; powm g omega p; powm h omega p; x; y; g; h]).
      intros E; inversion E; subst c r; clear E.
      destruct (challenge_ok [p; q; g; h; powm g omega p; powm h omega p; x; y; g; h]) as [S1 C0]. fold c0 in S1, C0.
      destruct (cp_core g alpha c0 omega Hg Ha C0 ltac:(lia)) as [Ia Br].
      destruct (cp_core h alpha c0 omega Hh Ha C0 ltac:(lia)) as [Ib _].
      cbv zeta in Ia, Ib, Br. set (r := (- (c0 * alpha) + omega) mod q) in *.
      unfold cp_verify, table_g. fold p q g. cbn [negb]. rewrite S1.
      rewrite Z.abs_eq by lia. destruct (q <=? r) eqn:Q1; [lia|].
      rewrite !Z.eqb_refl. cbn [negb].
      rewrite (fpowm_spec g q r p Hp Hq Br Ht). rewrite (fpowm_spec h q r p Hp Hq Br Ht).
      unfold mpz_powm. destruct (c0 <? 0) eqn:C1; [lia|].
      fold x y in Ia, Ib. rewrite Ia, Ib. fold c0. now rewrite Z.eqb_refl.
    Qed.

    (* the honest prover never fails on a true statement *)
    Lemma cp_prove_plain_some g2 h2 x y alpha raw : powm g2 q p = 1 -> powm h2 q p = 1 ->
      exists cr, cp_prove H G h th x y g2 h2 alpha raw false = Some cr.
    Proof.
      intros Hg2 Hh2. unfold cp_prove, srandomm. fold p q g. pose proof (Z.mod_pos_bound raw q Hq) as Bo.
      rewrite (spowm_spec g2 q _ p Hp Hodd Hq Hg2) by lia. rewrite (spowm_spec h2 q _ p Hp Hodd Hq Hh2) by lia. eauto.
    Qed.

    Lemma cp_prove_table_some x y alpha raw : powm h q p = 1 -> th = precompute h q ->
      exists cr, cp_prove H G h th x y g h alpha raw true = Some cr.
    Proof.
      intros Hh Eth. unfold cp_prove, srandomm, table_g. fold p q g. rewrite !Z.eqb_refl. cbn [andb]. subst th.
      pose proof (Z.mod_pos_bound raw q Hq) as Bo.
      rewrite (fspowm_spec g q _ p Hp Hq Hg Bo Ht). rewrite (fspowm_spec h q _ p Hp Hq Hh Bo Ht). eauto.
    Qed.

    (* ---- OR proofs ------------------------------------------------------------------------------------------ *)
    Lemma or_split c w : 0 <= w < q -> ((c - w) mod q + w) mod q = c mod q.
    Proof. intros Hw. rewrite Zplus_mod_idemp_l. f_equal. ring. Qed.

    Lemma or_known b alpha c1 v : powm b q p = 1 -> 0 <= alpha -> 0 <= c1 -> 0 <= v ->
      (powm (powm b alpha p) c1 p * powm b ((v - (c1 * alpha) mod q) mod q) p) mod p = powm b v p.
    Proof.
      intros Hb Ha Hc Hv.
      pose proof (Z.mod_pos_bound (v - (c1 * alpha) mod q) q Hq) as B.
      rewrite <- powm_mul by lia. rewrite <- powm_add by nia.
      apply (powm_cong p q b Hp Hq Hb); [nia|lia|].
      rewrite Zplus_mod_idemp_r.
      replace (alpha * c1 + (v - (c1 * alpha) mod q)) with (alpha * c1 + v - (c1 * alpha) mod q) by ring.
      rewrite Zminus_mod_idemp_r. f_equal. ring.
    Qed.

    Theorem or_complete_first y2 g1 g2 alpha raw1 raw2 raw3 c1 c2 r1 r2 :
      powm g1 q p = 1 -> powm g2 q p = 1 -> elem y2 -> 0 <= alpha ->
      or_prove_first H G h (powm g1 alpha p) y2 g1 g2 alpha raw1 raw2 raw3 = Some (c1, c2, r1, r2) ->
      or_verify H G h (powm g1 alpha p) y2 g1 g2 true c1 c2 r1 r2 = Accept.
    Proof.
      intros Hg1 Hg2 Ey2 Ha. assert (Hy2 : powm y2 q p = 1) by (apply elem_spec in Ey2; tauto).
      unfold or_prove_first, srandomm. fold p q g.
      pose proof (Z.mod_pos_bound raw1 q Hq) as B1. pose proof (Z.mod_pos_bound raw2 q Hq) as B2.
      pose proof (Z.mod_pos_bound raw3 q Hq) as B3.
      set (v1 := raw1 mod q) in *. set (v2 := raw2 mod q) in *. set (w := raw3 mod q) in *.
      rewrite (spowm_spec y2 q w p Hp Hodd Hq Hy2) by lia.
      rewrite (spowm_spec g2 q v2 p Hp Hodd Hq Hg2) by lia.
      rewrite (spowm_spec g1 q v1 p Hp Hodd Hq Hg1) by lia.
      set (y1 := powm g1 alpha p). set (t2 := (powm y2 w p * powm g2 v2 p) mod p). set (t1 := powm g1 v1 p).
      set (c := or_challenge H G h y1 y2 g1 g2 t1 t2).
      intros E; inversion E; subst c1 c2 r1 r2; clear E.
      pose proof (Z.mod_pos_bound (c - w) q Hq) as Bc1.
      pose proof (Z.mod_pos_bound (v1 - ((c - w) mod q * alpha) mod q) q Hq) as Br1.
      rewrite (Z.mod_small v2 q) by lia.
      unfold or_verify. fold p q g. cbn [negb]. rewrite !Z.abs_eq by lia.
      repeat match goal with |- context [q <=? ?a] => destruct (q <=? a) eqn:?; [lia|] end. cbn [orb].
      repeat match goal with |- context [q <=? ?a] => destruct (q <=? a) eqn:?; [lia|] end. cbn [orb].
      pose proof (elem_pow g1 alpha Hg1 Ha) as Ey1. fold y1 in Ey1. pose proof Ey2 as Ey2'. unfold elem in Ey1, Ey2'. rewrite Ey1, Ey2'. cbn [negb orb].
      unfold mpz_powm.
      repeat match goal with |- context [?a <? 0] => destruct (a <? 0) eqn:?; [lia|] end.
      change (powm y1 ((c - w) mod q) p) with (powm (powm g1 alpha p) ((c - w) mod q) p). rewrite (or_known g1 alpha ((c - w) mod q) v1 Hg1 Ha) by lia.
      fold t1 t2. fold c. rewrite (or_split c w B3).
      unfold c at 1. unfold or_challenge. fold p q. rewrite Zmod_mod. fold (or_challenge H G h y1 y2 g1 g2 t1 t2).
      now rewrite Z.eqb_refl.
    Qed.

    Theorem or_complete_second y1 g1 g2 alpha raw1 raw2 raw3 c1 c2 r1 r2 :
      powm g1 q p = 1 -> powm g2 q p = 1 -> elem y1 -> 0 <= alpha ->
      or_prove_second H G h y1 (powm g2 alpha p) g1 g2 alpha raw1 raw2 raw3 = Some (c1, c2, r1, r2) ->
      or_verify H G h y1 (powm g2 alpha p) g1 g2 true c1 c2 r1 r2 = Accept.
    Proof.
      intros Hg1 Hg2 Ey1 Ha. assert (Hy1 : powm y1 q p = 1) by (apply elem_spec in Ey1; tauto).
      unfold or_prove_second, srandomm. fold p q g.
      pose proof (Z.mod_pos_bound raw1 q Hq) as B1. pose proof (Z.mod_pos_bound raw2 q Hq) as B2.
      pose proof (Z.mod_pos_bound raw3 q Hq) as B3.
      set (v1 := raw1 mod q) in *. set (v2 := raw2 mod q) in *. set (w := raw3 mod q) in *.
      rewrite (spowm_spec y1 q w p Hp Hodd Hq Hy1) by lia.
      rewrite (spowm_spec g1 q v1 p Hp Hodd Hq Hg1) by lia.
      rewrite (spowm_spec g2 q v2 p Hp Hodd Hq Hg2) by lia.
      set (y2 := powm g2 alpha p). set (t1 := (powm y1 w p * powm g1 v1 p) mod p). set (t2 := powm g2 v2 p).
      set (c := or_challenge H G h y1 y2 g1 g2 t1 t2).
      intros E; inversion E; subst c1 c2 r1 r2; clear E.
      pose proof (Z.mod_pos_bound (c - w) q Hq) as Bc2.
      pose proof (Z.mod_pos_bound (v2 - ((c - w) mod q * alpha) mod q) q Hq) as Br2.
      rewrite (Z.mod_small v1 q) by lia.
      unfold or_verify. fold p q g. cbn [negb]. rewrite !Z.abs_eq by lia.
      repeat match goal with |- context [q <=? ?a] => destruct (q <=? a) eqn:?; [lia|] end. cbn [orb].
      repeat match goal with |- context [q <=? ?a] => destruct (q <=? a) eqn:?; [lia|] end. cbn [orb].
      pose proof (elem_pow g2 alpha Hg2 Ha) as Ey2. fold y2 in Ey2. pose proof Ey1 as Ey1'. unfold elem in Ey2, Ey1'. rewrite Ey1', Ey2. cbn [negb orb].
      unfold mpz_powm.
      repeat match goal with |- context [?a <? 0] => destruct (a <? 0) eqn:?; [lia|] end.
      change (powm y2 ((c - w) mod q) p) with (powm (powm g2 alpha p) ((c - w) mod q) p). rewrite (or_known g2 alpha ((c - w) mod q) v2 Hg2 Ha) by lia.
      fold t1 t2. fold c. rewrite (Z.add_comm w). rewrite (or_split c w B3).
      unfold c at 1. unfold or_challenge. fold p q. rewrite Zmod_mod. fold (or_challenge H G h y1 y2 g1 g2 t1 t2).
      now rewrite Z.eqb_refl.
    Qed.

    (* ---- masking, re-masking: h is a group element and th its table (state after Finalize) ----------------------- *)
    Hypothesis Hh : elem h.
    Hypothesis Eth : th = precompute h q.

    Let Hhq : powm h q p = 1. Proof. apply elem_spec in Hh. tauto. Qed.

    Lemma mask_spec m r : 0 <= r < q -> vtmf_mask G h th m r = Some (powm g r p, (powm h r p * m) mod p).
    Proof.
      intros Hr. unfold vtmf_mask, table_g. fold p q g. rewrite Eth.
      now rewrite (fspowm_spec g q r p Hp Hq Hg Hr Ht), (fspowm_spec h q r p Hp Hq Hhq Hr Ht).
    Qed.

    Lemma cancel_left a i b : (a * i) mod p = 1 -> 0 <= b < p -> (i * ((b * a) mod p)) mod p = b.
    Proof.
      intros Hi Hb. rewrite Zmult_mod_idemp_r. replace (i * (b * a)) with (b * (a * i)) by ring.
      rewrite <- Zmult_mod_idemp_r, Hi, Z.mul_1_r. now apply Z.mod_small.
    Qed.

    Theorem mask_complete m r raw c1 c2 c s : elem m -> 0 <= r < q ->
      vtmf_mask G h th m r = Some (c1, c2) ->
      mask_prove H G h th m c1 c2 r raw = Some (c, s) ->
      mask_verify H hbits G h th m c1 c2 true c s = Accept.
    Proof.
      intros Hm Hr. rewrite (mask_spec m r Hr). intros E; inversion E; subst c1 c2; clear E.
      destruct (elem_inv m Hm) as [mi [Emi [Bmi Mmi]]].
      unfold mask_prove, mask_verify. fold p q g. rewrite Emi.
      pose proof (elem_pow g r Hg ltac:(lia)) as E1. pose proof (elem_pow h r Hhq ltac:(lia)) as E2.
      pose proof (elem_mul _ _ E2 Hm) as E3. pose proof Hm as Hm'. unfold elem in E1, E3, Hm'. rewrite Hm', E1, E3. cbn [negb].
      rewrite (cancel_left m mi (powm h r p) Mmi) by (apply powm_range; lia).
      apply cp_complete_table; [exact Hhq|exact Eth|lia].
    Qed.

    Lemma remask_spec c1 c2 r : 0 <= r < q ->
      remask G h th c1 c2 r = Some ((powm g r p * c1) mod p, (powm h r p * c2) mod p) /\
      remask_fast G h th c1 c2 r = Some ((powm g r p * c1) mod p, (powm h r p * c2) mod p).
    Proof.
      intros Hr. unfold remask, remask_fast, table_g. fold p q g. rewrite Eth.
      rewrite (fspowm_spec g q r p Hp Hq Hg Hr Ht), (fspowm_spec h q r p Hp Hq Hhq Hr Ht).
      rewrite (fpowm_spec g q r p Hp Hq Hr Ht), (fpowm_spec h q r p Hp Hq Hr Ht). now split.
    Qed.

    Theorem remask_complete c1 c2 r raw d1 d2 c s : elem c1 -> elem c2 -> 0 <= r < q ->
      remask G h th c1 c2 r = Some (d1, d2) ->
      remask_prove H G h th c1 c2 d1 d2 r raw = Some (c, s) ->
      remask_verify H hbits G h th c1 c2 d1 d2 true c s = Accept.
    Proof.
      intros H1 H2 Hr. rewrite (proj1 (remask_spec c1 c2 r Hr)). intros E; inversion E; subst d1 d2; clear E.
      destruct (elem_inv c1 H1) as [i1 [Ei1 [Bi1 Mi1]]]. destruct (elem_inv c2 H2) as [i2 [Ei2 [Bi2 Mi2]]].
      unfold remask_prove, remask_verify. fold p q g. rewrite Ei1, Ei2.
      pose proof (elem_pow g r Hg ltac:(lia)) as E1. pose proof (elem_pow h r Hhq ltac:(lia)) as E2.
      pose proof (elem_mul _ _ E1 H1) as E3. pose proof (elem_mul _ _ E2 H2) as E4.
      pose proof H1 as H1'. pose proof H2 as H2'. unfold elem in E3, E4, H1', H2'. rewrite H1', H2', E3, E4. cbn [negb].
      rewrite (cancel_left c1 i1 (powm g r p) Mi1) by (apply powm_range; lia).
      rewrite (cancel_left c2 i2 (powm h r p) Mi2) by (apply powm_range; lia).
      apply cp_complete_table; [exact Hhq|exact Eth|lia].
    Qed.
  End WithKey.

  (* ---- verifiable decryption -------------------------------------------------------------------------------- *)
  Theorem decrypt_complete h th hj d c1 x fp raw di fp' c r : elem c1 -> 0 <= x ->
    map_get fp hj = Some (powm g x p) ->
    decrypt_prove H G h th x (powm g x p) fp c1 raw = Some (di, fp', (c, r)) ->
    decrypt_update H hbits G h th hj d c1 true di fp' true c r = (Accept, (d * di) mod p).
  Proof.
    intros H1 Hx Hm. unfold decrypt_prove. fold p q g. unfold elem in H1. rewrite H1. cbn [negb].
    apply elem_spec in H1. destruct H1 as [R1 Q1].
    rewrite (spowm_spec c1 q x p Hp Hodd Hq Q1 Hx).
    destruct (cp_prove H G h th (powm c1 x p) (powm g x p) c1 g x raw false) as [[c0 r0]|] eqn:P; [|discriminate].
    intros E; inversion E; subst di fp' c r; clear E.
    unfold decrypt_update. cbn [negb]. rewrite Hm.
    pose proof (elem_pow c1 x Q1 Hx) as Ed. unfold elem in Ed. fold p. rewrite Ed. cbn [negb].
    fold g. rewrite (cp_complete_plain h th c1 g x raw c0 r0 Q1 Hg Hx P). reflexivity.
  Qed.

  Lemma decrypt_prove_some h th x fp c1 raw : elem c1 -> 0 <= x ->
    exists di cr, decrypt_prove H G h th x (powm g x p) fp c1 raw = Some (di, fp, cr).
  Proof.
    intros H1 Hx. unfold decrypt_prove. fold p q g. unfold elem in H1. rewrite H1. cbn [negb].
    apply elem_spec in H1. destruct H1 as [R1 Q1]. rewrite (spowm_spec c1 q x p Hp Hodd Hq Q1 Hx).
    destruct (cp_prove_plain_some h th c1 g (powm c1 x p) (powm g x p) x raw Q1 Hg) as [cr E]. fold p q g in E. rewrite E. eauto.
  Qed.
End Complete.
