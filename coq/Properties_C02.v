(* C02 -- A shuffle is exactly a permutation plus re-masking.
   Property theorems only: each is closed by `exact <lemma>` and followed by Print Assumptions.
   `mask` / `open` / `addsec` are arbitrary (universally quantified) card operations; the premises about them
   (opening ignores masking -- C01; masking twice = masking with the combined secret) appear in the statements
   and are proved for both encodings in C02_vtmf_remask_homomorphic / C02_qr_mask_homomorphic. *)
From Coq Require Import ZArith NArith List Bool Lia Permutation.
From LT Require Import gen_Consts Zbase CodecModel SamplerModel SamplerLemmas ShuffleModel ShuffleLemmas ShuffleQrModel ShuffleQrLemmas.
Import ListNotations.
Local Open Scope N_scope.

(* ---- mixing ---- *)
Theorem C02_mix_length : forall (card secret : Type) (mask : card -> secret -> card) s ss s2,
  mix card secret mask s ss = Ret s2 -> (length s <= max_cards)%nat -> length s2 = length s.
Proof. exact mix_length. Qed.
Print Assumptions C02_mix_length.

(* card i of the mixed stack = input card ss[i].first, re-masked with the secret stored at position ss[i].first *)
Theorem C02_mix_nth : forall (card secret : Type) (mask : card -> secret -> card) s ss s2 i,
  mix card secret mask s ss = Ret s2 -> (i < length s)%nat -> (i < max_cards)%nat ->
  exists j r0 c j' r, nth_error ss i = Some (j, r0) /\ nthN s j = Some c /\ nthN ss j = Some (j', r) /\
                      nth_error s2 i = Some (mask c r).
Proof. exact mix_nth. Qed.
Print Assumptions C02_mix_nth.

Theorem C02_mix_total : forall (card secret : Type) (mask : card -> secret -> card) s ss,
  length s = length ss -> in_range secret (length s) ss -> exists s2, mix card secret mask s ss = Ret s2.
Proof. exact mix_total. Qed.
Print Assumptions C02_mix_total.

Theorem C02_mix_returns_only_in_range : forall (card secret : Type) (mask : card -> secret -> card) s ss s2,
  mix card secret mask s ss = Ret s2 -> length s = length ss /\ in_range secret (length s) ss.
Proof. exact mix_ret_in_range. Qed.
Print Assumptions C02_mix_returns_only_in_range.

Theorem C02_mix_wrong_size_aborts : forall (card secret : Type) (mask : card -> secret -> card) s ss,
  length s <> length ss -> mix card secret mask s ss = AssertFail.
Proof. exact mix_assert. Qed.
Print Assumptions C02_mix_wrong_size_aborts.

(* the call as made by the code (clear the result object, then bounded pushes): the result does not depend on the
   previous content of the result stack -- it is a function of (s, ss) only *)
Theorem C02_mix_result_independent_of_old_content : forall (card secret : Type) (mask : card -> secret -> card) old s ss,
  mix_into card secret mask old s ss = mix card secret mask s ss.
Proof. exact mix_into_ignores_old. Qed.
Print Assumptions C02_mix_result_independent_of_old_content.

(* the i-th card opens to the type of the designated input card *)
Theorem C02_mix_type_nth : forall (card secret : Type) (mask : card -> secret -> card) (T : Type) (open : card -> T),
  (forall c r, open (mask c r) = open c) ->
  forall s ss s2 i, mix card secret mask s ss = Ret s2 -> (i < length s)%nat -> (i < max_cards)%nat ->
  exists j r0 c, nth_error ss i = Some (j, r0) /\ nthN s j = Some c /\ nth_error (map open s2) i = Some (open c).
Proof. exact mix_type_nth. Qed.
Print Assumptions C02_mix_type_nth.

(* the multiset of card types is preserved *)
Theorem C02_mix_types_perm : forall (card secret : Type) (mask : card -> secret -> card) (T : Type) (open : card -> T),
  (forall c r, open (mask c r) = open c) ->
  forall s ss s2, mix card secret mask s ss = Ret s2 -> (length s <= max_cards)%nat ->
  Permutation (map fst ss) (iota (length s)) -> Permutation (map open s2) (map open s).
Proof. exact mix_types_perm. Qed.
Print Assumptions C02_mix_types_perm.

(* ---- composition of two shuffles (what the cut-and-choose prover relies on) ---- *)
Theorem C02_glue_ok : forall (card secret : Type) (mask : card -> secret -> card) (addsec : secret -> secret -> secret),
  (forall c r1 r2, mask (mask c r1) r2 = mask c (addsec r1 r2)) ->
  forall s sigma pi n, length s = n -> length sigma = n -> length pi = n -> (n <= max_cards)%nat ->
  Permutation (map fst sigma) (iota n) -> in_range secret n pi ->
  exists s1 gam s2, mix card secret mask s sigma = Ret s1 /\ glue secret addsec sigma pi = Ret gam /\
                    mix card secret mask s1 pi = Ret s2 /\ mix card secret mask s gam = Ret s2.
Proof. exact glue_ok. Qed.
Print Assumptions C02_glue_ok.

Theorem C02_glue_perm : forall (secret : Type) (addsec : secret -> secret -> secret) sigma pi gam n,
  glue secret addsec sigma pi = Ret gam -> (n <= max_cards)%nat ->
  Permutation (map fst sigma) (iota n) -> Permutation (map fst pi) (iota n) -> Permutation (map fst gam) (iota n).
Proof. exact glue_perm. Qed.
Print Assumptions C02_glue_perm.

Theorem C02_vtmf_remask_homomorphic : forall p q g h c r1 r2, (1 < p)%Z -> (0 < q)%Z -> powm g q p = 1%Z -> powm h q p = 1%Z ->
  (0 <= r1)%Z -> (0 <= r2)%Z -> vmask p g h (vmask p g h c r1) r2 = vmask p g h c (vadd q r1 r2).
Proof. exact vmask_vmask. Qed.
Print Assumptions C02_vtmf_remask_homomorphic.

Theorem C02_qr_mask_homomorphic : forall m y z s1 s2, (0 < m)%Z -> qmask m y (qmask m y z s1) s2 = qmask m y z (qadd m y s1 s2).
Proof. exact qmask_qmask. Qed.
Print Assumptions C02_qr_mask_homomorphic.

Theorem C02_vtmf_glue_ok : forall p q g h, (1 < p)%Z -> (0 < q)%Z -> powm g q p = 1%Z -> powm h q p = 1%Z ->
  forall s sigma pi n, length s = n -> length sigma = n -> length pi = n -> (n <= max_cards)%nat ->
  Permutation (map fst sigma) (iota n) -> in_range N n pi ->
  exists s1 gam s2, mix (Z * Z) N (vmaskN p g h) s sigma = Ret s1 /\ glue N (vaddN q) sigma pi = Ret gam /\
                    mix (Z * Z) N (vmaskN p g h) s1 pi = Ret s2 /\ mix (Z * Z) N (vmaskN p g h) s gam = Ret s2.
Proof. exact vtmf_glue_ok. Qed.
Print Assumptions C02_vtmf_glue_ok.

(* QR encoding: TMCG_CreateCardSecret for every ring, width, index and coin list -- the compensation row makes every
   column of secret bits XOR to zero, which is what keeps the card type under masking (TMCG_TypeOfCard XORs the columns) *)
Theorem C02_qr_card_secret_columns_xor_zero : forall ms w index s cs s', create_card_secret ms w index s = Ret (cs, s') ->
  (index < length ms)%nat /\ length cs = length ms /\ Forall (fun r => length r = w) cs /\
  col_xor w (map (map snd) cs) = repeat false w.
Proof. exact create_card_secret_col_xor. Qed.
Print Assumptions C02_qr_card_secret_columns_xor_zero.

(* ---- freshly generated secrets ---- *)
(* for EVERY coin list: whatever Fisher-Yates returns is a bijection on {0..n-1} *)
Theorem C02_fisher_yates_perm : forall n s pi s', random_permutation_fast n s = Ret (pi, s') -> Permutation (iota n) pi.
Proof. exact random_permutation_fast_perm. Qed.
Print Assumptions C02_fisher_yates_perm.

(* for n >= 1 it never leaves the vector and never throws; it can only ask for more coins *)
Theorem C02_fisher_yates_no_ub : forall n s, (1 <= n)%nat ->
  match random_permutation_fast n s with Ret _ | NeedCoins => True | _ => False end.
Proof. exact random_permutation_fast_outcomes. Qed.
Print Assumptions C02_fisher_yates_no_ub.

Theorem C02_rotation_is_shift : forall n r, small_n n -> r < N.of_nat n ->
  let a := N.to_nat r in
  iota n = map N.of_nat (seq 0 a) ++ map N.of_nat (seq a (n - a)) /\
  rotation n r = map N.of_nat (seq a (n - a)) ++ map N.of_nat (seq 0 a).
Proof. exact rotation_is_shift. Qed.
Print Assumptions C02_rotation_is_shift.

Theorem C02_rotation_offset_lands : forall n r i, small_n n -> r < N.of_nat n -> (i < n)%nat ->
  nth_error (rotation n r) (N.to_nat ((N.of_nat i + rotation_offset n r) mod N.of_nat n)) = Some (N.of_nat i).
Proof. exact rotation_offset_lands. Qed.
Print Assumptions C02_rotation_offset_lands.

Theorem C02_max_cards_small : forall n, (n <= max_cards)%nat -> small_n n.
Proof. exact max_cards_small. Qed.
Print Assumptions C02_max_cards_small.

(* TMCG_CreateStackSecret (VTMF encoding), every coin list, both modes *)
Theorem C02_create_stack_secret : forall cyclic n q s o ss s', create_stack_secret cyclic n q s = Ret ((o, ss), s') ->
  (n <= max_cards)%nat /\ length ss = n /\ Permutation (map fst ss) (iota n) /\
  Forall (fun p => 2 <= snd p < Z.abs q)%Z ss /\
  (if cyclic then (2 <= n)%nat /\ exists r, r < N.of_nat n /\ map fst ss = rotation n r /\ o = rotation_offset n r
   else (1 <= n)%nat /\ o = 0).
Proof. exact create_stack_secret_spec. Qed.
Print Assumptions C02_create_stack_secret.

(* ---- import ---- *)
Theorem C02_import_check_iff : forall (A : Type) (l : list (N * A)),
  perm_check l (N.of_nat (length l)) = true <-> Permutation (map fst l) (iota (length l)).
Proof. exact @import_check_iff. Qed.
Print Assumptions C02_import_check_iff.

Theorem C02_import_accepts_only_bijections : forall t ss, import_vstacksecret [] t = Some ss ->
  Permutation (map fst ss) (iota (length ss)) /\ (1 <= length ss <= max_cards)%nat.
Proof. exact import_accepts_only_bijections. Qed.
Print Assumptions C02_import_accepts_only_bijections.

Theorem C02_import_refuses_non_bijections : forall t r0 n r1 ps rest,
  cm t magic_sts hat = Some r0 -> import_size r0 = Some (n, r1) -> read_pairs n (N.to_nat n) r1 = Some (ps, rest) ->
  ~ Permutation (map fst ps) (iota (N.to_nat n)) -> import_vstacksecret [] t = None.
Proof. exact import_refuses_non_bijections. Qed.
Print Assumptions C02_import_refuses_non_bijections.

(* importing into a USED object appends and then checks the wrong thing: the statement is about fresh objects *)
Example C02_import_used_object_refuted :
  import_vstacksecret [(0, 5%Z)] (export_vstacksecret [(0, 7%Z)]) = Some [(0, 5%Z); (0, 7%Z)].
Proof. vm_compute. reflexivity. Qed.

(* ---- non-vacuity: a real (tiny) group p = 23, q = 11, g = 2, h = 4; a shuffle, a glue, a generated secret ---- *)
Example C02_nonvacuous_group : powm 2 11 23 = 1%Z /\ powm 4 11 23 = 1%Z.
Proof. vm_compute. auto. Qed.
Example C02_nonvacuous_mix :
  vmix 23 2 4 [(2, 3); (4, 9); (8, 13)]%Z [(2, 5%Z); (0, 3%Z); (1, 7%Z)] = Ret [(12, 12); (18, 13); (9, 1)]%Z.
Proof. vm_compute. reflexivity. Qed.
Example C02_nonvacuous_glue :
  vglue 11 [(2, 5%Z); (0, 3%Z); (1, 7%Z)] [(1, 2%Z); (2, 4%Z); (0, 10%Z)] = Ret [(0, 9%Z); (1, 2%Z); (2, 9%Z)].
Proof. vm_compute. reflexivity. Qed.
Example C02_nonvacuous_create :
  create_stack_secret false 2 11 (repeat 1 8 ++ repeat 3 18) = Ret ((0, [(1, 10%Z); (0, 10%Z)]), []).
Proof. vm_compute. reflexivity. Qed.
Example C02_nonvacuous_create_cyclic :
  create_stack_secret true 3 11 (repeat 1 8 ++ repeat 3 27) = Ret ((1, [(2, 10%Z); (0, 10%Z); (1, 10%Z)]), []).
Proof. vm_compute. reflexivity. Qed.
Example C02_nonvacuous_in_range : in_range Z 3 [(2, 5%Z); (0, 3%Z); (1, 7%Z)].
Proof. repeat constructor. Qed.
Example C02_nonvacuous_qr_secret :
  create_card_secret [7%Z; 11%Z; 13%Z] 1 1 (repeat 0 8 ++ [3; 1] ++ repeat 0 8 ++ [2] ++ repeat 0 8 ++ [5; 0])
  = Ret ([[(3%Z, true)]; [(2%Z, true)]; [(5%Z, false)]], []).
Proof. vm_compute. reflexivity. Qed.
Example C02_nonvacuous_qr_mask :
  qmask_card [(77,6);(221,5)]%Z [[2;3];[4;5]]%Z [[(2,true);(3,false)];[(5,false);(6,true)]]%Z = Ret [[48; 27]; [100; 16]]%Z.
Proof. vm_compute. reflexivity. Qed.
