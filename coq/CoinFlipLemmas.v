(* CoinFlipLemmas: proofs about CoinFlipModel (C17). *)
From Coq Require Import ZArith NArith Znumtheory List Bool Lia.
From LT Require Import gen_Consts Zbase CodecModel CodecLemmas CoinFlipArith CoinFlipModel.
Import ListNotations.
Local Open Scope Z_scope.

(* a well-formed common reference string: what CheckGroup establishes (p, q prime are checked there
   probabilistically; only the primality of q and 1 < p are used below) *)
Definition valid (G : group) : Prop :=
  1 < gp G /\ prime (gq G) /\ bitlen (gq G) <= TMCG_MAX_FPOWM_T /\
  in_sub (gp G) (gq G) (gg G) /\ in_sub (gp G) (gq G) (gh G) /\ gg G mod gp G <> 1.

(* the mathematical opening relation: C = g^a h^b in the order-q subgroup (exponents modulo q) *)
Definition opens (G : group) (C a b : Z) : Prop :=
  (powm (gg G) (a mod gq G) (gp G) * powm (gh G) (b mod gq G) (gp G)) mod gp G = C.

Lemma prime_gt1 q : prime q -> 1 < q.
Proof. intros [H _]. exact H. Qed.

Lemma bitlen_mono x y : 0 <= x <= y -> bitlen x <= bitlen y.
Proof.
  intros H. unfold bitlen. destruct (Z.eqb_spec x 0), (Z.eqb_spec y 0); try lia.
  - pose proof (Z.log2_nonneg y). lia.
  - pose proof (Z.log2_le_mono x y). lia.
Qed.

Lemma bitlen_pos x : 1 <= bitlen x.
Proof. unfold bitlen. destruct (x =? 0); [lia|]. pose proof (Z.log2_nonneg x). lia. Qed.

(* ---- fspowm on subgroup elements ---------------------------------------------------------- *)
Section Grp.
  Variable G : group.
  Hypothesis V : valid G.
  Let p := gp G.
  Let q := gq G.

  Lemma Vp : 1 < p. Proof. apply V. Qed.
  Lemma Vq : 1 < q. Proof. apply prime_gt1, V. Qed.

  Lemma table_bits_eq : table_bits G = bitlen q.
  Proof. unfold table_bits. destruct V as (_ & _ & B & _). fold q in B |- *. lia. Qed.

  Lemma fspowm_sub b x : in_sub p q b -> Z.abs x < q ->
    fspowm (table_bits G) b x p = Some (powm b (x mod q) p).
  Proof.
    intros Hb Hx. pose proof Vp as Hp. pose proof Vq as Hq.
    unfold fspowm. rewrite table_bits_eq.
    assert (B1 : bitlen (Z.abs x) <= bitlen q) by (apply bitlen_mono; lia).
    destruct V as (_ & _ & B & _). fold q in B.
    destruct (Z.gtb_spec (bitlen (Z.abs x)) TMCG_MAX_FPOWM_T); [lia|].
    destruct (Z.leb_spec (bitlen (Z.abs x)) (bitlen q)); [|lia].
    rewrite (sub_invm_mod p q Hp Hq) by (assumption || lia).
    f_equal. destruct (Z.ltb_spec x 0).
    - rewrite Z.abs_neq by lia. rewrite Z.opp_involutive.
      apply Z.mod_small. apply powm_range; [lia|]. apply Z.mod_pos_bound. lia.
    - rewrite Z.abs_eq by lia. rewrite (Z.mod_small x q) by lia.
      apply Z.mod_small. apply powm_range; lia.
  Qed.

  Lemma commit_sub a b : Z.abs a < q -> Z.abs b < q ->
    commit G a b = Some ((powm (gg G) (a mod q) p * powm (gh G) (b mod q) p) mod p).
  Proof.
    intros Ha Hb. unfold commit. fold p.
    destruct V as (_ & _ & _ & Hg & Hh & _). fold p q in Hg, Hh.
    rewrite (fspowm_sub _ _ Hg Ha), (fspowm_sub _ _ Hh Hb). reflexivity.
  Qed.

  Lemma commit_opens a b C : Z.abs a < q -> Z.abs b < q -> commit G a b = Some C -> opens G C a b.
  Proof. intros Ha Hb. rewrite commit_sub by assumption. intros [= <-]. reflexivity. Qed.

  Lemma in_sub_commit a b : in_sub p q ((powm (gg G) (a mod q) p * powm (gh G) (b mod q) p) mod p).
  Proof.
    pose proof Vp. pose proof Vq. destruct V as (_ & _ & _ & Hg & Hh & _). fold p q in Hg, Hh.
    apply in_sub_mul; try lia; apply in_sub_pow; try lia; try assumption; apply Z.mod_pos_bound; lia.
  Qed.

  Lemma check_element_commit a b :
    check_element G ((powm (gg G) (a mod q) p * powm (gh G) (b mod q) p) mod p) = true.
  Proof.
    pose proof Vp as Hp. pose proof Vq as Hq. unfold check_element. fold p q.
    set (C := (powm (gg G) (a mod q) p * powm (gh G) (b mod q) p) mod p).
    pose proof (in_sub_commit a b) as HC. fold C in HC.
    pose proof (in_sub_nonzero p q Hp Hq C HC) as NZ.
    assert (R : 0 <= C < p) by (apply Z.mod_pos_bound; lia).
    rewrite Z.mod_small in NZ by lia.
    unfold in_sub in HC. rewrite HC.
    destruct (Z.ltb_spec 0 C); [|lia]. destruct (Z.ltb_spec C p); [|lia]. reflexivity.
  Qed.

  (* ---- exponent arithmetic in the subgroup ------------------------------------------------ *)
  Definition gexp (x e : Z) : Z := powm x (e mod q) p.

  Lemma gexp_add x e1 e2 : in_sub p q x -> gexp x (e1 + e2) = (gexp x e1 * gexp x e2) mod p.
  Proof.
    intros Hx. pose proof Vp. pose proof Vq. unfold gexp.
    pose proof (Z.mod_pos_bound e1 q ltac:(lia)). pose proof (Z.mod_pos_bound e2 q ltac:(lia)).
    rewrite <- powm_add by lia. rewrite <- (sub_pow_mod p q) with (e := e1 mod q + e2 mod q) by (assumption || lia).
    f_equal. now rewrite <- Zplus_mod.
  Qed.

  Lemma gexp_0 x : gexp x 0 = 1.
  Proof. pose proof Vp. pose proof Vq. unfold gexp. rewrite Zmod_0_l. cbn. apply Z.mod_1_l. lia. Qed.

  Lemma gexp_range x e : 0 <= gexp x e < p.
  Proof. pose proof Vp. pose proof Vq. apply powm_range; [lia|]. apply Z.mod_pos_bound. lia. Qed.

  Lemma gexp_mul x e k : in_sub p q x -> 0 <= k -> powm (gexp x e) k p = gexp x (e * k).
  Proof.
    intros Hx Hk. pose proof Vp. pose proof Vq. unfold gexp.
    pose proof (Z.mod_pos_bound e q ltac:(lia)).
    rewrite <- powm_mul by lia. rewrite <- (sub_pow_mod p q) with (e := e mod q * k) by (assumption || nia).
    f_equal. now rewrite Zmult_mod_idemp_l.
  Qed.

  Lemma gexp_congr x e1 e2 : e1 mod q = e2 mod q -> gexp x e1 = gexp x e2.
  Proof. unfold gexp. now intros ->. Qed.

  (* cancellation: g^a1 h^b1 = g^a2 h^b2  ==>  g^(a1-a2) = h^(b2-b1) *)
  Lemma opens_cancel C a1 b1 a2 b2 : opens G C a1 b1 -> opens G C a2 b2 ->
    gexp (gg G) (a1 - a2) = gexp (gh G) (b2 - b1).
  Proof.
    pose proof Vp as Hp. pose proof Vq as Hq.
    destruct V as (_ & _ & _ & Hg & Hh & _). fold p q in Hg, Hh.
    unfold opens. fold p q. fold (gexp (gg G) a1) (gexp (gh G) b1) (gexp (gg G) a2) (gexp (gh G) b2).
    intros E1 E2. rewrite <- E2 in E1. clear E2.
    set (A1 := gexp (gg G) a1) in *. set (B1 := gexp (gh G) b1) in *.
    set (A2 := gexp (gg G) a2) in *. set (B2 := gexp (gh G) b2) in *.
    set (A2' := gexp (gg G) (- a2)). set (B1' := gexp (gh G) (- b1)).
    assert (IA : (A2 * A2') mod p = 1).
    { unfold A2, A2'. rewrite <- gexp_add by assumption. replace (a2 + - a2) with 0 by ring. apply gexp_0. }
    assert (IB : (B1 * B1') mod p = 1).
    { unfold B1, B1'. rewrite <- gexp_add by assumption. replace (b1 + - b1) with 0 by ring. apply gexp_0. }
    assert (L : gexp (gg G) (a1 - a2) = ((A1 * B1) * (A2' * B1')) mod p).
    { replace (a1 - a2) with (a1 + - a2) by ring. rewrite gexp_add by assumption. fold A1 A2'.
      replace (A1 * B1 * (A2' * B1')) with ((A1 * A2') * (B1 * B1')) by ring.
      rewrite (Zmult_mod (A1 * A2') (B1 * B1')), IB, Z.mul_1_r, Zmod_mod. reflexivity. }
    assert (R : gexp (gh G) (b2 - b1) = ((A2 * B2) * (A2' * B1')) mod p).
    { replace (b2 - b1) with (b2 + - b1) by ring. rewrite gexp_add by assumption. fold B2 B1'.
      replace (A2 * B2 * (A2' * B1')) with ((B2 * B1') * (A2 * A2')) by ring.
      rewrite (Zmult_mod (B2 * B1') (A2 * A2')), IA, Z.mul_1_r, Zmod_mod. reflexivity. }
    rewrite L, R. rewrite Zmult_mod, E1, <- Zmult_mod. reflexivity.
  Qed.

  Lemma gexp_g_inj e1 e2 : gexp (gg G) e1 = gexp (gg G) e2 -> e1 mod q = e2 mod q.
  Proof.
    pose proof Vp as Hp. pose proof Vq as Hq.
    destruct V as (_ & Pq & _ & Hg & _ & G1). fold p q in Hg, G1, Pq.
    unfold gexp. intros E.
    pose proof (Z.mod_pos_bound e1 q ltac:(lia)). pose proof (Z.mod_pos_bound e2 q ltac:(lia)).
    apply (powm_inj_small p q (gg G) Hp Pq Hg G1); assumption.
  Qed.

  (* binding reduction: two openings of one commitment with different values give log_g h *)
  Theorem binding_extract C a1 b1 a2 b2 : opens G C a1 b1 -> opens G C a2 b2 ->
    a1 mod q <> a2 mod q ->
    exists x, extract_log q a1 b1 a2 b2 = Some x /\ 0 <= x < q /\ powm (gg G) x p = gh G mod p.
  Proof.
    intros O1 O2 Na. pose proof Vp as Hp. pose proof Vq as Hq.
    pose proof (opens_cancel _ _ _ _ _ O1 O2) as E.
    destruct V as (_ & Pq & _ & Hg & Hh & G1). fold p q in Hg, Hh, G1, Pq.
    set (d := (b2 - b1) mod q).
    assert (Rd : 0 <= d < q) by (apply Z.mod_pos_bound; lia).
    assert (Nd : d <> 0).
    { intros D0. apply Na.
      assert (E0 : gexp (gg G) (a1 - a2) = gexp (gg G) 0).
      { rewrite E. unfold gexp. fold d. rewrite D0, Zmod_0_l. reflexivity. }
      apply gexp_g_inj in E0. rewrite Zmod_0_l in E0.
      rewrite Zminus_mod in E0.
      pose proof (Z.mod_pos_bound a1 q ltac:(lia)). pose proof (Z.mod_pos_bound a2 q ltac:(lia)).
      destruct (Z.eq_dec (a1 mod q) (a2 mod q)) as [|N]; [assumption|exfalso].
      destruct (Z.lt_ge_cases (a1 mod q) (a2 mod q)).
      - replace (a1 mod q - a2 mod q) with ((a1 mod q - a2 mod q + q) + (-1) * q) in E0 by ring.
        rewrite Z.mod_add in E0 by lia. rewrite Z.mod_small in E0 by lia. lia.
      - rewrite Z.mod_small in E0 by lia. lia. }
    assert (Gd : Z.gcd d q = 1).
    { apply Zgcd_1_rel_prime. apply rel_prime_sym. apply prime_rel_prime; [assumption|].
      intros D. apply Z.divide_pos_le in D; lia. }
    destruct (invm_complete d q Hq Gd) as [iv Hiv].
    destruct (invm_sound _ _ _ Hiv Hq) as [Riv Eiv].
    unfold extract_log. fold d. rewrite Hiv.
    eexists. split; [reflexivity|]. split; [apply Z.mod_pos_bound; lia|].
    (* raise both sides of E to iv *)
    assert (E' : powm (gexp (gg G) (a1 - a2)) iv p = powm (gexp (gh G) (b2 - b1)) iv p) by now rewrite E.
    rewrite !gexp_mul in E' by (assumption || lia).
    assert (HL : gexp (gg G) ((a1 - a2) * iv) = powm (gg G) (((a1 - a2) mod q * iv) mod q) p).
    { unfold gexp. f_equal. now rewrite Zmult_mod_idemp_l. }
    assert (HR : gexp (gh G) ((b2 - b1) * iv) = gh G mod p).
    { unfold gexp. rewrite <- Zmult_mod_idemp_l. fold d. rewrite Eiv. apply powm_1_r. }
    rewrite <- HL, <- HR. exact E'.
  Qed.

  (* perfect hiding: if h = g^x with x a unit modulo q, every value a' is consistent with a
     given commitment (so what the peer sends after seeing only the commitment carries no
     information about a) *)
  Theorem commit_hiding x a b a' : 0 <= x -> x mod q <> 0 -> gh G mod p = powm (gg G) x p ->
    exists b', 0 <= b' < q /\ forall C, opens G C a b -> opens G C a' b'.
  Proof.
    intros Hx Nx Hh. pose proof Vp as Hp. pose proof Vq as Hq.
    destruct V as (_ & Pq & _ & Hg & HhS & G1). fold p q in Hg, HhS, G1, Pq.
    assert (Rx : 0 <= x mod q < q) by (apply Z.mod_pos_bound; lia).
    assert (Gd : Z.gcd (x mod q) q = 1).
    { apply Zgcd_1_rel_prime. apply rel_prime_sym. apply prime_rel_prime; [assumption|].
      intros D. apply Z.divide_pos_le in D; lia. }
    destruct (invm_complete _ q Hq Gd) as [iv Hiv].
    destruct (invm_sound _ _ _ Hiv Hq) as [Riv Eiv].
    exists ((b + (a - a') * iv) mod q). split; [apply Z.mod_pos_bound; lia|].
    intros C O. unfold opens in *. fold p q in O |- *. rewrite <- O. clear O.
    (* h^e = g^(x e) *)
    assert (HE : forall e, powm (gh G) (e mod q) p = gexp (gg G) (x * e)).
    { intros e. pose proof (Z.mod_pos_bound e q ltac:(lia)).
      rewrite <- powm_base_mod by lia. rewrite Hh.
      rewrite <- powm_mul by lia. unfold gexp.
      rewrite <- (sub_pow_mod p q) with (e := x * (e mod q)) by (assumption || nia).
      f_equal. now rewrite Zmult_mod_idemp_r. }
    rewrite !HE. fold (gexp (gg G) a') (gexp (gg G) a).
    rewrite <- !gexp_add by assumption. apply gexp_congr.
    rewrite Zplus_mod, (Zmult_mod x), Zmod_mod, <- (Zmult_mod x), <- Zplus_mod.
    replace (a' + x * (b + (a - a') * iv)) with ((a + x * b) + (a - a') * (x * iv - 1)) by ring.
    rewrite Zplus_mod. rewrite (Zmult_mod (a - a')).
    assert (Z1 : (x * iv - 1) mod q = 0).
    { rewrite Zminus_mod. rewrite <- Zmult_mod_idemp_l, Eiv. rewrite (Z.mod_small 1) by lia.
      rewrite Z.sub_diag. apply Zmod_0_l. }
    rewrite Z1, Z.mul_0_r, Zmod_0_l, Z.add_0_r, Zmod_mod. reflexivity.
  Qed.
End Grp.

(* ---- the trace ----------------------------------------------------------------------------- *)
Definition is_send (e : event) : bool := match e with Send _ => true | Recv _ => false end.

(* shape of every trace of flip2, for every peer *)
Inductive trace_shape (G : group) (P : peer) : list event -> Prop :=
| ts_nil : trace_shape G P []
| ts_commit C m : m = P [Send C] -> trace_shape G P [Send C; Recv m]
| ts_open C m C' sa sb rest : m = P [Send C] -> parse m = PVal C' -> check_element G C' = true ->
    forallb (fun e => negb (is_send e)) rest = true ->
    trace_shape G P ([Send C; Recv m; Send sa; Send sb] ++ rest).

Lemma flip2_shape G a b f fr P : trace_shape G P (fst (flip2 G a b f fr P)).
Proof.
  unfold flip2. destruct (commit G a b) as [C0|]; [|constructor].
  set (C := C0 + b2z f). set (m1 := P [Send C]).
  destruct (parse m1) as [C'| |] eqn:P1; cbn [fst app]; try (now constructor).
  destruct (check_element G C') eqn:CE; cbn [negb fst app]; [|now constructor].
  cbn [app].
  assert (S : forall rest (out : outcome), forallb (fun e => negb (is_send e)) rest = true ->
            trace_shape G P (fst ([Send C; Recv m1; Send (a + b2z f); Send (b + b2z (f && fr))] ++ rest, out))).
  { intros rest out Hr. cbn [fst]. apply (ts_open G P C m1 C'); auto. }
  repeat match goal with
  | |- context [match ?x with _ => _ end] => destruct x
  end; apply S; reflexivity.
Qed.

(* commit before reveal: any Send other than the first event comes after the receipt (at position 1)
   of a well-formed peer commitment, and that message was computed by the peer from the party's
   commitment alone *)
Theorem commit_before_reveal G a b f fr P tr out : flip2 G a b f fr P = (tr, out) ->
  forall k v, nth_error tr k = Some (Send v) -> (k <> 0)%nat ->
  exists C m C', nth_error tr 0 = Some (Send C) /\ nth_error tr 1 = Some (Recv m) /\ (1 < k)%nat /\
                 m = P [Send C] /\ parse m = PVal C' /\ check_element G C' = true.
Proof.
  intros E k v Hk K0. pose proof (flip2_shape G a b f fr P) as S. rewrite E in S. cbn [fst] in S.
  inversion S as [|C m Hm Ht|C m C' sa sb rest Hm HP HC Hr Ht]; subst tr.
  - destruct k; discriminate.
  - destruct k as [|[|[|k]]]; try discriminate; lia.
  - exists C, m, C'. repeat split; try assumption; try reflexivity.
    destruct k as [|[|k]]; [lia|discriminate|lia].
Qed.

(* nothing but the commitment is written when the peer's first message is missing or unusable *)
Theorem withheld_commitment G a b f fr P tr out : flip2 G a b f fr P = (tr, out) ->
  (forall C', parse (P (firstn 1 tr)) = PVal C' -> check_element G C' = false) ->
  (length (sends tr) <= 1)%nat /\ forall z, out <> Coin z.
Proof.
  unfold flip2. destruct (commit G a b) as [C0|]; [|intros [= <- <-] _; split; [cbn; lia|discriminate]].
  set (C := C0 + b2z f). set (m1 := P [Send C]).
  destruct (parse m1) as [C'| |] eqn:P1.
  - destruct (check_element G C') eqn:CE; cbn [negb].
    + intros E H. exfalso.
      assert (F : firstn 1 tr = [Send C]).
      { revert E. cbn [app].
        repeat match goal with |- context [match ?x with _ => _ end] => destruct x end;
        intros [= <- _]; reflexivity. }
      rewrite F in H. fold m1 in H. specialize (H C' P1). congruence.
    + intros [= <- <-] _. split; [cbn; lia|discriminate].
  - intros [= <- <-] _. split; [cbn; lia|discriminate].
  - intros [= <- <-] _. split; [cbn; lia|discriminate].
Qed.

(* ---- acceptance ------------------------------------------------------------------------------ *)
(* whenever a coin is output: the three lines read were a subgroup element C' and an in-range
   opening of exactly C', and the coin is the sum *)
Ltac disc := let X := fresh in intro X; discriminate X.

Theorem flip2_coin_sound G a b fr P tr z : valid G -> flip2 G a b false fr P = (tr, Coin z) ->
  exists C C' a' b' m1 m2 m3,
    tr = [Send C; Recv m1; Send a; Send b; Recv m2; Recv m3] /\
    commit G a b = Some C /\
    parse m1 = PVal C' /\ parse m2 = PVal a' /\ parse m3 = PVal b' /\
    check_element G C' = true /\ Z.abs a' < gq G /\ Z.abs b' < gq G /\
    opens G C' a' b' /\ z = (a + a') mod gq G.
Proof.
  intros V. unfold flip2. destruct (commit G a b) as [C0|]; [|disc].
  cbn [b2z andb]. rewrite !Z.add_0_r.
  set (m1 := P [Send C0]). destruct (parse m1) as [C'| |] eqn:P1; try disc.
  destruct (check_element G C') eqn:CE; cbn [negb]; [|disc].
  cbn [app]. set (t3 := [Send C0; Recv m1; Send a; Send b]).
  set (m2 := P t3). destruct (parse m2) as [a'| |] eqn:P2; try disc.
  destruct (Z.geb_spec (Z.abs a') (gq G)); [disc|].
  set (m3 := P [Send C0; Recv m1; Send a; Send b; Recv m2]). destruct (parse m3) as [b'| |] eqn:P3; try disc.
  destruct (Z.geb_spec (Z.abs b') (gq G)); [disc|].
  destruct (commit G a' b') as [lhs|] eqn:CM; [|disc].
  destruct (Z.eqb_spec lhs (C' mod gp G)) as [EQ|]; [|disc].
  intros [= <- <-]. exists C0, C', a', b', m1, m2, m3.
  repeat split; try assumption; try reflexivity.
  - apply commit_opens in CM; try assumption.
    unfold check_element in CE. apply andb_prop in CE as [CE _]. apply andb_prop in CE as [L1 L2].
    apply Z.ltb_lt in L1, L2. rewrite Z.mod_small in EQ by lia. now subst lhs.
  - pose proof (Vq G V). now rewrite Zplus_mod_idemp_l.
Qed.

(* an opening that is out of range or does not match the stored commitment is rejected.
   m1, m2, m3 are the peer's three answers (to the party's commitment, to its opening, and the next line) *)
Theorem flip2_bad_opening_rejects G a b f fr P C0 C' a' b' : valid G ->
  commit G a b = Some C0 ->
  let C := C0 + b2z f in
  let m1 := P [Send C] in
  let t3 := [Send C; Recv m1; Send (a + b2z f); Send (b + b2z (f && fr))] in
  let m2 := P t3 in
  let m3 := P (t3 ++ [Recv m2]) in
  parse m1 = PVal C' -> check_element G C' = true -> parse m2 = PVal a' -> parse m3 = PVal b' ->
  (gq G <= Z.abs a' \/ gq G <= Z.abs b' \/ ~ opens G C' a' b') ->
  snd (flip2 G a b f fr P) = Reject.
Proof.
  intros V EC C m1 t3 m2 m3 P1 CE P2 P3 Bad.
  unfold flip2. rewrite EC. fold C. fold m1. rewrite P1, CE. cbn [negb app].
  fold t3. fold m2. rewrite P2.
  destruct (Z.geb_spec (Z.abs a') (gq G)) as [Ra|Ra]; [reflexivity|].
  change (P [Send C; Recv m1; Send (a + b2z f); Send (b + b2z (f && fr)); Recv m2]) with m3.
  rewrite P3.
  destruct (Z.geb_spec (Z.abs b') (gq G)) as [Rb|Rb]; [reflexivity|].
  destruct (commit G a' b') as [lhs|] eqn:CM.
  2: { rewrite commit_sub in CM by (assumption || lia). discriminate. }
  destruct (Z.eqb_spec lhs (C' mod gp G)) as [EQ|NE]; [|reflexivity].
  exfalso. destruct Bad as [B|[B|B]]; try lia. apply B.
  apply commit_opens in CM; try assumption; try lia.
  unfold check_element in CE. apply andb_prop in CE as [CE _]. apply andb_prop in CE as [L1 L2].
  apply Z.ltb_lt in L1, L2. rewrite Z.mod_small in EQ by lia. now subst lhs.
Qed.

(* ---- two honest parties ---------------------------------------------------------------------- *)
Lemma parse_wire v : parse (wire v, true) = PVal v.
Proof. unfold parse, wire. cbn [fst snd]. now rewrite base62_roundtrip. Qed.

Lemma flip2_honest G a b fr a1 b1 l1 : valid G -> 0 <= a < gq G -> 0 <= b < gq G ->
  0 <= a1 < gq G -> 0 <= b1 < gq G -> honest_lines G a1 b1 = Some l1 ->
  exists C, commit G a b = Some C /\
    flip2 G a b false fr (script_peer l1) =
      ([Send C; Recv (nth 0 l1 eof); Send a; Send b; Recv (nth 1 l1 eof); Recv (nth 2 l1 eof)],
       Coin ((a + a1) mod gq G)).
Proof.
  intros V Ha Hb Ha1 Hb1 HL. pose proof (Vq G V) as Hq.
  unfold honest_lines in HL. rewrite commit_sub in HL by (assumption || lia). injection HL as <-.
  set (C1 := (powm (gg G) (a1 mod gq G) (gp G) * powm (gh G) (b1 mod gq G) (gp G)) mod gp G).
  eexists. split; [apply commit_sub; (assumption || lia)|].
  unfold flip2. rewrite commit_sub by (assumption || lia).
  cbn [b2z andb]. rewrite !Z.add_0_r.
  unfold script_peer at 1. cbn [recvs filter length nth]. rewrite parse_wire.
  unfold C1 at 1. rewrite check_element_commit by assumption. cbn [negb app].
  unfold script_peer at 1. cbn [recvs filter length nth]. rewrite parse_wire.
  destruct (Z.geb_spec (Z.abs a1) (gq G)); [lia|].
  unfold script_peer at 1. cbn [recvs filter length nth app]. rewrite parse_wire.
  destruct (Z.geb_spec (Z.abs b1) (gq G)); [lia|].
  rewrite commit_sub by (assumption || lia). fold C1.
  assert (RC : 0 <= C1 < gp G) by (apply Z.mod_pos_bound; pose proof (Vp G V); lia).
  rewrite (Z.mod_small C1) by lia. rewrite Z.eqb_refl.
  cbn [nth]. rewrite Z.add_0_l, Zplus_mod_idemp_l. reflexivity.
Qed.

(* two honest parties output the same coin (a0 + a1) mod q, each playing exactly the lines the
   other one reads *)
Theorem flip2_same_coin G a0 b0 a1 b1 f0 f1 : valid G ->
  0 <= a0 < gq G -> 0 <= b0 < gq G -> 0 <= a1 < gq G -> 0 <= b1 < gq G ->
  exists l0 l1 t0 t1,
    honest_lines G a0 b0 = Some l0 /\ honest_lines G a1 b1 = Some l1 /\
    flip2 G a0 b0 false f0 (script_peer l1) = (t0, Coin ((a0 + a1) mod gq G)) /\
    flip2 G a1 b1 false f1 (script_peer l0) = (t1, Coin ((a0 + a1) mod gq G)) /\
    map (fun v => (wire v, true)) (sends t0) = l0 /\ map (fun v => (wire v, true)) (sends t1) = l1.
Proof.
  intros V H0 H0' H1 H1'. pose proof (Vq G V) as Hq.
  destruct (honest_lines G a0 b0) as [l0|] eqn:L0.
  2: { unfold honest_lines in L0. rewrite commit_sub in L0 by (assumption || lia). discriminate. }
  destruct (honest_lines G a1 b1) as [l1|] eqn:L1.
  2: { unfold honest_lines in L1. rewrite commit_sub in L1 by (assumption || lia). discriminate. }
  destruct (flip2_honest G a0 b0 f0 a1 b1 l1 V H0 H0' H1 H1' L1) as (C0 & E0 & F0).
  destruct (flip2_honest G a1 b1 f1 a0 b0 l0 V H1 H1' H0 H0' L0) as (C1 & E1 & F1).
  do 4 eexists. split; [reflexivity|]. split; [reflexivity|].
  split; [exact F0|]. split; [rewrite (Z.add_comm a0 a1); exact F1|].
  unfold honest_lines in L0, L1. rewrite E0 in L0. rewrite E1 in L1.
  injection L0 as <-. injection L1 as <-. split; reflexivity.
Qed.

(* ---- n-party decision part -------------------------------------------------------------------- *)
Theorem flipN_no_complaint_iff G o : valid G ->
  forall a b, o_a o = Some a -> o_hata o = Some b ->
  (flipN_complaint G o = Some false <->
   Z.abs a < gq G /\ Z.abs b < gq G /\ opens G (o_C o mod gp G) a b).
Proof.
  intros V a b Ea Eb. pose proof (Vq G V) as Hq. unfold flipN_complaint, recv_values. rewrite Ea, Eb.
  destruct (Z.geb_spec (Z.abs a) (gq G)) as [Ra|Ra]; destruct (Z.geb_spec (Z.abs b) (gq G)) as [Rb|Rb]; cbn [orb].
  1,2,3: rewrite commit_sub by (assumption || (cbn; lia)); cbn [orb]; split; [discriminate|lia].
  rewrite commit_sub by (assumption || lia). unfold opens.
  destruct (Z.eqb_spec ((powm (gg G) (a mod gq G) (gp G) * powm (gh G) (b mod gq G) (gp G)) mod gp G) (o_C o mod gp G)) as [E|E];
    cbn [negb]; split; try discriminate; intuition (try lia; try congruence).
Qed.

Theorem flipN_share_ok G o rec v : valid G -> flipN_share G o rec = Some v ->
  v = rec \/ (exists b, o_a o = Some v /\ o_hata o = Some b /\ Z.abs v < gq G /\ Z.abs b < gq G /\
                        opens G (o_C o mod gp G) v b).
Proof.
  intros V. unfold flipN_share. destruct (flipN_complaint G o) as [[|]|] eqn:E; try discriminate.
  - intros [= <-]. now left.
  - intros [= <-]. right. unfold flipN_complaint in E.
    destruct (o_a o) as [a|] eqn:Ea.
    2: { unfold recv_values in E. rewrite Ea in E. destruct (commit G 0 0); cbn in E; discriminate. }
    destruct (o_hata o) as [b|] eqn:Eb.
    2: { unfold recv_values in E. rewrite Ea, Eb in E. destruct (commit G _ 0); cbn in E; try discriminate. }
    assert (E' : flipN_complaint G o = Some false) by exact E.
    apply (flipN_no_complaint_iff G o V a b Ea Eb) in E'. destruct E' as (Ra & Rb & O).
    exists b. unfold recv_values. rewrite Ea, Eb.
    destruct (Z.geb_spec (Z.abs a) (gq G)); [lia|]. cbn [fst]. auto.
Qed.

Lemma flipN_sum_spec q l : 0 < q -> flipN_sum q l = (fold_right Z.add 0 l) mod q.
Proof.
  intros Hq. unfold flipN_sum.
  assert (H : forall acc, fold_left (fun acc x => (acc + x) mod q) l (acc mod q) = (acc + fold_right Z.add 0 l) mod q).
  { induction l as [|x l IH]; intros acc; cbn [fold_left fold_right].
    - now rewrite Z.add_0_r.
    - rewrite Zplus_mod_idemp_l. rewrite IH. f_equal. ring. }
  specialize (H 0). rewrite Zmod_0_l in H. exact H.
Qed.

(* used by the non-vacuity examples *)
Lemma prime_11 : prime 11.
Proof.
  apply prime_intro; [lia|]. intros n Hn. apply Zgcd_1_rel_prime.
  assert (n = 1 \/ n = 2 \/ n = 3 \/ n = 4 \/ n = 5 \/ n = 6 \/ n = 7 \/ n = 8 \/ n = 9 \/ n = 10) as H by lia.
  repeat (destruct H as [-> | H]; [reflexivity|]). subst. reflexivity.
Qed.
