(* VssLagrange: the reconstruction formula of PedersenVSS::Reconstruct / GJKR-DKG::Reconstruct (model: lagrange0)
   returns f(0) for ANY set of points with distinct abscissae on a polynomial f over Z_q with at most as many
   coefficients as there are points (q prime).  General in the number of points; proved by root counting:
   a polynomial with fewer coefficients than distinct roots modulo a prime vanishes identically. *)
From Coq Require Import ZArith Znumtheory Lia List Bool ZifyBool.
From LT Require Import Zbase VssModel VssLemmas.
Import ListNotations.
Local Open Scope Z_scope.

(* ---- synthetic division by (X - a) ---------------------------------------------------------------- *)
Fixpoint sdiv (cs : list Z) (a : Z) : list Z :=
  match cs with
  | [] => []
  | c :: r => match r with [] => [] | _ => peval r a :: sdiv r a end
  end.

Lemma sdiv_spec cs a x : peval cs x = (x - a) * peval (sdiv cs a) x + peval cs a.
Proof.
  induction cs as [|c r IH]; [cbn; lia|].
  destruct r as [|c' r'].
  - cbn. lia.
  - change (sdiv (c :: c' :: r') a) with (peval (c' :: r') a :: sdiv (c' :: r') a).
    cbn [peval] in *. rewrite IH. ring.
Qed.

Lemma sdiv_length cs a : length (sdiv cs a) = pred (length cs).
Proof.
  induction cs as [|c r IH]; [reflexivity|]. destruct r as [|c' r']; [reflexivity|].
  change (sdiv (c :: c' :: r') a) with (peval (c' :: r') a :: sdiv (c' :: r') a).
  cbn [length] in *. rewrite IH. reflexivity.
Qed.

Theorem roots_zero q : prime q -> forall xs cs, (length cs <= length xs)%nat -> NoDup xs ->
  (forall x, In x xs -> 0 <= x < q) -> (forall x, In x xs -> peval cs x mod q = 0) ->
  forall z, peval cs z mod q = 0.
Proof.
  intros Hq. assert (Hq1 : 1 < q) by (destruct Hq; lia).
  induction xs as [|a xs IH]; intros cs Hlen Hnd Hrange Hroot z.
  - destruct cs; [reflexivity|cbn in Hlen; lia].
  - inversion Hnd as [|? ? Hnotin Hnd']; subst.
    assert (Ha : peval cs a mod q = 0) by (apply Hroot; now left).
    assert (HQ : forall w, peval (sdiv cs a) w mod q = 0).
    { apply IH.
      - rewrite sdiv_length. cbn [length] in Hlen. lia.
      - assumption.
      - intros x Hx. apply Hrange. now right.
      - intros x Hx.
        assert (Hxa : x <> a) by (intros ->; contradiction).
        pose proof (Hrange x (or_intror Hx)) as Rx. pose proof (Hrange a (or_introl eq_refl)) as Ra.
        pose proof (Hroot x (or_intror Hx)) as Rt. rewrite (sdiv_spec cs a x) in Rt.
        rewrite Zplus_mod, Ha, Z.add_0_r, Z.mod_mod in Rt by lia.
        apply Z.mod_divide in Rt; [|lia]. apply prime_mult in Rt; [|assumption].
        destruct Rt as [D|D].
        + exfalso. destruct D as [k Hk].
          assert (k = 0 \/ k <= -1 \/ 1 <= k) as [->|[Hk'|Hk']] by lia; [lia| |]; nia.
        + apply Z.mod_divide; [lia|assumption]. }
    rewrite (sdiv_spec cs a z). rewrite Zplus_mod, Ha, Z.add_0_r, Z.mod_mod by lia.
    rewrite Zmult_mod, HQ, Z.mul_0_r. reflexivity.
Qed.

(* ---- soundness of the modular inverse of Zbase ------------------------------------------------------ *)
Lemma egcd_inv a p : forall fuel r0 r1 s0 s1 g s, egcd_fuel fuel r0 r1 s0 s1 = (g, s) ->
  (p | r0 - s0 * a) -> (p | r1 - s1 * a) -> (p | g - s * a).
Proof.
  induction fuel as [|f IH]; intros r0 r1 s0 s1 g s E H0 H1; cbn [egcd_fuel] in E.
  - now injection E as <- <-.
  - destruct (r1 =? 0); [now injection E as <- <-|].
    eapply IH; [exact E|exact H1|].
    replace (r0 - r0 / r1 * r1 - (s0 - r0 / r1 * s1) * a) with ((r0 - s0 * a) - (r0 / r1) * (r1 - s1 * a)) by ring.
    apply Z.divide_sub_r; [assumption|]. now apply Z.divide_mul_r.
Qed.

Lemma invm_sound a p iv : 1 < p -> invm a p = Some iv -> 0 <= iv < p /\ (a * iv) mod p = 1.
Proof.
  intros Hp E. unfold invm in E. destruct (Z.leb_spec p 0); [lia|].
  destruct (egcd_fuel _ _ _ _ _) as [g s] eqn:G.
  apply (egcd_inv a p) in G.
  - destruct (Z.eqb_spec g 1) as [->|].
    + injection E as <-. split; [apply Z.mod_pos_bound; lia|].
      rewrite Zmult_mod_idemp_r. destruct G as [k Hk].
      replace (a * s) with (1 + (- k) * p) by lia. rewrite Z.mod_add by lia. apply Z.mod_1_l. lia.
    + destruct (Z.eqb_spec p 1); [lia|discriminate].
  - rewrite Z.mul_1_l. apply Z.mod_divide; [lia|]. rewrite Zminus_mod_idemp_l. rewrite Z.sub_diag. reflexivity.
  - rewrite Z.mul_0_l, Z.sub_0_r. apply Z.divide_refl.
Qed.

(* ---- polynomial operations on coefficient lists ------------------------------------------------------- *)
Definition pscale (c : Z) (f : list Z) : list Z := map (Z.mul c) f.
Fixpoint pladd (f g : list Z) : list Z :=
  match f, g with
  | [], _ => g
  | _, [] => f
  | a :: f', b :: g' => (a + b) :: pladd f' g'
  end.
Definition pmul_lin (a : Z) (f : list Z) : list Z := pladd (pscale a f) (0 :: pscale (-1) f).   (* (a - X) * f *)
Definition basis (ys : list Z) : list Z := fold_right pmul_lin [1] ys.                           (* prod (y - X) *)
Fixpoint pr (ys : list Z) (x : Z) : Z := match ys with [] => 1 | y :: r => (y - x) * pr r x end.

Lemma peval_pscale c f x : peval (pscale c f) x = c * peval f x.
Proof. induction f as [|a f IH]; cbn [pscale map peval]; [lia|]. fold (pscale c f). rewrite IH. ring. Qed.
Lemma peval_pladd f g x : peval (pladd f g) x = peval f x + peval g x.
Proof.
  revert g. induction f as [|a f IH]; intros g; [cbn; lia|]. destruct g as [|b g]; [cbn; lia|].
  cbn [pladd peval]. rewrite IH. ring.
Qed.
Lemma length_pscale c f : length (pscale c f) = length f.
Proof. apply map_length. Qed.
Lemma length_pladd f g : length (pladd f g) = Nat.max (length f) (length g).
Proof.
  revert g. induction f as [|a f IH]; intros g; [reflexivity|]. destruct g as [|b g]; [reflexivity|].
  cbn [pladd length]. rewrite IH. reflexivity.
Qed.
Lemma peval_pmul_lin a f x : peval (pmul_lin a f) x = (a - x) * peval f x.
Proof. unfold pmul_lin. rewrite peval_pladd. cbn [peval]. rewrite !peval_pscale. ring. Qed.
Lemma length_pmul_lin a f : length (pmul_lin a f) = S (length f).
Proof. unfold pmul_lin. rewrite length_pladd. cbn [length]. rewrite !length_pscale. apply Nat.max_r. lia. Qed.
Lemma peval_basis ys x : peval (basis ys) x = pr ys x.
Proof. induction ys as [|y r IH]; cbn [basis fold_right pr]; [cbn [peval]; lia|]. fold (basis r). rewrite peval_pmul_lin, IH. reflexivity. Qed.
Lemma length_basis ys : length (basis ys) = S (length ys).
Proof. induction ys as [|y r IH]; [reflexivity|]. cbn [basis fold_right]. fold (basis r). rewrite length_pmul_lin, IH. reflexivity. Qed.

Lemma fold_den ys xj a : fold_left (fun acc x => acc * (x - xj)) ys a = a * pr ys xj.
Proof. revert a. induction ys as [|y r IH]; intros a; cbn [fold_left pr]; [lia|]. rewrite IH. ring. Qed.
Lemma fold_num ys a : fold_left Z.mul ys a = a * pr ys 0.
Proof. revert a. induction ys as [|y r IH]; intros a; cbn [fold_left pr]; [lia|]. rewrite IH. ring. Qed.
Lemma lag_den_pr xs xj : lag_den xs xj = pr (others xs xj) xj.
Proof. unfold lag_den. rewrite fold_den. lia. Qed.
Lemma lag_num_pr xs xj : lag_num xs xj = pr (others xs xj) 0.
Proof. unfold lag_num. rewrite fold_num. lia. Qed.

Lemma pr_zero ys x : In x ys -> pr ys x = 0.
Proof. induction ys as [|y r IH]; [contradiction|]. intros [->|H]; cbn [pr]; [lia|]. rewrite IH by assumption. lia. Qed.
Lemma in_others xs xj x : In x xs -> x <> xj -> In x (others xs xj).
Proof. intros. unfold others. apply filter_In. split; [assumption|]. apply negb_true_iff. now apply Z.eqb_neq. Qed.
Lemma filter_len_le {A} (f : A -> bool) l : (length (filter f l) <= length l)%nat.
Proof. induction l as [|a l IH]; cbn [filter length]; [lia|]. destruct (f a); cbn [length]; lia. Qed.
Lemma length_others xs xj : In xj xs -> (S (length (others xs xj)) <= length xs)%nat.
Proof.
  induction xs as [|y r IH]; [contradiction|]. intros [->|H]; cbn [others filter length].
  - rewrite Z.eqb_refl. cbn [negb]. pose proof (filter_len_le (fun x => negb (x =? xj)) r). lia.
  - destruct (negb (y =? xj)); cbn [length]; specialize (IH H); unfold others in IH; lia.
Qed.

(* ---- the Lagrange interpolant as a coefficient list --------------------------------------------------- *)
Definition ivd (q : Z) (xs : list Z) (xj : Z) : Z := match invm (lag_den xs xj) q with Some iv => iv | None => 0 end.
Definition cof (q : Z) (xs : list Z) (pt : Z * Z) : Z := snd pt * ivd q xs (fst pt).
Fixpoint Lpoly (q : Z) (xs : list Z) (pts : list (Z * Z)) : list Z :=
  match pts with
  | [] => []
  | pt :: r => pladd (pscale (cof q xs pt) (basis (others xs (fst pt)))) (Lpoly q xs r)
  end.

Lemma Lpoly_length q xs pts : (forall pt, In pt pts -> In (fst pt) xs) -> (length (Lpoly q xs pts) <= length xs)%nat.
Proof.
  induction pts as [|pt r IH]; intros H; cbn [Lpoly]; [cbn; lia|].
  rewrite length_pladd, length_pscale, length_basis.
  pose proof (length_others xs (fst pt) (H pt (or_introl eq_refl))).
  specialize (IH (fun pt' Hin => H pt' (or_intror Hin))). lia.
Qed.

Lemma Lpoly_at_other q xs pts xi : In xi xs -> ~ In xi (map fst pts) -> peval (Lpoly q xs pts) xi = 0.
Proof.
  intros Hxi. induction pts as [|pt r IH]; intros Hn; cbn [Lpoly]; [reflexivity|].
  cbn [map] in Hn. rewrite peval_pladd, peval_pscale, peval_basis.
  rewrite pr_zero by (apply in_others; [assumption|]; intros E; apply Hn; now left).
  rewrite IH by (intros E; apply Hn; now right). lia.
Qed.

Lemma Lpoly_at q xs pts xi yi : In xi xs -> NoDup (map fst pts) -> In (xi, yi) pts ->
  peval (Lpoly q xs pts) xi = cof q xs (xi, yi) * lag_den xs xi.
Proof.
  intros Hxi. induction pts as [|pt r IH]; intros Hnd Hin; [contradiction|].
  cbn [map] in Hnd. inversion Hnd as [|? ? Hnotin Hnd']; subst. cbn [Lpoly].
  rewrite peval_pladd, peval_pscale, peval_basis. destruct Hin as [->|Hin].
  - cbn [fst]. rewrite Lpoly_at_other by assumption. rewrite lag_den_pr. lia.
  - assert (Hne : xi <> fst pt).
    { intros ->. apply Hnotin. apply in_map_iff. exists (fst pt, yi). split; [reflexivity|assumption]. }
    rewrite pr_zero by (apply in_others; assumption). rewrite IH by assumption. lia.
Qed.

Fixpoint Lsum0 (q : Z) (xs : list Z) (pts : list (Z * Z)) : Z :=
  match pts with [] => 0 | pt :: r => cof q xs pt * lag_num xs (fst pt) + Lsum0 q xs r end.
Lemma Lpoly_at0 q xs pts : peval (Lpoly q xs pts) 0 = Lsum0 q xs pts.
Proof.
  induction pts as [|pt r IH]; [reflexivity|]. cbn [Lpoly Lsum0].
  rewrite peval_pladd, peval_pscale, peval_basis, IH, lag_num_pr. reflexivity.
Qed.

(* what lag_go computes, and that every inverse it used exists *)
Lemma lag_go_spec q xs : 0 < q -> forall pts acc r, lag_go q xs pts acc = Some r ->
  r mod q = (acc + Lsum0 q xs pts) mod q /\
  (forall pt, In pt pts -> invm (lag_den xs (fst pt)) q = Some (ivd q xs (fst pt))).
Proof.
  intros Hq. induction pts as [|[xj yj] rest IH]; intros acc r E; cbn [lag_go] in E.
  - injection E as <-. cbn [Lsum0]. split; [f_equal; lia|contradiction].
  - destruct (invm (lag_den xs xj) q) as [iv|] eqn:I; [|discriminate].
    apply IH in E. destruct E as (E1 & E2). split.
    + rewrite E1. cbn [Lsum0 fst snd]. unfold cof, ivd. cbn [fst snd]. rewrite I.
      rewrite Zplus_mod_idemp_l. rewrite <- (Zplus_mod_idemp_l (acc + _)).
      rewrite <- (Zplus_mod_idemp_r _ acc). rewrite Z.mod_mod by lia.
      rewrite Zmult_mod_idemp_r. rewrite Zplus_mod_idemp_r. rewrite Zplus_mod_idemp_l.
      f_equal. ring.
    + intros pt [<-|Hin]; [cbn [fst]; unfold ivd; now rewrite I|now apply E2].
Qed.

Lemma lag_go_range q xs : 0 < q -> forall pts acc r, 0 <= acc < q -> lag_go q xs pts acc = Some r -> 0 <= r < q.
Proof.
  intros Hq. induction pts as [|[xj yj] rest IH]; intros acc r Ha E; cbn [lag_go] in E.
  - now injection E as <-.
  - destruct (invm (lag_den xs xj) q) as [iv|]; [|discriminate].
    eapply IH; [|exact E]. apply Z.mod_pos_bound. lia.
Qed.

(* MAIN THEOREM (soundness): whatever the reconstruction formula returns is f(0) *)
Theorem lagrange0_sound q cs pts r : prime q ->
  (length cs <= length pts)%nat ->
  NoDup (map fst pts) ->
  (forall x y, In (x, y) pts -> 0 <= x < q /\ y mod q = poly_eval q cs x) ->
  lagrange0 q pts = Some r -> r = poly_eval q cs 0.
Proof.
  intros Hq Hlen Hnd Hpts E. assert (Hq1 : 1 < q) by (destruct Hq; lia).
  unfold lagrange0 in E. set (xs := map fst pts) in *.
  pose proof (lag_go_range q xs ltac:(lia) pts 0 r ltac:(lia) E) as Rr.
  apply lag_go_spec in E; [|lia]. destruct E as [E1 E2]. rewrite Z.add_0_l in E1.
  set (D := pladd (Lpoly q xs pts) (pscale (-1) cs)).
  assert (HD : forall z, peval D z mod q = 0).
  { apply (roots_zero q Hq xs).
    - unfold D. rewrite length_pladd, length_pscale.
      assert (length (Lpoly q xs pts) <= length xs)%nat.
      { apply Lpoly_length. intros pt Hin. unfold xs. now apply in_map. }
      unfold xs in *. rewrite map_length in *. lia.
    - exact Hnd.
    - intros x Hx. unfold xs in Hx. apply in_map_iff in Hx. destruct Hx as ([x' y] & <- & Hin). cbn [fst]. now apply (Hpts x' y).
    - intros x Hx. pose proof Hx as Hx'. unfold xs in Hx. apply in_map_iff in Hx. destruct Hx as ([x' y] & <- & Hin).
      cbn [fst] in *. unfold D. rewrite peval_pladd, peval_pscale.
      rewrite (Lpoly_at q xs pts x' y Hx' Hnd Hin).
      destruct (Hpts x' y Hin) as [Rx Hy]. rewrite poly_eval_peval in Hy by lia.
      pose proof (E2 (x', y) Hin) as I. cbn [fst] in I. apply invm_sound in I; [|lia]. destruct I as [_ I].
      unfold cof. cbn [fst snd].
      replace (y * ivd q xs x' * lag_den xs x' + -1 * peval cs x') with (y * (lag_den xs x' * ivd q xs x') - peval cs x') by ring.
      assert (A : (y * (lag_den xs x' * ivd q xs x')) mod q = y mod q).
      { rewrite <- Zmult_mod_idemp_r. rewrite I. rewrite Z.mul_1_r. reflexivity. }
      rewrite Zminus_mod, A, Hy. rewrite Z.sub_diag. reflexivity. }
  specialize (HD 0). unfold D in HD. rewrite peval_pladd, peval_pscale, Lpoly_at0 in HD.
  rewrite poly_eval_peval by lia.
  rewrite <- (Z.mod_small r q) by lia. rewrite E1.
  replace (Lsum0 q xs pts) with ((Lsum0 q xs pts + -1 * peval cs 0) + peval cs 0) by ring.
  rewrite Zplus_mod, HD, Z.add_0_l, Z.mod_mod by lia. reflexivity.
Qed.

(* consequence used for "one and the same secret": two point sets on the same polynomial reconstruct the same value *)
Corollary lagrange0_same_secret q cs pts1 pts2 r1 r2 : prime q ->
  (length cs <= length pts1)%nat -> (length cs <= length pts2)%nat ->
  NoDup (map fst pts1) -> NoDup (map fst pts2) ->
  (forall x y, In (x, y) pts1 -> 0 <= x < q /\ y mod q = poly_eval q cs x) ->
  (forall x y, In (x, y) pts2 -> 0 <= x < q /\ y mod q = poly_eval q cs x) ->
  lagrange0 q pts1 = Some r1 -> lagrange0 q pts2 = Some r2 -> r1 = r2.
Proof.
  intros Hq L1 L2 N1 N2 P1 P2 E1 E2.
  rewrite (lagrange0_sound q cs pts1 r1), (lagrange0_sound q cs pts2 r2); auto.
Qed.
