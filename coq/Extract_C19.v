From Coq Require Import Extraction ExtrOcamlBasic.
From LT Require Import PgpCodecModel PgpPacketModel.
Extraction "model.ml" radix64_encode radix64_decode crc24_octets crc24_encode armor_encode armor_decode
  pktlen_encode pktlen_decode body_extract mpi_encode mpi_decode mpi_decode_sum sum16 string_encode string_decode
  s2k_count s2k_stream fpr_v4_input fpr_v5_input keyid_v4 keyid_v5
  pkesk_rsa pkesk_elg pkesk_ecdh sig_packet subpacket pub_packet sed_packet lit_packet uid_packet seipd_packet
  mdc_packet aead_packet len packet_decode packet_of prep_self prep_revoker prep_detached prep_detached_v5 prep_revocation prep_certification prep_timestamp_hash prep_timestamp_sig prep_attestation.
