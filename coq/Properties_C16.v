(* C16 -- Threshold signatures verify under the jointly generated key.
   Property theorems only: each is closed by `exact <lemma>` and followed by Print Assumptions.
   H is the hash (tmcg_mpz_shash on the argument list), an arbitrary function: every theorem holds for all H. *)
From Coq Require Import ZArith List Bool Znumtheory Lia.
From LT Require Import gen_Consts Zbase VssModel VssLemmas CoinFlipArith CoinFlipModel CoinFlipLemmas TsigModel TsigLemmas TsigDssModel TsigDssLemmas.
Import ListNotations.
Local Open Scope Z_scope.

(* the library's Schnorr verifier returns exactly the textbook verdict (s in [0, q) and c = H(m, g^s y^-c))
   for ALL integers m, c, s (since fix c546d31 the range of s is tested before the fixed-base power) *)
Theorem C16_nts_verify_iff_textbook : forall (H : list Z -> Z) G, sgroup G -> forall y m c s,
  in_sub (gp G) (gq G) y ->
  nts_verify H G y m c s = Some (schnorr_textbook H G y m c s).
Proof. exact nts_verify_iff_textbook. Qed.
Print Assumptions C16_nts_verify_iff_textbook.

(* in particular every s outside [0, q) is refused, whatever c is: the former forgery (H [m; 0], 2^|q|), s + q, negative s *)
Theorem C16_nts_verify_out_of_range : forall (H : list Z -> Z) G y m c s,
  s < 0 \/ gq G <= s -> nts_verify H G y m c s = Some false.
Proof. exact nts_verify_out_of_range. Qed.
Print Assumptions C16_nts_verify_out_of_range.

(* the library's DSA verifier returns exactly the textbook verdict (0 < r, s < q and the FIPS 186 equation)
   for ALL integers m, r, s, y *)
Theorem C16_dss_verify_iff_textbook : forall G, sgroup G -> forall y m r s,
  dss_verify G y m r s = Some (dsa_textbook G y m r s).
Proof. exact dss_verify_iff_textbook. Qed.
Print Assumptions C16_dss_verify_iff_textbook.

(* threshold Schnorr: whenever every share that enters the sum passed the check g^s_j = r_j y_j^c
   (the code complains about all others and recomputes them), the combined (c, s) satisfies the textbook
   equation under the joint key y = prod y_j, with the joint nonce r = prod r_j *)
Theorem C16_tschnorr_valid : forall (H : list Z -> Z) G, sgroup G -> forall (ys rs ss : list Z) m,
  Forall (in_sub (gp G) (gq G)) ys -> Forall (in_sub (gp G) (gq G)) rs -> length ys = length rs ->
  let y := prodm G ys in let r := prodm G rs in let c := nts_challenge H m r in
  Forall2 (fun yr sj => nts_share_check G (fst yr) (snd yr) c sj = Some true) (combine ys rs) ss ->
  schnorr_textbook H G y m c (nts_combine (gq G) ss) = true.
Proof. exact tschnorr_valid. Qed.
Print Assumptions C16_tschnorr_valid.

(* honest shares s_i = u_i + c z_i pass the check, so an undisturbed run yields a valid signature *)
Theorem C16_tschnorr_valid_honest : forall (H : list Z -> Z) G, sgroup G -> forall (zs us : list Z) m,
  length zs = length us ->
  let ys := map (sexp G (gg G)) zs in let rs := map (sexp G (gg G)) us in
  let c := nts_challenge H m (prodm G rs) in 0 <= c ->
  schnorr_textbook H G (prodm G ys) m c
    (nts_combine (gq G) (map (fun zu => nts_share (gq G) c (fst zu) (snd zu)) (combine zs us))) = true.
Proof. exact tschnorr_valid_honest. Qed.
Print Assumptions C16_tschnorr_valid_honest.

(* threshold DSS, full signing algebra (CanettiGennaroJareckiKrawczykRabinDSS::Sign steps 1f, 2f).
   Fk, Fa, Fx: the joint polynomials of the nonce k, the mask a and the key x (coefficients, low to high); S: the abscissae of the
   signers (at least deg Fk + deg Fa + 1 = 2t+1 of them); every signer j shared v_j = k_j a_j resp. v'_j = k_j (m + x_j r) with a
   polynomial of at most d = t+1 coefficients (shared_mu / shared_s); R1, R2: ANY parties (>= t+1, distinct abscissae) whose
   broadcast shares are interpolated.  Then the (r, s) computed by the model of the code is a valid DSA signature under y = g^x. *)
Theorem C16_tdss_valid : forall G, sgroup G -> prime (gq G) ->
  forall Fk Fa Fx : list Z, Fk <> [] -> Fa <> [] -> Fx <> [] ->
  forall S, pts_ok (gq G) S ->
  (length Fk + length Fa <= Datatypes.S (length S))%nat -> (length Fk + length Fx <= Datatypes.S (length S))%nat ->
  forall (d : nat) (m : Z) (fs fs' : list (list Z)) (R1 R2 : list Z) (r s : Z),
  shared_mu G Fk Fa S d fs ->
  pts_ok (gq G) R1 -> (d <= length R1)%nat -> pts_ok (gq G) R2 -> (d <= length R2)%nat ->
  dss_sign G Fa S fs fs' R1 R2 = Some (r, s) ->
  shared_s G Fk Fx S d m r fs' ->
  0 < r -> 0 < s ->
  dsa_textbook G (powm (gg G) (poly_eval (gq G) Fx 0) (gp G)) m r s = true.
Proof. exact tdss_valid. Qed.
Print Assumptions C16_tdss_valid.

(* all honest parties obtain the same signature: whichever admissible parties' broadcast shares two parties interpolate
   (each takes its own share first), the outputs coincide -- the output is a function of the broadcast data *)
Theorem C16_all_honest_same_signature : forall G, prime (gq G) ->
  forall Fk Fa Fx : list Z, Fk <> [] -> Fa <> [] -> Fx <> [] ->
  forall S, pts_ok (gq G) S ->
  (length Fk + length Fa <= Datatypes.S (length S))%nat -> (length Fk + length Fx <= Datatypes.S (length S))%nat ->
  forall (d : nat) (m : Z) (fs fs' : list (list Z)) (R1 R2 R1' R2' : list Z) (r s r' s' : Z),
  shared_mu G Fk Fa S d fs ->
  pts_ok (gq G) R1 -> (d <= length R1)%nat -> pts_ok (gq G) R2 -> (d <= length R2)%nat ->
  pts_ok (gq G) R1' -> (d <= length R1')%nat -> pts_ok (gq G) R2' -> (d <= length R2')%nat ->
  dss_sign G Fa S fs fs' R1 R2 = Some (r, s) -> dss_sign G Fa S fs fs' R1' R2' = Some (r', s') ->
  shared_s G Fk Fx S d m r fs' -> r = r' /\ s = s'.
Proof. exact all_honest_same_signature. Qed.
Print Assumptions C16_all_honest_same_signature.

(* with correct shares the run produces a result unless k a = 0 (no missing inverse) *)
Theorem C16_tdss_completes : forall G, prime (gq G) ->
  forall Fk Fa Fx : list Z, Fk <> [] -> Fa <> [] ->
  forall S, pts_ok (gq G) S ->
  (length Fk + length Fa <= Datatypes.S (length S))%nat -> (length Fk + length Fx <= Datatypes.S (length S))%nat ->
  forall (d : nat) (fs fs' : list (list Z)) (R1 R2 : list Z),
  shared_mu G Fk Fa S d fs -> pts_ok (gq G) R1 -> (d <= length R1)%nat -> pts_ok (gq G) R2 ->
  length fs = length S -> (peval Fk 0 * peval Fa 0) mod gq G <> 0 ->
  exists r s, dss_sign G Fa S fs fs' R1 R2 = Some (r, s).
Proof. exact tdss_completes. Qed.
Print Assumptions C16_tdss_completes.

(* tie to the correspondence records: what dss_sign interpolates is the Lagrange value of the signers' own products *)
Theorem C16_dss_interp_is_lincomb : forall q S fs R d mu, prime q -> pts_ok q R ->
  Forall (fun f => (length f <= d)%nat) fs -> (d <= length R)%nat -> length fs = length S ->
  dss_interp q S fs R = Some mu -> dss_lincomb q S (map (fun f => peval f 0) fs) = Some mu.
Proof. exact dss_interp_is_lincomb. Qed.
Print Assumptions C16_dss_interp_is_lincomb.

(* the last step in isolation (used by C16_tdss_valid): r = (g^(1/k) mod p) mod q, s = k (m + x r) mod q is accepted *)
Theorem C16_dsa_algebra : forall G, sgroup G -> forall x k kinv m,
  prime (gq G) -> (k * kinv) mod gq G = 1 -> 0 <= kinv ->
  let y := sexp G (gg G) x in let r := dss_r G kinv in let s := dss_s (gq G) k m x r in
  0 < r -> 0 < s -> dsa_textbook G y m r s = true.
Proof. exact tdss_valid_partial. Qed.
Print Assumptions C16_dsa_algebra.

(* non-vacuity: p = 23, q = 11, g = 2; a Schnorr signature with H = sum of the arguments, a DSA signature *)
Definition G23 : group := mkGroup 23 11 2 3.
Example C16_nonvacuous_group : sgroup G23.
Proof. unfold sgroup, G23, in_sub. cbn [gp gq gg]. split; [lia|]. split; [lia|]. split; [vm_compute; discriminate|reflexivity]. Qed.
Definition Hsum (l : list Z) : Z := fold_right Z.add 0 l.
(* x = 3, y = 8; k = 5, r = 2^5 mod 23 = 9; m = 4, c = 13, s = (5 + 13*3) mod 11 = 0 *)
Example C16_nonvacuous_schnorr : nts_verify Hsum G23 8 4 13 0 = Some true /\ schnorr_textbook Hsum G23 8 4 13 0 = true.
Proof. split; vm_compute; reflexivity. Qed.
Example C16_nonvacuous_former_forgery : nts_verify Hsum G23 8 4 (Hsum [4; 0]) 16 = Some false /\ schnorr_textbook Hsum G23 8 4 (Hsum [4; 0]) 16 = false.
Proof. split; vm_compute; reflexivity. Qed.
(* DSA: x = 3, y = 8, k = 4, kinv = 3, r = (2^3 mod 23) mod 11 = 8, m = 5, s = 4 * (5 + 3*8) mod 11 = 6 *)
Example C16_nonvacuous_dsa : dss_verify G23 8 5 8 6 = Some true /\ dsa_textbook G23 8 5 8 6 = true.
Proof. split; vm_compute; reflexivity. Qed.
(* Lagrange at 0 as Reconstruct computes it: the line 3 + 5 x over Z_11 from the points x = 2, 4 (general correctness of
   Lagrange reconstruction is C15's theorem; here the function is model-compared with the real Reconstruct) *)
Example C16_nonvacuous_interp0 : interp0 11 [(2, (3 + 5 * 2) mod 11); (4, (3 + 5 * 4) mod 11)] = Some 3.
Proof. vm_compute. reflexivity. Qed.
(* a complete threshold run over p = 23, q = 11, g = 2, t = 1: Fk = 4 + 3X, Fa = 2 + X, Fx = 3 + 5X, signers 1, 2, 3, m = 5;
   the sharing polynomials of the v_j are constants plus X; the result verifies *)
Example C16_nonvacuous_run :
  let G := G23 in let Fk := [4; 3] in let Fa := [2; 1] in let Fx := [3; 5] in let S := [1; 2; 3] in
  let fs := map (fun x => [dss_v 11 (poly_eval 11 Fk x) (poly_eval 11 Fa x); 1]) S in
  exists r s, dss_sign G Fa S fs (map (fun x => [dss_v 11 (poly_eval 11 Fk x) (dss_aprime 11 (poly_eval 11 Fx x) 8 5); 7]) S) [1; 2] [3; 1] = Some (r, s)
              /\ r = 8 /\ dsa_textbook G (powm 2 3 23) 5 r s = true.
Proof. cbv zeta. eexists. eexists. split; [vm_compute; reflexivity|]. split; vm_compute; reflexivity. Qed.
