(* TsigLemmas: proofs about TsigModel (C16). *)
From Coq Require Import ZArith Znumtheory List Bool Lia.
From LT Require Import gen_Consts Zbase CoinFlipArith CoinFlipModel CoinFlipLemmas TsigModel.
Import ListNotations.
Local Open Scope Z_scope.

(* group hypotheses for the signature schemes: 1 < p, 1 < q, g of order dividing q, table large enough.
   (The public key y is required to be in the subgroup separately.) *)
Definition sgroup (G : group) : Prop :=
  1 < gp G /\ 1 < gq G /\ bitlen (gq G) <= TMCG_MAX_FPOWM_T /\ in_sub (gp G) (gq G) (gg G).

Lemma bitlen_bound x : 0 <= x -> x < 2 ^ bitlen x.
Proof.
  intros Hx. unfold bitlen. destruct (Z.eqb_spec x 0) as [->|N]; [cbn; lia|].
  pose proof (Z.log2_spec x ltac:(lia)) as [_ H]. replace (Z.log2 x + 1) with (Z.succ (Z.log2 x)) by lia. exact H.
Qed.

Section Sig.
  Variable H : list Z -> Z.
  Variable G : group.
  Hypothesis SG : sgroup G.
  Let p := gp G.
  Let q := gq G.
  Let g := gg G.

  Lemma Sp : 1 < p. Proof. apply SG. Qed.
  Lemma Sq : 1 < q. Proof. apply SG. Qed.
  Lemma Sg : in_sub p q g. Proof. apply SG. Qed.

  Lemma tbits_eq : table_bits G = bitlen q.
  Proof. unfold table_bits. destruct SG as (_ & _ & B & _). fold q in B |- *. lia. Qed.

  (* exponent arithmetic: x^(e mod q) for arbitrary integers e *)
  Definition sexp (x e : Z) : Z := powm x (e mod q) p.

  Lemma sexp_add x e1 e2 : in_sub p q x -> sexp x (e1 + e2) = (sexp x e1 * sexp x e2) mod p.
  Proof.
    intros Hx. pose proof Sp. pose proof Sq. unfold sexp.
    pose proof (Z.mod_pos_bound e1 q ltac:(lia)). pose proof (Z.mod_pos_bound e2 q ltac:(lia)).
    rewrite <- powm_add by lia. rewrite <- (sub_pow_mod p q) with (e := e1 mod q + e2 mod q) by (assumption || lia).
    f_equal. now rewrite <- Zplus_mod.
  Qed.

  Lemma sexp_mul x e k : in_sub p q x -> sexp (sexp x e) k = sexp x (e * k).
  Proof.
    intros Hx. pose proof Sp. pose proof Sq. unfold sexp.
    pose proof (Z.mod_pos_bound e q ltac:(lia)). pose proof (Z.mod_pos_bound k q ltac:(lia)).
    rewrite <- powm_mul by lia. rewrite <- (sub_pow_mod p q) with (e := e mod q * (k mod q)) by (assumption || nia).
    f_equal. now rewrite <- Zmult_mod.
  Qed.

  Lemma sexp_0 x : sexp x 0 = 1.
  Proof. pose proof Sp. pose proof Sq. unfold sexp. rewrite Zmod_0_l. cbn. apply Z.mod_1_l. lia. Qed.

  Lemma sexp_range x e : 0 <= sexp x e < p.
  Proof. pose proof Sp. pose proof Sq. apply powm_range; [lia|]. apply Z.mod_pos_bound. lia. Qed.

  Lemma sexp_in_sub x e : in_sub p q x -> in_sub p q (sexp x e).
  Proof. intros Hx. pose proof Sp. pose proof Sq. apply in_sub_pow; try lia; try assumption. apply Z.mod_pos_bound. lia. Qed.

  Lemma sexp_congr x e1 e2 : e1 mod q = e2 mod q -> sexp x e1 = sexp x e2.
  Proof. unfold sexp. now intros ->. Qed.

  Lemma sexp_pow x e : sexp x e = x ^ (e mod q) mod p.
  Proof. pose proof Sp. pose proof Sq. unfold sexp. apply powm_spec; [lia|]. apply Z.mod_pos_bound. lia. Qed.

  Lemma powm_sexp x e : in_sub p q x -> 0 <= e -> powm x e p = sexp x e.
  Proof. intros Hx He. pose proof Sp. pose proof Sq. unfold sexp. symmetry. apply sub_pow_mod; assumption || lia. Qed.

  Lemma sexp_inv x e : in_sub p q x -> invm (sexp x e) p = Some (sexp x (- e)).
  Proof.
    intros Hx. pose proof Sp. pose proof Sq. apply invm_of_inverse; [lia|apply sexp_range|].
    rewrite <- sexp_add by assumption. replace (e + - e) with 0 by ring. apply sexp_0.
  Qed.

  Lemma in_sub_mod x : in_sub p q x -> in_sub p q (x mod p).
  Proof. unfold in_sub. intros Hx. pose proof Sp. pose proof Sq. now rewrite powm_base_mod by lia. Qed.

  Lemma sexp_1 x : sexp x 1 = x mod p.
  Proof. pose proof Sq. unfold sexp. rewrite Z.mod_1_l by lia. apply powm_1_r. Qed.

  (* fpowm on subgroup elements and exponents within the table *)
  Lemma fpowm_sub x e : in_sub p q x -> bitlen (Z.abs e) <= bitlen q ->
    fpowm (table_bits G) x e p = Some (sexp x e).
  Proof.
    intros Hx Hb. pose proof Sp. pose proof Sq. unfold fpowm. rewrite tbits_eq.
    destruct SG as (_ & _ & B & _). fold q in B.
    destruct (Z.gtb_spec (bitlen (Z.abs e)) TMCG_MAX_FPOWM_T); [lia|].
    destruct (Z.leb_spec (bitlen (Z.abs e)) (bitlen q)); [|lia].
    rewrite powm_sexp by (assumption || lia).
    destruct (Z.ltb_spec e 0).
    - rewrite sexp_inv by assumption. f_equal. apply sexp_congr. f_equal. lia.
    - f_equal. apply sexp_congr. f_equal. lia.
  Qed.

  Lemma powm_signed_sub y e : in_sub p q y -> powm_signed y e p = Some (sexp y e).
  Proof.
    intros Hy. pose proof Sp. pose proof Sq. unfold powm_signed. destruct (Z.ltb_spec e 0).
    - assert (E1 : invm y p = Some (sexp y (-1))).
      { apply invm_of_inverse; [lia|apply sexp_range|].
        rewrite <- (Zmult_mod_idemp_l y), <- (sexp_1 y), <- sexp_add by assumption.
        replace (1 + -1) with 0 by ring. apply sexp_0. }
      rewrite E1. f_equal. rewrite powm_sexp by (try apply sexp_in_sub; assumption || lia).
      rewrite sexp_mul by assumption. apply sexp_congr. f_equal. ring.
    - f_equal. apply powm_sexp; assumption.
  Qed.

  (* ---- threshold Schnorr verifier ------------------------------------------------------------- *)
  Theorem nts_verify_iff_textbook y m c s : in_sub p q y ->
    nts_verify H G y m c s = Some (schnorr_textbook H G y m c s).
  Proof.
    intros Hy. pose proof Sp. pose proof Sq. pose proof Sg as Hg.
    unfold nts_verify, schnorr_textbook. fold p q g.
    destruct (Z.ltb_spec s 0), (Z.leb_spec 0 s); try lia; cbn [orb andb]; [reflexivity|].
    destruct (Z.geb_spec s q), (Z.ltb_spec s q); try lia; cbn [orb andb]; [reflexivity|].
    assert (Hs : bitlen (Z.abs s) <= bitlen q) by (apply bitlen_mono; lia).
    rewrite (fpowm_sub g s Hg Hs). rewrite (powm_signed_sub y c Hy).
    rewrite (sexp_inv y c Hy). do 3 f_equal.
    rewrite !sexp_pow. rewrite <- Zmult_mod. reflexivity.
  Qed.

  (* every s outside [0, q) is refused: in particular the oversize exponents for which the fixed-base power
     evaluates to 0 (the forgery (H [m; 0], 2^|q|) accepted before fix c546d31) *)
  Theorem nts_verify_out_of_range y m c s : s < 0 \/ q <= s -> nts_verify H G y m c s = Some false.
  Proof.
    intros R. unfold nts_verify. fold q.
    destruct (Z.ltb_spec s 0), (Z.geb_spec s q); try lia; reflexivity.
  Qed.

  (* ---- threshold Schnorr signing algebra --------------------------------------------------------- *)
  Lemma nts_combine_spec l : nts_combine q l = (fold_right Z.add 0 l) mod q.
  Proof. apply flipN_sum_spec. pose proof Sq. lia. Qed.

  (* a share that passes the check satisfies g^s_j = r_j y_j^c in the group *)
  Lemma share_check_sound yj rj c sj : in_sub p q yj ->
    nts_share_check G yj rj c sj = Some true -> sexp g sj = (sexp yj c * rj) mod p.
  Proof.
    intros Hy. pose proof Sp. pose proof Sq. pose proof Sg as Hg. unfold nts_share_check. fold p q g.
    destruct (Z.geb_spec (Z.abs sj) q) as [R|R]; [discriminate|].
    rewrite (fpowm_sub g sj Hg) by (apply bitlen_mono; lia).
    rewrite (powm_signed_sub yj c Hy). intros [= E]. now apply Z.eqb_eq in E.
  Qed.

  (* an honest share passes the check *)
  Lemma share_check_honest z u c : 0 <= c ->
    nts_share_check G (sexp g z) (sexp g u) c (nts_share q c z u) = Some true.
  Proof.
    intros Hc. pose proof Sp. pose proof Sq. pose proof Sg as Hg. unfold nts_share_check, nts_share. fold p q g.
    set (s := ((c * z) mod q + u) mod q).
    assert (Rs : 0 <= s < q) by (apply Z.mod_pos_bound; lia).
    destruct (Z.geb_spec (Z.abs s) q) as [R|R]; [lia|].
    rewrite (fpowm_sub g s Hg) by (apply bitlen_mono; lia).
    rewrite (powm_signed_sub _ c (sexp_in_sub g z Hg)).
    do 2 f_equal. apply Z.eqb_eq.
    rewrite sexp_mul by assumption. rewrite <- sexp_add by assumption. apply sexp_congr.
    unfold s. rewrite Zmod_mod. rewrite Zplus_mod_idemp_l. f_equal. ring.
  Qed.

  (* products of the public shares *)
  Definition prodm (l : list Z) : Z := fold_right (fun x acc => (x * acc) mod p) (1 mod p) l.

  Lemma prodm_in_sub l : Forall (in_sub p q) l -> in_sub p q (prodm l).
  Proof.
    pose proof Sp. pose proof Sq. induction 1 as [|x l Hx _ IH]; cbn [prodm fold_right].
    - unfold in_sub. rewrite powm_base_mod by lia. rewrite powm_1_l by lia. apply Z.mod_1_l. lia.
    - apply in_sub_mul; try lia; assumption.
  Qed.

  (* checked shares combine: g^(sum s_j) = (prod r_j) (prod y_j)^c *)
  Lemma combine_checked (ys rs ss : list Z) c :
    Forall (in_sub p q) ys -> Forall (in_sub p q) rs ->
    Forall2 (fun yr sj => nts_share_check G (fst yr) (snd yr) c sj = Some true) (combine ys rs) ss ->
    length ys = length rs ->
    sexp g (fold_right Z.add 0 ss) = (sexp (prodm ys) c * prodm rs) mod p.
  Proof.
    intros Hys. revert rs ss. pose proof Sp. pose proof Sq. pose proof Sg as Hg.
    induction Hys as [|y ys Hy Hys IH]; intros rs ss Hrs F L.
    - destruct rs; [|discriminate]. inversion F; subst. cbn [fold_right prodm].
      rewrite sexp_0. unfold sexp. rewrite powm_base_mod by (try lia; apply Z.mod_pos_bound; lia).
      rewrite powm_1_l by (try lia; apply Z.mod_pos_bound; lia).
      rewrite Zmult_mod_idemp_l, Zmult_mod_idemp_r. rewrite Z.mul_1_l. symmetry. apply Z.mod_1_l. lia.
    - destruct rs as [|r rs]; [discriminate|]. injection L as L. inversion Hrs as [|? ? Hr Hrs']; subst.
      cbn [combine] in F. inversion F as [|? sj ? ss' Hc F']; subst. cbn [fst snd] in Hc.
      cbn [fold_right prodm]. fold (prodm ys) (prodm rs).
      rewrite sexp_add by assumption. rewrite (share_check_sound y r c sj Hy Hc).
      rewrite (IH rs ss' Hrs' F' L).
      (* (y * Y)^c = y^c Y^c *)
      assert (HY : in_sub p q (prodm ys)) by now apply prodm_in_sub.
      assert (M : sexp ((y * prodm ys) mod p) c = (sexp y c * sexp (prodm ys) c) mod p).
      { unfold sexp. rewrite powm_base_mod by (try lia; apply Z.mod_pos_bound; lia).
        apply powm_mul_base; [lia|]. apply Z.mod_pos_bound. lia. }
      rewrite M.
      rewrite <- Zmult_mod. rewrite Zmult_mod_idemp_l. rewrite (Zmult_mod_idemp_r (r * prodm rs)).
      f_equal. ring.
  Qed.

  (* the combined signature of a run in which every used share passed its check (own shares pass by
     share_check_honest, reconstructed shares are recomputed from the reconstructed secrets) satisfies the
     textbook equation under y = prod y_j with the nonce r = prod r_j *)
  Theorem tschnorr_valid (ys rs ss : list Z) m :
    Forall (in_sub p q) ys -> Forall (in_sub p q) rs -> length ys = length rs ->
    let y := prodm ys in let r := prodm rs in let c := nts_challenge H m r in
    Forall2 (fun yr sj => nts_share_check G (fst yr) (snd yr) c sj = Some true) (combine ys rs) ss ->
    schnorr_textbook H G y m c (nts_combine q ss) = true.
  Proof.
    intros Hys Hrs L y r c F. pose proof Sp. pose proof Sq. pose proof Sg as Hg.
    pose proof (combine_checked ys rs ss c Hys Hrs F L) as E. fold y r in E.
    assert (Hy : in_sub p q y) by now apply prodm_in_sub.
    assert (Hr : in_sub p q r) by now apply prodm_in_sub.
    unfold schnorr_textbook. fold p q g.
    assert (Rs : 0 <= nts_combine q ss < q) by (rewrite nts_combine_spec; apply Z.mod_pos_bound; lia).
    destruct (Z.leb_spec 0 (nts_combine q ss)); [|lia]. destruct (Z.ltb_spec (nts_combine q ss) q); [|lia]. cbn [andb].
    apply Z.eqb_eq. unfold c at 1, nts_challenge. do 2 f_equal.
    rewrite nts_combine_spec. rewrite Zmod_mod.
    rewrite Zmult_mod. rewrite <- !sexp_pow. rewrite E.
    (* y^c r y^-c = r *)
    rewrite Zmult_mod_idemp_l.
    replace (sexp y c * r * sexp y (- c)) with (r * (sexp y c * sexp y (- c))) by ring.
    rewrite <- Zmult_mod_idemp_r. rewrite <- sexp_add by assumption.
    replace (c + - c) with 0 by ring. rewrite sexp_0, Z.mul_1_r.
    assert (Rr : 0 <= r < p).
    { unfold r, prodm. destruct rs; cbn [fold_right]; apply Z.mod_pos_bound; lia. }
    now rewrite Z.mod_small by lia.
  Qed.

  Lemma honest_shares_check c : 0 <= c -> forall zs us, length zs = length us ->
    Forall2 (fun yr sj => nts_share_check G (fst yr) (snd yr) c sj = Some true)
            (combine (map (sexp g) zs) (map (sexp g) us))
            (map (fun zu => nts_share q c (fst zu) (snd zu)) (combine zs us)).
  Proof.
    intros Hc. induction zs as [|z zs IH]; intros [|u us] L; try discriminate; cbn [map combine].
    - constructor.
    - constructor; [cbn [fst snd]; now apply share_check_honest|]. apply IH. now injection L.
  Qed.

  (* honest run, no complaints: shares s_i = u_i + c z_i with y_i = g^z_i, r_i = g^u_i *)
  Corollary tschnorr_valid_honest (zs us : list Z) m : length zs = length us ->
    let ys := map (sexp g) zs in let rs := map (sexp g) us in
    let c := nts_challenge H m (prodm rs) in 0 <= c ->
    schnorr_textbook H G (prodm ys) m c (nts_combine q (map (fun zu => nts_share q c (fst zu) (snd zu)) (combine zs us))) = true.
  Proof.
    intros L ys rs c Hc. pose proof Sg as Hg.
    apply tschnorr_valid.
    - unfold ys. apply Forall_forall. intros x Hx. apply in_map_iff in Hx as (z & <- & _). now apply sexp_in_sub.
    - unfold rs. apply Forall_forall. intros x Hx. apply in_map_iff in Hx as (z & <- & _). now apply sexp_in_sub.
    - unfold ys, rs. now rewrite !map_length.
    - apply honest_shares_check; assumption.
  Qed.

  (* ---- DSS verifier ------------------------------------------------------------------------------- *)
  Lemma fpowm_small x e : 0 <= e < q -> fpowm (table_bits G) x e p = Some (powm x e p).
  Proof.
    intros He. unfold fpowm. rewrite tbits_eq. rewrite Z.abs_eq by lia.
    destruct SG as (_ & _ & B & _). fold q in B.
    assert (bitlen e <= bitlen q) by (apply bitlen_mono; lia).
    destruct (Z.gtb_spec (bitlen e) TMCG_MAX_FPOWM_T); [lia|].
    destruct (Z.leb_spec (bitlen e) (bitlen q)); [|lia].
    destruct (Z.ltb_spec e 0); [lia|reflexivity].
  Qed.

  Theorem dss_verify_iff_textbook y m r s : dss_verify G y m r s = Some (dsa_textbook G y m r s).
  Proof.
    pose proof Sp. pose proof Sq. unfold dss_verify, dsa_textbook. fold p q g.
    destruct (Z.leb_spec r 0), (Z.ltb_spec 0 r); try lia; cbn [orb andb]; [reflexivity|].
    destruct (Z.geb_spec r q), (Z.ltb_spec r q); try lia; cbn [orb andb]; [reflexivity|].
    destruct (Z.leb_spec s 0), (Z.ltb_spec 0 s); try lia; cbn [orb andb]; [reflexivity|].
    destruct (Z.geb_spec s q), (Z.ltb_spec s q); try lia; cbn [orb andb]; [reflexivity|].
    destruct (invm s q) as [w|]; [|reflexivity].
    rewrite Zmult_mod_idemp_l.
    assert (R1 : 0 <= (m * w) mod q < q) by (apply Z.mod_pos_bound; lia).
    assert (R2 : 0 <= (r * w) mod q < q) by (apply Z.mod_pos_bound; lia).
    rewrite fpowm_small by assumption. f_equal.
    rewrite !powm_spec by lia. rewrite <- Zmult_mod. apply Z.eqb_sym.
  Qed.

  (* the signature a correct signing run reconstructs is accepted (algebra of r = g^(1/k), s = k (m + x r));
     the degree-2t sharing and interpolation that produce these values are not modelled *)
  Theorem tdss_valid_partial x k kinv m : prime q -> (k * kinv) mod q = 1 -> 0 <= kinv ->
    let y := sexp g x in let r := dss_r G kinv in let s := dss_s q k m x r in
    0 < r -> 0 < s -> dsa_textbook G y m r s = true.
  Proof.
    intros Pq Hk Hki y r s Hr Hs. pose proof Sp. pose proof Sq. pose proof Sg as Hg.
    unfold dsa_textbook. fold p q g.
    assert (Rr : 0 <= r < q) by (apply Z.mod_pos_bound; lia).
    assert (Rs : 0 <= s < q) by (apply Z.mod_pos_bound; lia).
    destruct (Z.ltb_spec 0 r); [|lia]. destruct (Z.ltb_spec r q); [|lia].
    destruct (Z.ltb_spec 0 s); [|lia]. destruct (Z.ltb_spec s q); [|lia]. cbn [andb].
    assert (Gs : Z.gcd s q = 1).
    { apply Zgcd_1_rel_prime. apply rel_prime_sym. apply prime_rel_prime; [assumption|].
      intros D. apply Z.divide_pos_le in D; lia. }
    destruct (invm_complete s q ltac:(lia) Gs) as [w Hw]. rewrite Hw.
    destruct (invm_sound _ _ _ Hw ltac:(lia)) as [Rw Ew].
    apply Z.eqb_eq.
    set (e := (m + x * r) mod q).
    (* e * w = kinv (mod q):  s = k e, so e = kinv s, e w = kinv s w = kinv *)
    assert (EW : (e * w) mod q = kinv mod q).
    { assert (S1 : s = (k * e) mod q) by reflexivity.
      assert (E1 : e mod q = (kinv * s) mod q).
      { rewrite S1. rewrite Zmult_mod_idemp_r. replace (kinv * (k * e)) with ((k * kinv) * e) by ring.
        rewrite <- Zmult_mod_idemp_l, Hk, Z.mul_1_l. reflexivity. }
      rewrite <- Zmult_mod_idemp_l, E1, Zmult_mod_idemp_l.
      replace (kinv * s * w) with (kinv * (s * w)) by ring.
      rewrite <- Zmult_mod_idemp_r, Ew, Z.mul_1_r. reflexivity. }
    (* g^u1 y^u2 = g^((m + x r) w) *)
    assert (P1 : (g ^ ((m mod q * w) mod q) * y ^ ((r * w) mod q)) mod p = sexp g kinv).
    { rewrite Zmult_mod. rewrite <- !sexp_pow.
      assert (Y : sexp y (r * w) = sexp g (x * (r * w))) by (unfold y; now apply sexp_mul).
      rewrite Y. rewrite <- sexp_add by assumption. apply sexp_congr.
      rewrite <- EW. unfold e. rewrite Zmult_mod_idemp_l.
      rewrite Zplus_mod, Zmult_mod_idemp_l, <- Zplus_mod. f_equal. ring. }
    rewrite P1. unfold r, dss_r. fold p q g. f_equal. symmetry. apply powm_sexp; assumption.
  Qed.
End Sig.
