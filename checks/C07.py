# C07 -- Shuffle permutations and random residues are uniform (DESIGN.md §5 C07)
import vpl
from concurrent.futures import ThreadPoolExecutor

LEVEL = "proof"
LIBS = ["ShuffleUniform.vo"]
PARTS = ["mod", "resid", "cache", "fy", "stat"]

def run(res, tier, seed, replay):
    res.cov["rule"] = ("records = real tmcg_mpz_{w,s,ss}random_mod / randomm / randomb and TMCG_CreateStackSecret calls whose random bytes are "
                       "chosen by the harness (boundary words max-1, max, max+1, 2^64-1, 0 for moduli 2, 3, 2^k, 2^k+-1, around 2^63, ULONG_MAX) "
                       "and logged; every record is recomputed by the extracted Coq model on the same bytes; PROPFAIL = out-of-range value, "
                       "a raw word accepted outside the unbiased range, too few random bytes, or the exact-distribution sweep failing "
                       "(all coin vectors for n<=6, 7 in thorough -> every index vector exactly once; all n rotation offsets); "
                       "a chi-square test of positional marginals (n up to 64) is a secondary statistical check with a very loose bound")
    res.assumptions += ["uniformity is proved as a counting statement about the map coins -> result; that libgcrypt's bytes are uniform and "
                        "independent is trusted", "the three quality levels only select the libgcrypt entry point (all interposed)",
                        "Botan builds (second random source XOR-ed/added) are not configured and not modelled",
                        "x86-64: unsigned long = size_t = 64 bit, little endian"]
    vpl.proof_stage(res, LIBS)
    exe = vpl.build_harness("c07")
    drv = vpl.build_driver("C07")
    rp = (replay or {}).get("replay", {})
    if rp.get("record"):
        outs = [(seed, "replay", rp["record"] + "\n")]
    else:
        if rp.get("part"):          # replay of a property failure: rerun the part that produced it
            jobs = [(int(rp.get("seed", seed)), rp["part"])]
        else:
            seeds = [seed] if tier == "quick" else [seed, seed + 1000]
            jobs = [(s, p) for s in seeds for p in PARTS]
        def one(job):
            s, p = job
            rc, out, err = vpl.run_harness(exe, ["--tier", tier, "--seed", s, "--only", p], timeout=3000)
            return (s, p, rc, out, err)
        with ThreadPoolExecutor(8) as ex:
            rs = list(ex.map(one, jobs))
        outs = []
        for s, p, rc, out, err in rs:
            if rc != 0:
                res.violation("harness-crash", "harness c07 (part %s) exited with %d: %s" % (p, rc, err[-800:]),
                              dict(kind="harness", cmd="c07 --tier %s --seed %d --only %s" % (tier, s, p), stderr=err[-2000:]))
            outs.append((s, p, out))
    # the model side: chunks of records are recomputed in parallel, bookkeeping is merged afterwards
    chunks = []
    for s, p, out in outs:
        lines = out.split("\n")
        recs = [l for l in lines if l.startswith("REC ")]
        other = [l for l in lines if not l.startswith("REC ")]
        step = 400
        parts_ = [recs[i:i + step] for i in range(0, len(recs), step)] or [[]]
        for k, ch in enumerate(parts_):
            chunks.append((s, p, "\n".join(ch + (other if k == 0 else [])) + "\n"))
    def model(chunk):
        s, p, out = chunk
        tmp = vpl.Result(res.pid, tier, seed)
        mism, props = vpl.correspond(tmp, "C07", out, drv)
        return (s, p, out, tmp, mism, props)
    with ThreadPoolExecutor(8) as ex:
        done = list(ex.map(model, chunks))
    allprops, allmism = [], []
    for s, p, out, tmp, mism, props in done:
        for k in ("evaluations", "distinct_nontrivial", "disagreements"):
            res.cov[k] += tmp.cov[k]
        d = res.cov.setdefault("record_kinds", {})
        for k, v in tmp.cov.get("record_kinds", {}).items():
            d[k] = d.get(k, 0) + v
        res.cov["samples"] += tmp.cov["samples"][:2]
        for l in out.split("\n"):
            if l.startswith("NOTE "):
                res.notes.append("seed %d: %s" % (s, l[5:]))
        allprops += [(s, p, pl) for pl in props]
        allmism += [(s, p, m) for m in mism[:6]]
    # property failures with a concrete failing input first (one per key first), then model/code disagreements
    seen = set()
    allprops.sort(key=lambda t: (t[2].split(" ", 2)[1] in seen) or seen.add(t[2].split(" ", 2)[1]) or False)
    for s, p, pl in allprops:
        parts = pl.split(" ", 2)
        res.violation(parts[1], "sampler property fails on the implementation: " + parts[2][:1500],
                      dict(kind="propfail", harness="c07", seed=s, tier=tier, part=p, line=pl[:4000]))
    for s, p, m in allmism:
        mm = m.split(" :: ", 1)
        rec = mm[1] if len(mm) > 1 else ""
        res.violation("correspondence", "model and implementation disagree: " + m[:600],
                      dict(kind="correspondence", harness="c07", seed=s, tier=tier, part=p, record=rec[:20000], detail=m[:2000]),
                      found_input=False)   # a disagreement alone is not a failing input of the property; PROPFAILs carry those
