# C07 -- Shuffle permutations and random residues are uniform (DESIGN.md §5 C07)
import vpl
from concurrent.futures import ThreadPoolExecutor

LEVEL = "proof"
LIBS = ["ShuffleUniform.vo"]
PARTS = ["mod", "resid", "fy", "stat"]

def run(res, tier, seed, replay):
    res.cov["rule"] = ("records = real tmcg_mpz_{w,s,ss}random_mod / randomm / randomb and TMCG_CreateStackSecret calls whose random bytes are "
                       "chosen by the harness (boundary words max-1, max, max+1, 2^64-1, 0 for moduli 2, 3, 2^k, 2^k+-1, around 2^63, ULONG_MAX) "
                       "and logged; every record is recomputed by the extracted Coq model on the same bytes; PROPFAIL = out-of-range value, "
                       "a raw word accepted outside the unbiased range, too few random bytes, or the exact-distribution sweep failing "
                       "(all coin vectors for n<=6, 7 in thorough -> every index vector exactly once; all n rotation offsets); "
                       "a chi-square test of positional marginals (n up to 64) is a secondary statistical check with a very loose bound")
    res.assumptions += ["uniformity is proved as a counting statement about the map coins -> result; that libgcrypt's bytes are uniform and "
                        "independent is trusted", "the three quality levels only select the libgcrypt entry point (all interposed)",
                        "Botan builds (second random source XOR-ed/added) are not configured and not modelled",
                        "x86-64: unsigned long = size_t = 64 bit, little endian"]
    vpl.proof_stage(res, LIBS)
    exe = vpl.build_harness("c07")
    drv = vpl.build_driver("C07")
    if replay and replay.get("replay", {}).get("record"):
        outs = [(seed, "replay", replay["replay"]["record"] + "\n")]
    else:
        seeds = [seed] if tier == "quick" else [seed, seed + 1000]
        jobs = [(s, p) for s in seeds for p in PARTS]
        def one(job):
            s, p = job
            rc, out, err = vpl.run_harness(exe, ["--tier", tier, "--seed", s, "--only", p], timeout=1500)
            return (s, p, rc, out, err)
        with ThreadPoolExecutor(8) as ex:
            rs = list(ex.map(one, jobs))
        outs = []
        for s, p, rc, out, err in rs:
            if rc != 0:
                res.violation("harness-crash", "harness c07 (part %s) exited with %d: %s" % (p, rc, err[-800:]),
                              dict(kind="harness", cmd="c07 --tier %s --seed %d --only %s" % (tier, s, p), stderr=err[-2000:]))
            outs.append((s, p, out))
    allprops, allmism = [], []
    for s, p, out in outs:
        for l in out.split("\n"):
            if l.startswith("NOTE "):
                res.notes.append("seed %d: %s" % (s, l[5:]))
        mism, props = vpl.correspond(res, "C07", out, drv)
        allprops += [(s, p, pl) for pl in props]
        allmism += [(s, p, m) for m in mism[:6]]
    # property failures with a concrete failing input first, one per key first, then the rest
    seen = set()
    allprops.sort(key=lambda t: (t[2].split(" ", 2)[1] in seen) or seen.add(t[2].split(" ", 2)[1]) or False)
    for s, p, pl in allprops:
        parts = pl.split(" ", 2)
        res.violation(parts[1], "sampler property fails on the implementation: " + parts[2][:1500],
                      dict(kind="propfail", harness="c07", seed=s, tier=tier, part=p, line=pl[:4000]))
    for s, p, m in allmism:
        mm = m.split(" :: ", 1)
        rec = mm[1] if len(mm) > 1 else ""
        res.violation("correspondence", "model and implementation disagree: " + m[:600],
                      dict(kind="correspondence", harness="c07", seed=s, tier=tier, part=p, record=rec[:20000], detail=m[:2000]),
                      found_input=bool(rec))
