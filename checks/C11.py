# C11 -- Export and import round-trip every object unchanged (DESIGN.md §5 C11)
import vpl, json

LEVEL = "proof"
LIBS = ["CodecLemmas.vo"]

def run(res, tier, seed, replay):
    res.cov["rule"] = ("records = real export/import calls on generated objects (boundary integers, dimensions at the limits) and on "
                       "mutated texts; a record is non-trivial if distinct after canonicalisation; every record is recomputed by the "
                       "extracted Coq model and compared; PROPFAIL = the round-trip property itself failing on the implementation")
    res.assumptions += ["model covers base-62 integers, VTMF_Card, VTMF_CardSecret, TMCG_Card, TMCG_CardSecret, TMCG_Stack<VTMF_Card>, TMCG_Stack<TMCG_Card>, "
                        "TMCG_StackSecret<VTMF_CardSecret>, TMCG_StackSecret<TMCG_CardSecret>, the TMCG_PublicKey text; the secret key, keys and group/state texts are covered by the implementation-level "
                        "round-trip oracle only (testing, not proof)",
                        "iostream getline buffering (TMCG_MAX_*_CHARS truncation) is not modelled"]
    vpl.proof_stage(res, LIBS)
    if tier == "thorough":
        # designated place for the independent re-check of ALL compiled libraries of the development
        okc, summary, nmods = vpl.coqchk_all()
        res.cov["coqchk"] = dict(modules=nmods, ok=okc, summary=" ".join(summary.split())[:1500])
        if not okc:
            res.violation("coqchk", "coqchk does not accept the compiled development: " + summary[-800:],
                          dict(kind="coqchk", output=summary[-3000:]), found_input=False)
    exe = vpl.build_harness("c11")
    drv = vpl.build_driver("C11")
    seeds = [seed] if tier == "quick" else [seed, seed + 1000, seed + 2000]
    if replay and replay.get("replay", {}).get("record"):
        out = replay["replay"]["record"] + "\n"
        outs = [(seed, out)]
    else:
        outs = []
        for s in seeds:
            rc, out, err = vpl.run_harness(exe, ["--tier", tier, "--seed", s], timeout=1500)
            if rc != 0:
                res.violation("harness-crash", "harness c11 exited with %d: %s" % (rc, err[-800:]),
                              dict(kind="harness", cmd="c11 --tier %s --seed %d" % (tier, s), stderr=err[-2000:]))
            outs.append((s, out))
    # part 2: keys, open stacks, group parameter sets and persisted states (implementation-level oracle only)
    if not (replay and replay.get("replay", {}).get("record")):
        exe2 = vpl.build_harness("c11b")
        for s in seeds:
            rc, out2, err = vpl.run_harness(exe2, ["--tier", tier, "--seed", s], timeout=1500)
            if rc != 0:
                res.violation("harness-crash", "harness c11b exited with %d: %s" % (rc, err[-800:]),
                              dict(kind="harness", cmd="c11b --tier %s --seed %d" % (tier, s), stderr=err[-2000:]))
            lines = out2.split("\n")
            recs2 = [l for l in lines if l.startswith("REC ")]
            res.cov["evaluations"] += len(recs2)
            res.cov["distinct_nontrivial"] += len(set(recs2))
            res.cov.setdefault("object_roundtrips_impl_only", 0)
            res.cov["object_roundtrips_impl_only"] += len(recs2)
            for p in [l for l in lines if l.startswith("PROPFAIL ")]:
                parts = p.split(" ", 2)
                res.violation(parts[1], "round-trip fails on the implementation: " + parts[2],
                              dict(kind="propfail", harness="c11b", seed=s, tier=tier, line=p))
    for s, out in outs:
        mism, props = vpl.correspond(res, "C11", out, drv)
        for p in props:
            parts = p.split(" ", 2)
            res.violation(parts[1], "round-trip fails on the implementation: " + parts[2],
                          dict(kind="propfail", harness="c11", seed=s, tier=tier, line=p))
        recs = [l for l in out.split("\n") if l.startswith("REC ")]
        for m in mism[:10]:
            # a disagreement between model and code: the theorem no longer speaks about this code.
            # search: does the disagreeing record break the property itself (an export that does not re-import)?
            mm = m.split(" :: ", 1)
            rec = mm[1] if len(mm) > 1 else ""
            res.violation("correspondence", "model and implementation disagree: " + m[:600],
                          dict(kind="correspondence", harness="c11", seed=s, tier=tier, record=rec, detail=m[:2000]),
                          found_input=bool(rec))
