# C18 -- Oblivious transfer delivers exactly the chosen message (DESIGN.md §5 C18)
import vpl, json
from concurrent.futures import ThreadPoolExecutor

LEVEL = "proof"
LIBS = ["CheckGroupLemmas.vo", "OtLemmas.vo"]

def chunks(out, n):
    """split the harness output into n pieces of whole lines (REC lines spread evenly; PROPFAIL lines stay in piece 0)"""
    recs = [l for l in out.split("\n") if l.startswith("REC ")]
    rest = [l for l in out.split("\n") if l.startswith("PROPFAIL ")]
    k = max(1, (len(recs) + n - 1) // n)
    parts = ["\n".join(recs[i:i + k]) + "\n" for i in range(0, len(recs), k)] or ["\n"]
    parts[0] = "\n".join(rest) + "\n" + parts[0]
    return parts

def run(res, tier, seed, replay):
    res.cov["rule"] = ("records = every move of real Send/Choose runs of NaorPinkasEOTP (1-of-2, 1-of-N, optimised 1-of-N; N = 2..16 quick, "
                       "..64 thorough; every index; messages incl. 1, repeats, non-members and unreduced values) under scripted coins on groups of "
                       "10..64 bits, plus malformed first moves (0, p, p-1, non-member, v+p, p-v, -v, 1, coinciding z) and the curious-chooser "
                       "computation for every non-chosen index; each record is recomputed by the extracted Coq model; PROPFAIL = wrong chooser "
                       "output, malformed first move answered, output written although false is returned, a non-chosen ciphertext opening to "
                       "its message with s_i <> 0, blinding reused (512/1024-bit group, library random stream)")
    res.assumptions += ["tmcg_mpz_spowm / tmcg_mpz_fspowm compute b^e mod p for e >= 0 (property C09)",
                        "group hypotheses of the theorems: p, q prime, 1 < g < p-1, g^q = 1 mod p (what CheckGroup establishes, C06)",
                        "the model takes the values returned by tmcg_mpz_srandomm as coins (the byte-to-coin map is C07)",
                        "stream framing (one base-62 integer per line) is not part of the model (C11)"]
    vpl.proof_stage(res, LIBS)
    exe = vpl.build_harness("c18")
    drv = vpl.build_driver("C18")
    if replay and replay.get("replay", {}).get("record"):
        outs = [(("replay", seed), 0, replay["replay"]["record"] + "\n", "")]
    else:
        seeds = [seed] if tier == "quick" else [seed, seed + 1000]
        js = [(part, s) for s in seeds for part in ("small", "big")]
        if replay and replay.get("replay", {}).get("part"):
            js = [(replay["replay"]["part"], int(replay["replay"].get("seed", seed)))]
        def one(j):
            part, s = j
            rc, out, err = vpl.run_harness(exe, ["--tier", tier, "--seed", s, "--part", part], timeout=1700)
            return (j, rc, out, err)
        with ThreadPoolExecutor(vpl.NPROC) as ex:
            outs = list(ex.map(one, js))
    work = []
    for (part, s), rc, out, err in outs:
        rp = dict(harness="c18", part=part, seed=s, tier=tier)
        if rc != 0:
            res.violation("harness-crash", "harness c18 --part %s --seed %d exited with %d: %s" % (part, s, rc, err[-800:]),
                          dict(kind="harness", stderr=err[-2000:], **rp))
        for piece in chunks(out, 8 if part == "small" else 1):
            work.append((rp, piece))
    # the model driver is single-threaded: run the pieces in parallel, then merge sequentially (Result is not thread-safe)
    def drive(w):
        rp, piece = w
        r2 = vpl.Result(res.pid, res.tier, res.seed)
        mism, props = vpl.correspond(r2, "C18", piece, drv)
        return (rp, r2, mism, props)
    with ThreadPoolExecutor(vpl.NPROC) as ex:
        done = list(ex.map(drive, work))
    for rp, r2, mism, props in done:
        for k in ("evaluations", "distinct_nontrivial", "disagreements"):
            res.cov[k] += r2.cov[k]
        d = res.cov.setdefault("record_kinds", {})
        for k, v in r2.cov.get("record_kinds", {}).items():
            d[k] = d.get(k, 0) + v
        if len(res.cov["samples"]) < 12:
            res.cov["samples"] += r2.cov["samples"][:2]
        for p in props:
            parts = p.split(" ", 2)
            res.violation(parts[1], "oblivious transfer property fails on the implementation: " + parts[2][:1500],
                          dict(kind="propfail", line=p[:4000], **rp))
        for m in mism[:10]:
            mm = m.split(" :: ", 1)
            rec = mm[1] if len(mm) > 1 else ""
            res.violation("correspondence", "model and implementation disagree: " + m[:600],
                          dict(kind="correspondence", record=rec[:6000], detail=m[:2000], **rp), found_input=bool(rec))
