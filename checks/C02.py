# C02 -- A shuffle is exactly a permutation plus re-masking (DESIGN.md §5 C02)
import vpl
from concurrent.futures import ThreadPoolExecutor

LEVEL = "proof"
LIBS = ["ShuffleLemmas.vo", "ShuffleQrLemmas.vo"]
PARTS = ["css", "mix", "glue", "imp", "qr"]

def run(res, tier, seed, replay):
    res.cov["rule"] = ("records = real TMCG_CreateStackSecret calls under scripted/logged coins (all coin vectors for n<=5, 6 in thorough; "
                       "sizes up to TMCG_MAX_CARDS), real TMCG_MixStack (all permutations n<=4/5, sampled beyond, repeated types), "
                       "TMCG_GlueStackSecret, TMCG_StackSecret::import (all n^n index vectors n<=4, 5 thorough) on small real VTMF groups; "
                       "every record is recomputed by the extracted Coq model and compared; PROPFAIL = the property itself failing on the "
                       "implementation (types via the real opening, composition, chains, import of non-bijections, QR-encoded secrets)")
    res.assumptions += ["card masking/opening enter the structural theorems as arbitrary functions with the premises "
                        "open(mask c r) = open c (C01) and mask(mask c r1) r2 = mask c (r1 (+) r2); the second is proved for both encodings, "
                        "the VTMF instance is compared with the code number by number",
                        "the QR-encoded TMCG_MixStack/TMCG_GlueStackSecret share the index logic with the VTMF versions (same model "
                        "function `mix`/`glue`); only their import check is exercised on the implementation here",
                        "n = 0 (non-cyclic) is undefined behaviour in the real code (modelled as Oob) and is never called",
                        "x86-64: unsigned long = size_t = 64 bit, little endian"]
    vpl.proof_stage(res, LIBS)
    exe = vpl.build_harness("c02")
    drv = vpl.build_driver("C02")
    rp = (replay or {}).get("replay", {})
    if rp.get("record"):
        outs = [(seed, "replay", rp["record"] + "\n")]
    else:
        if rp.get("part"):          # replay of a property failure: rerun the part that produced it
            jobs = [(int(rp.get("seed", seed)), rp["part"])]
        else:
            seeds = [seed] if tier == "quick" else [seed, seed + 1000]
            jobs = [(s, p) for s in seeds for p in PARTS]
        def one(job):
            s, p = job
            rc, out, err = vpl.run_harness(exe, ["--tier", tier, "--seed", s, "--only", p], timeout=3000)
            return (s, p, rc, out, err)
        with ThreadPoolExecutor(8) as ex:
            rs = list(ex.map(one, jobs))
        outs = []
        for s, p, rc, out, err in rs:
            if rc != 0:
                res.violation("harness-crash", "harness c02 (part %s) exited with %d: %s" % (p, rc, err[-800:]),
                              dict(kind="harness", cmd="c02 --tier %s --seed %d --only %s" % (tier, s, p), stderr=err[-2000:]))
            outs.append((s, p, out))
    # the model side: chunks of records are recomputed in parallel, bookkeeping is merged afterwards
    chunks = []
    for s, p, out in outs:
        lines = out.split("\n")
        recs = [l for l in lines if l.startswith("REC ")]
        other = [l for l in lines if not l.startswith("REC ")]
        step = 400
        parts_ = [recs[i:i + step] for i in range(0, len(recs), step)] or [[]]
        for k, ch in enumerate(parts_):
            chunks.append((s, p, "\n".join(ch + (other if k == 0 else [])) + "\n"))
    def model(chunk):
        s, p, out = chunk
        tmp = vpl.Result(res.pid, tier, seed)
        mism, props = vpl.correspond(tmp, "C02", out, drv)
        return (s, p, out, tmp, mism, props)
    with ThreadPoolExecutor(8) as ex:
        done = list(ex.map(model, chunks))
    allprops, allmism = [], []
    for s, p, out, tmp, mism, props in done:
        for k in ("evaluations", "distinct_nontrivial", "disagreements"):
            res.cov[k] += tmp.cov[k]
        d = res.cov.setdefault("record_kinds", {})
        for k, v in tmp.cov.get("record_kinds", {}).items():
            d[k] = d.get(k, 0) + v
        res.cov["samples"] += tmp.cov["samples"][:2]
        for l in out.split("\n"):
            if l.startswith("NOTE "):
                res.notes.append("seed %d: %s" % (s, l[5:]))
        allprops += [(s, p, pl) for pl in props]
        allmism += [(s, p, m) for m in mism[:6]]
    # property failures with a concrete failing input first (one per key first), then model/code disagreements
    seen = set()
    allprops.sort(key=lambda t: (t[2].split(" ", 2)[1] in seen) or seen.add(t[2].split(" ", 2)[1]) or False)
    for s, p, pl in allprops:
        parts = pl.split(" ", 2)
        res.violation(parts[1], "shuffle property fails on the implementation: " + parts[2][:1500],
                      dict(kind="propfail", harness="c02", seed=s, tier=tier, part=p, line=pl[:4000]))
    for s, p, m in allmism:
        mm = m.split(" :: ", 1)
        rec = mm[1] if len(mm) > 1 else ""
        res.violation("correspondence", "model and implementation disagree: " + m[:600],
                      dict(kind="correspondence", harness="c02", seed=s, tier=tier, part=p, record=rec[:20000], detail=m[:2000]),
                      found_input=False)   # a disagreement alone is not a failing input of the property; PROPFAILs carry those
