# C16 -- Threshold signatures verify under the jointly generated key (DESIGN.md §5 C16)
import vpl, json, importlib
from concurrent.futures import ThreadPoolExecutor

LEVEL = "proof"
LIBS = ["TsigLemmas.vo", "TsigDssLemmas.vo"]

def run(res, tier, seed, replay):
    C17 = importlib.import_module("C17")
    res.cov["rule"] = ("verifier records = real NTS::Verify / DSS::Verify calls on GMP-made valid signatures and on the boundary and mutation "
                       "catalogue for s, c, r, m and the key (0, 1, q-1, q, q+1, +-1, +-q, negative, 2^|q|, 2^|q|-1, 2048/2049 bits, fixed nonces), "
                       "recomputed by the extracted Coq verifiers (hash = oracle table in the record) and compared with a textbook evaluation in plain "
                       "GMP (PROPFAIL); signing = forked n-party runs of NTS (Generate, Sign) and DSS (Generate, Sign, Refresh, Sign) with the library's "
                       "fault switch: every honest signer's output must satisfy the textbook equation, the library verifier, and equal the others'; "
                       "the Schnorr sum s = sum(u_i + c z_i) is recomputed by the model from the parties' own shares")
    res.assumptions += ["hash H (tmcg_mpz_shash on [m; r]) is an arbitrary function in every theorem (no random-oracle claim is made or needed)",
                        "DSS signing: the algebra of steps 1f/2f (coefficients lambda_j over >= 2t+1 signers, combined shares, interpolation from any >= t+1 "
                        "parties, r, s) is modelled and proved (tdss_valid, all_honest_same_signature); that the shared polynomials carry the right "
                        "values (shared_mu / shared_s: VSS of v_j, the ZK product proofs, exposure of cheaters) is a hypothesis, exercised by the forked runs",
                        "synchrony: a signing run in which a library time-out expired and a check failed is inconclusive and repeated (timing is not modelled)",
                        "reduced signer sets are not exercised; refresh is exercised for DSS in the thorough tier"]
    vpl.proof_stage(res, LIBS)
    exe = vpl.build_harness("c16")
    drv = vpl.build_driver("C16")
    outs = []
    if replay and replay.get("replay", {}).get("record"):
        outs = [(seed, replay["replay"]["record"] + "\n")]
    else:
        jobs = [(seed, "verify")]
        nparts = 6 if tier == "quick" else 12
        jobs += [(seed, "sign:%d/%d" % (k, nparts)) for k in range(nparts)]
        def one(job):
            s, only = job
            return s, only, vpl.run_harness(exe, ["--tier", tier, "--seed", s, "--only", only], timeout=2700)
        with ThreadPoolExecutor(12) as ex:
            for s, only, (rc, out, err) in ex.map(one, jobs):
                if rc == -9:
                    # the harness group exceeded the check's own time limit: timing is not modelled, never an alarm
                    res.notes.append("harness group did not finish within the time limit (inconclusive): seed %s" % s)
                elif rc != 0:
                    res.violation("harness-crash", "harness c16 (%s) exited with %d: %s" % (only, rc, err[-800:]),
                                  dict(kind="harness", cmd="c16 --tier %s --seed %d --only %s" % (tier, s, only), stderr=err[-2000:]))
                outs.append((s, out))
                for l in err.split("\n"):
                    if "inconclusive" in l or "no conclusive" in l:
                        res.notes.append(l[:300])
    for s, out in outs:
        mism, props = C17.par_correspond(res, "C16", out, drv)
        for p in props:
            parts = p.split(" ", 2)
            res.violation(parts[1], "threshold-signature property fails on the implementation: " + parts[2][:1500],
                          dict(kind="propfail", harness="c16", seed=s, tier=tier, line=p[:3000]))
        for m in mism[:10]:
            mm = m.split(" :: ", 1)
            rec = mm[1] if len(mm) > 1 else ""
            res.violation("correspondence", "model and implementation disagree: " + m[:700],
                          dict(kind="correspondence", harness="c16", seed=s, tier=tier, record=rec[:6000], detail=m[:2000]),
                          found_input=bool(rec))
