# C14 -- Reliable broadcast: agreement, integrity, order, delivery (DESIGN.md §5 C14)
import vpl, os
from concurrent.futures import ThreadPoolExecutor

LEVEL = "proof"
LIBS = ["RbcModel.vo", "RbcLemmas.vo", "RbcOrder.vo", "RbcStep.vo", "RbcStep2.vo", "RbcStep3.vo", "RbcStep4.vo", "RbcAgreement.vo", "RbcBracha.vo"]

def run(res, tier, seed, replay):
    res.cov["rule"] = ("a record = one API call (Broadcast, Deliver, DeliverFrom, setID, recoverID, unsetID) on a real RBC object inside a "
                       "world of n in 2..7 objects on an in-memory transport, with the message handed over chosen by the harness "
                       "(scripted races, all choice sequences to a depth for n=4,t=1 with honest / silent / equivocating senders, randomized "
                       "schedules with Byzantine injection, FIFO on/off, nested and recovered channels); every record is recomputed by the "
                       "extracted Coq model (result, consumed flag, messages sent, channel and counters after the call) and compared; "
                       "PROPFAIL = agreement / integrity / no-duplicate / FIFO order / channel isolation / delivery-at-quiescence failing on "
                       "the delivery logs of the implementation")
    res.assumptions += ["tags H(ID,j,s) are modelled as the triple and the digest hash as a function H (injective in the agreement/integrity "
                        "theorems): collision resistance of SHA-256 is assumed",
                        "the transport hands over only messages that the claimed honest sender really sent (authenticated links); "
                        "reordering and duplication are allowed in the theorems",
                        "the digest hash never outputs 0 (the code encodes a missing payload as digest 0)",
                        "delivery clause: validity and totality at quiescence are proved for schedules without channel switches (FIFO root channel, "
                        "fifo_skip = 0); with channel switches only totality of the agreed digest is proved, the rest is checked by the oracle",
                        "real time-outs, Sync() and the fault simulation switch of Broadcast are not modelled"]
    vpl.proof_stage(res, LIBS)
    exe = vpl.build_harness("c14")
    drv = vpl.build_driver("C14")
    seeds = [seed] if tier == "quick" else [seed + 1000 * k for k in range(4)]
    if replay and replay.get("replay", {}).get("only"):
        rp = replay["replay"]
        jobs = [(int(rp.get("seed", seed)), ["--only", rp["only"]])]
    else:
        jobs = [(s, []) for s in seeds]

    def one(job):
        s, extra = job
        rc, out, err = vpl.run_harness(exe, ["--tier", tier, "--seed", s] + extra, timeout=1500)
        return s, rc, out, err
    with ThreadPoolExecutor(min(len(jobs), vpl.NPROC)) as ex:
        outs = list(ex.map(one, jobs))
    for s, rc, out, err in outs:
        if rc != 0:
            res.violation("harness-crash", "harness c14 exited with %d (seed %d): %s" % (rc, s, err[-800:]),
                          dict(kind="harness", cmd="c14 --tier %s --seed %d" % (tier, s), stderr=err[-2000:]))
        mism, props = vpl.correspond(res, "C14", out, drv, nontrivial=lambda r: not r.startswith("REC hdef") and "none N/0/_/" not in r)
        for p in props:
            parts = p.split(" ", 2)
            world = ""
            for tok in parts[2].split():
                if tok.startswith("world="):
                    world = "w" + tok[6:]
            res.violation(parts[1], "reliable broadcast property fails on the implementation: " + parts[2][:900],
                          dict(kind="propfail", harness="c14", seed=s, tier=tier, only=world, line=p[:3000]))
        recs = None
        for m in mism[:3]:
            # model and code disagree on a call: the theorems no longer speak about this code.  The record names the world;
            # the world can be re-run alone (only=w<id>).
            mm = m.split(" :: ", 1)
            rec = mm[1] if len(mm) > 1 else ""
            toks = rec.split()
            world = "w" + toks[2] if len(toks) > 2 and toks[1] != "hdef" else ""
            res.violation("correspondence", "model and implementation disagree: " + m[:900],
                          dict(kind="correspondence", harness="c14", seed=s, tier=tier, only=world, detail=m[:3000]),
                          found_input=False)
