# C13 -- Point-to-point channels deliver intact, in order, exactly once (DESIGN.md §5 C13)
import vpl, json, os, threading
from concurrent.futures import ThreadPoolExecutor

LEVEL = "proof"
LIBS = ["AioToy.vo"]
SECTIONS = ["split", "fault", "long", "enc", "multi"]

def jobs_for(tier):
    return ["basic"] + ["%s:%d" % (s, m) for s in SECTIONS for m in range(16)]

def run(res, tier, seed, replay):
    res.cov["rule"] = ("records = real aiounicast_select / aiounicast_nonblock endpoints on pipes with the harness as byte relay: every Send "
                       "(REC send: wire bytes and new sender state), every receive schedule (REC recv: result and buffer state of every "
                       "Receive call for a list of feeds/calls: every split point of short exchanges, random chunking of long ones, every "
                       "wire fault at every byte offset, garbage streams), mpz_sizeinbase, array queue handling; each record is recomputed "
                       "by the extracted Coq model (MAC/cipher = logged oracle tables); a record is counted non-trivial if distinct; "
                       "PROPFAIL = the property failing on the implementation (lost/duplicated/reordered/modified deliveries, tampered "
                       "bytes delivered under authentication, equal integers giving equal wire bytes, plaintext digits on the wire)")
    res.assumptions += [
        "MAC and cipher are parameters of the model idealised by prims_ok (fixed MAC length, decrypt inverts encrypt on a handle with the "
        "same operation history, length preserving); unforgeability enters as the premise no_forgery on the attacked byte stream; secrecy of "
        "the cipher is not a theorem (the harness checks that equal integers give different wire bytes and digits do not appear)",
        "one Receive call is modelled for a one-link endpoint with timeout 0 (one scheduler round); the schedulers, several links, the "
        "array Receive loop and time-outs are covered by the implementation-level oracle only (multi / array sections)",
        "kernel pipe semantics, select()/EAGAIN handling and time() based time-outs are not modelled",
        "the IV of a CFB link is assumed intact in the integrity theorem for encrypted stream-mode links (it is not covered by the MAC: known finding tamper-iv, C13_integrity_iv_tamper_refuted); links without encryption and CTR links need no such premise",
        "link_fits P (numeric side condition on maclen/blklen/buffer size, true for HMAC-SHA256/AES256/4096) for the eventual-delivery theorem"]
    vpl.proof_stage(res, LIBS)
    exe = vpl.build_harness("c13")
    drv = vpl.build_driver("C13")
    if replay and replay.get("replay", {}).get("record"):
        tmp = vpl.Result("C13", tier, seed)
        mism, props = vpl.correspond(tmp, "C13", replay["replay"]["record"] + "\n", drv)
        res.cov["evaluations"] += 1
        for m in mism:
            res.violation("correspondence", "model and implementation disagree: " + m[:600],
                          dict(kind="correspondence", harness="c13", seed=seed, tier=tier, record=replay["replay"]["record"]), found_input=False)
        return
    jobs = jobs_for(tier)
    if replay and replay.get("replay", {}).get("only"):
        jobs = [replay["replay"]["only"]]
    lock = threading.Lock()
    results = {}
    def work(job):
        rc, out, err = vpl.run_harness(exe, ["--tier", tier, "--seed", seed, "--only", job], timeout=2400)
        tmp = vpl.Result("C13", tier, seed)
        mism, props = vpl.correspond(tmp, "C13", out, drv)
        done = any(l.startswith("DONE") for l in out.split("\n")[-3:])
        herr = [l for l in out.split("\n") if l.startswith("HARNESS-ERROR")]
        with lock:
            results[job] = (rc, done, herr, mism, props, tmp.cov, err)
    with ThreadPoolExecutor(vpl.NPROC) as ex:
        list(ex.map(work, jobs))
    for job in jobs:
        rc, done, herr, mism, props, cov, err = results[job]
        for k in ("evaluations", "distinct_nontrivial", "disagreements"):
            res.cov[k] += cov[k]
        d = res.cov.setdefault("record_kinds", {})
        for k, v in cov.get("record_kinds", {}).items():
            d[k] = d.get(k, 0) + v
        if len(res.cov["samples"]) < 12:
            res.cov["samples"] += [x[:300] for x in cov["samples"][:2]]
        if rc != 0 or not done or herr:
            res.violation("harness-crash", "harness c13 --only %s ended abnormally (rc=%s, %s): %s" % (job, rc, "; ".join(herr)[:300], err[-500:]),
                          dict(kind="harness", harness="c13", only=job, seed=seed, tier=tier), found_input=False)
        for p in props:
            parts = p.split(" ", 2)
            res.violation(parts[1], "the channel property fails on the implementation: " + (parts[2] if len(parts) > 2 else "")[:1500],
                          dict(kind="propfail", harness="c13", only=job, seed=seed, tier=tier, line=p[:6000]))
        for m in mism[:5]:
            mm = m.split(" :: ", 1)
            rec = mm[1] if len(mm) > 1 else ""
            res.violation("correspondence", "model and implementation disagree (%s): %s" % (job, mm[0][:700]),
                          dict(kind="correspondence", harness="c13", only=job, seed=seed, tier=tier, record=rec[:200000], detail=mm[0][:2000]),
                          found_input=False)
