# C12 -- Untrusted input never corrupts memory or kills the process (DESIGN.md §5 C12)
# LEVEL "other": the proof part covers the modelled index/length logic (coq/PgpLenModel.v + CodecModel.v); memory safety
# of the real process is explored by sanitizer-backed testing (harness/c12.cc: every case in a child process).
import vpl, os, re, json, glob, shutil, subprocess, time
from concurrent.futures import ThreadPoolExecutor

LEVEL = "other"
LIBS = ["PgpLenLemmas.vo", "PgpLenCodecLemmas.vo"]

ASAN_OPTS = ("detect_leaks=0:abort_on_error=0:max_allocation_size_mb=2048:hard_rss_limit_mb=4000:"
             "allocator_may_return_null=0:handle_abort=1:detect_stack_use_after_return=0")
UBSAN_OPTS = "print_stacktrace=1"

FRAME_RE = re.compile(r"#\d+ 0x[0-9a-f]+ in (.+?) ((?:/\S*/)?src/[A-Za-z0-9_]+\.(?:cc|hh)):(\d+)")
# undefined behaviour that is no memory error, abort, hang or allocation: reported as an observation, not as a violation
UB_BENIGN_RE = re.compile(r"runtime error: (load of value \d+, which is not a valid value for type|signed integer overflow|"
                          r"left shift of|shift exponent|negation of|unsigned integer overflow)")

def short_fn(sig):
    s = sig.split("(")[0].strip()
    s = s.split("::")[-1] if "::" in s else s
    return re.sub(r"[^A-Za-z0-9_~<>]", "", s) or "unknown"

def classify(status, report):
    """-> (kind, function) ; kind None = not a property failure (benign UB)"""
    rep = report.replace("\x1f", "\n")
    fn = None
    m = FRAME_RE.search(rep)
    if m:
        fn = short_fn(m.group(1))
    if "C12-ALLOC-LIMIT" in rep:
        return "alloc", fn
    m = re.search(r"ERROR: AddressSanitizer: ([A-Za-z0-9_-]+)", rep)
    if m:
        k = m.group(1)
        if k in ("requested", "allocation-size-too-big", "out-of-memory", "calloc-overflow") or "exceeds maximum supported size" in rep:
            return "alloc", fn
        if k == "hard":
            return "alloc", fn
        return k, fn
    if "hard rss limit exhausted" in rep or "AddressSanitizer failed to allocate" in rep or "AddressSanitizer: hard rss limit" in rep:
        return "alloc", fn
    m = re.search(r"([A-Za-z0-9_./-]+):(\d+):\d+: runtime error: ([^\n]*)", rep)
    if m:
        if UB_BENIGN_RE.search(rep):
            return None, fn
        mm = re.search(r"/src/([A-Za-z0-9_]+)\.(?:cc|hh)$", m.group(1))
        return "ub", fn or (mm.group(1) if mm else None)
    m = re.search(r"([A-Za-z0-9_]+)\.(?:cc|hh):\d+: ([^\n]*?): Assertion `", rep)
    if m:
        return "abort", short_fn(m.group(2).split("(")[0].split(" ")[-1])
    if "terminate called" in rep:
        return "abort", fn
    if "CPU-TIME-LIMIT" in status or "WALL-CLOCK-LIMIT" in status:
        return "timeout", fn
    if "exception" in status:
        return "nonstd-exception", fn
    return status.split("(")[0], fn

def parse_propfail(line):
    m = re.match(r"PROPFAIL (\S+) status=(\S+) mut=(\S+) case=(\d+) saved=(\S+) input=(\S*) report=(.*)$", line)
    if not m:
        return None
    return dict(target=m.group(1), status=m.group(2), mut=m.group(3), case=int(m.group(4)), saved=m.group(5),
                input=m.group(6), report=m.group(7))

def run_harness(exe, args, env, timeout):
    e = dict(os.environ); e.update(env)
    t0 = time.time()
    rc, out, err = vpl.run([exe] + [str(a) for a in args], timeout=timeout, env=e)
    return rc, out, err, time.time() - t0

def run(res, tier, seed, replay):
    res.cov["rule"] = ("cases = (target, untrusted input): every importer, stream constructor, OpenPGP parser and verifier receive side "
                       "of the library is fed valid exports/proofs/packets and structure-aware mutations of them (field deletion, "
                       "duplication, counts/lengths 0,1,max,max+1,huge, wrong dimensions, non-digits, negatives, zero moduli, truncation), "
                       "each case in a child process of an ASan/UBSan build with CPU-time and allocation limits; a case counts when the "
                       "child reported a result (accept/reject/std-exception) or died (= PROPFAIL).  REC records = in-process calls of the "
                       "OpenPGP length/MPI/sub-packet/Radix-64 decoders, recomputed by the extracted Coq model and compared.")
    res.assumptions += [
        "partial by nature: memory safety of the process is explored by sanitizer-backed testing, not proved; the Coq theorems "
        "cover the modelled index/length logic only (PgpLenModel.v: packet length / partial length / MPI / sub-packet header / "
        "Radix-64 table index; CodecModel.v: dimension and index bounds of the card/stack importers; size guard of TMCG_MixStack)",
        "octets are modelled as N below 256; uint32_t arithmetic is modelled with mod 2^32, size_t/iterator arithmetic as exact",
        "gcry_mpi_scan is assumed not to fail (memory); libgcrypt, libgmp and the STL are not modelled (valgrind covers the mpz_export "
        "targets of TMCG_PublicKey::verify / TMCG_SecretKey::decrypt)",
        "UBSan findings that are no memory error (invalid enum value loads, signed overflow, shifts) are listed as observations only",
    ]
    vpl.proof_stage(res, LIBS)
    errdir = os.path.join(vpl.BUILD, "c12-tmp-%d" % os.getpid())
    faildir = os.path.join(vpl.BUILD, "replay", "c12-inputs")
    shutil.rmtree(errdir, ignore_errors=True)
    os.makedirs(errdir, exist_ok=True); os.makedirs(faildir, exist_ok=True)
    exe_asan = vpl.build_harness("c12", "asan")
    exe_plain = vpl.build_harness("c12", "plain")
    drv = vpl.build_driver("C12")
    env_asan = dict(ASAN_OPTIONS=ASAN_OPTS, UBSAN_OPTIONS=UBSAN_OPTS)
    jobs = max(2, vpl.NPROC - 2)
    only = os.environ.get("C12_ONLY", "")     # testing aid: restrict the fork-based oracle to some targets (comma separated)
    extra = ["--only", only] if only else []
    tmo = 10000 if tier == "quick" else 25000   # only a backstop: every case has its own CPU/wall limits

    # ---- replay of one stored input -------------------------------------------------------------------------
    if replay and replay.get("replay", {}).get("kind") == "propfail":
        rp = replay["replay"]
        rc, out, err, _ = run_harness(exe_asan, ["--one", rp["target"], rp["input_file"]], env_asan, 600)
        if "RESULT " not in out:
            kind, fn = classify("exit(%d)" % rc, err)
            if kind:
                res.violation("%s@%s" % (kind, fn or rp["target"]), "replayed input still kills the process: %s" % err[-1500:], rp)
        return
    rec_only = replay and replay.get("replay", {}).get("record")

    # ---- run: ASan build (all cases + records), plain build under valgrind (key targets) concurrently ------------
    runs = []
    if rec_only:
        outs = {"asan": (0, replay["replay"]["record"] + "\n", "", 0.0)}
    else:
        with ThreadPoolExecutor(3) as ex:
            cached = os.environ.get("C12_CACHED_ASAN_OUT")    # debugging aid for the check script itself: evaluate a stored harness output
            if cached:
                fa = ex.submit(lambda: (0, vpl.fread(cached, "r"), "", 0.0))
            else:
                fa = ex.submit(run_harness, exe_asan, ["--tier", tier, "--seed", seed, "--jobs", jobs, "--errdir", errdir] + extra, env_asan, tmo)
            if only and "key-" not in only:
                fv = ex.submit(lambda: (0, "STAT vg-cases=0\n", ""))
            else:
                fv = ex.submit(vpl.run, ["valgrind", "-q", "--error-exitcode=97", "--undef-value-errors=no", "--num-callers=30", exe_plain, "--vg", "--seed", str(seed)], tmo)
            fp = None
            if tier == "thorough":   # plain build, other seed: breadth without the sanitizer's stop-at-first-UB
                fp = ex.submit(run_harness, exe_plain, ["--tier", "quick", "--seed", seed + 7777, "--jobs", 4, "--norec", "--errdir", errdir] + extra, {}, tmo)
            outs = {"asan": fa.result()}
            vg = fv.result()
            if fp: outs["plain"] = fp.result()
        res.notes.append("asan harness %.0fs" % outs["asan"][3])
        # valgrind verdict
        vrc, vout, verr = vg
        if "STAT vg-cases=" not in vout or vrc != 0:
            m = re.search(r"(Invalid (?:write|read) of size \d+|Conditional jump|Process terminating[^\n]*)", verr)
            fm = re.search(r"(?:at|by) 0x[0-9A-F]+: ([A-Za-z0-9_:~]+)[^\n]*\((?:TMCG|[A-Za-z_]+)[A-Za-z_]*\.cc:\d+\)", verr)
            fn = short_fn(fm.group(1)) if fm else "key-targets"
            res.violation("valgrind@%s" % fn, "valgrind reports a memory error in the key verification/decryption targets (%s): %s" % (
                m.group(1) if m else "rc=%d" % vrc, verr[:1800]), dict(kind="valgrind", cmd="valgrind c12-plain --vg", stderr=verr[:4000]))
        else:
            mm = re.search(r"STAT vg-cases=(\d+)", vout)
            res.cov["valgrind_cases"] = int(mm.group(1))

    # ---- evaluate -------------------------------------------------------------------------------------------------
    ncases = 0; tallies = {}; observations = {}
    seen = {}
    timeout_verdict = {}
    for name, (rc, out, err, dt) in outs.items():
        if not rec_only and ("DONE workers=" not in out or rc != 0 or "WORKERFAIL" in out):
            res.violation("harness-crash", "harness c12 (%s) did not finish: rc=%s %s" % (name, rc, (err or "")[-800:]),
                          dict(kind="harness", cmd="c12 --tier %s --seed %d" % (tier, seed), stderr=(err or "")[-2000:]), found_input=False)
        for line in out.split("\n"):
            if line.startswith("TALLY "):
                p = line.split()
                d = tallies.setdefault(p[1], {})
                for kv in p[2:]:
                    k, v = kv.rsplit("=", 1); d[k] = d.get(k, 0) + int(v); ncases += int(v)
            elif line.startswith("NOTE "):
                res.notes.append(line[:300])
            elif line.startswith("PROPFAIL "):
                pf = parse_propfail(line)
                if not pf:
                    res.violation("harness-format", "unparsable PROPFAIL line: " + line[:300], dict(kind="harness"), found_input=False); continue
                kind, fn = classify(pf["status"], pf["report"])
                if name == "plain" and pf["saved"] != "-" and os.path.exists(pf["saved"]):
                    # no sanitizer report in the plain build: look at the same input under ASan
                    rc2, out2, err2, _ = run_harness(exe_asan, ["--one", pf["target"], pf["saved"]], env_asan, 900)
                    if "RESULT " not in out2:
                        kind, fn = classify("exit(%d)" % rc2, err2); pf["report"] = err2[:6000]
                    else:
                        kind, fn = "plain-" + kind, pf["target"]
                if kind == "timeout" and timeout_verdict.get(pf["target"]) == "confirmed":
                    pass       # this target already has an input that does not finish even alone; no need to repeat every further one
                elif kind == "timeout" and pf["saved"] != "-" and os.path.exists(pf["saved"]):
                    # a CPU-time limit can be hit by an honest case on an overloaded machine: repeat this one case alone with a
                    # 20 minute budget; only an input that still does not finish is reported as non-termination
                    rc2, out2, err2, dt2 = run_harness(exe_asan if name == "asan" else exe_plain, ["--one", pf["target"], pf["saved"]],
                                                       env_asan, 1200)
                    timeout_verdict[pf["target"]] = "finished" if "RESULT " in out2 else "confirmed"
                    if "RESULT " in out2:
                        res.notes.append("case %s/%s hit the CPU-time limit in the batch but finishes alone in %.0fs wall: not counted" % (pf["target"], pf["mut"], dt2))
                        continue
                    if rc2 != -9:
                        kind, fn = classify("exit(%d)" % rc2, err2); pf["report"] = err2[:6000]
                if kind is None:
                    m = re.search(r"runtime error: [^\x1f\n]*", pf["report"])
                    observations.setdefault((m.group(0) if m else "ub")[:160] + " @" + (fn or "?"), 0)
                    observations[(m.group(0) if m else "ub")[:160] + " @" + (fn or "?")] += 1
                    continue
                key = "%s@%s" % (kind, fn or pf["target"])
                seen.setdefault(key, []).append(pf)
    for key, pfs in sorted(seen.items()):
        pf = pfs[0]
        keep = "-"
        if pf["saved"] != "-" and os.path.exists(pf["saved"]):
            keep = os.path.join(faildir, os.path.basename(pf["saved"])); shutil.copy(pf["saved"], keep)
        rep = pf["report"].replace("\x1f", "\n")
        head = "\n".join(l for l in rep.split("\n") if not l.startswith("ERROR: wrong armor") and not l.startswith("WARNING: no armor"))[:1800]
        res.violation(key, "untrusted input kills the process: target %s, mutation %s, %s, %d case(s) with this signature; input (hex, first bytes) %s\n%s" % (
                          pf["target"], pf["mut"], pf["status"], len(pfs), pf["input"][:400], head),
                      dict(kind="propfail", harness="c12", seed=seed, tier=tier, target=pf["target"], mutation=pf["mut"], case=pf["case"],
                           input_file=keep, input_hex=pf["input"][:2400], targets=sorted(set(p["target"] for p in pfs)), report=head))
    res.cov["cases_run"] = ncases
    res.cov["targets"] = len(tallies)
    res.cov["outcomes_per_target"] = tallies
    if observations:
        res.cov["ub_observations_not_counted_as_violation"] = observations
        res.notes.append("UBSan observations (no memory error): " + "; ".join("%s x%d" % kv for kv in sorted(observations.items())[:8]))
    # ---- correspondence of the modelled decoders ---------------------------------------------------------------------
    out = outs["asan"][1]
    lines = out.split("\n")
    for i, l in enumerate(lines):      # the record writer died: the REC line before its PROPFAIL may be cut in the middle
        if l.startswith("PROPFAIL decoder-records"):
            j = i - 1
            while j >= 0 and not lines[j].startswith("REC "): j -= 1
            if j >= 0: lines[j] = ""
    out = "\n".join(lines)
    mism, props = vpl.correspond(res, "C12", out, drv)
    res.cov["evaluations"] += ncases
    res.cov["distinct_nontrivial"] += sum(1 for t in tallies.values() for k in t if k != "DIED")
    for m in mism[:10]:
        mm = m.split(" :: ", 1)
        rec = mm[1] if len(mm) > 1 else ""
        res.violation("correspondence", "model and implementation disagree: " + m[:600],
                      dict(kind="correspondence", harness="c12", seed=seed, tier=tier, record=rec, detail=m[:2000]), found_input=False)
    shutil.rmtree(errdir, ignore_errors=True)
