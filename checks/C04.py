# C04 -- Soundness: proofs of false statements are rejected (DESIGN.md §5 C04)
import vpl, re
from concurrent.futures import ThreadPoolExecutor

LEVEL = "proof"
LIBS = ["SoundLemmas.vo", "SoundCutLemmas.vo", "VtmfVerLemmas.vo"]
GROUPS = ["ww", "cc", "ext"]

def run(res, tier, seed, replay):
    res.cov["rule"] = ("ww: the real prover code is run with a witness that does not fit a false statement (every edit position of the "
                       "output stack x {re-typed, duplicated, type-shifted, dropped}, non-cyclic permutation as rotation, mask of another "
                       "message, share / key proof with another exponent, OR proof with no true branch), for cut-and-choose (kappa = 40), "
                       "Groth (interactive, non-interactive), rotation (interactive, non-interactive) and the VTMF proofs; the real verifier "
                       "must refuse.  cc: a harness-side guessing prover (public API) against the real verifier under ALL 2^kappa scripted "
                       "verifier coin strings; every (guess, coins) pair is a record compared with the Coq model (accept iff coins = guess) "
                       "and the acceptance count must be exactly 1.  ext: two accepting interactive key proofs with one commitment; the "
                       "extracted Coq extractor must return the prover's real secret")
    res.assumptions += ["special soundness is proved for the sigma protocols of the VTMF layer (key share, Chaum-Pedersen); the counting "
                        "theorem is proved over an abstract mask with an injective commitment (no hash collision) and injective masking",
                        "knowledge soundness of Groth's shuffle argument and of the rotation argument is NOT proved (implementation-level "
                        "wrong-witness oracle only); soundness error 2^-kappa of cut-and-choose is measured exhaustively for kappa <= 6 (8 thorough)",
                        "VTMF verifier equations are those of VtmfVerModel (correspondence checked under C05)"]
    vpl.proof_stage(res, LIBS)
    exe = vpl.build_harness("c04")
    drv = vpl.build_driver("C04")
    seeds = [seed] if tier == "quick" else [seed, seed + 1000]
    jobs = []
    if replay and replay.get("replay", {}).get("group"):
        r = replay["replay"]
        jobs = [(r["group"], int(r.get("seed", seed)))]
    else:
        jobs = [(g, s) for s in seeds for g in GROUPS]
    def one(job):
        g, s = job
        rc, out, err = vpl.run_harness(exe, ["--tier", tier, "--seed", s, "--only", g], timeout=2400)
        return job, rc, out, err
    with ThreadPoolExecutor(vpl.NPROC) as ex:
        results = list(ex.map(one, jobs))
    seen = {}
    stats = {}
    for (g, s), rc, out, err in results:
        if rc != 0 or ("DONE" not in out):
            res.violation("harness-crash." + g, "harness c04 --only %s --seed %d exited with %d: %s" % (g, s, rc, err[-800:]),
                          dict(kind="harness", group=g, seed=s, tier=tier, stderr=err[-2000:]))
        for line in out.split("\n"):
            if line.startswith("PROPFAIL "):
                parts = line.split(" ", 2)
                key = parts[1]
                seen[key] = seen.get(key, 0) + 1
                if seen[key] > 1:
                    continue
                res.violation(key, "soundness fails on the implementation: " + parts[2][:1200],
                              dict(kind="propfail", harness="c04", group=g, seed=s, tier=tier, line=line[:3000]))
            elif line.startswith("WW ") or line.startswith("CC "):
                for k, v in re.findall(r"(\S+)=(\d+)", line):
                    stats[line.split()[0] + "." + k] = stats.get(line.split()[0] + "." + k, 0) + int(v)
            elif line.startswith("NOTE "):
                if len(res.notes) < 40:
                    res.notes.append(line[:300])
        if "REC " in out:
            mism, props = vpl.correspond(res, "C04", out, drv)
            for m in mism[:10]:
                mm = m.split(" :: ", 1)
                rec = mm[1] if len(mm) > 1 else ""
                # a cc mismatch is an input on which the real verifier departs from "accept iff coins = guess"
                res.violation("correspondence." + (rec.split()[1] if len(rec.split()) > 1 else "x"),
                              "model and implementation disagree: " + m[:900],
                              dict(kind="correspondence", harness="c04", group=g, seed=s, tier=tier, record=rec[:3000], detail=m[:2000]),
                              found_input=bool(rec))
    res.cov["oracle"] = stats
    res.cov["evaluations"] += stats.get("WW.cases", 0)
    res.cov["propfail_counts"] = seen
