# C03 -- Completeness: an honest proof is always accepted (DESIGN.md §5 C03)
import vpl, re
from concurrent.futures import ThreadPoolExecutor

LEVEL = "proof"
LIBS = ["SigmaArith.vo", "KeyRingLemmas.vo", "SigmaLemmas.vo", "SigmaFsLemmas.vo", "PedersenLemmas.vo", "CutChooseLemmas.vo", "SkcProveLemmas.vo"]


def correspond_chunks(res, pid, out, drv, tier, seed, k):
    """split the records over k model-driver processes; returns the list of MISMATCH lines and merges coverage into res"""
    recs = [l for l in out.split("\n") if l.startswith("REC ")]
    chunks = ["\n".join(recs[i::k]) + "\n" for i in range(k) if recs[i::k]]
    def one(c):
        r2 = vpl.Result(pid, tier, seed)
        m, _ = vpl.correspond(r2, pid, c, drv)
        return r2, m
    mism = []
    with ThreadPoolExecutor(max(1, len(chunks))) as ex:
        for r2, m in ex.map(one, chunks):
            mism += m
            for key in ("evaluations", "distinct_nontrivial", "disagreements"):
                res.cov[key] += r2.cov[key]
            for kk, v in r2.cov.get("record_kinds", {}).items():
                d = res.cov.setdefault("record_kinds", {}); d[kk] = d.get(kk, 0) + v
            res.cov["samples"] += r2.cov["samples"][:1]
    return mism

def proto_groups(tier):
    g = ["vtmf", "edcf", "skc", "rabin", "hoogh:0", "groth:0", "groth:1"] + ["direct:%d" % i for i in range(6)] + ["limits:0", "limits:1"]
    g += ["cutchoose:%d" % i for i in range(4 if tier == "quick" else 6)]
    if tier != "quick":
        g += ["groth:2", "hoogh:1", "hoogh:2", "limits:2", "limits:3"]
    return g

def run(res, tier, seed, replay):
    res.cov["rule"] = ("(1) records = real prover/verifier calls of the VTMF layer (key-share proofs, CP incl. the fixed-base table path, OR, masking, "
                       "re-masking, decryption shares) on tiny Schnorr / safe-prime groups with coins and hash queries captured by interposition, "
                       "honest runs plus mutated transcripts, false statements, base mismatches, stale tables; each record is recomputed by the "
                       "extracted SigmaModel and compared; non-trivial = distinct record.  (2) implementation-level completeness oracle for every "
                       "other verifiable operation (cut-and-choose stack equality in both encodings, Groth shuffle and SKC in interactive / public-"
                       "coin / non-interactive form, rotation argument in three forms, Pedersen commitments, two-party coin flip, Rabin key "
                       "validity + signatures, toolbox card proofs): honest prover -> unchanged transcript -> verifier, sweeping stack sizes, "
                       "permutations/rotations, kappa, l_e at the admissibility boundary; PROPFAIL on any rejection; group `direct`: prover and verifier objects built through different construction paths (generated / "
                       "p,q,g,h-constructed / stream-constructed / public-coin generators; GrothVSSHE with the commitment key in an independently generated "
                       "group; generated canonical-g, random-g and GroupQR VTMF instances with stream-constructed peers).  (3) vm_compute obligation: prover and "
                       "verifier of every non-interactive argument hash the same argument list (table regenerated from the sources)")
    res.assumptions += ["hash = arbitrary function H with 0 <= H < 2^hbits (Section variable); coins arbitrary integers reduced as tmcg_mpz_srandomm does",
                        "wf_params: 1 < p odd, 0 < q, g^q = 1 mod p, |q| <= TMCG_MAX_FPOWM_T; statements' bases and the common key are group elements "
                        "(a^q = 1); primality of p and q is not needed for completeness",
                        "proved (Coq) for the VTMF layer only; cut-and-choose, Groth, rotation, coin flip, Rabin key proofs are covered by the "
                        "implementation-level oracle (testing, not proof)",
                        "the dummy multiplications of tmcg_mpz_fspowm/spowm (timing protection) are modelled as the identity on residues; GMP aborts, "
                        "assertion failures and C++ exceptions are one outcome (Throw/None)"]
    vpl.proof_stage(res, LIBS)
    exe = vpl.build_harness("c03")
    drv = vpl.build_driver("C03")
    seeds = [seed] if tier == "quick" else [seed, seed + 1000]
    if replay and replay.get("replay", {}).get("record"):
        mism, props = vpl.correspond(res, "C03", replay["replay"]["record"] + "\n", drv)
        for m in mism:
            res.violation("correspondence", "model and implementation disagree: " + m[:700], dict(kind="correspondence", record=replay["replay"]["record"]))
        return
    jobs = [("vtmf", None, s) for s in seeds] + [("proto", g, seed) for g in proto_groups(tier)]
    def one(job):
        part, g, s = job
        args = ["--part", part, "--tier", tier, "--seed", s] + (["--only", g] if g else [])
        rc, out, err = vpl.run_harness(exe, args, timeout=2400)
        r2, cm = None, None
        if part == "vtmf":
            r2 = vpl.Result(res.pid, tier, s)
            cm = (correspond_chunks(r2, "C03", out, drv, tier, s, 3 if tier == "quick" else 6), None)
        return job, rc, out, err, r2, cm
    with ThreadPoolExecutor(min(vpl.NPROC, len(jobs))) as ex:
        done = list(ex.map(one, jobs))
    ncases = 0
    for (part, g, s), rc, out, err, r2, cm in done:
        cmd = "c03 --part %s --tier %s --seed %d%s" % (part, tier, s, (" --only " + g) if g else "")
        if rc != 0:
            res.violation("harness-crash", "harness %s exited with %d: %s" % (cmd, rc, err[-800:]), dict(kind="harness", cmd=cmd, stderr=err[-2000:]))
        props = [l for l in out.split("\n") if l.startswith("PROPFAIL ")]
        for m in re.finditer(r"^STAT proto group=(\S+) cases=(\d+)", out, re.M):
            ncases += int(m.group(2))
            res.cov.setdefault("proto_cases", {})[m.group(1)] = int(m.group(2))
        if r2 is not None:
            mism, _ = cm
            for k in ("evaluations", "distinct_nontrivial", "disagreements"):
                res.cov[k] += r2.cov[k]
            for k, v in r2.cov.get("record_kinds", {}).items():
                d = res.cov.setdefault("record_kinds", {}); d[k] = d.get(k, 0) + v
            res.cov["samples"] += r2.cov["samples"][:3]
            for m in mism[:6]:
                mm = m.split(" :: ", 1)
                rec = mm[1] if len(mm) > 1 else ""
                res.violation("correspondence", "model and implementation disagree: " + m[:700],
                              dict(kind="correspondence", harness="c03", cmd=cmd, record=rec, detail=m[:3000]), found_input=bool(rec))
        seen = set()
        for pl in props:
            parts = pl.split(" ", 2)
            if parts[1] in seen and len(seen) > 0 and sum(1 for v in res.violations if v["key"] == parts[1]) >= 2:
                continue
            seen.add(parts[1])
            res.violation(parts[1], "an honest proof is not accepted: " + (parts[2] if len(parts) > 2 else ""),
                          dict(kind="propfail", harness="c03", cmd=cmd, line=pl))
    res.cov["evaluations"] += ncases
    res.cov["distinct_nontrivial"] += ncases
