# C10 -- Rabin key operations are consistent and tamper-evident (DESIGN.md §5 C10)
import vpl, os, re, time
from concurrent.futures import ThreadPoolExecutor

LEVEL = "proof"
LIBS = ["RabinLemmas.vo"]

def correspond_slow(res, harness_out, drv):
    """vpl.correspond with a driver time limit that fits the validity-proof records (about a minute of model arithmetic each
    on an idle core, much more on a loaded machine); a driver that still runs out of time is retried once."""
    recs = [l for l in harness_out.split("\n") if l.startswith("REC ")]
    props = [l for l in harness_out.split("\n") if l.startswith("PROPFAIL ")]
    text = "\n".join(recs) + "\n"
    for attempt in (0, 1):
        rc, out, err = vpl.run_driver(drv, text, timeout=7200)
        if rc != -9: break
    mism = [l for l in out.split("\n") if l.startswith("MISMATCH ")]
    nok = sum(1 for l in out.split("\n") if l.startswith("OK"))
    if rc != 0 or nok + len(mism) != len(recs):
        mism.append("MISMATCH driver-failure rc=%d ok=%d mism=%d recs=%d %s" % (rc, nok, len(mism), len(recs), err[-500:]))
    res.cov["evaluations"] += len(recs)
    res.cov["distinct_nontrivial"] += len(set(recs))
    res.cov["disagreements"] += len(mism)
    d = res.cov.setdefault("record_kinds", {})
    for l in recs:
        k = l.split(" ", 2)[1]
        d[k] = d.get(k, 0) + 1
    step = max(1, len(recs) // 6)
    for l in recs[::step][:6]:
        res.cov["samples"].append(l[:400])
    return mism, props

def run(res, tier, seed, replay):
    res.cov["rule"] = ("records = real calls of tmcg_g, keyid/keyid_size, sign, verify, encrypt, decrypt, check, import/export of both key "
                       "types on library-generated keys (sizes at the padding minima, random sizes, 1024/2048 in thorough; with and without "
                       "validity proof) and on the C05 mutation catalogue applied to every field of signature, ciphertext and key text; each "
                       "record carries the coins drawn and the raw digests computed (hash oracle) and is recomputed by the extracted Coq model; "
                       "PROPFAIL = honest object refused / non-equivalent mutant accepted by the implementation; valgrind run on moduli > 8192 "
                       "bits for the mpz_export buffers")
    res.assumptions += [
        "SHA-256 / SHA3-256 (gcry_md_hash_buffer) are oracles: Section variables H1, H2 with |H x| = 32 and byte-valued output; no collision "
        "resistance or one-wayness is proved (a different square with consistent (w, r, gamma) needs a new oracle pre-image: named limit)",
        "square roots and residuosity test of mpz_sqrtm.cc are a Section oracle (root^2 = value mod m, all roots listed): property C09",
        "mpz_jacobi, mpz_probab_prime_p are Section oracles; check_accept_implies states Jacobi(y,m)=1 in terms of that oracle",
        "the uninitialised export buffers are an explicit argument `heap` of the model; verify is proved independent of it, decrypt reads it only "
        "for a zero root (unreachable: the residuosity test refuses 0); the correspondence run supplies zeros",
        "negative moduli reaching the NIZK stages (mpz_powm with negative exponent) are outside the model (`Unmodelled`)"]
    t0 = time.time()
    vpl.proof_stage(res, LIBS)
    vpl.log("[C10] proof stage %.0fs" % (time.time() - t0)); t0 = time.time()
    exe = vpl.build_harness("c10")
    drv = vpl.build_driver("C10")
    # heap safety of the mpz_export targets for moduli above 8192 bits (libgmp writes the bytes: ASan is blind, valgrind is not);
    # started now, collected at the end
    def vg(what):
        rc, out, err = vpl.run(["valgrind", "-q", "--error-exitcode=0", "--num-callers=12", exe, "--tier", tier, "--seed", str(seed), "--only", what], timeout=1500)
        return what, rc, out, err
    bg = ThreadPoolExecutor(3)
    vfut = [] if replay else [bg.submit(vg, w) for w in ["vg-verify", "vg-decrypt", "vg-zero"]]
    nkeys = 4 if tier == "quick" else 8
    parts = ["g", "o"] + ["n%d" % i for i in range(4)] + ["k%d" % i for i in range(nkeys)]
    if replay and replay.get("replay", {}).get("record"):
        outs = [("replay", seed, replay["replay"]["record"] + "\n")]
    else:
        def one(part):
            rc, out, err = vpl.run_harness(exe, ["--tier", tier, "--seed", seed, "--only", part], timeout=2400)
            return part, rc, out, err
        with ThreadPoolExecutor(len(parts)) as ex:
            rs = list(ex.map(one, parts))
        outs = []
        for part, rc, out, err in rs:
            for l in err.split("\n"):
                if l.startswith("[c10]"): vpl.log(l)
            if rc != 0:
                res.violation("harness-crash", "harness c10 --only %s exited with %d: %s" % (part, rc, err[-800:]),
                              dict(kind="harness", cmd="c10 --tier %s --seed %d --only %s" % (tier, seed, part), stderr=err[-2000:]))
            outs.append((part, seed, out))
    # the records are independent: spread them over several model drivers (a full validity-proof record costs the
    # extracted model about a minute of binary-number arithmetic), heavy records round-robin
    vpl.log("[C10] build + harness %.0fs" % (time.time() - t0)); t0 = time.time()
    def chunks(out, n):
        lines = out.split("\n")
        recs = [l for l in lines if l.startswith("REC ")]
        rest = [l for l in lines if not l.startswith("REC ")]
        heavy = [l for l in recs if len(l) > 300000]
        light = [l for l in recs if len(l) <= 300000]
        cs = [[] for _ in range(n)]
        for i, l in enumerate(heavy): cs[i % n].append(l)
        for i, l in enumerate(light): cs[(i + len(heavy)) % n].append(l)
        res_ = ["\n".join(c) + "\n" for c in cs if c]
        if not res_: res_ = [""]
        res_[0] += "\n".join(rest) + "\n"
        return res_
    items = []
    for part, s, out in outs:
        n = 1 if part[0] in "gon" else (3 if tier == "quick" else 6)
        for c in chunks(out, n):
            items.append((part, s, c))
    def corr(item):
        part, s, out = item
        sub = vpl.Result(res.pid, tier, s)
        mism, props = correspond_slow(sub, out, drv)
        return part, s, sub, mism, props
    with ThreadPoolExecutor(vpl.NPROC) as ex:
        cs = list(ex.map(corr, items))
    vpl.log("[C10] model drivers %.0fs (%d chunks)" % (time.time() - t0, len(items))); t0 = time.time()
    for part, s, sub, mism, props in cs:
        for k in ("evaluations", "distinct_nontrivial", "disagreements"):
            res.cov[k] += sub.cov[k]
        d = res.cov.setdefault("record_kinds", {})
        for k, v in sub.cov.get("record_kinds", {}).items():
            d[k] = d.get(k, 0) + v
        res.cov["samples"] += [x[:300] for x in sub.cov["samples"][:2]]
        for p in props:
            ps = p.split(" ", 2)
            key = ps[1]
            if key.startswith("verify-zero-stale-buffer"): key = "verify-zero-stale-buffer"
            res.violation(key, "property fails on the implementation: " + ps[2][:1500],
                          dict(kind="propfail", harness="c10", seed=s, tier=tier, only=part, line=p[:4000]))
        for m in mism[:6]:
            mm = m.split(" :: ", 1)
            rec = mm[1] if len(mm) > 1 else ""
            head = mm[0][:300]
            res.violation("correspondence", "model and implementation disagree: " + head + " :: " + rec[:300],
                          dict(kind="correspondence", harness="c10", seed=s, tier=tier, only=part, record=rec[:200000], detail=head),
                          found_input=bool(rec))
    if not replay:
        vs = [f.result() for f in vfut]
        vpl.log("[C10] valgrind collected after %.0fs" % (time.time() - t0))
        for what, rc, out, err in vs:
            done = "VGDONE" in out
            if what == "vg-zero":
                res.cov["evaluations"] += 1
                pre, _, post = err.partition("VGMARK")
                blk = lambda t: [b for b in re.split(r"\n==\d+== \n", t) if "uninitialised" in b and "TMCG_PublicKey::verify" in b]
                if not done:
                    res.violation("harness-crash", "valgrind run vg-zero did not finish (rc=%d): %s" % (rc, err[-600:]), dict(kind="harness", cmd="valgrind c10 --only vg-zero", stderr=err[-2000:]))
                elif blk(post) and not blk(pre):
                    res.violation("verify-zero-stale-buffer", "TMCG_PublicKey::verify reads the uninitialised export buffer for a signature value with zero square "
                                  "(%d uninitialised-value errors under valgrind; none for the nonzero control): %s" % (len(blk(post)), blk(post)[0][:700]),
                                  dict(kind="valgrind", cmd="valgrind %s --only vg-zero --seed %d" % (exe, seed), stderr=post[:3000]))
                continue
            bad = re.findall(r"Invalid (?:write|read) of size \d+", err)
            where = "TMCG_PublicKey::verify" if what == "vg-verify" else "TMCG_SecretKey::decrypt"
            res.cov["evaluations"] += 1
            if bad:
                m = re.search(r"Invalid write[^\n]*\n(?:[^\n]*\n){0,10}", err)
                res.violation(what.replace("vg-", "") + "-export-overflow",
                              "%s: mpz_export writes past the mnsize+1024 byte buffer for a modulus above 8192 bits (%d invalid accesses under valgrind): %s"
                              % (where, len(bad), (m.group(0) if m else err[:600])[:900]),
                              dict(kind="valgrind", cmd="valgrind %s --only %s --seed %d" % (exe, what, seed), stderr=err[:3000]))
            elif not done:
                res.violation("harness-crash", "valgrind run %s did not finish (rc=%d): %s" % (what, rc, err[-600:]),
                              dict(kind="harness", cmd="valgrind c10 --only %s" % what, stderr=err[-2000:]))
            for p in [l for l in out.split("\n") if l.startswith("PROPFAIL ")]:
                ps = p.split(" ", 2)
                res.violation(ps[1], "property fails on the implementation: " + ps[2][:1000], dict(kind="propfail", harness="c10", only=what, line=p[:2000]))
