# C08 -- All players derive the same common card key (DESIGN.md §5 C08)
import vpl
from concurrent.futures import ThreadPoolExecutor

LEVEL = "proof"
LIBS = ["SigmaArith.vo", "KeyRingLemmas.vo"]
PARTS = ["orders", "malformed", "interleave", "big"]


def correspond_chunks(res, pid, out, drv, tier, seed, k):
    """split the records over k model-driver processes; returns the list of MISMATCH lines and merges coverage into res"""
    recs = [l for l in out.split("\n") if l.startswith("REC ")]
    chunks = ["\n".join(recs[i::k]) + "\n" for i in range(k) if recs[i::k]]
    def one(c):
        r2 = vpl.Result(pid, tier, seed)
        m, _ = vpl.correspond(r2, pid, c, drv)
        return r2, m
    mism = []
    with ThreadPoolExecutor(max(1, len(chunks))) as ex:
        for r2, m in ex.map(one, chunks):
            mism += m
            for key in ("evaluations", "distinct_nontrivial", "disagreements"):
                res.cov[key] += r2.cov[key]
            for kk, v in r2.cov.get("record_kinds", {}).items():
                d = res.cov.setdefault("record_kinds", {}); d[kk] = d.get(kk, 0) + v
            res.cov["samples"] += r2.cov["samples"][:1]
    return mism

def run(res, tier, seed, replay):
    res.cov["rule"] = ("records = real KeyGenerationProtocol_GenerateKey/PublishKey/UpdateKey/RemoveKey/Finalize calls on k<=5 instances "
                       "sharing a tiny Schnorr or safe-prime group (all k! processing orders for k<=4, k=5 in thorough; the malformed-"
                       "contribution catalogue; random add/remove interleavings; the duplicate-add boundary), with the coins and the "
                       "Fiat-Shamir hash queries captured by interposition; every record is recomputed by the extracted KeyRingModel and "
                       "compared (verdict, h, stored keys); a record is non-trivial if distinct; PROPFAIL = the property itself failing "
                       "on the implementation (players disagree, malformed contribution accepted or changing state, removal not restoring)")
    res.assumptions += ["hash modelled as an arbitrary function H (theorems hold for every H with 0 <= H < 2^hbits); correspondence feeds the "
                        "model the table of the hash queries the code really made, a model query outside the table yields -1 (disagreement)",
                        "wf_params: 1 < p odd, 0 < q, g^q = 1 mod p, |q| <= TMCG_MAX_FPOWM_T (primality of p, q is NOT needed by the theorems)",
                        "stream input modelled after parsing (three integers + in.good()); unparseable text makes operator>> throw and is "
                        "covered only by the implementation-level oracle (state unchanged)",
                        "the GroupQR variant's CheckElement (Jacobi symbol) is compared against the same model (a^q = 1): equal for safe primes by Euler's criterion",
                        "'removal restores' is proved under 'fingerprint not already stored'; the duplicate-add boundary is a _refuted theorem "
                        "(C08_remove_restores_duplicate_refuted), reproduced on the implementation by records, not an alarm"]
    vpl.proof_stage(res, LIBS)
    exe = vpl.build_harness("c08")
    drv = vpl.build_driver("C08")
    seeds = [seed] if tier == "quick" else [seed, seed + 1000]
    outs = []
    if replay and replay.get("replay", {}).get("record"):
        outs = [(seed, "replay", replay["replay"]["record"] + "\n")]
    else:
        jobs = [(s, p) for s in seeds for p in PARTS]
        def one(job):
            s, p = job
            return job, vpl.run_harness(exe, ["--tier", tier, "--seed", s, "--only", p], timeout=1500)
        with ThreadPoolExecutor(min(vpl.NPROC, len(jobs))) as ex:
            for (s, p), (rc, out, err) in ex.map(one, jobs):
                if rc != 0:
                    res.violation("harness-crash", "harness c08 (--only %s --seed %d) exited with %d: %s" % (p, s, rc, err[-800:]),
                                  dict(kind="harness", cmd="c08 --tier %s --seed %d --only %s" % (tier, s, p), stderr=err[-2000:]))
                outs.append((s, p, out))
    def corr(item):
        s, p, out = item
        r2 = vpl.Result(res.pid, tier, s)
        mism = correspond_chunks(r2, "C08", out, drv, tier, s, 2 if tier == "quick" else 4)
        props = [l for l in out.split("\n") if l.startswith("PROPFAIL ")]
        return (item, (mism, props), r2)
    with ThreadPoolExecutor(max(1, len(outs))) as ex:
        done = list(ex.map(corr, outs))
    for (s, p, out), (mism, props), r2 in done:
        for k in ("evaluations", "distinct_nontrivial", "disagreements"):
            res.cov[k] += r2.cov[k]
        for k, v in r2.cov.get("record_kinds", {}).items():
            d = res.cov.setdefault("record_kinds", {}); d[k] = d.get(k, 0) + v
        res.cov["samples"] += r2.cov["samples"][:2]
        for pl in props:
            parts = pl.split(" ", 2)
            res.violation(parts[1], "key generation property fails on the implementation: " + (parts[2] if len(parts) > 2 else ""),
                          dict(kind="propfail", harness="c08", seed=s, tier=tier, only=p, line=pl))
        for m in mism[:6]:
            mm = m.split(" :: ", 1)
            rec = mm[1] if len(mm) > 1 else ""
            res.violation("correspondence", "model and implementation disagree: " + m[:700],
                          dict(kind="correspondence", harness="c08", seed=s, tier=tier, only=p, record=rec, detail=m[:3000]),
                          found_input=bool(rec))
