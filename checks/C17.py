# C17 -- Distributed coin flips are common and bound by commitments (DESIGN.md §5 C17)
import vpl, json
from concurrent.futures import ThreadPoolExecutor

LEVEL = "proof"
LIBS = ["CoinFlipLemmas.vo", "CoinFlipNLemmas.vo"]

def par_correspond(res, pid, out, drv, nchunks=14):
    """vpl.correspond with the records split over parallel driver processes (the extracted arithmetic is slow)"""
    lines = out.split("\n")
    recs = [l for l in lines if l.startswith("REC ")]
    rest = "\n".join(l for l in lines if not l.startswith("REC "))
    chunks = [recs[i::nchunks] for i in range(nchunks)]
    chunks = [c for c in chunks if c]
    mism, props = [], []
    def one(c):
        sub = vpl.Result(pid, res.tier, res.seed)
        m, _ = vpl.correspond(sub, pid, "\n".join(c) + "\n", drv)
        return sub, m
    with ThreadPoolExecutor(nchunks) as ex:
        for sub, m in ex.map(one, chunks):
            mism += m
            for k in ("evaluations", "distinct_nontrivial", "disagreements"):
                res.cov[k] += sub.cov[k]
            d = res.cov.setdefault("record_kinds", {})
            for k, v in sub.cov.get("record_kinds", {}).items():
                d[k] = d.get(k, 0) + v
            if len(res.cov["samples"]) < 12:
                res.cov["samples"] += sub.cov["samples"][:1]
    props = [l for l in rest.split("\n") if l.startswith("PROPFAIL ")]
    return mism, props

def run(res, tier, seed, replay):
    res.cov["rule"] = ("records = complete runs of the real JareckiLysyanskayaEDCF::Flip_twoparty (both roles) against a harness peer over a "
                       "recording stream pair (honest peer = second real party replayed in lock-step, mirror peer, the library's fault switch, "
                       "the C05 catalogue on commitment / a' / b', withheld and malformed lines); every record (peer lines -> ordered trace of "
                       "writes and reads + outcome) is recomputed by the extracted Coq automaton and compared; PROPFAIL = order, acceptance and "
                       "coin value checked on the implementation with plain GMP; flipN records = forked n-party Flip runs (all honest outputs "
                       "equal the sum over Qual, recomputed by the model's decision functions)")
    res.assumptions += ["synchrony / time-outs of the n-party protocol are not modelled (n-party: decision part + forked runs only)",
                        "iostream getline truncation at TMCG_MAX_VALUE_CHARS is not modelled (lines stay below it)",
                        "binding is a reduction to log_g h (explicit extractor), hiding is perfect for h in <g>; no computational claim is proved",
                        "valid group = what CheckGroup establishes; primality of q is a hypothesis of the theorems"]
    vpl.proof_stage(res, LIBS)
    exe = vpl.build_harness("c17")
    drv = vpl.build_driver("C17")
    seeds = [seed] if tier == "quick" else [seed + 1000 * k for k in range(3)]
    outs = []
    if replay and replay.get("replay", {}).get("record"):
        outs = [(seed, replay["replay"]["record"] + "\n")]
    else:
        jobs = [(s, "twoparty") for s in seeds]
        nparts = 1 if tier == "quick" else 8
        jobs += [(seed, "nparty:%d/%d" % (k, nparts)) for k in range(nparts)]
        def one(job):
            s, only = job
            return s, vpl.run_harness(exe, ["--tier", tier, "--seed", s, "--only", only], timeout=2400)
        with ThreadPoolExecutor(12) as ex:
            for s, (rc, out, err) in ex.map(one, jobs):
                if rc == -9:
                    # the harness group exceeded the check's own time limit: timing is not modelled, never an alarm
                    res.notes.append("harness group did not finish within the time limit (inconclusive): seed %s" % s)
                elif rc != 0:
                    res.violation("harness-crash", "harness c17 exited with %d: %s" % (rc, err[-800:]),
                                  dict(kind="harness", cmd="c17 --tier %s --seed %d" % (tier, s), stderr=err[-2000:]))
                outs.append((s, out))
                for l in err.split("\n"):
                    if "inconclusive" in l or "no conclusive" in l:
                        res.notes.append(l[:300])
    for s, out in outs:
        mism, props = par_correspond(res, "C17", out, drv)
        for p in props:
            parts = p.split(" ", 2)
            res.violation(parts[1], "coin-flip property fails on the implementation: " + parts[2][:1500],
                          dict(kind="propfail", harness="c17", seed=s, tier=tier, line=p))
        for m in mism[:10]:
            mm = m.split(" :: ", 1)
            rec = mm[1] if len(mm) > 1 else ""
            res.violation("correspondence", "model and implementation disagree: " + m[:700],
                          dict(kind="correspondence", harness="c17", seed=s, tier=tier, record=rec, detail=m[:2000]),
                          found_input=bool(rec))
