# C06 -- Parameter validation accepts exactly well-formed groups (DESIGN.md §5 C06)
import vpl, json
from concurrent.futures import ThreadPoolExecutor

LEVEL = "proof"
LIBS = ["CheckGroupLemmas.vo", "CheckGroupCyclic.vo"]

def jobs(tier, seed):
    """independent harness processes: (part, shard, seed)"""
    seeds = [seed] if tier == "quick" else [seed, seed + 1000]
    js = []
    for s in seeds:
        js += [("prims", "0/1", s), ("elem", "0/1", s), ("own", "0/1", s), ("many", "0/1", s)]
        js += [("small", "%d/4" % i, s) for i in range(4)]
    js += [("big", "%d/6" % i, seed) for i in range(6)]
    return js

def run(res, tier, seed, replay):
    res.cov["rule"] = ("records = real CheckGroup()/CheckElement() calls of every parameter-carrying class (17 classes) on a valid set and on "
                       "every corruption of the catalogue (degenerate values 0/1/2/negated for every field, composite p or q with the "
                       "relation intact, wrong relation, short p or q, q | k, generators 0,1,2,p-1,p,p+1,-1,x+p,x-p,p-x, non-member, "
                       "coinciding generators, non-derived generator; commitment schemes with 255, 256, 257, 258, 300, 512 generators corrupted at index 0, 255, 256, last), CheckElement exhaustively on -2..p+2 for p < 2^12; every verdict on a "
                       "group of at most 72 bits is recomputed by the extracted Coq model; PROPFAIL = verdict differs from the declarative "
                       "oracle of the harness (plain GMP), on groups up to 512/160 bits (quick) and 1024/160 bits (thorough)")
    res.assumptions += ["mpz_probab_prime_p is a correct primality test (premise prime_test_correct of the theorems; the driver uses trial "
                        "division below 2^20 and GMP above)",
                        "tmcg_mpz_shash is an arbitrary function of the byte string (hash oracle table printed by the harness); the Jacobi "
                        "symbol is an arbitrary function in check_group_qr_iff and satisfies Euler's criterion in C06_qr_generator_order",
                        "cyclicity of the q-torsion is proved (C06_qtorsion_is_cyclic) and additionally tested exhaustively for p < 2^12",
                        "GrothVSSHE is covered by the implementation-level oracle only (its CheckGroup is the commitment scheme's plus a size test)"]
    vpl.proof_stage(res, LIBS)
    exe = vpl.build_harness("c06")
    drv = vpl.build_driver("C06")
    if replay and replay.get("replay", {}).get("record"):
        outs = [(("replay", "0/1", seed), 0, replay["replay"]["record"] + "\n", "")]
    else:
        js = jobs(tier, seed)
        if replay and replay.get("replay", {}).get("part"):
            r = replay["replay"]
            js = [(r["part"], r.get("shard", "0/1"), int(r.get("seed", seed)))]
        def one(j):
            part, shard, s = j
            rc, out, err = vpl.run_harness(exe, ["--tier", tier, "--seed", s, "--part", part, "--shard", shard], timeout=1700)
            return (j, rc, out, err)
        with ThreadPoolExecutor(vpl.NPROC) as ex:
            outs = list(ex.map(one, js))
    nobs = 0
    for (part, shard, s), rc, out, err in outs:
        rp = dict(harness="c06", part=part, shard=shard, seed=s, tier=tier)
        if rc != 0:
            res.violation("harness-crash", "harness c06 --part %s --shard %s --seed %d exited with %d: %s" % (part, shard, s, rc, err[-800:]),
                          dict(kind="harness", stderr=err[-2000:], **rp))
        nobs += sum(1 for l in out.split("\n") if l.startswith("OBSERVE "))
        mism, props = vpl.correspond(res, "C06", out, drv)
        for p in props:
            parts = p.split(" ", 2)
            res.violation(parts[1], "group/element validation disagrees with the property on the implementation: " + parts[2][:1200],
                          dict(kind="propfail", line=p[:4000], **rp))
        for m in mism[:10]:
            mm = m.split(" :: ", 1)
            rec = mm[1] if len(mm) > 1 else ""
            res.violation("correspondence", "model and implementation disagree: " + m[:600],
                          dict(kind="correspondence", record=rec, detail=m[:2000], **rp), found_input=bool(rec))
    res.notes.append("observations (not violations): %d acceptances of a negated subgroup order (|q| prime, relation intact)" % nobs)
