# C20 -- OpenPGP signatures and encryption are tamper-evident (DESIGN.md §5 C20)
import vpl, re
from concurrent.futures import ThreadPoolExecutor

LEVEL = "proof"
LIBS = ["PgpCodecLemmas.vo", "PgpSigLemmas.vo"]
PARTS = ["hash", "validity", "sigfields", "sig-rsa", "sig-dsa", "sig-ecdsa", "sig-eddsa", "enc-mdc", "enc-aead", "aead-nonce", "pke"]

def run(res, tier, seed, replay):
    res.cov["rule"] = ("records = octets given to the hash function for every signature kind (document, text, standalone, certification, "
                       "key, subkey binding; v3/v4/v5) and CheckValidity verdicts on generated creation/expiry/key times around every "
                       "threshold, recomputed by the extracted Coq model; PROPFAIL = the property on the implementation: honest signatures "
                       "(RSA, DSA, ECDSA, EdDSA x SHA-256/384/512 x binary/text) verify, every flipped octet of signature packet, data "
                       "and key is refused, expired / too old / future / weak-hash signatures are refused; SEIPD+MDC and AEAD (OCB, EAX x 7 "
                       "ciphers x chunk sizes x lengths around chunk boundaries) decrypt to the plaintext, every flipped octet, reordered / "
                       "dropped / duplicated chunk, dropped final tag, changed associated data, IV or key is refused, data without "
                       "integrity protection is refused; RSA / ElGamal / ECDH session-key wrapping round-trips and rejects changed ciphertexts")
    res.assumptions += ["hash functions, ciphers, AEAD modes and public-key primitives (libgcrypt) are idealised parameters of the theorems "
                        "(universally quantified); the harness exercises the real ones",
                        "a tampered signature packet that parses to exactly the same signature (same hashed area, algorithms, left 16 bits "
                        "and MPI values, e.g. a changed MPI bit count) is counted as another encoding of the same signature, not as a forgery",
                        "key generation uses libgcrypt's own RNG (transient keys): PROPFAIL cases are not bit-reproducible across runs, "
                        "REC records are (they use no generated keys)",
                        "key-block level checks (CheckSelfSignatures, CheckSubkeys) and GnuPG cross-verification are not covered (see docs/C20.md)"]
    vpl.proof_stage(res, LIBS)
    exe = vpl.build_harness("c20")
    drv = vpl.build_driver("C20")
    if replay and replay.get("replay", {}).get("record"):
        outs = [("replay", replay["replay"]["record"] + "\n")]
    else:
        def one(p):
            rc, out, err = vpl.run_harness(exe, ["--tier", tier, "--seed", seed, "--only", p], timeout=1700)
            return (p, rc, out, err)
        with ThreadPoolExecutor(len(PARTS)) as ex:
            rs = list(ex.map(one, PARTS))
        outs = []
        for p, rc, out, err in rs:
            if rc != 0 or "\nCASES " not in "\n" + out:
                res.violation("harness-crash", "harness c20 --only %s exited with %d: %s" % (p, rc, err[-800:]),
                              dict(kind="harness", cmd="c20 --tier %s --seed %d --only %s" % (tier, seed, p), stderr=err[-2000:]))
            outs.append((p, out))
    ncases = nbenign = 0
    for p, out in outs:
        mism, props = vpl.correspond(res, "C20", out, drv)
        m = re.search(r"^CASES (\d+) BENIGN (\d+)", out, re.M)
        if m:
            ncases += int(m.group(1)); nbenign += int(m.group(2))
        seen = set()
        for pl in props:
            parts = pl.split(" ", 2)
            if parts[1] in seen:
                continue
            seen.add(parts[1])
            res.violation(parts[1], "OpenPGP signature/encryption property fails on the implementation: " + (parts[2] if len(parts) > 2 else "")[:1500],
                          dict(kind="propfail", harness="c20", seed=seed, tier=tier, part=p, line=pl[:6000]))
        for m_ in mism[:6]:
            mm = m_.split(" :: ", 1)
            rec = mm[1] if len(mm) > 1 else ""
            kind = m_.split(" ")[2] if len(m_.split(" ")) > 2 else "?"
            res.violation("correspondence-" + kind, "model and implementation disagree: " + m_[:700],
                          dict(kind="correspondence", harness="c20", seed=seed, tier=tier, part=p, record=rec[:20000], detail=m_[:3000]),
                          found_input=bool(rec))
    res.cov["implementation_oracle_cases"] = ncases
    res.cov["benign_reencodings"] = nbenign
