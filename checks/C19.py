# C19 -- OpenPGP encodings conform to the standard and round-trip (DESIGN.md §5 C19)
import vpl, os, re, subprocess, tempfile, shutil, binascii
from concurrent.futures import ThreadPoolExecutor

LEVEL = "proof"
LIBS = ["PgpCodecLemmas.vo", "PgpArmorLemmas.vo", "PgpPacketLemmas.vo"]
PARTS = ["r64", "crc", "armor", "len", "mpi", "s2kcnt", "s2k", "fpr", "pkt", "prep"]

def s2k_slices(tier):
    # the 256 coded counts: hashing cost doubles every 16 codes; spread over processes, heavy codes in small slices
    if tier == "quick":
        return ["s2k:0-95", "s2k:96-143", "s2k:144-175", "s2k:176-191", "s2k:192-199", "s2k:200-207"] + \
               ["s2k:%d-%d" % (c, c) for c in (208, 215, 223, 224, 231, 239, 240, 247, 255)]
    sl = ["s2k:0-127", "s2k:128-159", "s2k:160-175", "s2k:176-191"]
    sl += ["s2k:%d-%d" % (c, c + 3) for c in range(192, 224, 4)]
    sl += ["s2k:%d-%d" % (c, c) for c in range(224, 256)]
    return sl

def unx(tok):
    return binascii.unhexlify(tok[1:]) if tok.startswith("x") else b""

def gpg_home():
    d = os.path.join(vpl.BUILD, "gnupg-c19")
    os.makedirs(d, exist_ok=True)
    os.chmod(d, 0o700)
    return d

def run_gpg(args, data):
    env = dict(os.environ); env["GNUPGHOME"] = gpg_home(); env["LC_ALL"] = "C"
    try:
        p = subprocess.run(["gpg", "--batch", "--no-tty", "--no-options", "--no-auto-check-trustdb"] + args, input=data,
                           capture_output=True, timeout=60, env=env)
        return p.returncode, p.stdout, p.stderr
    except Exception as e:
        return -1, b"", str(e).encode()

def gpg_available():
    if not shutil.which("gpg"):
        return False
    rc, out, err = run_gpg(["--version"], b"")
    return rc == 0

def gpg_judge(res, lines, seed, tier):
    """GnuPG as an additional, non-proof judge of emitted artefacts (RFC 4880 subset)"""
    cases = [l for l in lines if l.startswith("GPGCASE ") or l.startswith("GPGARMOR ")]
    if not cases:
        return 0
    if not gpg_available():
        res.notes.append("gpg not usable in this environment: GnuPG judge skipped")
        return 0
    def one(l):
        t = l.split(" ")
        if t[0] == "GPGARMOR":
            rc, out, err = run_gpg(["--dearmor"], unx(t[1]))
            if rc != 0 or out != unx(t[2]):
                return ("gpg-armor", "gpg --dearmor does not recover the armored octets (rc=%d): %s" % (rc, l[:300]), l)
            return None
        kind, pkt, exp = t[1], unx(t[2]), [unx(e).decode("latin-1") for e in t[3].split("|")]
        rc, out, err = run_gpg(["--list-packets"], pkt)
        txt = out.decode("latin-1")
        if rc != 0:
            return ("gpg-" + kind, "gpg --list-packets rejects an emitted %s packet (rc=%d, %s): %s" % (kind, rc, err.decode("latin-1")[-200:], t[2][:200]), l)
        missing = [e for e in exp if e not in txt]
        if missing:
            return ("gpg-" + kind, "gpg --list-packets reads an emitted %s packet differently: expected %r in %r (packet %s)" % (kind, missing[0], txt[:400], t[2][:200]), l)
        return None
    with ThreadPoolExecutor(8) as ex:
        out = list(ex.map(one, cases))
    for r in out:
        if r:
            res.violation(r[0], r[1], dict(kind="gpg", harness="c19", seed=seed, tier=tier, line=r[2][:4000]))
    return len(cases)

def run(res, tier, seed, replay):
    res.cov["rule"] = ("records = real Radix64/CRC24/Armor/PacketLength/PacketBodyExtract/MPI/String/Fingerprint/Packet*Encode calls on "
                       "generated inputs (all octet strings of length <= 1, length 2 sampled (quick) or all (thorough), every length up to "
                       "200/300 incl. the wrap boundaries, lengths around 191/192, 8383/8384, 2^16, 2^32-1, every first length octet x "
                       "format x truncation, all 256 S2K count octets) and on mutated texts; every record is recomputed by the extracted Coq "
                       "model (written from RFC 4880) and compared octet for octet; PROPFAIL = a round-trip/refusal property failing on the "
                       "implementation itself; GnuPG (--list-packets, --dearmor) judges emitted packets and armor of the RFC 4880 subset")
    res.assumptions += ["hash functions (SHA-1, SHA-2, RIPEMD-160 of libgcrypt) are oracles: the model fixes the octets that are hashed "
                        "(fingerprint framing, S2K stream), not the digest",
                        "S2K: the model's count/stream are compared with the harness' RFC reference (records), and S2KCompute is compared "
                        "with that reference and with gcry_kdf_derive on the implementation (two-step link)",
                        "packets with elliptic-curve keys, v5 keys, secret keys and the signature-preparation functions are covered by the "
                        "implementation-level re-decoding oracle (PacketDecode) and, for the RFC 4880 subset, GnuPG; not by the model",
                        "ArmorDecode is modelled as implemented (std::string::find semantics); round trip (non-empty data, no comment/version "
                        "header) and the refusal theorems are proved for the model and tied to the code by the armenc/armdec records"]
    vpl.proof_stage(res, LIBS)
    exe = vpl.build_harness("c19")
    drv = vpl.build_driver("C19")
    if replay and replay.get("replay", {}).get("record"):
        outs = [(seed, "replay", replay["replay"]["record"] + "\n")]
    else:
        parts = PARTS + s2k_slices(tier)
        def one(p):
            rc, out, err = vpl.run_harness(exe, ["--tier", tier, "--seed", seed, "--only", p], timeout=1700)
            return (p, rc, out, err)
        with ThreadPoolExecutor(min(vpl.NPROC, len(parts))) as ex:
            rs = list(ex.map(one, parts))
        outs = []
        for p, rc, out, err in rs:
            if rc != 0 or "\nCASES " not in "\n" + out:
                res.violation("harness-crash", "harness c19 --only %s exited with %d: %s" % (p, rc, err[-800:]),
                              dict(kind="harness", cmd="c19 --tier %s --seed %d --only %s" % (tier, seed, p), stderr=err[-2000:]))
            outs.append((seed, p, out))
    ngpg = 0
    def corr(item):
        s, p, out = item
        sub = vpl.Result(res.pid, tier, seed)
        mism, props = vpl.correspond(sub, "C19", out, drv)
        return (s, p, out, sub, mism, props)
    with ThreadPoolExecutor(min(vpl.NPROC, max(1, len(outs)))) as ex:
        done = list(ex.map(corr, outs))
    ncases = 0
    for s, p, out, sub, mism, props in done:
        for k in ("evaluations", "distinct_nontrivial", "disagreements"):
            res.cov[k] += sub.cov[k]
        for k, v in sub.cov.get("record_kinds", {}).items():
            res.cov.setdefault("record_kinds", {})[k] = res.cov.setdefault("record_kinds", {}).get(k, 0) + v
        res.cov["samples"] += sub.cov["samples"][:2]
        m = re.search(r"^CASES (\d+)", out, re.M)
        if m: ncases += int(m.group(1))
        for pl in props:
            parts = pl.split(" ", 2)
            res.violation(parts[1], "OpenPGP codec property fails on the implementation: " + (parts[2] if len(parts) > 2 else "")[:1500],
                          dict(kind="propfail", harness="c19", seed=s, tier=tier, part=p, line=pl[:6000]))
        for m_ in mism[:6]:
            mm = m_.split(" :: ", 1)
            rec = mm[1] if len(mm) > 1 else ""
            kind = m_.split(" ")[2] if len(m_.split(" ")) > 2 else "?"
            res.violation("correspondence-" + kind, "RFC 4880 reference model and implementation disagree: " + m_[:700],
                          dict(kind="correspondence", harness="c19", seed=s, tier=tier, part=p, record=rec[:20000], detail=m_[:3000]),
                          found_input=bool(rec))
        ngpg += gpg_judge(res, out.split("\n"), s, tier)
    res.cov["implementation_oracle_cases"] = ncases
    res.cov["gpg_cases"] = ngpg
