# C15 -- Secret sharing and distributed key generation are consistent (DESIGN.md §5 C15)
import vpl, os

LEVEL = "proof"
LIBS = ["VssLemmas.vo", "VssLagrange.vo", "DkgLemmas.vo", "DkgRoundLemmas.vo"]

def run(res, tier, seed, replay):
    res.cov["rule"] = ("records = observations of forked n-party runs of PedersenVSS (Share/Reconstruct for every dealer), GJKR new-DKG (Generate) and "
                       "CGJKR DKG (Generate + Refresh) over pipes/aiounicast_select/RBC with 48..64-bit groups, n = 2..5 (7 thorough), every t with 2t < n, "
                       "faulty sets of size <= t using the library's simulate_faulty_behaviour switches, plus direct calls of tmcg_interpolate_polynom; every "
                       "record (commitments, dealt shares, complaint decision, receiver decision, reconstruction, x_i/y combination, interpolation) is recomputed by the "
                       "extracted Coq model; PROPFAIL = the property itself failing on the public results collected from all honest parties "
                       "(agreement on qualification/QUAL/y, shares vs commitments and verification keys, every (t+1)-subset interpolates to one secret with g^x = y, "
                       "reconstruction returns it, refresh keeps secret and key).  A failing scenario in which an honest party missed a message of an honest party is "
                       "repeated with 4x time-outs and reported only if it fails again.")
    res.assumptions += ["synchrony: messages between honest parties arrive before the time-out (6 s, 24 s on retry); real time is outside the Coq model (LEVEL proof is partial for timing)",
                        "the Coq model covers the Pedersen-VSS dealer/receiver/reconstruction functions, Lagrange/Newton interpolation and the key combination step; "
                        "the sharing phases of GJKR-DKG / CGJKR Joint-RVSS/ZVSS/refresh (QUAL computation from n parallel sharings) are covered by the implementation-level oracle only",
                        "faulty parties use the library's built-in deviation switches (wrong shares, false complaints, corrupted commitments, leaving the protocol = silence)",
                        "reliable broadcast is used as a black box (C14); with 3t >= n only runs without silent parties are made"]
    vpl.proof_stage(res, LIBS)
    exe = vpl.build_harness("c15")
    drv = vpl.build_driver("C15")
    if replay and replay.get("replay", {}).get("record"):
        outs = [(seed, replay["replay"]["record"] + "\n")]
    else:
        args = ["--tier", tier, "--seed", seed]
        if replay and replay.get("replay", {}).get("scenario"):
            args += ["--only", replay["replay"]["scenario"]]
        rc, out, err = vpl.run_harness(exe, args, timeout=3300)
        if rc != 0:
            res.violation("harness-crash", "harness c15 exited with %d: %s" % (rc, err[-800:]),
                          dict(kind="harness", cmd="c15 --tier %s --seed %d" % (tier, seed), stderr=err[-2000:]))
        outs = [(seed, out)]
    for s, out in outs:
        mism, props = vpl.correspond(res, "C15", out, drv)
        scn = [l for l in out.split("\n") if l.startswith("SCN ")]
        notes = [l for l in out.split("\n") if l.startswith("NOTE ")]
        res.cov["scenarios"] = res.cov.get("scenarios", 0) + len(scn)
        res.cov["scenario_kinds"] = {k: sum(1 for l in scn if l.split()[1].startswith(k + "/")) for k in ("vss", "dkg", "cgjkr", "pure")}
        res.notes += [n[:300] for n in notes[:20]]
        for p in props:
            parts = p.split(" ", 2)
            txt = parts[2] if len(parts) > 2 else ""
            scenario = txt.split(" ")[0] if txt else ""
            res.violation(parts[1], "property fails on the implementation: " + txt,
                          dict(kind="propfail", harness="c15", seed=s, tier=tier, scenario=scenario, line=p,
                               cmd="VERIF_SEED=%d build/bin/c15-* --tier %s --only '%s'" % (s, tier, scenario)))
        for m in mism[:10]:
            mm = m.split(" :: ", 1)
            rec = mm[1] if len(mm) > 1 else ""
            res.violation("correspondence", "model and implementation disagree: " + m[:600],
                          dict(kind="correspondence", harness="c15", seed=s, tier=tier, record=rec, detail=m[:2000]),
                          found_input=bool(rec))
