# C01 -- Opening a masked card returns the type it was created with (DESIGN.md §5 C01)
import vpl
from concurrent.futures import ThreadPoolExecutor

LEVEL = "proof"
LIBS = ["PowmLemmas.vo", "VtmfLemmas.vo", "VtmfCount.vo", "TmcgLemmas.vo"]

def chunks(lst, k):
    n = max(1, (len(lst) + k - 1) // k)
    return [lst[i:i + n] for i in range(0, len(lst), n)]

def par_correspond(res, recs, drv, jobs):
    """like vpl.correspond, but the records are split into chunks recomputed by parallel model drivers"""
    # interleave so that the expensive records (long chains, 10 type bits) spread over the drivers
    parts = [recs[i::jobs] for i in range(jobs)] if recs else []
    parts = [p for p in parts if p]
    def one(part):
        rc, out, err = vpl.run_driver(drv, "\n".join(part) + "\n", timeout=3000)
        mism = [l for l in out.split("\n") if l.startswith("MISMATCH ")]
        nok = sum(1 for l in out.split("\n") if l.startswith("OK"))
        if rc != 0 or nok + len(mism) != len(part):
            mism.append("MISMATCH driver-failure rc=%d ok=%d mism=%d recs=%d %s" % (rc, nok, len(mism), len(part), err[-500:]))
        return mism
    mism = []
    with ThreadPoolExecutor(jobs) as ex:
        for m in ex.map(one, parts):
            mism += m
    res.cov["evaluations"] += len(recs)
    res.cov["distinct_nontrivial"] += len(set(recs))
    res.cov["disagreements"] += len(mism)
    d = res.cov.setdefault("record_kinds", {})
    for l in recs:
        k = l.split(" ", 2)[1]
        d[k] = d.get(k, 0) + 1
    step = max(1, len(recs) // 4)
    for l in recs[::step][:4]:
        res.cov["samples"].append(l[:300])
    return mism

def run(res, tier, seed, replay):
    res.cov["rule"] = ("records = calls on real BarnettSmartVTMF_dlog / _GroupQR instances (one per player, stream constructor, generated "
                       "32..96-bit groups) and real SchindelhauerTMCG objects with generated keys: key shares, common key, index elements, "
                       "masking, every re-masking step, decryption shares, finalisation, type search, and whole runs (create T, mask chain, "
                       "open with all / some shares); each is recomputed by the extracted Coq model; non-trivial = textually distinct; "
                       "PROPFAIL = the implementation opening a card to something else than T (all shares) or than the exactly "
                       "predicted value (shares withheld), incl. 256..1024-bit groups and 1024-bit keys")
    res.assumptions += [
        "discrete-log encoding: admissible group = odd p, prime q, g of order q (what CheckGroup establishes; primality by Miller-Rabin); "
        "exponents within the fixed-base tables (bitlen <= bitlen q, what MaskingValue/key generation produce); 2^w <= q",
        "the zero-knowledge proofs attached to shares and keys are C03/C04's subject: here verified shares are the honest values",
        "quadratic-residue encoding: the residuosity test of each player is an abstract oracle satisfying the algebra of a valid key "
        "(premises of C01_tmcg_open); that tmcg_mpz_qrmn_p computes it is checked by correspondence (Euler's criterion in the driver), "
        "key validity is C10's subject",
        "'up to negligible probability' is made exact: a missing share gives (T + R*x) mod q if that is < 2^w, else the sentinel; counting form proved (1 / 2^w-1 / q-2^w of the q residues R)"]
    vpl.proof_stage(res, LIBS)
    exe = vpl.build_harness("c01")
    drv = vpl.build_driver("C01")
    th = (tier == "thorough")
    if replay and replay.get("replay", {}).get("record"):
        outs = [("replay", replay["replay"]["record"] + "\n")]
    else:
        jobs = []
        nv = 4 if th else 2
        for i in range(nv):
            jobs.append(("vtmf", ["--only", "vtmf"], seed + 1000 * i))
        jobs.append(("vbig", ["--only", "vbig"], seed))
        for i in range(3 if th else 1):
            jobs.append(("tmcg", ["--only", "tmcg"], seed + 1000 * i))
        def runjob(j):
            name, args, s = j
            rc, out, err = vpl.run_harness(exe, ["--tier", tier, "--seed", s] + args, timeout=2400)
            return (name, args, s, rc, out, err)
        outs = []
        with ThreadPoolExecutor(vpl.NPROC) as ex:
            for name, args, s, rc, out, err in ex.map(runjob, jobs):
                cmd = "c01 --tier %s --seed %d %s" % (tier, s, " ".join(str(a) for a in args))
                if rc != 0 or not out.rstrip().endswith("DONE " + name):
                    res.violation("harness-crash-" + name, "harness section %s exited with %d: %s" % (name, rc, err[-800:]),
                                  dict(kind="harness", cmd=cmd, stderr=err[-2000:]))
                outs.append((cmd, out))
    allrecs = []
    for cmd, out in outs:
        for l in out.split("\n"):
            if l.startswith("PROPFAIL "):
                parts = l.split(" ", 2)
                res.violation(parts[1], "property fails on the implementation: " + (parts[2] if len(parts) > 2 else ""),
                              dict(kind="propfail", harness="c01", cmd=cmd, seed=seed, tier=tier, line=l[:3000]))
            elif l.startswith("REC "):
                allrecs.append(l)
    mism = par_correspond(res, allrecs, drv, vpl.NPROC)
    seen = {}
    for m in mism:
        kind = m.split(" ")[2] if len(m.split(" ")) > 2 else "?"
        seen[kind] = seen.get(kind, 0) + 1
        if seen[kind] > 2:
            continue
        mm = m.split(" :: ", 1)
        rec = mm[1] if len(mm) > 1 else ""
        res.violation("correspondence-" + kind, "model and implementation disagree: " + m[:600],
                      dict(kind="correspondence", harness="c01", seed=seed, tier=tier, record=rec[:4000], detail=m[:2000]),
                      found_input=False)
