# C09 -- Arithmetic primitives agree with their mathematical definition (DESIGN.md §5 C09)
import vpl, os
from concurrent.futures import ThreadPoolExecutor

LEVEL = "proof"
LIBS = ["PowmLemmas.vo", "SqrtLemmas.vo", "InterpLemmas.vo", "PrimeLemmas.vo"]

def chunks(lst, k, block=128):
    """block-wise round robin: neighbouring records (same table) stay together, expensive regions are spread over the drivers"""
    parts = [[] for _ in range(k)]
    for i in range(0, len(lst), block):
        parts[(i // block) % k] += lst[i:i + block]
    return [p for p in parts if p]

def par_correspond(res, recs, drv, jobs):
    """like vpl.correspond, but the records are split into contiguous chunks recomputed by parallel model drivers"""
    parts = chunks(recs, jobs) if recs else []
    def one(part):
        rc, out, err = vpl.run_driver(drv, "\n".join(part) + "\n", timeout=3000)
        mism = [l for l in out.split("\n") if l.startswith("MISMATCH ")]
        nok = sum(1 for l in out.split("\n") if l.startswith("OK"))
        if rc != 0 or nok + len(mism) != len(part):
            mism.append("MISMATCH driver-failure rc=%d ok=%d mism=%d recs=%d %s" % (rc, nok, len(mism), len(part), err[-500:]))
        return mism
    mism = []
    with ThreadPoolExecutor(jobs) as ex:
        for m in ex.map(one, parts):
            mism += m
    res.cov["evaluations"] += len(recs)
    res.cov["distinct_nontrivial"] += len(set(recs))
    res.cov["disagreements"] += len(mism)
    d = res.cov.setdefault("record_kinds", {})
    for l in recs:
        k = l.split(" ", 2)[1]
        d[k] = d.get(k, 0) + 1
    step = max(1, len(recs) // 4)
    for l in recs[::step][:4]:
        res.cov["samples"].append(l[:300])
    return mism

def run(res, tier, seed, replay):
    res.cov["rule"] = ("records = real calls of tmcg_mpz_spowm/fpowm/fpowm_ui/fspowm/fpowm_precompute, mpz_invert, tmcg_mpz_sqrtmp(_r), "
                       "tmcg_mpz_sqrtmn(_all,_fast,_fast_all), tmcg_interpolate_polynom on exhaustive small domains and boundary-aimed "
                       "generated inputs; every record is recomputed by the extracted Coq model and compared; a record counts as "
                       "non-trivial if textually distinct; PROPFAIL = the property itself (agreement with GMP's mpz_powm, roots squaring "
                       "back, interpolated points reproduced, generator relations, lossless conversion, back ends agreeing) failing on the implementation")
    res.assumptions += [
        "moduli are positive (GMP precondition); the non-residue used by the square-root routines is an input of the model "
        "(obtained by the harness exactly as the code obtains it) and enters the theorems through Euler's criterion b^((p-1)/2) = -1",
        "'a is a quadratic residue' enters the square-root theorems as a^((p-1)/2) = 1 (mod p), the test of Euler/Legendre",
        "prime generators, mpz<->gcry_mpi conversion, TMCG_Bigint and tmcg_mpz_sqrtmp_fast are covered by the implementation-level "
        "oracle only (testing against mpz_probab_prime_p / GMP, not proof)",
        "interpolation: proved for the modelled algorithm in full (distinct abscissae modulo a prime); tmcg_mpz_sprime* sieve not modelled"]
    vpl.proof_stage(res, LIBS)
    exe = vpl.build_harness("c09")
    drv = vpl.build_driver("C09")
    th = (tier == "thorough")
    jobs = []
    if replay and replay.get("replay", {}).get("record"):
        outs = [("replay", replay["replay"]["record"] + "\n")]
    else:
        npow = 8 if th else 2
        nsq = 6 if th else 2
        for i in range(npow): jobs.append(("pow", ["--only", "pow", "--part", i, "--parts", npow]))
        for i in range(nsq): jobs.append(("sqrt", ["--only", "sqrt", "--part", i, "--parts", nsq]))
        for s in ("tab", "big", "interp", "prime", "conv", "bigint"):
            jobs.append((s, ["--only", s]))
        def runjob(j):
            name, args = j
            rc, out, err = vpl.run_harness(exe, ["--tier", tier, "--seed", seed] + args, timeout=2400)
            return (name, args, rc, out, err)
        outs = []
        with ThreadPoolExecutor(vpl.NPROC) as ex:
            for name, args, rc, out, err in ex.map(runjob, jobs):
                cmd = "c09 --tier %s --seed %d %s" % (tier, seed, " ".join(str(a) for a in args))
                if rc != 0 or not out.rstrip().endswith("DONE " + name):
                    res.violation("harness-crash-" + name, "harness section %s exited with %d: %s" % (name, rc, err[-800:]),
                                  dict(kind="harness", cmd=cmd, stderr=err[-2000:]))
                outs.append((cmd, out))
    allrecs = []
    for cmd, out in outs:
        for l in out.split("\n"):
            if l.startswith("PROPFAIL "):
                parts = l.split(" ", 2)
                res.violation(parts[1], "property fails on the implementation: " + (parts[2] if len(parts) > 2 else ""),
                              dict(kind="propfail", harness="c09", cmd=cmd, seed=seed, tier=tier, line=l[:3000]))
            elif l.startswith("REC "):
                allrecs.append(l)
    mism = par_correspond(res, allrecs, drv, vpl.NPROC)
    seen = {}
    for m in mism:
        kind = m.split(" ")[2] if len(m.split(" ")) > 2 else "?"
        seen[kind] = seen.get(kind, 0) + 1
        if seen[kind] > 2:
            continue
        mm = m.split(" :: ", 1)
        rec = mm[1] if len(mm) > 1 else ""
        # a disagreement between model and code: the theorems no longer speak about this code.  The harness evaluates the
        # property on every record it prints, so a failing input (if any) is reported separately as PROPFAIL.
        res.violation("correspondence-" + kind, "model and implementation disagree: " + m[:600],
                      dict(kind="correspondence", harness="c09", seed=seed, tier=tier, record=rec, detail=m[:2000]),
                      found_input=False)
