# C05 -- Proofs bind every public input and every transmitted value (DESIGN.md §5 C05)
import vpl, re
from concurrent.futures import ThreadPoolExecutor

LEVEL = "proof"
LIBS = ["FsLemmas.vo", "VtmfVerLemmas.vo", "SkcLemmas.vo"]
GROUPS = ["rec", "vtmf", "cutchoose", "groth", "hoogh", "pedersen", "qr"]
# every proof system the grid must have exercised (an honest accepted transcript found and mutated)
EXPECTED = ["keynizk", "keyint", "keypc", "mask", "remask", "decrypt", "or", "maskcard", "cardsecret", "cutchoose", "cutchoose_cyc",
            "groth_int", "groth_ni", "hoogh_int", "hoogh_ni", "pedersen", "qr_cutchoose", "qr_cutchoose_cyc", "qr_maskcard", "qr_cardsecret"]

def par_correspond(res, out, drv, n=14):
    """vpl.correspond, with the records spread over n driver processes (the extracted model does 256-bit
    exponentiations in Coq's binary integers)"""
    recs = [l for l in out.split("\n") if l.startswith("REC ")]
    chunks = [recs[i::n] for i in range(n)]
    chunks = [c for c in chunks if c]
    def one(c):
        return c, vpl.run_driver(drv, "\n".join(c) + "\n")
    with ThreadPoolExecutor(n) as ex:
        outs = list(ex.map(one, chunks))
    mism = []
    for c, (rc, o, e) in outs:
        mm = [l for l in o.split("\n") if l.startswith("MISMATCH ")]
        nok = sum(1 for l in o.split("\n") if l.startswith("OK"))
        if rc != 0 or nok + len(mm) != len(c):
            mm.append("MISMATCH driver-failure rc=%d ok=%d mism=%d recs=%d %s" % (rc, nok, len(mm), len(c), e[-500:]))
        mism += mm
    res.cov["evaluations"] += len(recs)
    res.cov["distinct_nontrivial"] += len(set(recs))
    res.cov["disagreements"] += len(mism)
    d = res.cov.setdefault("record_kinds", {})
    for l in recs:
        k = l.split()[1]
        d[k] = d.get(k, 0) + 1
    step = max(1, len(recs) // 6)
    for l in recs[::step][:6]:
        res.cov["samples"].append(l[:400])
    return mism

def run(res, tier, seed, replay):
    res.cov["rule"] = ("grid: for every proof system an accepted transcript of the honest prover is produced in-process (interactive ones with "
                       "a recorded verifier coin stream), then every token position is replaced by every entry of the fixed catalogue (+1, other "
                       "residue, 0, 1, p-1, p, q, v+q, v-q, -v, p-v (non-member), 2^2049, v+q*2^|q|, v+p, swap with neighbour, truncation) and every "
                       "public input (card components of both stacks, p, q, g, h, keys, commitment generators in use) is changed; the real verifier "
                       "must refuse (false or exception) every mutant except a negative representative of the same residue (DESIGN O3); "
                       "re-proved oracle: every group-element public input is replaced for prover and verifier by p-v, v*u (u of order dividing "
                       "(p-1)/q), v+p and the honest prover code makes >= 24 fresh proofs: any acceptance is a PROPFAIL; "
                       "PROPFAIL = an accepted mutant.  records: real hash-input strings and real VTMF verifier verdicts on honest and mutated "
                       "inputs, recomputed by the extracted Coq model (hash given as the logged oracle table)")
    res.assumptions += ["random-oracle step: when a mutation changes the Fiat-Shamir hash input, rejection rests on H(x') <> c' (not a theorem)",
                        "Coq model covers fs_ser and the VTMF-layer verifiers (key NIZK, CP_Verify, masking, re-masking, decryption share, OR); "
                        "Groth shuffle, rotation, PUB-ROT, Pedersen, cut-and-choose and the Rabin-key NIZK are covered by the implementation-level "
                        "mutation grid only (testing, not proof)",
                        "interactive proofs: the man in the middle is modelled by replaying the recorded prover messages with one value replaced "
                        "against the verifier run with the same coin stream"]
    vpl.proof_stage(res, LIBS)
    exe = vpl.build_harness("c05")
    drv = vpl.build_driver("C05")
    seeds = [seed] if tier == "quick" else [seed, seed + 1000]
    jobs = []
    if replay and replay.get("replay", {}).get("group"):
        r = replay["replay"]
        jobs = [(r["group"], int(r.get("seed", seed)), r.get("system", ""))]
    else:
        for s in seeds:
            for g in GROUPS:
                jobs.append((g, s, ""))
    def one(job):
        g, s, system = job
        args = ["--tier", tier, "--seed", s, "--only", g]
        if system:
            args += ["--replay", system]
        rc, out, err = vpl.run_harness(exe, args, timeout=2400)
        return job, rc, out, err
    with ThreadPoolExecutor(vpl.NPROC) as ex:
        results = list(ex.map(one, jobs))
    seen_keys = {}
    systems = {}
    allrecs = []
    for (g, s, system), rc, out, err in results:
        if rc != 0 or ("DONE" not in out):
            res.violation("harness-crash." + g, "harness c05 --only %s --seed %d exited with %d (a verifier crashed instead of refusing, or the harness "
                          "could not run): %s" % (g, s, rc, err[-800:]),
                          dict(kind="harness", group=g, seed=s, tier=tier, stderr=err[-2000:]))
        for line in out.split("\n"):
            if line.startswith("PROPFAIL "):
                parts = line.split(" ", 2)
                key = parts[1]
                if key in seen_keys:
                    seen_keys[key] += 1
                    continue
                seen_keys[key] = 1
                res.violation(key, "binding fails on the implementation: " + parts[2][:1200],
                              dict(kind="propfail", harness="c05", group=g, system=key.split(".")[0], seed=s, tier=tier, line=line[:3000]))
            elif line.startswith("GRID "):
                m = re.match(r"GRID (\S+) runs=(\d+) atoms=(\d+) mutants=(\d+) rejected=(\d+) thrown=(\d+) tolerated=(\d+) knobmut=(\d+) fails=(\d+)", line)
                if m:
                    d = systems.setdefault(m.group(1), dict(runs=0, atoms=0, mutants=0, rejected=0, thrown=0, tolerated=0, knobmut=0, fails=0))
                    for i, k in enumerate(["runs", "atoms", "mutants", "rejected", "thrown", "tolerated", "knobmut", "fails"]):
                        d[k] += int(m.group(i + 2))
            elif line.startswith("REPROVED "):
                m = re.match(r"REPROVED (\S+) attempts=(\d+) thrown=(\d+)", line)
                if m:
                    d = res.cov.setdefault("reproved", {})
                    d[m.group(1)] = d.get(m.group(1), 0) + int(m.group(2))
                    res.cov["evaluations"] += int(m.group(2))
            elif line.startswith("NOTE ") or line.startswith("OBS "):
                if line not in res.notes and len(res.notes) < 60:
                    res.notes.append(line[:300])
        allrecs.append((g, s, out))
    res.cov["grid"] = systems
    res.cov["evaluations"] += sum(d["mutants"] for d in systems.values())
    res.cov["distinct_nontrivial"] += sum(d["mutants"] for d in systems.values())
    res.cov["propfail_counts"] = seen_keys
    if not (replay and replay.get("replay", {}).get("group")):
        missing = [x for x in EXPECTED if systems.get(x, {}).get("runs", 0) == 0]
        if missing:
            res.notes.append("no accepted honest transcript (grid not exercised) for: " + ", ".join(missing))
            res.cov["grid_missing"] = missing
    # all records of all seeds go through one pool of driver processes
    recout = "\n".join(out for g, s, out in allrecs if "REC " in out)
    for g, s, out in ([("rec", seed, recout)] if recout else []):
        mism = par_correspond(res, out, drv)
        for m in mism[:10]:
            mm = m.split(" :: ", 1)
            rec = mm[1] if len(mm) > 1 else ""
            res.violation("correspondence", "model and implementation disagree: " + m[:900],
                          dict(kind="correspondence", harness="c05", group=g, seed=s, tier=tier, record=rec[:3000], detail=m[:2000]),
                          found_input=False)
