// C12 harness, part 1: running cases in child processes.
// Every case (one target + one untrusted input) runs in a forked child with
//   * a CPU-time limit per case (ITIMER_PROF -> SIGPROF; robust against machine load) and a generous wall-clock
//     backstop (alarm) for anything that would block,
//   * an address-space limit (plain build; the ASan build gets max_allocation_size_mb / hard_rss_limit_mb instead),
//   * stderr redirected to a file (sanitizer report / assert message).
// Several cases share one child (fork cost); the child reports "B <idx>" before and "E <idx> <result>" after each
// case, so the parent knows which case killed it and restarts behind that case.
#ifndef VERIF_C12_RUN_HH
#define VERIF_C12_RUN_HH
#include <sys/types.h>
#include <sys/wait.h>
#include <sys/time.h>
#include <sys/resource.h>
#include <sys/stat.h>
#include <fcntl.h>
#include <signal.h>
#include <functional>
#include <map>

namespace c12 {

struct Case {
	size_t target;        // index into the target table
	std::string input;    // the untrusted bytes
	std::string mut;      // short description of the mutation (space free)
	uint64_t rseed;       // library RNG seed for this case (verifier challenges)
};

struct Death {
	size_t idx; int status; std::string report;
};

struct Limits { unsigned cpu_s = 20, wall_s = 120; size_t as_mb = 0; unsigned group = 24; };

inline void write_all(int fd, const std::string &s) { size_t o = 0; while (o < s.size()) { ssize_t n = write(fd, s.data() + o, s.size() - o); if (n <= 0) break; o += n; } }

// runs cases[first..] in children; calls done(idx, result) for every completed case, died(Death) for every killed one
inline void run_cases(const std::vector<Case> &cases, const std::function<std::string(const Case &)> &exec,
	const Limits &lim, const std::string &errpath,
	const std::function<void(size_t, const std::string &)> &done, const std::function<void(const Death &)> &died)
{
	size_t i = 0;
	while (i < cases.size()) {
		size_t end = std::min(cases.size(), i + lim.group);
		int fd[2]; if (pipe(fd) != 0) { perror("pipe"); exit(3); }
		fflush(stdout); fflush(stderr);
		pid_t pid = fork();
		if (pid < 0) { perror("fork"); exit(3); }
		if (pid == 0) {
			close(fd[0]);
			int efd = open(errpath.c_str(), O_WRONLY | O_CREAT | O_TRUNC, 0644);
			if (efd >= 0) { dup2(efd, 2); close(efd); }
			int nfd = open("/dev/null", O_WRONLY); if (nfd >= 0) { dup2(nfd, 1); close(nfd); }
			if (lim.as_mb) { struct rlimit rl; rl.rlim_cur = rl.rlim_max = (rlim_t)lim.as_mb << 20; setrlimit(RLIMIT_AS, &rl); }
			struct rlimit core = {0, 0}; setrlimit(RLIMIT_CORE, &core);
			signal(SIGPROF, SIG_DFL); signal(SIGALRM, SIG_DFL);
			for (size_t j = i; j < end; j++) {
				struct itimerval tv; memset(&tv, 0, sizeof tv); tv.it_value.tv_sec = lim.cpu_s;
				setitimer(ITIMER_PROF, &tv, 0);
				alarm(lim.wall_s);
				write_all(fd[1], "B " + std::to_string(j) + "\n");
				std::string r;
				try { r = exec(cases[j]); }
				catch (std::exception &e) { r = std::string("uncaught-std-exception:") + typeid(e).name(); }
				catch (bool b) { r = "uncaught-bool"; }
				// anything else thrown (not a standard exception) terminates the child: that is a finding
				write_all(fd[1], "E " + std::to_string(j) + " " + r + "\n");
			}
			_exit(0);
		}
		close(fd[1]);
		std::string buf; char tmp[4096]; ssize_t n;
		while ((n = read(fd[0], tmp, sizeof tmp)) > 0) buf.append(tmp, n);
		close(fd[0]);
		int status = 0; waitpid(pid, &status, 0);
		// parse
		size_t pos = 0; long begun = -1; std::map<size_t, bool> finished;
		while (pos < buf.size()) {
			size_t e = buf.find('\n', pos); if (e == buf.npos) e = buf.size();
			std::string line = buf.substr(pos, e - pos); pos = e + 1;
			if (line.size() > 2 && line[0] == 'B') begun = atol(line.c_str() + 2);
			else if (line.size() > 2 && line[0] == 'E') {
				size_t sp = line.find(' ', 2); size_t idx = atol(line.c_str() + 2);
				done(idx, sp == line.npos ? "" : line.substr(sp + 1)); finished[idx] = true;
			}
		}
		bool clean = WIFEXITED(status) && WEXITSTATUS(status) == 0;
		if (begun >= 0 && !finished.count((size_t)begun)) {
			Death d; d.idx = (size_t)begun; d.status = status;
			FILE *f = fopen(errpath.c_str(), "r");
			if (f) { char b[16384]; size_t k = fread(b, 1, sizeof b - 1, f); b[k] = 0; d.report = b; fclose(f); }
			died(d);
			i = (size_t)begun + 1;
		} else if (!clean && begun < 0) {
			Death d; d.idx = i; d.status = status; d.report = "child died before the first case"; died(d); i = end;
		} else i = end;
	}
}

inline std::string status_text(int status) {
	if (WIFSIGNALED(status)) {
		int s = WTERMSIG(status);
		const char *n = s == SIGSEGV ? "SIGSEGV" : s == SIGABRT ? "SIGABRT" : s == SIGFPE ? "SIGFPE" : s == SIGBUS ? "SIGBUS" :
			s == SIGPROF ? "CPU-TIME-LIMIT" : s == SIGALRM ? "WALL-CLOCK-LIMIT" : s == SIGKILL ? "SIGKILL" : s == SIGILL ? "SIGILL" : "signal";
		return std::string(n) + "(" + std::to_string(s) + ")";
	}
	if (WIFEXITED(status)) return "exit(" + std::to_string(WEXITSTATUS(status)) + ")";
	return "status(" + std::to_string(status) + ")";
}

} // namespace c12
#endif
