// C12 harness, part 2: structure-aware mutation of valid exports / proofs / packets.
#ifndef VERIF_C12_MUT_HH
#define VERIF_C12_MUT_HH
#include <algorithm>
#include <string>
#include <vector>

namespace c12 {
using verif::SplitMix64;

struct Mut { std::string s, d; };

// ---- text formats: fields separated by any of `delims` (the delimiter stays attached to the end of its field) ----
struct Field { size_t b, e; };   // [b,e) content, s[e] = delimiter (or e == size)
inline std::vector<Field> split_fields(const std::string &s, const std::string &delims) {
	std::vector<Field> f; size_t b = 0;
	for (size_t i = 0; i < s.size(); i++) if (delims.find(s[i]) != delims.npos) { f.push_back({b, i}); b = i + 1; }
	if (b < s.size()) f.push_back({b, s.size()});
	return f;
}

inline const std::vector<std::string> &special_values(size_t hugechars) {
	static std::vector<std::string> v; static size_t h = 0;
	if (v.empty() || h != hugechars) {
		h = hugechars;
		v = { "", "0", "1", "-1", "2", "3", "-0", "+1", " 1", "1 ", "00000000000000000000001", "!!", "1x", "\x01", "z", "-z",
			"10", "11", "32", "33", "256", "257", "512", "513", "2048", "2049", "65535", "65536", "4294967295", "4294967296",
			"18446744073709551615", "18446744073709551616", "-18446744073709551615", "99999999999999999999999999" };
		v.push_back(std::string(hugechars, 'z'));                 // huge base-62 number
		v.push_back("-" + std::string(hugechars, 'z'));
		v.push_back(std::string(hugechars, '9'));                 // huge decimal count
		v.push_back(std::string(70, 'z') + "1");                  // odd ~420-bit number
	}
	return v;
}

// all structure-aware text mutations of v; `lead` = number of leading fields that get the full treatment
inline void text_mutations(const std::string &v, const std::string &delims, SplitMix64 &g, size_t lead, size_t sampled,
	size_t ntrunc, size_t nrand, size_t hugechars, std::vector<Mut> &out, size_t nmulti = 0)
{
	std::vector<Field> f = split_fields(v, delims);
	const std::vector<std::string> &sp = special_values(hugechars);
	std::vector<size_t> idx;
	for (size_t i = 0; i < f.size() && i < lead; i++) idx.push_back(i);
	for (size_t k = 0; k < sampled && f.size() > lead; k++) idx.push_back(lead + g.below(f.size() - lead));
	if (!f.empty()) idx.push_back(f.size() - 1);
	for (size_t i : idx) {
		std::string tag = "f" + std::to_string(i);
		size_t b = f[i].b, e = f[i].e, e1 = std::min(v.size(), e + 1);
		out.push_back({ v.substr(0, b) + v.substr(e1), tag + ":delete" });
		out.push_back({ v.substr(0, e1) + v.substr(b, e1 - b) + v.substr(e1), tag + ":duplicate" });
		if (i < lead) { for (size_t k = 0; k < sp.size(); k++) out.push_back({ v.substr(0, b) + sp[k] + v.substr(e), tag + ":set" + std::to_string(k) }); }
		else { for (int r = 0; r < 4; r++) { size_t k = g.below(sp.size()); out.push_back({ v.substr(0, b) + sp[k] + v.substr(e), tag + ":set" + std::to_string(k) }); } }
		if (e > b) {   // numeric neighbourhood of a decimal field: value+1 / value-1 ; sign flip
			std::string c = v.substr(b, e - b);
			if (c.size() < 10 && c.find_first_not_of("0123456789") == c.npos) {
				long n = atol(c.c_str());
				out.push_back({ v.substr(0, b) + std::to_string(n + 1) + v.substr(e), tag + ":inc" });
				out.push_back({ v.substr(0, b) + std::to_string(n - 1) + v.substr(e), tag + ":dec" });
			} else out.push_back({ v.substr(0, b) + "-" + v.substr(b), tag + ":negate" });
		}
		if (i + 1 < f.size()) {   // swap with the next field
			size_t b2 = f[i + 1].b, e2 = f[i + 1].e;
			out.push_back({ v.substr(0, b) + v.substr(b2, e2 - b2) + v.substr(e, b2 - e) + v.substr(b, e - b) + v.substr(e2), tag + ":swap" });
		}
	}
	// simultaneous corruption of two or three fields (sign flip, zero, one, huge, copy of another field, empty, deletion):
	// defects that need an inconsistent COMBINATION (negative order + non-invertible element, ...) are out of reach of single-field mutation
	for (size_t k = 0; k < nmulti && f.size() >= 2; k++) {
		size_t cnt = 2 + g.below(2); std::vector<size_t> pick;
		for (size_t t = 0; t < cnt * 3 && pick.size() < cnt; t++) {
			size_t i = (g.below(4) && lead) ? g.below(std::min(lead, f.size())) : g.below(f.size());
			if (std::find(pick.begin(), pick.end(), i) == pick.end()) pick.push_back(i);
		}
		std::sort(pick.begin(), pick.end());
		std::string r, d = "multi"; size_t at = 0;
		for (size_t i : pick) {
			r += v.substr(at, f[i].b - at); std::string c = v.substr(f[i].b, f[i].e - f[i].b), n; unsigned op = g.below(9);
			switch (op) {
			case 0: case 1: n = (!c.empty() && c[0] == '-') ? c.substr(1) : "-" + c; break;     // sign flip (most frequent)
			case 2: n = "0"; break;
			case 3: n = "1"; break;
			case 4: n = "-1"; break;
			case 5: n = std::string(hugechars, 'z'); break;
			case 6: { const Field &o = f[g.below(f.size())]; n = v.substr(o.b, o.e - o.b); break; }   // copy of another field (e.g. element := modulus)
			case 7: n = c + c; break;                                                         // a multiple-ish / longer value
			default: n = ""; break;
			}
			r += n; at = f[i].e; d += ":f" + std::to_string(i) + "o" + std::to_string(op);
		}
		r += v.substr(at);
		out.push_back({ r, d });
	}
	// truncation: at every offset when short, otherwise at every delimiter (+-1) and sampled offsets
	if (v.size() <= ntrunc) { for (size_t i = 0; i < v.size(); i++) out.push_back({ v.substr(0, i), "trunc" + std::to_string(i) }); }
	else {
		std::vector<size_t> offs;
		for (size_t k = 0; k < ntrunc / 2; k++) offs.push_back(g.below(v.size()));
		for (size_t k = 0; k < ntrunc / 2 && !f.empty(); k++) { const Field &x = f[g.below(f.size())]; offs.push_back(x.e); offs.push_back(std::min(v.size(), x.e + 1)); if (x.e) offs.push_back(x.e - 1); }
		for (size_t i = 0; i < 8 && i < v.size(); i++) offs.push_back(i);
		for (size_t o : offs) out.push_back({ v.substr(0, o), "trunc" + std::to_string(o) });
	}
	// unstructured
	static const char MUTC[] = " -|^0zZA9!\t\n+.:a\r=/";
	for (size_t k = 0; k < nrand; k++) {
		std::string t = v; unsigned n = 1 + g.below(3);
		for (unsigned q = 0; q < n; q++) {
			size_t pos = t.empty() ? 0 : g.below(t.size());
			char c = MUTC[g.below(sizeof(MUTC) - 1)]; if (g.below(30) == 0) c = '\0'; if (g.below(30) == 0) c = (char)(0x80 + g.below(128));
			switch (g.below(4)) {
			case 0: if (!t.empty()) t[pos] = c; break;
			case 1: t.insert(t.begin() + pos, c); break;
			case 2: if (!t.empty()) t.erase(pos, 1 + g.below(4)); break;
			case 3: if (!t.empty()) t[pos] ^= (char)(1 << g.below(8)); break;
			}
		}
		out.push_back({ t, "rand" + std::to_string(k) });
	}
	out.push_back({ "", "empty" });
	out.push_back({ std::string(1, delims[0]), "delim-only" });
	out.push_back({ v + v, "doubled" });
}

// ---- OpenPGP binary: positions of packet headers, length octets, sub-packet lengths, MPI length prefixes ----
struct PgpPos { size_t off; char kind; };   // 'G' algorithm/version/type octet, 'T' tag octet, 'L' first length octet, 'S' sub-packet length, 'A' area length (2 octets), 'M' MPI bit count (2 octets)
inline void pgp_walk(const std::string &p, std::vector<PgpPos> &pos) {
	size_t i = 0;
	while (i < p.size()) {
		unsigned char t = p[i]; pos.push_back({i, 'T'});
		if (!(t & 0x80)) break;
		size_t hl = 0, len = 0, body; unsigned tag;
		if (t & 0x40) {
			tag = t & 0x3f; if (i + 1 >= p.size()) break;
			unsigned char b = p[i + 1]; pos.push_back({i + 1, 'L'});
			if (b < 192) { hl = 1; len = b; }
			else if (b < 224) { if (i + 2 >= p.size()) break; hl = 2; len = ((b - 192) << 8) + (unsigned char)p[i + 2] + 192; }
			else if (b == 255) { if (i + 5 >= p.size()) break; hl = 5; len = ((size_t)(unsigned char)p[i + 2] << 24) | ((size_t)(unsigned char)p[i + 3] << 16) | ((size_t)(unsigned char)p[i + 4] << 8) | (unsigned char)p[i + 5]; }
			else break;   // partial lengths: stop walking (still mutated generically)
		} else {
			tag = (t >> 2) & 0x0f; unsigned lt = t & 3; pos.push_back({i + 1, 'L'});
			if (lt == 0) { if (i + 1 >= p.size()) break; hl = 1; len = (unsigned char)p[i + 1]; }
			else if (lt == 1) { if (i + 2 >= p.size()) break; hl = 2; len = ((size_t)(unsigned char)p[i + 1] << 8) | (unsigned char)p[i + 2]; }
			else if (lt == 2) { if (i + 4 >= p.size()) break; hl = 4; len = ((size_t)(unsigned char)p[i + 1] << 24) | ((size_t)(unsigned char)p[i + 2] << 16) | ((size_t)(unsigned char)p[i + 3] << 8) | (unsigned char)p[i + 4]; }
			else break;
		}
		body = i + 1 + hl;
		if (body + len > p.size()) break;
		// algorithm / type / version octets ('G'): unknown or unsupported algorithms take the error paths of the consumers
		if (tag == 2 && len >= 4 && (p[body] == 4 || p[body] == 5)) { pos.push_back({body, 'G'}); pos.push_back({body + 1, 'G'}); pos.push_back({body + 2, 'G'}); pos.push_back({body + 3, 'G'}); }
		if (tag == 2 && len >= 17 && p[body] == 3) { pos.push_back({body + 2, 'G'}); pos.push_back({body + 15, 'G'}); pos.push_back({body + 16, 'G'}); }
		if ((tag == 6 || tag == 14 || tag == 5 || tag == 7) && len >= 6) { pos.push_back({body, 'G'}); pos.push_back({body + 5, 'G'}); }
		if (tag == 1 && len >= 10) { pos.push_back({body, 'G'}); pos.push_back({body + 9, 'G'}); }
		if ((tag == 3 || tag == 4 || tag == 8 || tag == 18 || tag == 20) && len >= 2) { pos.push_back({body, 'G'}); pos.push_back({body + 1, 'G'}); }
		if (tag == 2 && len >= 12 && (p[body] == 4 || p[body] == 5)) {   // signature: sub-packet areas
			size_t a = body + 4;
			for (int area = 0; area < 2; area++) {
				if (a + 2 > body + len) break;
				size_t al = ((size_t)(unsigned char)p[a] << 8) | (unsigned char)p[a + 1]; pos.push_back({a, 'A'});
				size_t s = a + 2, e = s + al; if (e > body + len) break;
				while (s < e) {
					pos.push_back({s, 'S'});
					unsigned char b = p[s]; size_t sl, shl;
					if (b < 192) { shl = 1; sl = b; } else if (b < 255) { if (s + 1 >= e) break; shl = 2; sl = ((b - 192) << 8) + (unsigned char)p[s + 1] + 192; } else { shl = 5; sl = 0; break; }
					if (sl == 0) break;
					s += shl + sl;
				}
				a = e;
			}
			if (a + 2 <= body + len) pos.push_back({a + 2, 'M'});
		}
		if ((tag == 6 || tag == 14 || tag == 5 || tag == 7) && len >= 8 && p[body] == 4) pos.push_back({body + 6, 'M'});
		if (tag == 1 && len >= 12) pos.push_back({body + 10, 'M'});
		i = body + len;
	}
}

inline std::string put(const std::string &v, size_t off, const std::string &bytes, size_t erase) {
	if (off > v.size()) return v;
	return v.substr(0, off) + bytes + (off + erase <= v.size() ? v.substr(off + erase) : std::string());
}

inline void pgp_mutations(const std::string &v, SplitMix64 &g, size_t ntrunc, size_t nrand, std::vector<Mut> &out) {
	std::vector<PgpPos> pos; pgp_walk(v, pos);
	static const unsigned char LB[] = { 0, 1, 2, 0x7f, 0x80, 0xbf, 0xc0, 0xc1, 0xdf, 0xe0, 0xe1, 0xef, 0xfe, 0xff };
	static const char *L5[] = { "\xff\xff\xff\xff\xff", "\xff\xff\xff\xff\xfb", "\xff\xff\xff\xff\xfe", "\xff\x80\x00\x00\x00", "\xff\x7f\xff\xff\xff", "\xff\x00\x00\x00\x00", "\xff\x00\x00\x00\x01", "\xff\x00\x01\x00\x00" };
	for (size_t k = 0; k < pos.size(); k++) {
		size_t o = pos[k].off; std::string tag = std::string(1, pos[k].kind) + std::to_string(o);
		if (pos[k].kind == 'T') {
			for (unsigned nt : { 0x80u | (2u << 2), 0xc2u, 0xc6u, 0xc5u, 0xc1u, 0xc8u, 0xcbu, 0xd2u, 0xd4u, 0xc3u, 0xcdu, 0xd1u, 0x83u, 0x8bu, 0x9bu, 0x00u, 0x7fu, 0xffu, 0xfeu })
				out.push_back({ put(v, o, std::string(1, (char)nt), 1), tag + ":tag" + std::to_string(nt) });
			continue;
		}
		if (pos[k].kind == 'G') {
			for (unsigned b : { 0u, 1u, 2u, 3u, 4u, 5u, 6u, 7u, 8u, 9u, 10u, 11u, 12u, 14u, 16u, 17u, 18u, 19u, 20u, 21u, 22u, 23u, 24u, 99u, 100u, 110u, 127u, 128u, 255u })
				out.push_back({ put(v, o, std::string(1, (char)b), 1), tag + ":algo" + std::to_string(b) });
			continue;
		}
		if (pos[k].kind == 'L' || pos[k].kind == 'S') {
			for (unsigned char b : LB) out.push_back({ put(v, o, std::string(1, (char)b), 1), tag + ":len" + std::to_string(b) });
			for (const char *l : L5) { out.push_back({ put(v, o, std::string(l, 5), 1), tag + ":len5" }); out.push_back({ put(v, o, std::string(l, 5), 0), tag + ":ins5" }); }
			out.push_back({ put(v, o, "", 1), tag + ":dellen" });
		} else {   // two-octet big-endian counts (area lengths, MPI bit counts)
			for (unsigned w : { 0u, 1u, 7u, 8u, 9u, 0x00ffu, 0x0100u, 0x7fffu, 0x8000u, 0xfff8u, 0xfff9u, 0xffffu }) {
				std::string b; b += (char)(w >> 8); b += (char)w; out.push_back({ put(v, o, b, 2), tag + ":w" + std::to_string(w) });
			}
			if (o + 2 <= v.size()) {
				unsigned w = ((unsigned char)v[o] << 8) | (unsigned char)v[o + 1];
				for (int d : { -9, -8, -1, 1, 7, 8, 9 }) { unsigned x = (w + d) & 0xffff; std::string b; b += (char)(x >> 8); b += (char)x; out.push_back({ put(v, o, b, 2), tag + ":w" + (d < 0 ? std::string("m") : std::string("p")) + std::to_string(d < 0 ? -d : d) }); }
			}
		}
	}
	// packet-level deletion / duplication / reordering
	std::vector<size_t> tags; for (auto &p : pos) if (p.kind == 'T') tags.push_back(p.off); tags.push_back(v.size());
	for (size_t k = 0; k + 1 < tags.size(); k++) {
		std::string pk = v.substr(tags[k], tags[k + 1] - tags[k]);
		out.push_back({ v.substr(0, tags[k]) + v.substr(tags[k + 1]), "pkt" + std::to_string(k) + ":delete" });
		out.push_back({ v.substr(0, tags[k + 1]) + pk + v.substr(tags[k + 1]), "pkt" + std::to_string(k) + ":duplicate" });
		out.push_back({ pk, "pkt" + std::to_string(k) + ":alone" });
		out.push_back({ pk + v, "pkt" + std::to_string(k) + ":front" });
	}
	// truncation
	if (v.size() <= ntrunc) { for (size_t i = 0; i < v.size(); i++) out.push_back({ v.substr(0, i), "trunc" + std::to_string(i) }); }
	else {
		for (size_t k = 0; k < ntrunc; k++) { size_t o = g.below(v.size()); out.push_back({ v.substr(0, o), "trunc" + std::to_string(o) }); }
		for (auto &p : pos) { for (size_t d = 0; d < 7; d++) if (p.off + d <= v.size() && g.below(3) == 0) out.push_back({ v.substr(0, p.off + d), "trunc" + std::to_string(p.off + d) }); }
	}
	// unstructured
	for (size_t k = 0; k < nrand; k++) {
		std::string t = v; unsigned n = 1 + g.below(3);
		for (unsigned q = 0; q < n; q++) {
			size_t o = t.empty() ? 0 : g.below(t.size());
			switch (g.below(5)) {
			case 0: if (!t.empty()) t[o] = (char)LB[g.below(sizeof LB)]; break;
			case 1: if (!t.empty()) t[o] = (char)g.below(256); break;
			case 2: t.insert(t.begin() + o, (char)g.below(256)); break;
			case 3: if (!t.empty()) t.erase(o, 1 + g.below(6)); break;
			case 4: if (!t.empty()) t[o] ^= (char)(1 << g.below(8)); break;
			}
		}
		out.push_back({ t, "rand" + std::to_string(k) });
	}
	out.push_back({ "", "empty" });
	out.push_back({ v + v, "doubled" });
}

// shuffle and cut to n (keeps the first `keep` entries in place)
inline void sample(std::vector<Mut> &m, SplitMix64 &g, size_t n, size_t keep = 0) {
	if (m.size() <= n) return;
	for (size_t i = m.size(); i > keep + 1; i--) std::swap(m[i - 1], m[keep + g.below(i - keep)]);
	m.resize(n);
}

} // namespace c12
#endif
