// Shared by the C08 and C03 harnesses: Fiat-Shamir hash logging (DESIGN.md 2.4 "Hash oracle"), coin capture,
// tiny Schnorr groups, VTMF instances built from them, token helpers.
//  * gcry_md_hash_buffer is defined here, in the executable, and forwards to libgcrypt through dlsym(RTLD_NEXT).
//    tmcg_g() always hashes  X || "libTMCG00" || X  first; that shape (with the library's hash algorithm) is
//    recognised and X -- the '|'-terminated hex list of all hashed integers -- is logged.  The oracle value of X
//    is obtained by calling the public tmcg_mpz_shash(r, std::string) with logging switched off.
#ifndef VERIF_C08_ORACLE_HH
#define VERIF_C08_ORACLE_HH
#include <dlfcn.h>
#include <map>
#include <set>
#include <algorithm>

namespace verif {

inline bool &hash_logging() { static bool b = false; return b; }
inline std::vector<std::string> &hash_log() { static std::vector<std::string> v; return v; }

struct Z {  // RAII mpz
	mpz_t v;
	Z() { mpz_init(v); }
	Z(const Z &o) { mpz_init_set(v, o.v); }
	explicit Z(unsigned long u) { mpz_init_set_ui(v, u); }
	explicit Z(mpz_srcptr s) { mpz_init_set(v, s); }
	Z &operator=(const Z &o) { if (this != &o) mpz_set(v, o.v); return *this; }
	~Z() { mpz_clear(v); }
	operator mpz_ptr() { return v; }
	operator mpz_srcptr() const { return v; }
	mpz_ptr operator->() { return v; }
	mpz_srcptr operator->() const { return v; }
	std::string h() const { return hx(v); }
};

// oracle table token:  a,b,c:v;a,b:v   ("_" when empty); keys that are not integer lists (group generation
// strings etc.) are skipped -- the modelled routines never ask for them
inline std::string oracle_token(const std::vector<std::string> &log) {
	std::string out; std::set<std::string> seen;
	bool was = hash_logging(); hash_logging() = false;
	for (const std::string &X : log) {
		if (seen.count(X)) continue; seen.insert(X);
		bool ok = !X.empty() && X[X.size() - 1] == '|';
		for (char c : X) if (!(isxdigit((unsigned char)c) || c == '|' || c == '-')) ok = false;
		if (!ok) continue;
		std::string key;
		size_t a = 0;
		while (a < X.size()) { size_t b = X.find('|', a); std::string f = X.substr(a, b - a); if (f.empty()) { ok = false; break; }
			// canonical lower-case hex without leading zeros: mpz_get_str already gives that
			if (!key.empty()) key += ","; key += f; a = b + 1; }
		if (!ok) continue;
		Z r; tmcg_mpz_shash(r, X);
		if (!out.empty()) out += ";";
		out += key + ":" + r.h();
	}
	hash_logging() = was;
	return out.empty() ? "_" : out;
}

struct Capture {  // RAII: log hashes and coins of the enclosed library calls
	Capture() { hash_log().clear(); coin_log().clear(); hash_logging() = true; coin_logging() = true; }
	~Capture() { hash_logging() = false; coin_logging() = false; }
	std::string table() const { return oracle_token(hash_log()); }
	// the raw big-endian integers tmcg_mpz_grandomm(., m) imported, one per draw (all draws modulo the same m)
	std::vector<Z> raws(mpz_srcptr m) const {
		size_t nb = (mpz_sizeinbase(m, 2) + 64 + 7) / 8; std::vector<Z> r;
		const std::vector<unsigned char> &L = coin_log();
		for (size_t o = 0; o + nb <= L.size(); o += nb) { Z z; mpz_import(z, nb, 1, 1, 1, 0, L.data() + o); r.push_back(z); }
		return r;
	}
	size_t coin_bytes() const { return coin_log().size(); }
};

// make the next tmcg_mpz_srandomm(., m) return (value mod m): script its bytes
inline void script_draw(mpz_srcptr value, mpz_srcptr m) {
	size_t nb = (mpz_sizeinbase(m, 2) + 64 + 7) / 8;
	std::vector<unsigned char> buf(nb, 0);
	Z v(value); if (mpz_sgn(v) < 0) mpz_set_ui(v, 0);
	size_t cnt = 0; std::vector<unsigned char> tmp(nb + 16, 0);
	mpz_export(tmp.data(), &cnt, 1, 1, 1, 0, v);
	if (cnt > nb) { memcpy(buf.data(), tmp.data() + (cnt - nb), nb); } else memcpy(buf.data() + (nb - cnt), tmp.data(), cnt);
	script_bytes(buf);
}

// ---- tiny groups --------------------------------------------------------------------------------
struct Grp { Z p, q, g, k; unsigned pbits = 0, qbits = 0; bool qr = false; unsigned esize = 0; };

inline void gen_prime(mpz_ptr r, unsigned bits) {
	do { gen_bits(r, bits); mpz_setbit(r, bits - 1); mpz_setbit(r, 0); } while (!mpz_probab_prime_p(r, 30));
}
// p = k q + 1, both prime, |q| = qbits, |p| = pbits, g of order q
inline Grp gen_group(unsigned pbits, unsigned qbits) {
	Grp G; G.pbits = pbits; G.qbits = qbits;
	for (unsigned outer = 0;; outer++) {
		if (outer > 300) { fprintf(stderr, "gen_group(%u,%u): no such group found\n", pbits, qbits); exit(3); }
		gen_prime(G.q, qbits);
		bool found = false;
		for (int tries = 0; tries < 4000 && !found; tries++) {
			gen_bits(G.k, pbits - qbits); mpz_setbit(G.k, pbits - qbits - 1); mpz_clrbit(G.k, 0);
			mpz_mul(G.p, G.k, G.q); mpz_add_ui(G.p, G.p, 1);
			if (mpz_sizeinbase(G.p, 2) != pbits) continue;
			if (mpz_divisible_p(G.k, G.q)) continue;
			if (mpz_probab_prime_p(G.p, 30)) found = true;
		}
		if (found) break;
	}
	Z t;
	do { gen_below(t, G.p); mpz_powm(G.g, t, G.k, G.p); } while (mpz_cmp_ui(G.g, 1) <= 0);
	return G;
}
// safe prime p = 2q+1 with p = 7 mod 8 (the GroupQR variant); g is fixed by the class: 2^(2^(|p|-esize)) mod p
inline Grp gen_group_qr(unsigned pbits, unsigned esize) {
	Grp G; G.pbits = pbits; G.qbits = pbits - 1; G.qr = true; G.esize = esize;
	for (;;) {
		gen_prime(G.q, pbits - 1);
		mpz_mul_2exp(G.p, G.q, 1); mpz_add_ui(G.p, G.p, 1);
		if (!mpz_congruent_ui_p(G.p, 7, 8)) continue;
		if (!mpz_probab_prime_p(G.p, 30)) continue;
		mpz_set_ui(G.k, 2); mpz_set_ui(G.g, 2);
		Z e; mpz_ui_pow_ui(e, 2, pbits - esize); mpz_powm(G.g, G.g, e, G.p);
		if (mpz_cmp_ui(G.g, 1) <= 0) continue;
		break;
	}
	return G;
}

inline std::string str62(mpz_srcptr z) { std::ostringstream o; o << z; return o.str(); }

} // namespace verif

// ---- the interposed hash entry point ---------------------------------------------------------------------
extern "C" void gcry_md_hash_buffer(int algo, void *digest, const void *buffer, size_t length) {
	typedef void (*fn_t)(int, void *, const void *, size_t);
	static fn_t real = (fn_t)dlsym(RTLD_NEXT, "gcry_md_hash_buffer");
	if (!real) { fprintf(stderr, "no real gcry_md_hash_buffer\n"); abort(); }
	if (verif::hash_logging() && algo == TMCG_GCRY_MD_ALGO && length >= 9 && (length - 9) % 2 == 0) {
		size_t n = (length - 9) / 2; const unsigned char *b = (const unsigned char *)buffer;
		if (memcmp(b + n, "libTMCG00", 9) == 0 && memcmp(b, b + n + 9, n) == 0)
			verif::hash_log().push_back(std::string((const char *)b, n));
	}
	real(algo, digest, buffer, length);
}
#endif
