// C08 correspondence harness: the VTMF key generation protocol on real instances (k <= 5 players in one process,
// tiny Schnorr groups and tiny safe-prime groups).  One REC per library call (inputs, captured coins and hash
// oracle table, observed result and state) for the extracted KeyRingModel; PROPFAIL when the property itself
// fails on the implementation: players disagree / order dependence / a malformed contribution accepted or
// changing the key / removal not restoring.
#include "common.hh"
#include <map>
#include <set>
#include <algorithm>
#include <numeric>
#define private public
#define protected public
#include <libTMCG.hh>
#undef private
#undef protected
#include "c08_oracle.hh"
using namespace verif;

typedef BarnettSmartVTMF_dlog V;

static V *mk(const Grp &G) {
	std::stringstream s; s << G.p.v << std::endl << G.q.v << std::endl << G.g.v << std::endl << G.k.v << std::endl;
	if (G.qr) return new BarnettSmartVTMF_dlog_GroupQR(s, G.pbits, G.esize);
	return new V(s, G.pbits, G.qbits, false, true);
}
static std::string tok_map(const V *v) {
	std::vector<std::pair<Z, Z> > e;
	for (auto &kv : v->h_j) { Z fp; mpz_set_str(fp, kv.first.c_str(), TMCG_MPZ_IO_BASE); e.push_back(std::make_pair(fp, Z(kv.second))); }
	std::sort(e.begin(), e.end(), [](const std::pair<Z, Z> &a, const std::pair<Z, Z> &b) { return mpz_cmp(a.first.v, b.first.v) < 0; });
	std::string r; for (auto &x : e) { if (!r.empty()) r += ";"; r += x.first.h() + "," + x.second.h(); }
	return r.empty() ? "_" : r;
}
static unsigned long hbits() { return tmcg_mpz_shash_len() * 8; }
static bool want_rec = true;

struct Contribution { Z key, c, r; };
static std::string text(const Contribution &m, bool newline = true) {
	return str62(m.key) + "\n" + str62(m.c) + "\n" + str62(m.r) + (newline ? "\n" : "");
}

// GenerateKey with REC
static void do_generate(V *v) {
	Capture cap; std::string before = tok_map(v);
	v->KeyGenerationProtocol_GenerateKey();
	std::vector<Z> raws = cap.raws(v->q);
	if (want_rec && raws.size() == 1)
		Rec("kg_gen").z(v->p).z(v->q).z(v->g).z(raws[0]).t(before).t(cap.table())
			.t(hx(v->x_i) + "," + hx(v->h_i) + "," + hx(v->h_i_fp) + "," + hx(v->h) + "," + tok_map(v));
	Z hi; mpz_powm(hi, v->g, v->x_i, v->p);
	if (mpz_cmp(hi, v->h_i) || mpz_cmp(v->h, v->h_i)) propfail("generate-key", "h_i != g^x_i or h != h_i for x=" + hx(v->x_i));
}
// PublishKey with REC (kg_nizk)
static Contribution do_publish(V *v) {
	Capture cap; std::stringstream out;
	v->KeyGenerationProtocol_PublishKey(out);
	Contribution m; out >> m.key.v >> m.c.v >> m.r.v;
	std::vector<Z> raws = cap.raws(v->q);
	if (want_rec && raws.size() == 1)
		Rec("kg_nizk").z(v->p).z(v->q).z(v->g).z(v->x_i).z(v->h_i).z(raws[0]).t(cap.table()).t(m.key.h() + "," + m.c.h() + "," + m.r.h());
	return m;
}
// UpdateKey with REC; returns 1 accept, 0 reject, -1 exception
static int do_update(V *v, const Contribution &m, bool good = true) {
	Z h0(v->h); std::string m0 = tok_map(v);
	Capture cap; std::stringstream in(text(m, good));
	int ret;
	try { ret = v->KeyGenerationProtocol_UpdateKey(in) ? 1 : 0; } catch (std::exception &) { ret = -1; }
	if (want_rec)
		Rec("kg_upd").z(v->p).z(v->q).z(v->g).u(hbits()).z(h0).t(m0).d(good ? 1 : 0).z(m.key).z(m.c).z(m.r).t(cap.table())
			.t(std::string(ret == 1 ? "A" : ret == 0 ? "R" : "T") + "," + hx(v->h) + "," + tok_map(v));
	return ret;
}
static int do_remove(V *v, const Contribution &m, bool good = true) {
	Z h0(v->h); std::string m0 = tok_map(v);
	Capture cap; std::stringstream in(text(m, good));
	int ret;
	try { ret = v->KeyGenerationProtocol_RemoveKey(in) ? 1 : 0; } catch (std::exception &) { ret = -1; }
	if (want_rec)
		Rec("kg_rem").z(v->p).z(v->q).z(v->g).z(h0).t(m0).d(good ? 1 : 0).z(m.key).t(cap.table())
			.t(std::string(ret == 1 ? "1" : ret == 0 ? "0" : "T") + "," + hx(v->h) + "," + tok_map(v));
	return ret;
}
static void do_finalize(V *v) {
	v->KeyGenerationProtocol_Finalize();
	size_t nz = 0; while (nz < TMCG_MAX_FPOWM_T && mpz_sgn(v->fpowm_table_h[nz])) nz++;
	if (want_rec) Rec("kg_fin").z(v->q).z(v->h).t(hx(v->fpowm_table_h[0]) + "," + hx((unsigned long)nz));
}
// copy the key of `src` into a fresh instance of the same group
static V *clone_player(const Grp &G, const V *src) {
	V *v = mk(G); mpz_set(v->x_i, src->x_i); mpz_set(v->h_i, src->h_i); mpz_set(v->h_i_fp, src->h_i_fp); mpz_set(v->h, src->h_i); return v;
}
static std::string gdesc(const Grp &G) { return "p=" + G.p.h() + " q=" + G.q.h() + " g=" + G.g.h() + (G.qr ? " (GroupQR)" : ""); }

// ---- all processing orders ----------------------------------------------------------------------------
static void orders(const Grp &G, unsigned k, bool all_rec) {
	std::vector<V *> pl; std::vector<Contribution> cs;
	for (unsigned i = 0; i < k; i++) { V *v = mk(G);
		// aim at the boundaries of the secret and the commitment now and then
		if (gen().below(6) == 0) { Z val(gen().below(2)); if (gen().coin()) mpz_sub_ui(val, G.q, 1 + gen().below(2)); script_draw(val, G.q); }
		do_generate(v); pl.push_back(v); }
	for (unsigned i = 0; i < k; i++) {
		if (gen().below(6) == 0) { Z val(gen().below(2)); if (gen().coin()) mpz_sub_ui(val, G.q, 1); script_draw(val, G.q); }
		cs.push_back(do_publish(pl[i])); }
	Z expect(1UL); for (unsigned i = 0; i < k; i++) { mpz_mul(expect, expect, pl[i]->h_i); mpz_mod(expect, expect, G.p); }
	bool distinct = true; for (unsigned i = 0; i < k; i++) for (unsigned j = i + 1; j < k; j++) if (!mpz_cmp(pl[i]->h_i, pl[j]->h_i)) distinct = false;
	unsigned norder = 0;
	for (unsigned i = 0; i < k; i++) {
		std::vector<unsigned> others; for (unsigned j = 0; j < k; j++) if (j != i) others.push_back(j);
		std::sort(others.begin(), others.end());
		do {
			bool saved = want_rec; want_rec = saved && (all_rec || norder % 7 == 0);
			V *v = clone_player(G, pl[i]);
			std::string ord;
			for (unsigned j : others) { ord += std::to_string(j);
				int r = do_update(v, cs[j]);
				if (r != 1) propfail("honest-contribution-refused", "player " + std::to_string(i) + " refused the honest contribution of player " + std::to_string(j) + " ret=" + std::to_string(r) + " " + gdesc(G) + " key=" + cs[j].key.h() + " c=" + cs[j].c.h() + " r=" + cs[j].r.h()); }
			if (mpz_cmp(v->h, expect) && distinct)
				propfail("common-key-differs", "player " + std::to_string(i) + " order " + ord + " ends with h=" + hx(v->h) + " expected product " + expect.h() + " " + gdesc(G));
			if (distinct && v->KeyGenerationProtocol_NumberOfKeys() != k - 1) propfail("key-count", "player stores " + std::to_string(v->KeyGenerationProtocol_NumberOfKeys()) + " keys after " + std::to_string(k - 1) + " distinct contributions " + gdesc(G));
			if (norder % 5 == 0) do_finalize(v);
			want_rec = saved; norder++; delete v;
		} while (std::next_permutation(others.begin(), others.end()));
	}
	for (V *v : pl) delete v;
}

// ---- malformed contributions (the C05 mutation catalogue restricted to this message) -----------------------------
static void malformed(const Grp &G) {
	V *a = mk(G), *b = mk(G), *c = mk(G);
	do_generate(a); do_generate(b); do_generate(c);
	Contribution mb = do_publish(b), mc = do_publish(c);
	if (!mpz_cmp(mb.key, mc.key) || !mpz_cmp(mb.key, a->h_i)) { delete a; delete b; delete c; return; }
	struct Mut { const char *name; Contribution m; bool good; bool surely_wrong; };
	std::vector<Mut> muts;
	auto add = [&](const char *n, const Contribution &m, bool wrong, bool good = true) { muts.push_back(Mut{ n, m, good, wrong }); };
	Contribution m;
	// key outside the group
	m = mb; mpz_set_ui(m.key, 0); add("key-zero", m, true);
	m = mb; mpz_set(m.key, G.p); add("key-p", m, true);
	m = mb; mpz_add(m.key, m.key, G.p); add("key-plus-p", m, true);
	m = mb; mpz_neg(m.key, m.key); add("key-negated", m, true);
	m = mb; mpz_sub(m.key, G.p, m.key); add("key-minus", m, true);        // p - key: order 2q, not in G (q odd)
	m = mb; do { gen_below(m.key, G.p); Z t; mpz_powm(t, m.key, G.q, G.p); if (mpz_cmp_ui(t, 1) && mpz_sgn(m.key)) break; } while (true); add("key-not-in-subgroup", m, true);
	m = mb; mpz_sub_ui(m.key, G.p, 1); add("key-p-minus-1", m, true);
	// wrong proof
	m = mb; mpz_add_ui(m.c, m.c, 1); add("c-plus-1", m, true);
	m = mb; mpz_neg(m.c, m.c); add("c-negated", m, mpz_sgn(mb.c) != 0);
	m = mb; mpz_setbit(m.c, hbits()); add("c-oversize", m, true);
	m = mb; mpz_setbit(m.c, hbits() - 1); add("c-topbit", m, !mpz_tstbit(mb.c, hbits() - 1));
	m = mb; mpz_add_ui(m.r, m.r, 1); add("r-plus-1", m, true);
	m = mb; mpz_add(m.r, m.r, G.q); add("r-plus-q", m, true);               // out of range
	m = mb; mpz_set(m.r, G.q); add("r-equals-q", m, true);
	m = mb; mpz_neg(m.r, G.q); add("r-minus-q", m, true);
	m = mb; mpz_sub(m.r, m.r, G.q); add("r-shifted-negative", m, false);    // same residue, |r| < q: still a valid proof (code accepts negative representatives)
	m = mb; mpz_neg(m.r, m.r); add("r-negated", m, false);
	m = mb; mpz_swap(m.c, m.r); add("c-r-swapped", m, mpz_cmp(mb.c, mb.r) != 0);
	m = mb; mpz_set(m.c, mc.c); mpz_set(m.r, mc.r); add("proof-of-other-key", m, true);
	m = mb; mpz_set(m.key, mc.key); add("key-of-other-proof", m, true);
	m = mb; mpz_set_ui(m.c, 0); mpz_set_ui(m.r, 0); add("zero-proof", m, mpz_sgn(mb.c) != 0);
	m = mb; add("no-final-newline", m, true, false);
	// a "proof" that verifies for the non-member key 0 unless the membership test refuses it: t2 = g^r * 0^c = 0, c = H(p,q,g,0,0)
	{ Z zero(0UL); m = mb; mpz_set_ui(m.key, 0); tmcg_mpz_shash(m.c, 5, G.p.v, G.q.v, a->g, zero.v, zero.v); if (mpz_sgn(m.c)) add("key-zero-forged", m, true); }
	// the same trick for key = p (= 0 mod p) and for the order-2 element p-1 with an even challenge: t2 = g^r, c = H(p,q,g,p-1,g^r)
	{ Z zero(0UL); m = mb; mpz_set(m.key, G.p); tmcg_mpz_shash(m.c, 5, G.p.v, G.q.v, a->g, m.key.v, zero.v); if (mpz_sgn(m.c)) add("key-p-forged", m, true); }
	{ Z t; m = mb; mpz_sub_ui(m.key, G.p, 1); mpz_powm(t, a->g, m.r, G.p); tmcg_mpz_shash(m.c, 5, G.p.v, G.q.v, a->g, m.key.v, t.v); if (mpz_even_p(m.c)) add("key-order2-forged", m, true); }
	for (Mut &mu : muts) {
		Z h0(a->h); size_t n0 = a->KeyGenerationProtocol_NumberOfKeys();
		int r = do_update(a, mu.m, mu.good);
		std::string d = std::string(mu.name) + " ret=" + std::to_string(r) + " " + gdesc(G) + " key=" + mu.m.key.h() + " c=" + mu.m.c.h() + " r=" + mu.m.r.h();
		if (r == 1 && mu.surely_wrong) propfail(std::string("malformed-accepted-") + mu.name, "contribution mutated by " + d + " was accepted");
		if (r != 1 && (mpz_cmp(h0, a->h) || n0 != a->KeyGenerationProtocol_NumberOfKeys()))
			{ propfail(std::string("refused-but-changed-") + mu.name, "refused contribution changed the key state: " + d + " h before " + h0.h() + " after " + hx(a->h)); mpz_set(a->h, h0); }
		if (r == 1) { // an accepted variant (same residue): undo so the following cases start from the same state
			int rr = do_remove(a, mu.m);
			if (rr != 1 || mpz_cmp(h0, a->h)) propfail("remove-not-restoring", "remove after accepted variant " + d + " gave ret=" + std::to_string(rr) + " h=" + hx(a->h) + " expected " + h0.h());
		}
	}
	// absent proof: the stream ends after the key (operator>> throws; the state must not change)
	{
		Z h0(a->h); size_t n0 = a->KeyGenerationProtocol_NumberOfKeys();
		std::stringstream in(str62(mb.key) + "\n"); int r;
		try { r = a->KeyGenerationProtocol_UpdateKey(in) ? 1 : 0; } catch (std::exception &) { r = -1; }
		if (r == 1 || mpz_cmp(h0, a->h) || n0 != a->KeyGenerationProtocol_NumberOfKeys())
			propfail("absent-proof", "key without proof: ret=" + std::to_string(r) + " h before " + h0.h() + " after " + hx(a->h) + " " + gdesc(G));
	}
	// the untouched contribution is still fine, and removal brings the old key back
	{
		Z h0(a->h);
		int r = do_update(a, mb);
		if (r != 1) propfail("honest-contribution-refused", "after the malformed ones the honest contribution is refused " + gdesc(G));
		Z e; mpz_mul(e, h0, mb.key); mpz_mod(e, e, G.p);
		if (mpz_cmp(e, a->h)) propfail("common-key-differs", "h after update is not h*key " + gdesc(G));
		int r0 = do_remove(a, mc);   // never added
		if (r0 == 1 || mpz_cmp(e, a->h)) propfail("remove-absent", "removing a key that was never added: ret=" + std::to_string(r0) + " " + gdesc(G));
		int r1 = do_remove(a, mb, false);
		if (r1 == 1 || mpz_cmp(e, a->h)) propfail("remove-incomplete-message", "removal with an incomplete message: ret=" + std::to_string(r1));
		int r2 = do_remove(a, mb);
		if (r2 != 1 || mpz_cmp(h0, a->h) || a->KeyGenerationProtocol_NumberOfKeys() != 0)
			propfail("remove-not-restoring", "update then remove: ret=" + std::to_string(r2) + " h=" + hx(a->h) + " expected " + h0.h() + " " + gdesc(G));
	}
	delete a; delete b; delete c;
}

// ---- random add / remove interleavings ("not added twice" respected; duplicates separately, REC only) -------------
static void interleave(const Grp &G, unsigned steps) {
	const unsigned K = 5;
	std::vector<V *> pl; std::vector<Contribution> cs;
	for (unsigned i = 0; i < K; i++) { V *v = mk(G); do_generate(v); pl.push_back(v); cs.push_back(do_publish(v)); }
	for (unsigned i = 0; i < K; i++) for (unsigned j = i + 1; j < K; j++) if (!mpz_cmp(cs[i].key, cs[j].key)) { for (V *v : pl) delete v; return; }
	V *a = clone_player(G, pl[0]);
	std::set<unsigned> in;
	std::string trace;
	for (unsigned s = 0; s < steps; s++) {
		unsigned j = 1 + gen().below(K - 1); bool addop = gen().coin();
		Z h0(a->h);
		if (addop && !in.count(j)) {
			int r = do_update(a, cs[j]); trace += "+" + std::to_string(j);
			if (r != 1) propfail("honest-contribution-refused", "interleaving " + trace + ": refused " + gdesc(G)); else in.insert(j);
		} else if (!addop) {
			int r = do_remove(a, cs[j]); trace += "-" + std::to_string(j);
			if ((r == 1) != (in.count(j) == 1)) propfail("remove-result", "interleaving " + trace + ": remove returned " + std::to_string(r) + " stored=" + std::to_string(in.count(j)) + " " + gdesc(G));
			if (r == 1) in.erase(j);
			else if (mpz_cmp(h0, a->h)) propfail("refused-but-changed-remove", "interleaving " + trace + ": failed removal changed h");
		} else continue;
		Z e(pl[0]->h_i); for (unsigned x : in) { mpz_mul(e, e, cs[x].key); mpz_mod(e, e, G.p); }
		if (mpz_cmp(e, a->h)) { propfail("interleaving-key", "after " + trace + " h=" + hx(a->h) + " expected own key times stored keys " + e.h() + " " + gdesc(G)); break; }
		if (a->KeyGenerationProtocol_NumberOfKeys() != in.size()) { propfail("key-count", "after " + trace + " stored " + std::to_string(a->KeyGenerationProtocol_NumberOfKeys()) + " expected " + std::to_string(in.size())); break; }
	}
	delete a;
	// documented boundary (DESIGN O4): the same contribution twice -- recorded for the model comparison only
	V *d = clone_player(G, pl[0]);
	do_update(d, cs[1]); do_update(d, cs[1]); do_remove(d, cs[1]); do_remove(d, cs[1]);
	delete d;
	for (V *v : pl) delete v;
}

int main(int argc, char **argv) {
	Args A(argc, argv);
	if (!init_libTMCG()) { fprintf(stderr, "init_libTMCG failed\n"); return 2; }
	const bool T = A.thorough();
	// (pbits, qbits) of the model-compared groups: the extracted model computes in Coq's binary integers
	std::vector<std::pair<unsigned, unsigned> > sizes = { {16, 8}, {24, 12}, {40, 17}, {64, 32}, {96, 48} };
	if (T) { sizes.push_back({128, 64}); sizes.push_back({36, 32}); sizes.push_back({160, 80}); }
	unsigned rounds = T ? 10 : 3;
	for (unsigned rd = 0; rd < rounds; rd++) {
		for (size_t si = 0; si < sizes.size(); si++) {
			Grp G = gen_group(sizes[si].first, sizes[si].second);
			if (A.only.empty() || A.only == "orders") {
				orders(G, 2, true); orders(G, 3, true);
				if (si < 3) orders(G, 4, si == 0);
				if (T && si < 2) orders(G, 5, false);
			}
			if (A.only.empty() || A.only == "malformed") malformed(G);
			if (A.only.empty() || A.only == "interleave") interleave(G, T ? 60 : 25);
		}
		// the safe-prime variant (CheckElement by Jacobi symbol)
		std::vector<std::pair<unsigned, unsigned> > qs = { {16, 8}, {32, 16}, {64, 40} };
		if (T) qs.push_back({128, 64});
		for (size_t si = 0; si < qs.size(); si++) {
			Grp G = gen_group_qr(qs[si].first, qs[si].second);
			if (A.only.empty() || A.only == "orders") { orders(G, 3, true); if (si == 0) orders(G, 4, false); }
			if (A.only.empty() || A.only == "malformed") malformed(G);
			if (A.only.empty() || A.only == "interleave") interleave(G, 20);
		}
	}
	// implementation-only: a realistic group size, all 4! x 4 orders, no records
	if (A.only.empty() || A.only == "big") {
		want_rec = false;
		Grp G = gen_group(T ? 1024 : 512, 160);
		orders(G, T ? 5 : 4, false); malformed(G); interleave(G, 30);
		want_rec = true;
	}
	return 0;
}
