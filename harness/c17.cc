// C17 correspondence harness: the real JareckiLysyanskayaEDCF::Flip_twoparty runs against a harness peer over a
// recording stream pair.  The party's output stream appends to a buffer; its input stream calls back into the harness
// whenever the party needs another byte -- at that moment the harness looks at what has been written so far (byte-level
// order of the party's writes relative to its reads = the model's trace) and only then decides what the peer says.
// One REC flip2 per run: group, the party's coins (read back from the RVSS object), the fault switches, the peer's lines
// -> trace and outcome.  PROPFAIL: the property itself evaluated on the implementation with plain GMP.
#include "common.hh"
#include <sstream>
#include <functional>
#include <algorithm>
#define private public
#define protected public
#include <libTMCG.hh>
#undef private
#undef protected
#include "c17_group.hh"
#include "c17_fork.hh"
using namespace verif;

// ---- recording stream pair -------------------------------------------------------------------------------------
struct Msg { std::string text; bool nl; bool eof() const { return text.empty() && !nl; } };   // nl: newline follows (good())
struct Ev { bool send; std::string line; Msg m; size_t written_before; };

struct Session {
	std::string written;                 // everything the party wrote
	size_t consumed = 0;                 // prefix of `written` already turned into Send events
	std::vector<Ev> trace;
	std::vector<Msg> served;             // the peer's messages in the order they were requested
	std::function<Msg(Session &)> peer;  // called when the party wants a new line
	bool at_eof = false;
	size_t lines_written_at_first_read = (size_t)-1;
	void flush_sends() {
		for (;;) {
			size_t e = written.find('\n', consumed);
			if (e == written.npos) break;
			Ev ev; ev.send = true; ev.line = written.substr(consumed, e - consumed); ev.written_before = 0;
			trace.push_back(ev); consumed = e + 1;
		}
	}
	size_t lines_written() const { return std::count(written.begin(), written.end(), '\n'); }
};

struct OutBuf : std::streambuf {
	Session &S; explicit OutBuf(Session &s) : S(s) {}
	int_type overflow(int_type c) override { if (c != traits_type::eof()) S.written.push_back((char)c); return c; }
	std::streamsize xsputn(const char *p, std::streamsize n) override { S.written.append(p, (size_t)n); return n; }
};
struct InBuf : std::streambuf {
	Session &S; std::string cur; bool pending_eof = false;
	explicit InBuf(Session &s) : S(s) {}
	int_type underflow() override {
		if (S.at_eof) return traits_type::eof();
		if (pending_eof) { S.at_eof = true; return traits_type::eof(); }
		// the party needs a byte that the peer has not produced yet
		S.flush_sends();
		if (S.lines_written_at_first_read == (size_t)-1) S.lines_written_at_first_read = S.lines_written();
		Msg m = S.peer(S);
		Ev ev; ev.send = false; ev.m = m; ev.written_before = S.written.size();
		S.trace.push_back(ev); S.served.push_back(m);
		if (m.eof()) { S.at_eof = true; return traits_type::eof(); }
		cur = m.text; if (m.nl) cur += '\n'; else pending_eof = true;
		if (cur.empty()) { S.at_eof = true; return traits_type::eof(); }
		setg(&cur[0], &cur[0], &cur[0] + cur.size());
		return traits_type::to_int_type(cur[0]);
	}
};

static std::string str62(mpz_srcptr z) { std::ostringstream o; o << z; return o.str(); }

// ---- one run of the real party ------------------------------------------------------------------------------------
struct RunResult { std::string outcome; mpz_t coin, a, b; bool ret = false, threw = false; Session S;
	RunResult() { mpz_init(coin); mpz_init(a); mpz_init(b); } ~RunResult() { mpz_clear(coin); mpz_clear(a); mpz_clear(b); }
	RunResult(const RunResult &) = delete; };

static void run_party(RunResult &R, const Grp &G, size_t i, bool faulty, bool frand, std::function<Msg(Session &)> peer) {
	JareckiLysyanskayaEDCF edcf(2, 0, G.p, G.q, G.g, G.h, mpz_sizeinbase(G.p, 2), mpz_sizeinbase(G.q, 2));
	R.S.peer = peer;
	OutBuf ob(R.S); InBuf ib(R.S);
	std::ostream out(&ob); std::istream in(&ib); std::ostringstream err;
	script_ulong(frand ? 1UL : 0UL);        // simulate_faulty_randomizer = tmcg_mpz_wrandom_ui() % 2
	try {
		R.ret = edcf.Flip_twoparty(i, R.coin, in, out, err, faulty);
		R.outcome = R.ret ? "coin:" + hx(R.coin) : "reject";
	} catch (std::exception &e) { R.threw = true; R.outcome = "throw"; }
	catch (bool) { R.threw = true; R.outcome = "throw-bool"; }
	coin_script().clear();
	R.S.flush_sends();
	if (R.S.consumed != R.S.written.size()) { Ev ev; ev.send = true; ev.line = R.S.written.substr(R.S.consumed) + "<no-newline>"; R.S.trace.push_back(ev); }
	mpz_set(R.a, edcf.rvss->a_i); mpz_set(R.b, edcf.rvss->hata_i);
}

static std::string tok_msgs(const std::vector<Msg> &v) {
	if (v.empty()) return "_";
	std::string r; for (size_t k = 0; k < v.size(); k++) { if (k) r += ";"; r += xb(v[k].text) + (v[k].nl ? ":1" : ":0"); } return r;
}
static std::string tok_trace(const std::vector<Ev> &t) {
	if (t.empty()) return "_";
	std::string r; size_t nr = 0;
	for (size_t k = 0; k < t.size(); k++) {
		if (k) r += ",";
		if (t[k].send) {
			mpz_t v; mpz_init(v);
			if (mpz_set_str(v, t[k].line.c_str(), TMCG_MPZ_IO_BASE) == 0 && str62(v) == t[k].line) r += "S" + hx(v); else r += "S?" + xb(t[k].line);
			mpz_clear(v);
		} else { r += "R" + std::to_string(nr++); }
	}
	return r;
}

static unsigned long n_runs = 0;
// emit the record and evaluate the property on the implementation
static void report(const char *cls, const Grp &G, size_t i, bool faulty, bool frand, RunResult &R) {
	n_runs++;
	Rec("flip2").z(G.p).z(G.q).z(G.g).z(G.h).z(R.a).z(R.b).d(faulty).d(frand).t(tok_msgs(R.S.served)).t(R.outcome).t(tok_trace(R.S.trace));
	std::string ctx = std::string(cls) + " i=" + std::to_string(i) + " p=" + hx(G.p) + " q=" + hx(G.q) + " g=" + hx(G.g) + " h=" + hx(G.h) +
		" a=" + hx(R.a) + " b=" + hx(R.b) + " faulty=" + std::to_string(faulty) + " peer=" + tok_msgs(R.S.served) + " trace=" + tok_trace(R.S.trace) + " outcome=" + R.outcome;
	// (1) order: when the party asked for its first byte it had written exactly one line (its commitment)
	if (R.S.lines_written_at_first_read != (size_t)-1 && R.S.lines_written_at_first_read != 1)
		propfail("order-first-read", "party had written " + std::to_string(R.S.lines_written_at_first_read) + " lines before reading the peer commitment: " + ctx);
	if (R.S.lines_written_at_first_read == (size_t)-1 && R.ret)
		propfail("order-no-read", "party returned a coin without reading anything: " + ctx);
	// independent evaluation of the peer's lines
	mpz_t C, a1, b1, t1, t2; mpz_init(C); mpz_init(a1); mpz_init(b1); mpz_init(t1); mpz_init(t2);
	const std::vector<Msg> &M = R.S.served;
	auto parse = [](const Msg &m, mpz_ptr v) { return m.nl && mpz_set_str(v, m.text.c_str(), TMCG_MPZ_IO_BASE) == 0; };
	bool okC = M.size() >= 1 && parse(M[0], C) && mpz_sgn(C) > 0 && mpz_cmp(C, G.p) < 0;
	if (okC) { mpz_powm(t1, C, G.q, G.p); okC = (mpz_cmp_ui(t1, 1) == 0); }
	// (2) nothing beyond the commitment is written unless a well-formed peer commitment has been received
	if (!okC && R.S.lines_written() > 1)
		propfail("reveal-without-commitment", "party wrote " + std::to_string(R.S.lines_written()) + " lines although no valid peer commitment arrived: " + ctx);
	if (!okC && R.ret) propfail("accept-without-commitment", "coin returned without a valid peer commitment: " + ctx);
	bool okO = okC && M.size() >= 3 && parse(M[1], a1) && parse(M[2], b1) && mpz_cmpabs(a1, G.q) < 0 && mpz_cmpabs(b1, G.q) < 0;
	if (okO) {
		mpz_mod(t1, a1, G.q); mpz_powm(t1, G.g, t1, G.p); mpz_mod(t2, b1, G.q); mpz_powm(t2, G.h, t2, G.p);
		mpz_mul(t1, t1, t2); mpz_mod(t1, t1, G.p); okO = (mpz_cmp(t1, C) == 0);
	}
	// (3) a coin is returned exactly for matching in-range openings, and it is the sum
	if (R.ret && !okO) propfail("bad-opening-accepted", "out-of-range or non-matching opening but a coin was returned: " + ctx);
	if (!R.ret && okO) propfail("good-opening-refused", "well-formed matching opening refused: " + ctx);
	if (R.ret && (mpz_sgn(R.coin) < 0 || mpz_cmp(R.coin, G.q) >= 0))
		propfail("coin-out-of-range", "coin " + hx(R.coin) + " is not in [0, q): " + ctx);
	if (R.ret && okO && !faulty) {
		mpz_add(t1, R.a, a1); mpz_mod(t1, t1, G.q);
		if (mpz_cmp(t1, R.coin)) propfail("coin-not-sum", "coin " + hx(R.coin) + " is not (a + a') mod q = " + hx(t1) + ": " + ctx);
	}
	mpz_clear(C); mpz_clear(a1); mpz_clear(b1); mpz_clear(t1); mpz_clear(t2);
}

// ---- peers ----------------------------------------------------------------------------------------------------------
static Msg line(mpz_srcptr z) { return Msg{str62(z), true}; }
static Msg line(const std::string &s, bool nl = true) { return Msg{s, nl}; }
static const Msg EOFMSG{"", false};

// scripted peer: plays v[k] on the k-th request, then end of file
static std::function<Msg(Session &)> scripted(std::vector<Msg> v) {
	return [v](Session &S) { size_t k = S.served.size(); return k < v.size() ? v[k] : EOFMSG; };
}

// the C05 catalogue applied to one value (which: what kind of value it is: 0 commitment, 1 exponent)
static const int NMUT = 22;
static Msg mutate_value(int mut, mpz_srcptr v, const Grp &G, bool is_commitment) {
	mpz_t r; mpz_init_set(r, v); Msg m;
	switch (mut) {
	case 0: mpz_add_ui(r, r, 1); break;
	case 1: mpz_sub_ui(r, r, 1); break;
	case 2: mpz_set_ui(r, 0); break;
	case 3: mpz_set_ui(r, 1); break;
	case 4: mpz_sub_ui(r, G.p, 1); break;
	case 5: mpz_set(r, G.p); break;
	case 6: mpz_set(r, G.q); break;
	case 7: mpz_sub_ui(r, G.q, 1); break;
	case 8: mpz_add(r, r, G.q); break;                              // value + q
	case 9: mpz_sub(r, r, G.q); break;                              // value - q (exponent: same residue, negative representative)
	case 10: mpz_add(r, r, G.p); break;                             // value + p
	case 11: mpz_neg(r, r); break;
	case 12: G.nonmember(r); break;                                 // element of Z_p^* outside the subgroup
	case 13: mpz_ui_pow_ui(r, 2, mpz_sizeinbase(G.q, 2)); break;    // first oversize exponent for the table
	case 14: mpz_ui_pow_ui(r, 2, 2048); break;                      // bit length TMCG_MAX_FPOWM_T + 1
	case 15: mpz_neg(r, G.q); break;
	case 16: mpz_sub_ui(r, G.q, 1); mpz_neg(r, r); break;           // -(q-1)
	case 17: { m = Msg{"", true}; mpz_clear(r); return m; }         // empty line
	case 18: { m = Msg{str62(v) + "!", true}; mpz_clear(r); return m; }   // junk character
	case 19: { m = Msg{"  " + str62(v), true}; mpz_clear(r); return m; }  // leading white space (same value)
	case 20: { m = Msg{str62(v), false}; mpz_clear(r); return m; }  // correct value, stream ends without newline
	case 21: { mpz_clear(r); return EOFMSG; }                       // withheld
	}
	(void)is_commitment;
	m = line(r); mpz_clear(r); return m;
}

// ---- n-party Flip: forked run as /repo/tests/t-astc.cc ------------------------------------------------------------
static std::vector<std::string> split(const std::string &s, char c) {
	std::vector<std::string> r; std::string cur; for (char x : s) { if (x == c) { r.push_back(cur); cur.clear(); } else cur += x; } r.push_back(cur); return r;
}
static unsigned long n_nparty = 0;
// returns false when the run is inconclusive (a failed check in a run in which a time-out expired: outside the synchrony
// assumption, see docs/C17.md); all findings of a conclusive run are reported
typedef std::map<size_t, Deviation> Devs;
static bool nparty_once(std::vector<std::pair<std::string, std::string> > &pending, const Grp &G, size_t n, size_t t, const std::vector<bool> &faulty_in, uint64_t seed, const Devs &devs = Devs()) {
	std::vector<bool> faulty(faulty_in), lib_faulty(faulty_in);      // faulty = not honest (library switch or scripted deviation)
	bool silence = false;
	for (auto &d : devs) { faulty[d.first] = true; if (!d.second.drop.empty() || d.second.answer == 2 || d.second.opening == 2) silence = true; }
	std::vector<std::pair<std::string, std::string> > fails; std::vector<std::string> recs;
	auto propfail = [&](const std::string &k, const std::string &w) { fails.push_back(std::make_pair(k, w)); };
	std::vector<bool> fr(n); for (size_t i = 0; i < n; i++) fr[i] = gen().coin();
	// a scripted silence costs one library time-out per missing message: shorter time-outs for such runs
	// (private messages that never come: 5 s; broadcasts that never come: 30 s, so that the party that waited for a private message
	// is not itself timed out by the others)
	std::set<size_t> expected_silent; for (auto &d : devs) if (!d.second.drop.empty() || d.second.answer == 2 || d.second.opening == 2) expected_silent.insert(d.first);
	ForkResult FR = fork_parties(n, t, seed, silence ? aiounicast::aio_timeout_middle : aiounicast::aio_timeout_long, 300, [&](size_t i, aiounicast *aiou, CachinKursawePetzoldShoupRBC *rbc, std::ostream &res) {
		JareckiLysyanskayaEDCF edcf(n, t, G.p, G.q, G.g, G.h, mpz_sizeinbase(G.p, 2), mpz_sizeinbase(G.q, 2));
		mpz_t a; mpz_init(a); std::ostringstream err;
		script_ulong(fr[i] ? 1UL : 0UL);
		bool ok = false; std::string exc;
		if (devs.count(i) && tamper_broadcast()) {
			// the deviating party runs the honest code; its broadcasts are rewritten by value: the share revealed to answer the complaint
			// of a tampered recipient, and the opening a_i of its coin share
			Deviation d = devs.at(i); JareckiLysyanskayaRVSS *rv = edcf.rvss; mpz_srcptr q = G.q;
			size_t nn = n;
			tamper_broadcast()->decide = [d, rv, i, q, nn](mpz_srcptr pl, mpz_ptr rep) -> int {
				// complaint ignored: the announcement `who` (the victim's index) becomes the end marker n; the receivers stop reading there
				if (d.answer == 3 && mpz_sgn(rv->C_ik[i][0]) != 0) { std::set<size_t> vs(d.wrong); vs.insert(d.drop.begin(), d.drop.end());
					for (size_t v : vs) if (mpz_cmp_ui(pl, v) == 0) { mpz_set_ui(rep, nn); return 1; } }
				if (mpz_sgn(pl) == 0) return 0;
				if (d.answer == 1 || d.answer == 2) { std::set<size_t> vs(d.wrong); vs.insert(d.drop.begin(), d.drop.end());
					for (size_t v : vs) if (mpz_cmp(pl, rv->alpha_ij[i][v]) == 0) { if (d.answer == 2) return 2; mpz_add_ui(rep, pl, 1); mpz_mod(rep, rep, q); return 1; } }
				if (d.opening && mpz_cmp(pl, rv->a_i) == 0) { if (d.opening == 2) return 2; if (d.opening == 4) { mpz_add(rep, pl, q); return 1; } mpz_add_ui(rep, pl, 1); mpz_mod(rep, rep, q); return 1; }
				return 0; };
		}
		try { ok = edcf.Flip(i, a, aiou, rbc, err, lib_faulty[i]); } catch (std::exception &e) { exc = e.what(); }
		res << "ret=" << (ok ? 1 : 0) << "\n" << "exc=" << exc << "\n" << "coin=" << hx(a) << "\n";
		res << "a=" << hx(edcf.rvss->a_i) << "\n" << "hata=" << hx(edcf.rvss->hata_i) << "\n";
		res << "qual="; for (size_t k = 0; k < edcf.rvss->Qual.size(); k++) res << (k ? "," : "") << edcf.rvss->Qual[k]; res << "\n";
		res << "C="; for (size_t j = 0; j < n; j++) res << (j ? "," : "") << hx(edcf.rvss->C_ik[j][0]); res << "\n";
		// the party's private shares of every dealer and its view of all commitments
		{ // Flip step 3 as logged: complaints in the order they were raised, and the list after de-duplication
		  const std::string L = err.str(); std::string raw, fin; size_t pos = 0;
		  static const char *keys[] = { "receiving a_i failed; complaint against P_", "bad a_i received; complaint against P_", "receiving hata_i failed; complaint against P_",
			"bad hata_i received; complaint against P_", "checking a_i resp. hata_i failed; complaint against P_" };
		  for (;;) { size_t best = std::string::npos, bl = 0; for (const char *k : keys) { size_t p2 = L.find(k, pos); if (p2 < best) { best = p2; bl = strlen(k); } }
			if (best == std::string::npos) break; raw += (raw.empty() ? "" : ",") + hx((unsigned long)strtoul(L.c_str() + best + bl, 0, 10)); pos = best + bl; }
		  size_t pf = L.rfind(": there are complaints against ");
		  if (pf != std::string::npos) { size_t e = L.find('\n', pf); std::istringstream is(L.substr(pf + 31, e == std::string::npos ? std::string::npos : e - pf - 31)); std::string tk;
			while (is >> tk) if (tk.compare(0, 2, "P_") == 0) fin += (fin.empty() ? "" : ",") + hx((unsigned long)strtoul(tk.c_str() + 2, 0, 10)); }
		  res << "rawc=" << (raw.empty() ? "_" : raw) << "\n" << "finc=" << (pf == std::string::npos ? "?" : (fin.empty() ? "_" : fin)) << "\n"; }
		for (size_t k = 0; k < n; k++) res << "deal" << k << "=" << hx(edcf.rvss->alpha_ij[i][k]) << "," << hx(edcf.rvss->hatalpha_ij[i][k]) << "\n";     // the shares this party dealt
		for (size_t j = 0; j < n; j++) { res << "sh" << j << "=" << hx(edcf.rvss->alpha_ij[j][i]) << "," << hx(edcf.rvss->hatalpha_ij[j][i]) << "\n";
			res << "cm" << j << "="; for (size_t k = 0; k <= t; k++) res << (k ? "," : "") << hx(edcf.rvss->C_ik[j][k]); res << "\n"; }
		{ std::string l = err.str(); if (l.size() > 1500 && !getenv("VERIF_DEBUG")) l = l.substr(l.size() - 1500); std::replace(l.begin(), l.end(), '\n', '~'); res << "log=" << l << "\n"; }
	}, devs.empty() ? 0 : &devs, G.q, silence ? aiounicast::aio_timeout_very_short : 0, &faulty);
	std::string fs; for (size_t i = 0; i < n; i++) fs += faulty[i] ? '1' : '0';
	for (auto &d : devs) fs += " deviation of P" + std::to_string(d.first) + ": " + d.second.str();
	std::string ctx = "n=" + std::to_string(n) + " t=" + std::to_string(t) + " faulty=" + fs + " seed=" + std::to_string(seed) + " p=" + hx(G.p) + " q=" + hx(G.q) + " g=" + hx(G.g) + " h=" + hx(G.h);
	if (getenv("VERIF_DEBUG")) for (size_t i = 0; i < n; i++) { fprintf(stderr, "P%zu: %s\n", i, res_get(FR.text[i], "log").c_str());
		for (size_t j = 0; j < n; j++) fprintf(stderr, "  P%zu sh%zu=%s cm%zu=%s\n", i, j, res_get(FR.text[i], "sh" + std::to_string(j)).c_str(), j, res_get(FR.text[i], "cm" + std::to_string(j)).c_str());
		fprintf(stderr, "  P%zu a=%s coin=%s\n", i, res_get(FR.text[i], "a").c_str(), res_get(FR.text[i], "coin").c_str()); }
	auto finish = [&]() {
		// a dealer that ignores a complaint stays in Qual and its victim keeps the wrong share (finding nparty-unanswered-complaint):
		// the consequences in such a scripted run are reported under that key
		bool ignored = false; for (auto &d : devs) if (d.second.answer == 3) ignored = true;
		if (ignored) for (auto &f : fails) if (f.first == "nparty-coins-differ" || f.first == "nparty-stale-share" || f.first == "nparty-coin-not-sum" || (f.first == "nparty-honest-fails" && !FR.timing_trouble())) f.first = "nparty-unanswered-complaint";
		if (fails.empty()) { for (auto &r : recs) { fputs(r.c_str(), stdout); } return true; }
		if (FR.timing_trouble(expected_silent)) { fprintf(stderr, "c17: nparty inconclusive (time-out expired in the run; %s): %s\n", fails[0].first.c_str(), ctx.c_str()); pending = fails; return false; }
		for (auto &r : recs) fputs(r.c_str(), stdout);       // the views of a conclusive run are compared with the model in any case
		for (auto &f : fails) verif::propfail(f.first, f.second);
		return true; };
	if (FR.timed_out) { propfail("nparty-timeout", "n-party Flip did not finish within the wall-clock limit: " + ctx); return finish(); }
	// Flip step 3: the complaint list of every honest party as logged -> model complaint_set
	for (size_t i = 0; i < n; i++) if (!faulty[i]) { std::string rw = res_get(FR.text[i], "rawc"), fn = res_get(FR.text[i], "finc");
		if (!rw.empty() && !fn.empty() && fn != "?") recs.push_back("REC flip_complaints " + rw + " " + fn + "\n"); }
	// all honest parties: success, the same Qual, the same coin
	std::string qual, coin; bool first = true;
	for (size_t i = 0; i < n; i++) if (!faulty[i]) {
		if (FR.status[i] != 0 || res_get(FR.text[i], "ret") != "1") {
			propfail("nparty-honest-fails", "honest party " + std::to_string(i) + " failed (status " + std::to_string(FR.status[i]) + ", ret=" + res_get(FR.text[i], "ret") + " exc=" + res_get(FR.text[i], "exc") + "): " + ctx + " log-tail: " + res_get(FR.text[i], "log"));
			return finish();
		}
		if (first) { qual = res_get(FR.text[i], "qual"); coin = res_get(FR.text[i], "coin"); first = false; }
		else if (qual != res_get(FR.text[i], "qual") || coin != res_get(FR.text[i], "coin")) {
			propfail("nparty-coins-differ", "honest parties disagree: P" + std::to_string(i) + " coin=" + res_get(FR.text[i], "coin") + " qual=" + res_get(FR.text[i], "qual") + " vs coin=" + coin + " qual=" + qual + ": " + ctx);
			/* go on: the views are still recorded and the share oracles evaluated */
		}
	}
	if (first) return finish();
	// 0 <= coin < q
	{ mpz_t c; mpz_init(c); mpz_set_str(c, coin.c_str(), 16);
	  if (mpz_sgn(c) < 0 || mpz_cmp(c, G.q) >= 0) propfail("nparty-coin-out-of-range", "coin " + coin + " is not in [0, q): " + ctx); mpz_clear(c); }
	// the coin is the sum of the COMMITTED shares of Qual.  The committed share of every member of Qual is recomputed here from the
	// honest parties' private shares: a share counts if it matches the dealer's commitments (as seen by the first honest party),
	// t+1 such shares are interpolated at 0.  An honest party holding a share of a Qual member that does not match is reported.
	mpz_t sum, v; mpz_init(sum); mpz_init(v);
	std::vector<std::string> Q = split(qual, ','); bool known = true;
	size_t h0 = 0; while (h0 < n && faulty[h0]) h0++;
	auto share_ok = [&](size_t holder, size_t dealer, mpz_ptr alpha_out) {
		std::vector<std::string> sh = split(res_get(FR.text[holder], "sh" + std::to_string(dealer)), ','), cm = split(res_get(FR.text[h0], "cm" + std::to_string(dealer)), ',');
		if (sh.size() != 2 || cm.size() != t + 1) return false;
		mpz_t al, ha, lhs, rhs, e, c; mpz_init(al); mpz_init(ha); mpz_init(lhs); mpz_init(rhs); mpz_init(e); mpz_init(c);
		mpz_set_str(al, sh[0].c_str(), 16); mpz_set_str(ha, sh[1].c_str(), 16);
		mpz_mod(e, al, G.q); mpz_powm(lhs, G.g, e, G.p); mpz_mod(e, ha, G.q); mpz_powm(rhs, G.h, e, G.p); mpz_mul(lhs, lhs, rhs); mpz_mod(lhs, lhs, G.p);
		mpz_set_ui(rhs, 1);
		for (size_t k = 0; k <= t; k++) { mpz_set_str(c, cm[k].c_str(), 16); mpz_ui_pow_ui(e, holder + 1, k); mpz_powm(c, c, e, G.p); mpz_mul(rhs, rhs, c); mpz_mod(rhs, rhs, G.p); }
		bool ok = (mpz_cmp(lhs, rhs) == 0); mpz_set(alpha_out, al);
		mpz_clear(al); mpz_clear(ha); mpz_clear(lhs); mpz_clear(rhs); mpz_clear(e); mpz_clear(c); return ok; };
	for (auto &js : Q) { if (js.empty()) continue; size_t j = strtoul(js.c_str(), 0, 10);
		std::vector<size_t> pts; std::vector<std::string> vals; mpz_t al; mpz_init(al);
		for (size_t i = 0; i < n; i++) if (!faulty[i]) {
			if (share_ok(i, j, al)) { if (pts.size() < t + 1) { pts.push_back(i); vals.push_back(hx(al)); } }
			else propfail("nparty-stale-share", "honest party " + std::to_string(i) + " ends with a private share of Qual member " + std::to_string(j) + " that does not match the commitments (share " +
				res_get(FR.text[i], "sh" + std::to_string(j)) + "): " + ctx);
		}
		mpz_clear(al);
		std::string aj = res_get(FR.text[j], "a");
		if (pts.size() == t + 1) {           // Lagrange at 0 over the points pts[k] + 1
			mpz_t acc, num, den, d, y; mpz_init(acc); mpz_init(num); mpz_init(den); mpz_init(d); mpz_init(y);
			for (size_t a = 0; a <= t; a++) { mpz_set_ui(num, 1); mpz_set_ui(den, 1);
				for (size_t b = 0; b <= t; b++) if (b != a) { mpz_mul_ui(num, num, pts[b] + 1); mpz_set_si(d, (long)(pts[b] + 1) - (long)(pts[a] + 1)); mpz_mul(den, den, d); }
				mpz_mod(den, den, G.q); mpz_invert(den, den, G.q); mpz_mul(num, num, den); mpz_set_str(y, vals[a].c_str(), 16); mpz_mul(num, num, y); mpz_add(acc, acc, num); mpz_mod(acc, acc, G.q); }
			if (!faulty[j] && !aj.empty() && hx(acc) != aj) propfail("nparty-share-not-on-polynomial", "the honest parties' shares of honest dealer " + std::to_string(j) + " interpolate to " + hx(acc) + ", its share is " + aj + ": " + ctx);
			mpz_set(v, acc);
			mpz_clear(acc); mpz_clear(num); mpz_clear(den); mpz_clear(d); mpz_clear(y);
		} else { if (aj.empty()) { known = false; break; } mpz_set_str(v, aj.c_str(), 16); }
		mpz_add(sum, sum, v); mpz_mod(sum, sum, G.q); }
	if (known && hx(sum) != coin) propfail("nparty-coin-not-sum", "coin " + coin + " is not the sum " + hx(sum) + " of the committed shares of Qual={" + qual + "}: " + ctx);
	for (size_t i = 0; i < n; i++) if (!faulty[i]) {
		bool inq = std::find(Q.begin(), Q.end(), std::to_string(i)) != Q.end();
		if (!inq) propfail("nparty-honest-not-in-qual", "honest party " + std::to_string(i) + " is not in Qual={" + qual + "}: " + ctx);
	}
	// decision record per honest party: what every member of Qual broadcast (known from that member's own process), the commitment
	// as stored by this party, the committed share as reconstruction result -> coin
	bool all_reported = true; for (auto &js : Q) if (!js.empty() && res_get(FR.text[strtoul(js.c_str(), 0, 10)], "hata").empty()) all_reported = false;
	if (known && devs.empty() && all_reported) for (size_t i = 0; i < n; i++) if (!faulty[i]) {
		std::vector<std::string> Cs = split(res_get(FR.text[i], "C"), ',');
		std::string members;
		for (auto &js : Q) { if (js.empty()) continue; size_t j = strtoul(js.c_str(), 0, 10);
			mpz_t aj, bj; mpz_init(aj); mpz_init(bj);
			mpz_set_str(aj, res_get(FR.text[j], "a").c_str(), 16); mpz_set_str(bj, res_get(FR.text[j], "hata").c_str(), 16);
			std::string rec = hx(aj);
			if (faulty[j]) { mpz_add_ui(aj, aj, 1); if (fr[j]) mpz_add_ui(bj, bj, 1); }
			if (!members.empty()) members += ";";
			members += Cs[j] + "," + hx(aj) + "," + hx(bj) + "," + rec;
			mpz_clear(aj); mpz_clear(bj); }
		recs.push_back("REC flipN " + hx(G.p) + " " + hx(G.q) + " " + hx(G.g) + " " + hx(G.h) + " " + (members.empty() ? "_" : members) + " coin:" + res_get(FR.text[i], "coin") + "\n");
	}
	// ---- each honest party's view of the members of Qual -> its coin (model: flipN_party), without scripted silence
	if (known && !silence) {
		auto opening_of = [&](size_t j) -> std::string {        // what member j broadcast as its opening
			mpz_t a, b; mpz_init(a); mpz_init(b); mpz_set_str(a, res_get(FR.text[j], "a").c_str(), 16); mpz_set_str(b, res_get(FR.text[j], "hata").c_str(), 16);
			if (lib_faulty[j]) { mpz_add_ui(a, a, 1); if (fr[j]) mpz_add_ui(b, b, 1); }
			if (devs.count(j) && devs.at(j).opening == 1) { mpz_add_ui(a, a, 1); mpz_mod(a, a, G.q); }
			if (devs.count(j) && devs.at(j).opening == 4) mpz_add(a, a, G.q);
			std::string r = hx(a) + "|" + hx(b); mpz_clear(a); mpz_clear(b); return r; };
		for (size_t i = 0; i < n; i++) if (!faulty[i]) {
			std::string members; bool okv = true;
			for (auto &js : Q) { if (js.empty()) continue; size_t j = strtoul(js.c_str(), 0, 10);
				std::string cm = res_get(FR.text[i], "cm" + std::to_string(j)), own = res_get(FR.text[i], "sh" + std::to_string(j)), shs;
				for (auto &ks : Q) { if (ks.empty()) continue; size_t k = strtoul(ks.c_str(), 0, 10); if (k == i) continue;
					std::vector<std::string> sk = split(res_get(FR.text[k], "sh" + std::to_string(j)), ','); if (sk.size() != 2) { okv = false; break; }
					shs += (shs.empty() ? "" : ",") + hx((unsigned long)k) + ":" + sk[0] + ":" + sk[1]; }
				if (cm.empty() || own.empty() || res_get(FR.text[j], "a").empty() || res_get(FR.text[j], "hata").empty()) okv = false;   // (a deviator that had not reported when the run ended)
				members += (members.empty() ? "" : ";") + hx((unsigned long)j) + "|" + cm + "|" + opening_of(j) + "|" + own + "|" + (shs.empty() ? "_" : shs); }
			if (okv && !members.empty()) recs.push_back("REC flipN_view " + hx(G.p) + " " + hx(G.q) + " " + hx(G.g) + " " + hx(G.h) + " " + hx((unsigned long)t) + " " + hx((unsigned long)i) + " " + members + " coin:" + res_get(FR.text[i], "coin") + "\n");
		}
		// ---- RVSS::Share at every honest party for a scripted dealer: received share, complaints, answers -> qualified?, final share
		for (auto &dv : devs) { size_t d = dv.first; const Deviation &D = dv.second; if (D.answer == 2 || !D.drop.empty()) continue;
			std::string answers; std::set<size_t> vs(D.wrong);
			if (D.answer != 3) for (size_t v : vs) { std::vector<std::string> sv = split(res_get(FR.text[d], "deal" + std::to_string(v)), ','); if (sv.size() != 2) continue;
				mpz_t a; mpz_init(a); mpz_set_str(a, sv[0].c_str(), 16); if (D.answer == 1) { mpz_add_ui(a, a, 1); mpz_mod(a, a, G.q); }
				answers += (answers.empty() ? "" : ",") + hx((unsigned long)v) + ":" + hx(a) + ":" + sv[1]; mpz_clear(a); }
			for (size_t i = 0; i < n; i++) if (!faulty[i]) {
				std::vector<std::string> sv = split(res_get(FR.text[d], "deal" + std::to_string(i)), ','); if (sv.size() != 2) continue;
				mpz_t a; mpz_init(a); mpz_set_str(a, sv[0].c_str(), 16); if (vs.count(i)) { mpz_add_ui(a, a, 1); mpz_mod(a, a, G.q); }
				bool inq = std::find(Q.begin(), Q.end(), std::to_string(d)) != Q.end();
				recs.push_back("REC rvss_dealer " + hx(G.p) + " " + hx(G.q) + " " + hx(G.g) + " " + hx(G.h) + " " + hx((unsigned long)t) + " " + hx((unsigned long)i) + " " +
					res_get(FR.text[i], "cm" + std::to_string(d)) + " " + hx(a) + "," + sv[1] + " " + hx((unsigned long)vs.size()) + " " + (answers.empty() ? "_" : answers) + " " +
					(inq ? "qual:" + res_get(FR.text[i], "sh" + std::to_string(d)) : "disqualified") + "\n");
				mpz_clear(a); }
		}
	}
	mpz_clear(sum); mpz_clear(v);
	fprintf(stderr, "c17: nparty %s wall=%.2fs\n", ctx.substr(0, 40).c_str(), FR.wall);
	return finish();
}
static void nparty(const Grp &G, size_t n, size_t t, const std::vector<bool> &faulty, uint64_t seed, const Devs &devs = Devs()) {
	n_nparty++;
	std::vector<std::vector<std::pair<std::string, std::string> > > all;
	for (int attempt = 0; attempt < 3; attempt++) { std::vector<std::pair<std::string, std::string> > pend; if (nparty_once(pend, G, n, t, faulty, seed + 7777 * attempt, devs)) return; all.push_back(pend);
		bool wall = false; for (auto &g : pend) if (g.first == "nparty-timeout") wall = true;
		if (wall && attempt >= 1) { fprintf(stderr, "c17: nparty n=%zu: wall-clock limit hit twice, giving up (inconclusive)\n", n); return; } }
	// a wrong coin value (not a failure to complete, not a disagreement) that repeats in every attempt is reported even though
	// time-outs expired in all of them
	bool scripted_silence = false; for (auto &d : devs) if (!d.second.drop.empty() || d.second.answer == 2 || d.second.opening == 2) scripted_silence = true;
	if (!scripted_silence) for (auto &f : all.back()) {
		bool every = (f.first == "nparty-coin-not-sum" || f.first == "nparty-stale-share" || f.first == "nparty-coin-out-of-range" || f.first == "nparty-unanswered-complaint");
		for (auto &a : all) { bool has = false; for (auto &g : a) if (g.first == f.first) has = true; every = every && has; }
		if (every) verif::propfail(f.first, f.second + " [repeated in 3 attempts, all with expired time-outs]");
	}
	fprintf(stderr, "c17: nparty n=%zu: no conclusive run in 3 attempts\n", n);
}

int main(int argc, char **argv) {
	Args A(argc, argv);
	if (!init_libTMCG()) { fprintf(stderr, "init_libTMCG failed\n"); return 2; }
	const bool T = A.thorough();
	std::vector<std::pair<unsigned, unsigned> > sizes = { {16, 40}, {32, 64}, {61, 127}, {64, 128} };
	if (T) { sizes.push_back({17, 33}); sizes.push_back({96, 192}); sizes.push_back({128, 256}); }
	mpz_t x, y, C, t; mpz_init(x); mpz_init(y); mpz_init(C); mpz_init(t);
	unsigned rounds = T ? 4 : 1;
	if (A.only.empty() || A.only == "twoparty") {
	for (unsigned rd = 0; rd < rounds; rd++)
	for (size_t si = 0; si < sizes.size(); si++) {
		if (rd > 0 && sizes[si].first >= 96) continue;      // the extracted model is slow on large groups: one round only
		Grp G; G.generate(sizes[si].first, sizes[si].second);
		if (!G.selfcheck()) { fprintf(stderr, "group generation failed\n"); return 2; }
		for (size_t role = 0; role < 2; role++) {
			// ---- two honest implementation parties (replayed in lock-step; the lines of an honest party do not depend on its peer)
			{
				uint64_t s0 = gen().next(), s1 = gen().next();
				gen_below(x, G.q); gen_below(y, G.q); G.commit(C, x, y);
				RunResult R1; reseed_lib(s1); run_party(R1, G, 1 - role, false, false, scripted({line(C), line(x), line(y)}));
				std::vector<Msg> L1; for (auto &e : R1.S.trace) if (e.send) L1.push_back(line(e.line));
				RunResult R0; reseed_lib(s0); run_party(R0, G, role, false, gen().coin(), scripted(L1));
				report("honest", G, role, false, false, R0);
				std::vector<Msg> L0; for (auto &e : R0.S.trace) if (e.send) L0.push_back(line(e.line));
				RunResult R1b; reseed_lib(s1); run_party(R1b, G, 1 - role, false, false, scripted(L0));
				report("honest", G, 1 - role, false, false, R1b);
				std::vector<Msg> L1b; for (auto &e : R1b.S.trace) if (e.send) L1b.push_back(line(e.line));
				bool same = L1.size() == L1b.size(); for (size_t k = 0; same && k < L1.size(); k++) same = (L1[k].text == L1b[k].text);
				if (!same) propfail("honest-lines-depend-on-peer", "an honest party's lines changed with the peer's lines: p=" + hx(G.p) + " q=" + hx(G.q));
				mpz_add(t, R0.a, R1b.a); mpz_mod(t, t, G.q);
				if (!R0.ret || !R1b.ret || mpz_cmp(R0.coin, R1b.coin) || mpz_cmp(R0.coin, t))
					propfail("honest-coins-differ", "two honest parties: outcomes " + R0.outcome + " / " + R1b.outcome + " expected coin " + hx(t) +
						" p=" + hx(G.p) + " q=" + hx(G.q) + " g=" + hx(G.g) + " h=" + hx(G.h) + " a0=" + hx(R0.a) + " a1=" + hx(R1b.a));
			}
			// ---- mirror peer: repeats the party's own commitment and opening (adaptive peer)
			{
				RunResult R; reseed_lib(gen().next());
				run_party(R, G, role, false, false, [](Session &S) {
					size_t k = S.served.size(); std::vector<std::string> w;
					for (auto &e : S.trace) if (e.send) w.push_back(e.line);
					if (k == 0 && w.size() >= 1) return line(w[0]);
					if (k == 1 && w.size() >= 2) return line(w[1]);
					if (k == 2 && w.size() >= 3) return line(w[2]);
					return EOFMSG; });
				report("mirror", G, role, false, false, R);
			}
			// ---- the library's own faulty party switch, against an honest peer
			for (int fr = 0; fr < 2; fr++) {
				gen_below(x, G.q); gen_below(y, G.q); G.commit(C, x, y);
				RunResult R; reseed_lib(gen().next()); run_party(R, G, role, true, fr, scripted({line(C), line(x), line(y)}));
				report("faulty-switch", G, role, true, fr, R);
			}
			// ---- catalogue on the commitment, on a', on b'
			for (int pos = 0; pos < 3; pos++)
			for (int mut = 0; mut < NMUT; mut++) {
				unsigned reps = (T ? 2 : 1);
				for (unsigned rp = 0; rp < reps; rp++) {
					gen_below(x, G.q); gen_below(y, G.q);
					if (gen().below(8) == 0) mpz_set_ui(x, gen().below(2)); if (gen().below(8) == 0) mpz_sub_ui(x, G.q, 1);
					if (gen().below(8) == 0) mpz_set_ui(y, gen().below(2));
					if ((mut == 8 || mut == 9) && gen().coin()) { mpz_set_ui(x, gen().below(3)); mpz_set_ui(y, gen().below(3)); }   // keeps value+q within the table
					G.commit(C, x, y);
					std::vector<Msg> sc = { line(C), line(x), line(y) };
					sc[pos] = mutate_value(mut, pos == 0 ? C : (pos == 1 ? x : y), G, pos == 0);
					RunResult R; reseed_lib(gen().next()); run_party(R, G, role, false, false, scripted(sc));
					report("catalogue", G, role, false, false, R);
				}
			}
			// ---- swapped opening, opening of another commitment, commitment = g, h, party's generators
			{
				gen_below(x, G.q); gen_below(y, G.q); G.commit(C, x, y);
				std::vector<std::vector<Msg> > scs = {
					{ line(C), line(y), line(x) },
					{ line(G.g), line("1"), line("0") }, { line(G.h), line("0"), line("1") }, { line(G.g), line("0"), line("1") },
					{ line("1"), line("0"), line("0") },
					{ line(C), line(x) },                                   // second half of the opening withheld
					{ line(C) },                                           // opening withheld
					{ line(C), line(x), line(y), line("7") } };            // extra line
				// negative congruent representatives of a valid opening (accepted: |a'| < q and same commitment); the coin must still be (a + a') mod q in [0, q)
				for (int w = 0; w < 4; w++) {
					if (w >= 2) mpz_set_ui(x, 1 + gen().below(3));      // a + a' - q is then certainly negative
					G.commit(C, x, y);
					mpz_sub(t, x, G.q); mpz_t t2; mpz_init(t2); mpz_sub(t2, y, G.q);
					if (w & 1) scs.push_back({ line(C), line(t), line(t2) }); else scs.push_back({ line(C), line(t), line(y) });
					mpz_clear(t2);
				}
				// boundary of the range check: openings of g^0 h^y and g^x h^0 with the zero replaced by q and -q
				for (int w = 0; w < 4; w++) {
					mpz_set_ui(t, 0); if (w < 2) G.commit(C, t, y); else G.commit(C, x, t);
					mpz_set(t, G.q); if (w & 1) mpz_neg(t, t);
					if (w < 2) scs.push_back({ line(C), line(t), line(y) }); else scs.push_back({ line(C), line(x), line(t) });
				}
				for (auto &sc : scs) { RunResult R; reseed_lib(gen().next()); run_party(R, G, role, false, false, scripted(sc)); report("misc", G, role, false, false, R); }
			}
		}
	}
	}
	// ---- one scripted n-party configuration: --only dev:n,t,dealer,victim,answer,opening[,drop] (for replay / debugging) -------
	if (A.only.compare(0, 4, "dev:") == 0) {
		unsigned n = 4, tt = 1, d = 0, v = 1, ans = 0, op = 1, dr = 0;
		sscanf(A.only.c_str() + 4, "%u,%u,%u,%u,%u,%u,%u", &n, &tt, &d, &v, &ans, &op, &dr);
		Grp G; G.generate(32, 64);
		Devs devs; Deviation dv; if (dr) dv.drop.insert(v); else dv.wrong.insert(v); dv.answer = (int)ans; dv.opening = (int)op; devs[d] = dv;
		nparty(G, n, tt, std::vector<bool>(n, false), gen().next() % 1000000, devs);
		return 0;
	}
	// ---- n-party Flip (forked) ----------------------------------------------------------------------------------
	if (A.only.empty() || A.only.compare(0, 6, "nparty") == 0) {
		unsigned part = 0, parts = 1;
		if (A.only.size() > 7) sscanf(A.only.c_str() + 7, "%u/%u", &part, &parts);
		Grp G; G.generate(32, 64);
		// bad = parties using the library's fault switch; dev >= 0: party `dev` deviates as scripted (wrong/no private share to `victims`,
		// answer to their complaints 0 correct / 1 incorrect / 2 none, opening 0 correct / 1 mismatching / 2 none)
		// dev2 >= 0: a second scripted deviator that only misbehaves in the opening phase (opening2)
		struct Cfg { size_t n, t; std::vector<size_t> bad; long dev; std::vector<size_t> victims; bool drop; int answer, opening; long dev2 = -1; int opening2 = 0; };
		std::vector<Cfg> cfgs;
		auto subset = [&](size_t n, size_t k, size_t excl) { std::vector<size_t> v; while (v.size() < k) { size_t c = gen().below(n); if (c != excl && std::find(v.begin(), v.end(), c) == v.end()) v.push_back(c); } return v; };
		if (!T) {
			size_t d4 = gen().below(4), d5 = gen().below(5);
			cfgs = { {2, 0, {}, -1, {}, false, 0, 0}, {3, 1, {}, -1, {}, false, 0, 0}, {3, 1, {(size_t)gen().below(3)}, -1, {}, false, 0, 0}, {5, 2, {1, 3}, -1, {}, false, 0, 0},
				{4, 1, {}, (long)d4, subset(4, 1, d4), false, 0, 1},        // wrong share to one victim, correct answer, mismatching opening -> reconstruction
				{5, 2, {}, (long)d5, subset(5, 2, d5), false, 1, 0},        // wrong share to two victims, incorrect answer -> disqualified
				{4, 1, {}, (long)d4, subset(4, 1, d4), false, 3, 1},        // wrong share to one victim, complaint ignored, mismatching opening (known finding)
				{7, 2, {}, 2, {}, false, 0, 1, 5, 4} };                     // two deviators in the opening phase: P_2 wrong in range, P_5 out of range
		} else {
			for (size_t n = 2; n <= 7; n++) { size_t t = (n - 1) / 2;
				cfgs.push_back({n, t, {}, -1, {}, false, 0, 0});
				for (size_t k = 1; k <= t; k++) for (int rep = 0; rep < 2; rep++) {
					std::vector<size_t> bad; while (bad.size() < k) { size_t c = gen().below(n); if (std::find(bad.begin(), bad.end(), c) == bad.end()) bad.push_back(c); }
					cfgs.push_back({n, t, bad, -1, {}, false, 0, 0}); } }
			// two simultaneous deviators in the opening phase, n = 7, t = 2: {wrong in range, out of range, withheld} x {.. } x index order
			{ const int kinds[3] = {1, 4, 2};
			  for (int ka = 0; ka < 3; ka++) for (int kb = 0; kb < 3; kb++) { if (kinds[ka] == 2 && kinds[kb] == 2) continue;
				size_t lo = gen().below(3), hi = 3 + gen().below(4);
				Cfg c = {7, 2, {}, (long)lo, {}, false, 0, kinds[ka]}; c.dev2 = (long)hi; c.opening2 = kinds[kb]; cfgs.push_back(c); } }
			for (size_t n = 4; n <= 7; n++) { size_t t = (n - 1) / 2;
				for (size_t k = 1; k <= t; k++) {
					size_t d = gen().below(n);
					cfgs.push_back({n, t, {}, (long)d, subset(n, k, d), false, 0, 1});       // the stale-share pattern
					cfgs.push_back({n, t, {}, (long)d, subset(n, k, d), false, 0, 0});       // correct answer, correct opening
					cfgs.push_back({n, t, {}, (long)d, subset(n, k, d), false, 1, (int)gen().below(2)});
					cfgs.push_back({n, t, {}, (long)d, subset(n, k, d), false, 3, (int)gen().below(2)}); }     // complaints ignored
				size_t d = gen().below(n);
				cfgs.push_back({n, t, {}, (long)d, {}, false, 0, 1});                         // mismatching opening only
				if (n <= 5) {
					cfgs.push_back({n, t, {}, (long)d, subset(n, 1, d), true, 0, 1});         // nothing sent to the victim, correct answer, mismatching opening
					cfgs.push_back({n, t, {}, (long)d, subset(n, 1, d), false, 2, 0});        // no answer to the complaint (silent from there on)
					cfgs.push_back({n, t, {}, (long)d, {}, false, 0, 2}); }                   // opening withheld
				// one scripted deviator next to one library-faulty party
				if (t >= 2) { size_t d2 = gen().below(n); std::vector<size_t> o = subset(n, 1, d2); cfgs.push_back({n, t, o, (long)d2, subset(n, 1, d2), false, 0, 1}); }
			}
		}
		for (size_t ci = 0; ci < cfgs.size(); ci++) { Cfg &c = cfgs[ci];
			std::vector<bool> f(c.n, false); for (size_t b : c.bad) f[b] = true;
			Devs devs;
			if (c.dev >= 0) { Deviation d; for (size_t v : c.victims) { if (c.drop) d.drop.insert(v); else d.wrong.insert(v); } d.answer = c.answer; d.opening = c.opening; if (d.active()) devs[(size_t)c.dev] = d; }
			if (c.dev2 >= 0) { Deviation d; d.opening = c.opening2; if (d.active()) devs[(size_t)c.dev2] = d; }
			uint64_t sd = gen().next() % 1000000;
			if (ci % parts == part) nparty(G, c.n, c.t, f, sd, devs); }
	}
	mpz_clear(x); mpz_clear(y); mpz_clear(C); mpz_clear(t);
	fprintf(stderr, "c17: %lu runs, %lu n-party runs\n", n_runs, n_nparty);
	return 0;
}
